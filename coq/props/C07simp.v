(* C07 - ParSer._combine and ParSer.simplify (the hand model of props/C07model.v,
   validated against the real simplify() on every run) preserve the four
   quantities Z, Y, Voc, Isc.

   combine_sound_ser / combine_sound_par : every rule of _combine, including the
       initial-condition rules and the removal of zero sources / zero immittances;
   simplify_preserves : by induction on the tree and on the two scanning loops. *)
Require Import LT.FieldSec LT.OnePort Gen.OnePortGen Gen.C07lem Gen.C07model.
From Coq Require Import Bool List Arith Lia.
Import ListNotations.
Local Open Scope F_scope.

Section Simp.
Variable K : fld.
Add Field KFsimp : (fth K).
Variable s : K.
Variable spow : K -> K.
Variable omega0 : K.
Variable xf_dc : K -> K. Variable xf_step : K -> K. Variable xf_any : K -> K.
Variable xf_time : K -> K. Variable xf_noise : K -> K.
Variable xf_ac : K -> K -> K -> K.
Notation LDt := (ld s spow omega0 xf_dc xf_step xf_any xf_time xf_noise xf_ac).
Notation combine := (C07model.combine K s spow omega0 xf_dc xf_step xf_any xf_time xf_noise xf_ac).
Notation combine_nd := (C07model.combine_nd K s xf_dc).
Notation inner := (inner K s spow omega0 xf_dc xf_step xf_any xf_time xf_noise xf_ac).
Notation outer := (outer K s spow omega0 xf_dc xf_step xf_any xf_time xf_noise xf_ac).
Notation flat := (flat K).
Notation finish := (finish K s spow omega0 xf_dc xf_step xf_any xf_time xf_noise xf_ac).
Notation simp := (simp K s spow omega0 xf_dc xf_step xf_any xf_time xf_noise xf_ac).
Notation lf := (lf K).

Lemma keqb_true (x y : K) : keqb K x y = true -> x = y.
Proof. unfold keqb. destruct (fdec K x y); [trivial | discriminate]. Qed.

Ltac unf_leaf := cbv [ld ld0 lZ lY lVoc lIsc thev_l nort_l oZ oY oVoc oIsc odef osome2 is_some
                      attr_R_R attr_G_G attr_L_L attr_L_i0 attr_C_C attr_C_v0 attr_Vdc_v0 attr_Idc_i0] in *.

(* ---- removal of a zero source / zero immittance ---- *)
Lemma zero_V (a : lf) : is_zero_V K s spow omega0 xf_dc xf_step xf_any xf_time xf_noise xf_ac a = true ->
  lZ (LDt a) = 0 /\ lVoc (LDt a) = 0.
Proof. destruct a; cbn [is_zero_V]; intros H; try discriminate H. apply eq0_true in H. split; [reflexivity | exact H]. Qed.
Lemma zero_RZ (a : lf) : is_zero_RZ K s spow omega0 xf_dc xf_step xf_any xf_time xf_noise xf_ac a = true ->
  lZ (LDt a) = 0 /\ lVoc (LDt a) = 0.
Proof. destruct a; cbn [is_zero_RZ]; intros H; try discriminate H; apply eq0_true in H; (split; [exact H | reflexivity]). Qed.
Lemma zero_I (a : lf) : is_zero_I K s spow omega0 xf_dc xf_step xf_any xf_time xf_noise xf_ac a = true ->
  lY (LDt a) = 0 /\ lIsc (LDt a) = 0.
Proof. destruct a; cbn [is_zero_I]; intros H; try discriminate H. apply eq0_true in H. split; [reflexivity | exact H]. Qed.
Lemma zero_YG (a : lf) : is_zero_YG K s spow omega0 xf_dc xf_step xf_any xf_time xf_noise xf_ac a = true ->
  lY (LDt a) = 0 /\ lIsc (LDt a) = 0.
Proof.
  destruct a; cbn [is_zero_YG]; intros H; try discriminate H; apply eq0_true in H; (split; [exact H|]);
    unfold lIsc; cbn [ld ld0 oIsc oVoc]; unfold lVoc; cbn [ld ld0 oIsc oVoc]; ring.
Qed.

(* ---- rules for two leaves of the same class ---- *)
Lemma combine_same_ser (a b c : lf) :
  combine_same K true a b = CSome c -> combine_nd true a b ->
  thev_l (LDt c) /\ lZ (LDt c) = lZ (LDt a) + lZ (LDt b) /\ lVoc (LDt c) = lVoc (LDt a) + lVoc (LDt b).
Proof.
  destruct a; destruct b; cbn [combine_same]; intros H; try discriminate H; cbn [combine_nd]; intros ND.
  - (* R *) injection H as <-. unf_leaf. repeat split; ring.
  - (* NR *) injection H as <-. unf_leaf. repeat split; ring.
  - (* G *) injection H as <-. destruct ND as [N1 [N2 N3]]. unf_leaf. repeat split; try ring. field. nz.
  - (* NG *) injection H as <-. destruct ND as [N1 [N2 N3]]. unf_leaf. repeat split; try ring. field. nz.
  - (* L *)
    destruct (negb (keqb K (attr_L_i0 a_Lval a_i0) (attr_L_i0 a_Lval0 a_i1)) || negb (eqb (is_some a_i0) (is_some a_i1))) eqn:E; [discriminate H|].
    apply orb_false_iff in E. destruct E as [E1 E2]. apply negb_false_iff in E1, E2. apply keqb_true in E1. apply eqb_prop in E2.
    injection H as <-. unf_leaf. destruct a_i0, a_i1; cbn in *; try discriminate E2; subst; repeat split; ring.
  - (* C *) injection H as <-. destruct ND as [N0 [N1 [N2 N3]]]. unf_leaf.
    destruct a_v0, a_v1; cbn; repeat split; try (field; nz); rewrite ?div0_l; try ring; field; nz.
  - (* Vdc *) injection H as <-. unf_leaf. repeat split; try ring. exact ND.
Qed.

Lemma combine_same_par (a b c : lf) :
  combine_same K false a b = CSome c -> combine_nd false a b ->
  nort_l (LDt c) /\ lY (LDt c) = lY (LDt a) + lY (LDt b) /\ lIsc (LDt c) = lIsc (LDt a) + lIsc (LDt b).
Proof.
  destruct a; destruct b; cbn [combine_same]; intros H; try discriminate H; cbn [combine_nd]; intros ND.
  - (* R *) injection H as <-. destruct ND as [N1 [N2 N3]]. unf_leaf. repeat split; try ring; try (field; nz). nz.
  - (* NR *) injection H as <-. destruct ND as [N1 [N2 N3]]. unf_leaf. repeat split; try ring; try (field; nz). nz.
  - (* G *) injection H as <-. destruct ND as [N1 [N2 N3]]. unf_leaf. repeat split; try ring; try (field; nz). nz.
  - (* NG *) injection H as <-. destruct ND as [N1 [N2 N3]]. unf_leaf. repeat split; try ring; try (field; nz). nz.
  - (* L *) injection H as <-. destruct ND as [N0 [N1 [N2 N3]]]. unf_leaf.
    destruct a_i0, a_i1; cbn; repeat split; try (field; nz); nz.
  - (* C *)
    destruct (negb (keqb K (attr_C_v0 a_Cval a_v0) (attr_C_v0 a_Cval0 a_v1)) || negb (eqb (is_some a_v0) (is_some a_v1))) eqn:E; [discriminate H|].
    apply orb_false_iff in E. destruct E as [E1 E2]. apply negb_false_iff in E1, E2. apply keqb_true in E1. apply eqb_prop in E2.
    injection H as <-. destruct ND as [N0 [N1 [N2 N3]]]. unf_leaf.
    destruct a_v0, a_v1; cbn in *; try discriminate E2; subst; repeat split; try (field; nz); nz.
  - (* Idc *) injection H as <-. unf_leaf. repeat split; try ring. exact ND.
Qed.


(* ---- ParSer._combine ---- *)
Theorem combine_sound_ser (a b c : lf) :
  combine true a b = CSome c -> combine_nd true a b -> thev_l (LDt a) -> thev_l (LDt b) ->
  thev_l (LDt c) /\ lZ (LDt c) = lZ (LDt a) + lZ (LDt b) /\ lVoc (LDt c) = lVoc (LDt a) + lVoc (LDt b).
Proof.
  unfold C07model.combine. destruct (negb (Nat.eqb (ctag a) (ctag b))).
  - destruct (is_zero_V _ _ _ _ _ _ _ _ _ _ a) eqn:Z1.
    { intros H _ _ Tb. injection H as <-. destruct (zero_V a Z1) as [E1 E2]. rewrite E1, E2. repeat split; [exact Tb | ring | ring]. }
    destruct (is_zero_V _ _ _ _ _ _ _ _ _ _ b) eqn:Z2.
    { intros H _ Ta _. injection H as <-. destruct (zero_V b Z2) as [E1 E2]. rewrite E1, E2. repeat split; [exact Ta | ring | ring]. }
    destruct (is_zero_RZ _ _ _ _ _ _ _ _ _ _ a) eqn:Z3.
    { intros H _ _ Tb. injection H as <-. destruct (zero_RZ a Z3) as [E1 E2]. rewrite E1, E2. repeat split; [exact Tb | ring | ring]. }
    destruct (is_zero_RZ _ _ _ _ _ _ _ _ _ _ b) eqn:Z4.
    { intros H _ Ta _. injection H as <-. destruct (zero_RZ b Z4) as [E1 E2]. rewrite E1, E2. repeat split; [exact Ta | ring | ring]. }
    intros H; discriminate H.
  - intros H ND _ _. exact (combine_same_ser a b c H ND).
Qed.
Theorem combine_sound_par (a b c : lf) :
  combine false a b = CSome c -> combine_nd false a b -> nort_l (LDt a) -> nort_l (LDt b) ->
  nort_l (LDt c) /\ lY (LDt c) = lY (LDt a) + lY (LDt b) /\ lIsc (LDt c) = lIsc (LDt a) + lIsc (LDt b).
Proof.
  unfold C07model.combine. destruct (negb (Nat.eqb (ctag a) (ctag b))).
  - destruct (is_zero_I _ _ _ _ _ _ _ _ _ _ a) eqn:Z1.
    { intros H _ _ Tb. injection H as <-. destruct (zero_I a Z1) as [E1 E2]. rewrite E1, E2. repeat split; [exact Tb | ring | ring]. }
    destruct (is_zero_I _ _ _ _ _ _ _ _ _ _ b) eqn:Z2.
    { intros H _ Ta _. injection H as <-. destruct (zero_I b Z2) as [E1 E2]. rewrite E1, E2. repeat split; [exact Ta | ring | ring]. }
    destruct (is_zero_YG _ _ _ _ _ _ _ _ _ _ a) eqn:Z3.
    { intros H _ _ Tb. injection H as <-. destruct (zero_YG a Z3) as [E1 E2]. rewrite E1, E2. repeat split; [exact Tb | ring | ring]. }
    destruct (is_zero_YG _ _ _ _ _ _ _ _ _ _ b) eqn:Z4.
    { intros H _ Ta _. injection H as <-. destruct (zero_YG b Z4) as [E1 E2]. rewrite E1, E2. repeat split; [exact Ta | ring | ring]. }
    intros H; discriminate H.
  - intros H ND _ _. exact (combine_same_par a b c H ND).
Qed.

(* ---- the two normal forms determine each other ---- *)
Notation tree := (tree lf).
Lemma thev_leaf_YI (d : ldata K) : thev_l d -> lY d = 1 / lZ d /\ lIsc d = lVoc d * (1 / lZ d).
Proof.
  unfold thev_l, lIsc, lVoc, lY, lZ, zoo. destruct d as [[z|] [y|] [e|] [j|]]; cbn [oZ oY oVoc oIsc]; intros H; try contradiction;
    split; try reflexivity; try ring; field; nz.
Qed.
Lemma nort_leaf_ZV (d : ldata K) : nort_l d -> lZ d = 1 / lY d /\ lVoc d = lIsc d * (1 / lY d).
Proof.
  unfold nort_l, lIsc, lVoc, lY, lZ, zoo. destruct d as [[z|] [y|] [e|] [j|]]; cbn [oZ oY oVoc oIsc]; intros H; try contradiction;
    split; try reflexivity; try ring; field; nz.
Qed.
Lemma adm_YZ (t : tree) : admissible LDt t -> Yt LDt t = 1 / Zt LDt t /\ Isc LDt t = Voc LDt t * (1 / Zt LDt t).
Proof.
  destruct t as [l|ts|ts]; unfold admissible; cbn [adm fst].
  - apply thev_leaf_YI.
  - intros _. split; reflexivity.
  - intros [_ Hy]. rewrite Zt_Par, Yt_Par, Voc_Par, Isc_Par. split; field; nz.
Qed.
Lemma admN_ZY (t : tree) : admissibleN LDt t -> Zt LDt t = 1 / Yt LDt t /\ Voc LDt t = Isc LDt t * (1 / Yt LDt t).
Proof.
  destruct t as [l|ts|ts]; unfold admissibleN; cbn [adm snd].
  - apply nort_leaf_ZV.
  - intros [_ Hz]. rewrite Zt_Ser, Yt_Ser, Voc_Ser, Isc_Ser. split; field; nz.
  - intros _. split; reflexivity.
Qed.
Lemma adm_to_admN (t : tree) : admissible LDt t -> Zt LDt t <> 0 -> admissibleN LDt t.
Proof.
  destruct t as [l|ts|ts]; unfold admissible, admissibleN; cbn [adm fst snd].
  - unfold Zt. cbn [imm fst]. unfold thev_l, nort_l, lZ. destruct (LDt l) as [[z|] [y|] [e|] [j|]]; cbn [oZ oY oVoc oIsc]; try tauto; intros _ H; apply H; reflexivity.
  - rewrite Zt_Ser. tauto.
  - tauto.
Qed.
Lemma admN_to_adm (t : tree) : admissibleN LDt t -> Yt LDt t <> 0 -> admissible LDt t.
Proof.
  destruct t as [l|ts|ts]; unfold admissible, admissibleN; cbn [adm fst snd].
  - unfold Yt. cbn [imm snd]. unfold thev_l, nort_l, lY. destruct (LDt l) as [[z|] [y|] [e|] [j|]]; cbn [oZ oY oVoc oIsc]; try tauto; intros _ H; apply H; reflexivity.
  - tauto.
  - rewrite Yt_Par. tauto.
Qed.

(* ---- the scanning loops, uniformly in the mode (Ser: Z and Voc add; Par: Y and Isc add) ---- *)
Definition m1 (ser : bool) (t : tree) : K := if ser then Zt LDt t else Yt LDt t.
Definition m2 (ser : bool) (t : tree) : K := if ser then Voc LDt t else Isc LDt t.
Definition okt (ser : bool) (t : tree) : Prop := if ser then admissible LDt t else admissibleN LDt t.
Fixpoint osum (f : tree -> K) (l : list (option tree)) : K :=
  match l with [] => 0 | Some t :: r => f t + osum f r | None :: r => osum f r end.
Fixpoint oall (p : tree -> Prop) (l : list (option tree)) : Prop :=
  match l with [] => True | Some t :: r => p t /\ oall p r | None :: r => oall p r end.

Lemma combine_sound (ser : bool) (a b c : lf) :
  combine ser a b = CSome c -> combine_nd ser a b -> okt ser (Leaf a) -> okt ser (Leaf b) ->
  okt ser (Leaf c) /\ m1 ser (Leaf c) = m1 ser (Leaf a) + m1 ser (Leaf b) /\ m2 ser (Leaf c) = m2 ser (Leaf a) + m2 ser (Leaf b).
Proof. destruct ser; [apply combine_sound_ser | apply combine_sound_par]. Qed.

Lemma lin1 (x y u w b : K) : x + y = u + w -> x + (b + y) = u + (b + w).
Proof. intros E. transitivity (x + y + b); [ring | rewrite E; ring]. Qed.
Lemma lin2 (x y c w a b : K) : x + y = c + w -> c = a + b -> x + y = a + (b + w).
Proof. intros E F. rewrite E, F. ring. Qed.

Lemma inner_ok (ser : bool) : forall rest a a' rest' chg C,
  inner ser a rest = (Some (a', rest', chg), C) -> C -> okt ser (Leaf a) -> oall (okt ser) rest ->
  okt ser (Leaf a') /\ oall (okt ser) rest' /\
  m1 ser (Leaf a') + osum (m1 ser) rest' = m1 ser (Leaf a) + osum (m1 ser) rest /\
  m2 ser (Leaf a') + osum (m2 ser) rest' = m2 ser (Leaf a) + osum (m2 ser) rest.
Proof.
  induction rest as [|x r IH]; intros a a' rest' chg C H HC Oa Or.
  - cbn [C07model.inner] in H. injection H as <- <- <- <-. cbn [oall osum]. repeat split; trivial.
  - destruct x as [[b|ts|ts]|]; cbn [C07model.inner] in H.
    + (* a leaf: try to combine *)
      destruct Or as [Ob Or]. cbn [oall] in *.
      destruct (combine ser a b) as [|c|] eqn:Ec.
      * destruct (inner ser a r) as [[[[a2 r2] chg2]|] C2] eqn:Ei; [|discriminate H]. injection H as <- <- <- <-.
        destruct (IH a a2 r2 chg2 C2 Ei HC Oa Or) as [A [B [E1 E2]]]. cbn [oall osum]. repeat split; try assumption.
        -- apply lin1; exact E1.
        -- apply lin1; exact E2.
      * destruct (inner ser c r) as [[[[a2 r2] chg2]|] C2] eqn:Ei; [|discriminate H]. injection H as <- <- <- <-.
        destruct HC as [ND HC]. destruct (combine_sound ser a b c Ec ND Oa Ob) as [Oc [F1 F2]].
        destruct (IH c a2 r2 chg2 C2 Ei HC Oc Or) as [A [B [E1 E2]]]. cbn [oall osum]. repeat split; try assumption.
        -- exact (lin2 _ _ _ _ _ _ E1 F1).
        -- exact (lin2 _ _ _ _ _ _ E2 F2).
      * discriminate H.
    + destruct (inner ser a r) as [[[[a2 r2] chg2]|] C2] eqn:Ei; [|discriminate H]. injection H as <- <- <- <-.
      cbn [oall] in Or. destruct Or as [Ob Or].
      destruct (IH a a2 r2 chg2 C2 Ei HC Oa Or) as [A [B [E1 E2]]]. cbn [oall osum]. repeat split; try assumption.
      * apply lin1; exact E1.
      * apply lin1; exact E2.
    + destruct (inner ser a r) as [[[[a2 r2] chg2]|] C2] eqn:Ei; [|discriminate H]. injection H as <- <- <- <-.
      cbn [oall] in Or. destruct Or as [Ob Or].
      destruct (IH a a2 r2 chg2 C2 Ei HC Oa Or) as [A [B [E1 E2]]]. cbn [oall osum]. repeat split; try assumption.
      * apply lin1; exact E1.
      * apply lin1; exact E2.
    + destruct (inner ser a r) as [[[[a2 r2] chg2]|] C2] eqn:Ei; [|discriminate H]. injection H as <- <- <- <-.
      cbn [oall] in Or.
      destruct (IH a a2 r2 chg2 C2 Ei HC Oa Or) as [A [B [E1 E2]]]. cbn [oall osum]. repeat split; assumption.
Qed.

Lemma outer_ok (ser : bool) : forall fuel l l' chg C,
  outer fuel ser l = (Some (l', chg), C) -> C -> oall (okt ser) l ->
  oall (okt ser) l' /\ osum (m1 ser) l' = osum (m1 ser) l /\ osum (m2 ser) l' = osum (m2 ser) l.
Proof.
  induction fuel as [|f IH]; intros l l' chg C H HC Ol.
  - cbn [C07model.outer] in H. injection H as <- <- <-. repeat split; trivial.
  - cbn [C07model.outer] in H. destruct l as [|x r]; [injection H as <- <- <-; repeat split; trivial|].
    destruct x as [[a|ts|ts]|].
    + destruct (inner ser a r) as [[[[a2 r2] chg2]|] C2] eqn:Ei; [|discriminate H].
      destruct (outer f ser r2) as [[[r3 chg3]|] C3] eqn:Eo; [|discriminate H]. injection H as <- <- <-.
      destruct HC as [HC2 HC3]. cbn [oall] in Ol. destruct Ol as [Oa Or].
      destruct (inner_ok ser r a a2 r2 chg2 C2 Ei HC2 Oa Or) as [A [B [E1 E2]]].
      destruct (IH r2 r3 chg3 C3 Eo HC3 B) as [B3 [F1 F2]]. cbn [oall osum]. repeat split; try assumption.
      * rewrite F1. exact E1.
      * rewrite F2. exact E2.
    + destruct (outer f ser r) as [[[r3 chg3]|] C3] eqn:Eo; [|discriminate H]. injection H as <- <- <-.
      cbn [oall] in Ol. destruct Ol as [Oa Or]. destruct (IH r r3 chg3 C3 Eo HC Or) as [B3 [F1 F2]]. cbn [oall osum].
      repeat split; try assumption; [rewrite F1 | rewrite F2]; reflexivity.
    + destruct (outer f ser r) as [[[r3 chg3]|] C3] eqn:Eo; [|discriminate H]. injection H as <- <- <-.
      cbn [oall] in Ol. destruct Ol as [Oa Or]. destruct (IH r r3 chg3 C3 Eo HC Or) as [B3 [F1 F2]]. cbn [oall osum].
      repeat split; try assumption; [rewrite F1 | rewrite F2]; reflexivity.
    + destruct (outer f ser r) as [[[r3 chg3]|] C3] eqn:Eo; [|discriminate H]. injection H as <- <- <-.
      cbn [oall] in Ol. destruct (IH r r3 chg3 C3 Eo HC Ol) as [B3 [F1 F2]]. cbn [oall osum]. repeat split; assumption.
Qed.

(* ---- rebuilding the node ---- *)
Lemma somes_sum (f : tree -> K) (l : list (option tree)) : fsum (map f (somes K l)) = osum f l.
Proof. induction l as [|[t|] r IH]; cbn [somes map fsum osum]; [reflexivity | rewrite IH; reflexivity | exact IH]. Qed.
Lemma somes_all (p : tree -> Prop) (l : list (option tree)) : oall p l -> allp p (somes K l).
Proof. induction l as [|[t|] r IH]; cbn [somes allp oall]; [trivial | intros [A B]; split; [exact A | apply IH; exact B] | exact IH]. Qed.
Lemma osum_map_some (f : tree -> K) (l : list tree) : osum f (map (@Some tree) l) = fsum (map f l).
Proof. induction l as [|t r IH]; cbn [map osum fsum]; [reflexivity | rewrite IH; reflexivity]. Qed.
Lemma oall_map_some (p : tree -> Prop) (l : list tree) : allp p l -> oall p (map (@Some tree) l).
Proof. induction l as [|t r IH]; cbn [map oall allp]; [trivial | intros [A B]; split; [exact A | apply IH; exact B]]. Qed.

Lemma mk_ok (ser : bool) (l : list tree) : allp (okt ser) l ->
  okt ser (mk K ser l) /\ m1 ser (mk K ser l) = fsum (map (m1 ser) l) /\ m2 ser (mk K ser l) = fsum (map (m2 ser) l).
Proof. destruct ser; unfold okt, m1, m2, mk, admissible, admissibleN; cbn [adm fst snd]; intros A; repeat split; exact A. Qed.
Lemma mk_inv (ser : bool) (l : list tree) : okt ser (mk K ser l) -> allp (okt ser) l.
Proof. destruct ser; unfold okt, mk, admissible, admissibleN; cbn [adm fst snd]; trivial. Qed.
Lemma single_ok (ser : bool) (x : tree) : m1 ser x = fsum (map (m1 ser) [x]) /\ m2 ser x = fsum (map (m2 ser) [x]).
Proof. cbn [map fsum]. split; ring. Qed.

(* an argument of the same class is spliced in: its own arguments carry the same sums *)
Definition splice (ser : bool) (t : tree) : list tree :=
  match t, ser with Ser us, true => us | Par us, false => us | _, _ => [t] end.
Lemma splice_ok (ser : bool) (t : tree) : okt ser t ->
  allp (okt ser) (splice ser t) /\ fsum (map (m1 ser) (splice ser t)) = m1 ser t /\ fsum (map (m2 ser) (splice ser t)) = m2 ser t.
Proof.
  assert (One : forall x : tree, okt ser x -> allp (okt ser) [x] /\ fsum (map (m1 ser) [x]) = m1 ser x /\ fsum (map (m2 ser) [x]) = m2 ser x).
  { intros x A. split; [cbn [allp]; split; [exact A | exact I]|]. cbn [map fsum]. split; ring. }
  destruct t as [l|us|us]; destruct ser; unfold splice; intros A; try (apply One; exact A).
  - unfold okt, m1, m2, admissible in *. cbn [adm fst] in A. repeat split; exact A.
  - unfold okt, m1, m2, admissibleN in *. cbn [adm snd] in A. repeat split; exact A.
Qed.
Lemma allp_app (p : tree -> Prop) l1 l2 : allp p l1 -> allp p l2 -> allp p (l1 ++ l2).
Proof. induction l1 as [|t r IH]; cbn [app allp]; [trivial | intros [A B] C; split; [exact A | apply IH; assumption]]. Qed.

(* the statement carried through the induction, for a node handled in mode [ser] *)
Definition pres (ser : bool) (t : tree) (r : option tree * Prop) : Prop :=
  forall t', fst r = Some t' -> snd r -> okt ser t -> okt ser t' /\ m1 ser t' = m1 ser t /\ m2 ser t' = m2 ser t.

Lemma flat_ok (ser : bool) (ts : list tree) : Forall (fun t => pres ser t (simp t)) ts ->
  forall l C, flat ser (map simp ts) = (Some l, C) -> C -> allp (okt ser) ts ->
  allp (okt ser) l /\ fsum (map (m1 ser) l) = fsum (map (m1 ser) ts) /\ fsum (map (m2 ser) l) = fsum (map (m2 ser) ts).
Proof.
  induction 1 as [|t r Ht Hr IH]; intros l C H HC Ok; cbn [map C07model.flat] in H.
  - injection H as <- <-. cbn [allp map fsum]. repeat split; trivial.
  - destruct (simp t) as [[t'|] C1] eqn:Es; [|discriminate H].
    destruct (flat ser (map simp r)) as [[l2|] C2] eqn:Ef; [|discriminate H].
    injection H as <- <-. destruct HC as [HC1 HC2]. cbn [allp] in Ok. destruct Ok as [Ot Or].
    destruct (IH l2 C2 eq_refl HC2 Or) as [A2 [E1 E2]].
    destruct (Ht t' eq_refl HC1 Ot) as [Ot' [F1 F2]].
    destruct (splice_ok ser t' Ot') as [As [G1 G2]].
    assert (Esp : (match t', ser with Ser us, true => us ++ l2 | Par us, false => us ++ l2 | _, _ => t' :: l2 end) = splice ser t' ++ l2).
    { unfold splice. destruct t' as [x|us|us]; destruct ser; reflexivity. }
    rewrite Esp. cbn [map fsum]. rewrite !map_app, !fsum_app. split; [apply allp_app; assumption|].
    rewrite G1, G2, E1, E2, F1, F2. split; reflexivity.
Qed.

Lemma finish_ok (ser : bool) (args : list tree) (C0 : Prop) : allp (okt ser) args ->
  forall t' C, finish ser (Some args, C0) = (Some t', C) -> C ->
  okt ser t' /\ m1 ser t' = fsum (map (m1 ser) args) /\ m2 ser t' = fsum (map (m2 ser) args).
Proof.
  intros Oa t' C H HC. unfold C07model.finish in H.
  destruct (outer (length args) ser (map (@Some tree) args)) as [[[l' chg]|] C2] eqn:Eo; [|discriminate H].
  injection H as <- <-. destruct HC as [_ HC2].
  destruct (outer_ok ser _ _ l' chg C2 Eo HC2 (oall_map_some _ _ Oa)) as [Ol [E1 E2]].
  rewrite !osum_map_some in E1, E2.
  destruct chg; [|exact (mk_ok ser args Oa)].
  pose proof (somes_all _ _ Ol) as As. pose proof (somes_sum (m1 ser) l') as S1. pose proof (somes_sum (m2 ser) l') as S2.
  destruct (somes K l') as [|x [|y rest]] eqn:Esm.
  - destruct (mk_ok ser [] As) as [A [B1 B2]]. rewrite B1, B2, <- E1, <- E2, <- S1, <- S2. repeat split; trivial.
  - cbn [allp] in As. destruct (single_ok ser x) as [B1 B2]. rewrite B1, B2, S1, S2, E1, E2. repeat split; tauto.
  - destruct (mk_ok ser (x :: y :: rest) As) as [A [B1 B2]]. rewrite B1, B2, S1, S2, E1, E2. repeat split; trivial.
Qed.

(* ---- ParSer.simplify: the node-mode statement for every tree ---- *)
Lemma simp_pres_both (t : tree) : pres true t (simp t) /\ pres false t (simp t).
Proof.
  induction t as [l|ts IH|ts IH] using tree_ind'.
  - split; intros t' H _ Ok; cbn [C07model.simp fst] in H; injection H as <-; repeat split; trivial.
  - (* Ser node: mode true directly, mode false through the Thevenin form *)
    assert (P1 : pres true (Ser ts) (simp (Ser ts))).
    { intros t' H HC Ok. cbn [C07model.simp] in H, HC.
      destruct (flat true (map simp ts)) as [[args|] C0] eqn:Ef; [|unfold C07model.finish in H; cbn [fst] in H; discriminate H].
      destruct (finish true (Some args, C0)) as [[t2|] C] eqn:Efin; cbn [fst snd] in H, HC; [|discriminate H]. injection H as <-.
      assert (HC0 : C0). { unfold C07model.finish in Efin. destruct (outer _ _ _) as [[[? ?]|] ?]; injection Efin as _ <-; tauto. }
      assert (Oa : allp (okt true) ts) by (apply (mk_inv true); exact Ok).
      destruct (flat_ok true ts (Forall_impl _ (fun t H => proj1 H) IH) args C0 Ef HC0 Oa) as [A [E1 E2]].
      destruct (finish_ok true args C0 A t2 C Efin HC) as [O2 [F1 F2]].
      destruct (mk_ok true ts Oa) as [_ [G1 G2]]. unfold mk in G1, G2. split; [exact O2|]. rewrite F1, F2, E1, E2, G1, G2. split; reflexivity. }
    split; [exact P1|].
    intros t' H HC Ok. unfold okt, admissibleN in Ok. cbn [adm snd] in Ok. destruct Ok as [Oa Hz].
    assert (Ok1 : okt true (Ser ts)) by exact Oa.
    destruct (P1 t' H HC Ok1) as [O2 [F1 F2]]. unfold okt, m1, m2 in *.
    assert (Z2 : Zt LDt t' <> 0) by (rewrite F1, Zt_Ser; exact Hz).
    destruct (adm_YZ t' O2) as [Y2 I2]. split; [apply adm_to_admN; assumption|].
    rewrite Y2, I2, F1, F2, Yt_Ser, Isc_Ser, Zt_Ser, Voc_Ser. split; reflexivity.
  - (* Par node *)
    assert (P1 : pres false (Par ts) (simp (Par ts))).
    { intros t' H HC Ok. cbn [C07model.simp] in H, HC.
      destruct (flat false (map simp ts)) as [[args|] C0] eqn:Ef; [|unfold C07model.finish in H; cbn [fst] in H; discriminate H].
      destruct (finish false (Some args, C0)) as [[t2|] C] eqn:Efin; cbn [fst snd] in H, HC; [|discriminate H]. injection H as <-.
      assert (HC0 : C0). { unfold C07model.finish in Efin. destruct (outer _ _ _) as [[[? ?]|] ?]; injection Efin as _ <-; tauto. }
      assert (Oa : allp (okt false) ts) by (apply (mk_inv false); exact Ok).
      destruct (flat_ok false ts (Forall_impl _ (fun t H => proj2 H) IH) args C0 Ef HC0 Oa) as [A [E1 E2]].
      destruct (finish_ok false args C0 A t2 C Efin HC) as [O2 [F1 F2]].
      destruct (mk_ok false ts Oa) as [_ [G1 G2]]. unfold mk in G1, G2. split; [exact O2|]. rewrite F1, F2, E1, E2, G1, G2. split; reflexivity. }
    split; [|exact P1].
    intros t' H HC Ok. unfold okt, admissible in Ok. cbn [adm fst] in Ok. destruct Ok as [Oa Hy].
    assert (Ok1 : okt false (Par ts)) by exact Oa.
    destruct (P1 t' H HC Ok1) as [O2 [F1 F2]]. unfold okt, m1, m2 in *.
    assert (Y2 : Yt LDt t' <> 0) by (rewrite F1, Yt_Par; exact Hy).
    destruct (admN_ZY t' O2) as [Z2 V2]. split; [apply admN_to_adm; assumption|].
    rewrite Z2, V2, F1, F2, Zt_Par, Voc_Par, Yt_Par, Isc_Par. split; reflexivity.
Qed.

(* C07: simplify() never changes the impedance, the admittance, the open-circuit voltage or the
   short-circuit current of an admissible network (when it returns: combining two V or two I raises) *)
Theorem simplify_preserves (t t' : tree) :
  simplify K s spow omega0 xf_dc xf_step xf_any xf_time xf_noise xf_ac t = Some t' ->
  simplify_defined K s spow omega0 xf_dc xf_step xf_any xf_time xf_noise xf_ac t ->
  admissible LDt t ->
  admissible LDt t' /\ Zt LDt t' = Zt LDt t /\ Yt LDt t' = Yt LDt t /\ Voc LDt t' = Voc LDt t /\ Isc LDt t' = Isc LDt t.
Proof.
  unfold simplify, simplify_defined. intros H HC A.
  destruct (proj1 (simp_pres_both t) t' H HC A) as [A' [E1 E2]]. unfold m1, m2 in E1, E2.
  destruct (adm_YZ t A) as [Y1 I1]. destruct (adm_YZ t' A') as [Y2 I2].
  split; [exact A'|]. split; [exact E1|]. split; [rewrite Y2, Y1, E1; reflexivity|]. split; [exact E2|]. rewrite I2, I1, E1, E2. reflexivity.
Qed.
Theorem simplify_preserves_norton (t t' : tree) :
  simplify K s spow omega0 xf_dc xf_step xf_any xf_time xf_noise xf_ac t = Some t' ->
  simplify_defined K s spow omega0 xf_dc xf_step xf_any xf_time xf_noise xf_ac t ->
  admissibleN LDt t ->
  admissibleN LDt t' /\ Zt LDt t' = Zt LDt t /\ Yt LDt t' = Yt LDt t /\ Voc LDt t' = Voc LDt t /\ Isc LDt t' = Isc LDt t.
Proof.
  unfold simplify, simplify_defined. intros H HC A.
  destruct (proj2 (simp_pres_both t) t' H HC A) as [A' [E1 E2]]. unfold m1, m2 in E1, E2.
  destruct (admN_ZY t A) as [Z1 V1]. destruct (admN_ZY t' A') as [Z2 V2].
  split; [exact A'|]. split; [rewrite Z2, Z1, E1; reflexivity|]. split; [exact E1|]. split; [rewrite V2, V1, E1, E2; reflexivity | exact E2].
Qed.
End Simp.
Print Assumptions combine_sound_ser.
Print Assumptions combine_sound_par.
Print Assumptions simplify_preserves.
Print Assumptions simplify_preserves_norton.

