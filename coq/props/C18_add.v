(* C18 — refusal of sums / differences / comparisons (see C18_addbase.v for the space) *)
From Coq Require Import ZArith List Bool Lia.
Import ListNotations.
Require Import LT.QuantityBase LT.QuantityModel LT.QuantityCorr.
Require Import Gen.QuantityGen Gen.C18_known.
Require Import Gen.C18 Gen.C18_addbase.
Local Open Scope Z_scope.

(* ---- different defined quantities are refused ---------------------------------- *)
Definition refq_ok (fl : flags) (a b : operand) : bool :=
  implb (expr_ops a && mixed a b)
        (refused fl a b || (known_add_mixed_pr && pr_pair a b) || (known_add_mixed_jw && jw_pair a b)).
Lemma refq_all : forallb (fun fl => forallb (fun a => forallb (refq_ok fl a) rspace) lspace) flags4 = true.
Proof. vm_cast_no_check (eq_refl true). Qed.

(* for ARBITRARY operand units, values and flag settings: two expressions whose
   quantities are both defined and different cannot be added or subtracted and never
   compare equal *)
Theorem add_refused_quantities : forall fl a b,
  has_class T (od a) = true -> has_class T (od b) = true -> expr_ops a = true ->
  mixed a b = true ->
  (known_add_mixed_pr && pr_pair a b) = false -> (known_add_mixed_jw && jw_pair a b) = false ->
  (exists e, add_model T fl a b = RE e) /\ (forall same, eq_model T fl a b same = RB false).
Proof.
  intros [l c k] a b H1 H2 Ho Hm Hp Hj. apply refused_conclusion; [exact Ho|].
  unfold refused. rewrite compat_add_canon, compat_add_units_only_by_equality.
  pose proof (forallb3_In _ _ _ refq_ok _ _ _ refq_all _ _ _ (in_flags4 l c) (in_lspace_wu a H1)
                (in_rspace_wu b (ueqb (ou a) (ou b)) H2)) as K.
  unfold refq_ok in K. rewrite expr_ops_wu, mixed_wu, pr_pair_wu, jw_pair_wu, Ho, Hm, Hp, Hj in K.
  cbn [implb andb orb] in K. rewrite !orb_false_r in K. exact K.
Qed.

(* ---- different non-constant domains are refused --------------------------------- *)
Definition refd_ok (fl : flags) (a b : operand) : bool :=
  implb (expr_ops a && nonconst a && nonconst b && negb (deqb (adom T a) (adom T b)) && negb (pr_pair a b) && negb (jw_pair a b))
        (refused fl a b).
Lemma refd_all : forallb (fun fl => forallb (fun a => forallb (refd_ok fl a) rspace) lspace) flags4 = true.
Proof. vm_cast_no_check (eq_refl true). Qed.
Theorem add_refused_domains : forall fl a b,
  has_class T (od a) = true -> has_class T (od b) = true -> expr_ops a = true ->
  nonconst a = true -> nonconst b = true -> deqb (adom T a) (adom T b) = false ->
  pr_pair a b = false -> jw_pair a b = false ->
  (exists e, add_model T fl a b = RE e) /\ (forall same, eq_model T fl a b same = RB false).
Proof.
  intros [l c k] a b H1 H2 Ho Ha Hb Hab Hp Hj. apply refused_conclusion; [exact Ho|].
  unfold refused. rewrite compat_add_canon, compat_add_units_only_by_equality.
  pose proof (forallb3_In _ _ _ refd_ok _ _ _ refd_all _ _ _ (in_flags4 l c) (in_lspace_wu a H1)
                (in_rspace_wu b (ueqb (ou a) (ou b)) H2)) as K.
  unfold refd_ok in K. rewrite expr_ops_wu, !nonconst_wu, !adom_wu, pr_pair_wu, jw_pair_wu, Ho, Ha, Hb, Hab, Hp, Hj in K.
  cbn [implb andb negb] in K. exact K.
Qed.

(* the same for a == b as Python evaluates it (the reflected comparison of a subclass
   instance is tried first) *)
Lemma mixed_sym : forall a b, mixed a b = mixed b a.
Proof.
  intros a b. unfold mixed. rewrite (andb_comm (defined a) (defined b)). f_equal. f_equal.
  unfold qeqb. apply Pos.eqb_sym.
Qed.
Lemma pr_pair_sym : forall a b, pr_pair a b = pr_pair b a.
Proof. intros a b. unfold pr_pair. rewrite orb_comm. f_equal; apply andb_comm. Qed.
Lemma jw_pair_sym : forall a b, jw_pair a b = jw_pair b a.
Proof. intros a b. unfold jw_pair. rewrite orb_comm. f_equal; apply andb_comm. Qed.
Theorem eq_never_true_for_mixed_quantities : forall fl a b same,
  has_class T (od a) = true -> has_class T (od b) = true -> expr_ops a = true -> expr_ops b = true ->
  mixed a b = true ->
  (known_add_mixed_pr && pr_pair a b) = false -> (known_add_mixed_jw && jw_pair a b) = false ->
  eq_py T fl a b same = RB false.
Proof.
  intros fl a b same H1 H2 Ha Hb Hm Hp Hj. unfold eq_py.
  destruct (subclass T (od b) (oq b) (od a) (oq a)).
  - apply (add_refused_quantities fl b a); try assumption;
      try (rewrite mixed_sym; assumption); try (rewrite pr_pair_sym; assumption); try (rewrite jw_pair_sym; assumption).
  - apply (add_refused_quantities fl a b); assumption.
Qed.

(* which exceptions are needed (printed for the harness) *)
Definition present_mixed (pair : operand -> operand -> bool) : bool :=
  existsb (fun fl => existsb (fun a => existsb (fun b => expr_ops a && mixed a b && pair a b && negb (refused fl a b)) rspace) lspace) flags4.
Eval vm_compute in (present_mixed pr_pair, present_mixed jw_pair).

Print Assumptions add_refused_quantities.
Print Assumptions add_refused_domains.
Print Assumptions eq_never_true_for_mixed_quantities.
