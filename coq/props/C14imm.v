(* C14 - the immittance tables regenerated from lcapy/oneport.py, transform.py,
   phasor.py, acdc.py (Gen.ImmittanceGen):
   - the leaf immittances are the textbook ones (R, 1/G, sL, 1/(sC), 1/(s^a K), ..);
   - ac_is_s_at_jw: what `cpt.Z` / `cpt.Y` give in an ac sub-netlist (substitute
     j omega) is the image under any homomorphism h with h s = j omega of what
     they give in the s-domain sub-netlist;
   - the phasor <-> time conversions of phasor.py are the model of PhasorTime.v,
     so sinusoid -> phasor -> time is the identity; Vac/Iac build the phasor of
     their own cos form. *)
Require Import LT.FieldSec LT.Circuit LT.PhasorHom LT.PhasorTime Gen.ImmittanceGen.
Local Open Scope F_scope.

Section Imm.
Variable K : fld.
Add Field KFi : (fth K).
Variable pw : K -> K -> K.

Definition leaf_oZ (l : leaf) (s a0 a1 : K) : option K :=
  match leaf_slot l with SlotZ => Some (leaf_val pw l s a0 a1) | SlotY => None end.
Definition leaf_oY (l : leaf) (s a0 a1 : K) : option K :=
  match leaf_slot l with SlotY => Some (leaf_val pw l s a0 a1) | SlotZ => None end.
(* OnePort.impedance / .admittance of a leaf (no sources) *)
Definition leaf_Z l s a0 a1 : option K := op_impedance (leaf_oZ l s a0 a1) (leaf_oY l s a0 a1) false false.
Definition leaf_Y l s a0 a1 : option K := op_admittance (leaf_oZ l s a0 a1) (leaf_oY l s a0 a1) false false.

(* textbook impedances, written independently of the code *)
Definition spec_Z (l : leaf) (s a0 a1 : K) : K :=
  match l with
  | lfR => a0 | lfG => 1 / a0 | lfL => s * a0 | lfC => 1 / (s * a0)
  | lfCPE => 1 / (pw s a1 * a0) | lfY => 1 / a0 | lfZ => a0 end.
Theorem leaf_Z_textbook l s a0 a1 : leaf_Z l s a0 a1 = Some (spec_Z l s a0 a1).
Proof. destruct l; reflexivity. Qed.
Theorem leaf_Y_textbook l s a0 a1 :
  leaf_Y l s a0 a1 = Some (match l with lfY => a0 | _ => 1 / spec_Z l s a0 a1 end).
Proof. destruct l; reflexivity. Qed.
(* Y Z = 1 wherever both are defined *)
Theorem leaf_YZ l s a0 a1 z y : leaf_Z l s a0 a1 = Some z -> leaf_Y l s a0 a1 = Some y -> z <> 0 -> a0 <> 0 -> y * z = 1.
Proof. rewrite leaf_Z_textbook, leaf_Y_textbook. intros Ez Ey Hz Ha. inversion Ez; inversion Ey; subst.
  destruct l; try (field; exact Hz). cbn [spec_Z]. field. exact Ha. Qed.

(* what cpt.Z / cpt.Y return for an analysis kind *)
Definition sel_value (act : selact) (f : K -> option K) (s jw : K) : option K :=
  match act with SelSubsJ => f jw | SelLaplace => f s | SelSubs0 => f 0 | _ => None end.
Definition cpt_Z (is_str : bool) (k : akind) l s jw a0 a1 := sel_value (select_act is_str k) (fun x => leaf_Z l x a0 a1) s jw.
Definition cpt_Y (is_str : bool) (k : akind) l s jw a0 a1 := sel_value (select_act is_str k) (fun x => leaf_Y l x a0 a1) s jw.
End Imm.
Arguments leaf_Z {K}. Arguments leaf_Y {K}. Arguments spec_Z {K}. Arguments cpt_Z {K}. Arguments cpt_Y {K}.
Arguments sel_value {K}.

(* the ac kind substitutes j omega, the Laplace kinds keep s *)
Theorem select_ac (k : akind) : select_act false k = SelSubsJ.
Proof. reflexivity. Qed.
Theorem select_laplace : select_act true KS = SelLaplace /\ select_act true KIvp = SelLaplace /\
  select_act true KLaplace = SelLaplace /\ select_act true KTransient = SelLaplace.
Proof. repeat split. Qed.
Theorem select_dc : select_act true KDc = SelSubs0.
Proof. reflexivity. Qed.

Section AcIsS.
Variables K K' : fld.
Variable h : phom K K'.
Variable pw : K -> K -> K.
Variable pw' : K' -> K' -> K'.
Add Field KFa : (fth K).
Add Field KFa' : (fth K').

Section Leaf.
Variables (s a0 a1 : K).
Hypothesis Ds : pD h s.
Hypothesis D0 : pD h a0.
Hypothesis D1 : pD h a1.
Hypothesis Dp : pD h (pw s a1).
Hypothesis Hpw : h (pw s a1) = pw' (h s) (h a1).      (* the power s ** alpha (CPE only) is evaluated consistently *)
Hypothesis Ns : h s <> 0.                               (* omega <> 0 *)
Hypothesis N0 : h a0 <> 0.                              (* component value <> 0 *)
Hypothesis Np : h (pw s a1) <> 0.

Lemma spec_Z_hom l : pD h (spec_Z pw l s a0 a1) /\ h (spec_Z pw l s a0 a1) = spec_Z pw' l (h s) (h a0) (h a1).
Proof.
  assert (Nsa : h (s * a0) <> 0) by (rewrite (phmul h) by assumption; apply mul_nz; assumption).
  assert (Npa : h (pw s a1 * a0) <> 0) by (rewrite (phmul h) by assumption; apply mul_nz; assumption).
  destruct l; cbn [spec_Z]; (split; [hom_D h | ]).
  - reflexivity.
  - rewrite (phdiv _ _ h), (ph1 h) by hom_D h. reflexivity.
  - rewrite (phmul h) by assumption. reflexivity.
  - rewrite (phdiv _ _ h), (ph1 h), (phmul h) by hom_D h. reflexivity.
  - rewrite (phdiv _ _ h), (ph1 h), (phmul h), Hpw by hom_D h. reflexivity.
  - rewrite (phdiv _ _ h), (ph1 h) by hom_D h. reflexivity.
  - reflexivity.
Qed.
Lemma spec_Z_nz l : h (spec_Z pw l s a0 a1) <> 0.
Proof.
  destruct (spec_Z_hom l) as [_ E]. rewrite E.
  assert (Hp : pw' (h s) (h a1) <> 0) by (rewrite <- Hpw; exact Np).
  destruct l; cbn [spec_Z]; try assumption; try (apply div_nz; [apply one_nz|]); try apply mul_nz; assumption.
Qed.

(* ac_is_s_at_jw: the immittance an ac analysis stamps (select -> subs(j omega), i.e. the
   stored expression with s := j omega = h s) is the image of the s-domain immittance *)
Theorem ac_is_s_at_jw_Z l (k : akind) (s' jw0 : K') (jw : K) :
  cpt_Z pw' false k l s' (h s) (h a0) (h a1) = omap h (cpt_Z pw true KS l s jw a0 a1).
Proof.
  unfold cpt_Z. rewrite select_ac. cbn [select_act negb sel_value]. rewrite !leaf_Z_textbook. cbn [omap].
  destruct (spec_Z_hom l) as [_ E]. rewrite E. reflexivity.
Qed.
Theorem ac_is_s_at_jw_Y l (k : akind) (s' jw0 : K') (jw : K) :
  cpt_Y pw' false k l s' (h s) (h a0) (h a1) = omap h (cpt_Y pw true KS l s jw a0 a1).
Proof.
  unfold cpt_Y. rewrite select_ac. cbn [select_act negb sel_value]. rewrite !leaf_Y_textbook. cbn [omap].
  destruct (spec_Z_hom l) as [Dz E]. pose proof (spec_Z_nz l) as Nz.
  destruct l; try reflexivity; rewrite (phdiv _ _ h), (ph1 h), E by hom_D h; reflexivity.
Qed.
(* and both are regular, so they may be parameters of the stamp theorems *)
Theorem leaf_values_regular l z y : leaf_Z pw l s a0 a1 = Some z -> leaf_Y pw l s a0 a1 = Some y -> pD h z /\ pD h y.
Proof. rewrite leaf_Z_textbook, leaf_Y_textbook. intros Ez Ey. inversion Ez; inversion Ey; subst.
  destruct (spec_Z_hom l) as [Dz _]. pose proof (spec_Z_nz l) as Nz. split; [exact Dz|].
  destruct l; try assumption; apply (pDdiv h); try assumption; apply (pD1 h). Qed.
End Leaf.
End AcIsS.

(* ---- phasor <-> time: the translated conversions are the model ---------------- *)
Section Ph.
Variable K : fld.
Add Field KFq : (fth K).
Theorem gen_time_is_model (P : cx K) (C S : K) : gen_phasor_time (cre P) (cim P) C S = time_of P C S.
Proof. reflexivity. Qed.
Theorem gen_offs_is_model f : gen_offs f = std_offs f.
Proof. destruct f; reflexivity. Qed.
(* phasor(A cos(wt+phi)).time() and phasor(A sin(wt+phi)).time() give back the sinusoid *)
Theorem phasor_time_roundtrip_gen f (A c s C S : K) :
  let P := phasor_of gen_offs f A c s in gen_phasor_time (cre P) (cim P) C S = sinusoid f A c s C S.
Proof. intros P. subst P. rewrite gen_time_is_model.
  replace (phasor_of gen_offs f A c s) with (phasor_of (@std_offs) f A c s).
  - apply phasor_time_roundtrip.
  - destruct f; reflexivity. Qed.
(* `ac` netlist sources: the constructor's phasor is the phasor of its own cos form *)
Theorem vac_phasor_is_model (A c s : K) : vac_phasor A c s = phasor_of gen_offs vac_time_form A c s.
Proof. unfold vac_phasor, vac_time_form, phasor_of, gen_offs, qturn. cbn. apply cx_eq; cbn; ring. Qed.
Theorem iac_phasor_is_model (A c s : K) : iac_phasor A c s = phasor_of gen_offs iac_time_form A c s.
Proof. unfold iac_phasor, iac_time_form, phasor_of, gen_offs, qturn. cbn. apply cx_eq; cbn; ring. Qed.
Theorem vac_roundtrip (A c s C S : K) :
  gen_phasor_time (cre (vac_phasor A c s)) (cim (vac_phasor A c s)) C S = sinusoid vac_time_form A c s C S.
Proof. rewrite vac_phasor_is_model. apply phasor_time_roundtrip_gen. Qed.
Theorem iac_roundtrip (A c s C S : K) :
  gen_phasor_time (cre (iac_phasor A c s)) (cim (iac_phasor A c s)) C S = sinusoid iac_time_form A c s C S.
Proof. rewrite iac_phasor_is_model. apply phasor_time_roundtrip_gen. Qed.
(* argument positions of `ac` sources: amplitude, phase, omega *)
Theorem ac_source_args : (vac_arg_amp, vac_arg_phase, vac_arg_omega) = (0, 1, 2)%nat /\
                         (iac_arg_amp, iac_arg_phase, iac_arg_omega) = (0, 1, 2)%nat.
Proof. split; reflexivity. Qed.
(* ---- ACChecker._is_sum_ac: merging two terms of one frequency ------------------- *)
(* every branch of the case analysis must yield the phasor x + j y, where x + j y is the
   sum of the two terms' phasors A1 e^{j p1} + A2 e^{j p2} *)
Definition ampsel_val (a : ampsel) (x y : K) : K := match a with AmpX => x | AmpY => y end.
Definition branch_phasor (b : ampsel * Z) (x y : K) : cx K := cscale (ampsel_val (fst b) x y) (qturn (snd b)).
Theorem sum_xy_is_phasor_sum (A1 c1 s1 A2 c2 s2 : K) :
  Cx (gen_sum_x A1 c1 s1 A2 c2 s2) (gen_sum_y A1 c1 s1 A2 c2 s2) = cadd (cscale A1 (Cx c1 s1)) (cscale A2 (Cx c2 s2)).
Proof. apply cx_eq; cbn; reflexivity. Qed.
Theorem sum_branch_y0 (x y : K) : y = f0 -> branch_phasor gen_sum_y0 x y = Cx x y.
Proof. intros ->. unfold branch_phasor, gen_sum_y0, qturn. cbn. apply cx_eq; cbn; ring. Qed.
Theorem sum_branch_x0 (x y : K) : x = f0 -> branch_phasor gen_sum_x0 x y = Cx x y.
Proof. intros ->. unfold branch_phasor, gen_sum_x0, qturn. cbn. apply cx_eq; cbn; ring. Qed.
(* else branch (translator checks it is amp = sqrt(x^2+y^2), phase = atan2(y, x)): under the
   contract of sqrt/atan2 (r cos(theta) = x, r sin(theta) = y) the phasor is x + j y *)
Theorem sum_branch_polar (r c s x y : K) : fmul r c = x -> fmul r s = y -> cscale r (Cx c s) = Cx x y.
Proof. intros <- <-. reflexivity. Qed.
(* hence the merged phasor reconstructs the sum of the two sinusoids *)
Theorem sum_time (A1 c1 s1 A2 c2 s2 C S : K) :
  time_of (Cx (gen_sum_x A1 c1 s1 A2 c2 s2) (gen_sum_y A1 c1 s1 A2 c2 s2)) C S =
  fadd (time_of (cscale A1 (Cx c1 s1)) C S) (time_of (cscale A2 (Cx c2 s2)) C S).
Proof. rewrite sum_xy_is_phasor_sum. apply time_add. Qed.
(* the else branch over any field: if r is a square root of x^2 + y^2 (what sqrt returns) and the
   angle has (cos, sin) = (x / r, y / r) (what atan2(y, x) returns), the merged phasor is x + j y *)
Theorem sum_branch_else (r x y : K) : fmul r r = fadd (fmul x x) (fmul y y) -> r <> f0 ->
  cscale r (Cx (fdiv x r) (fdiv y r)) = Cx x y.
Proof. intros E Hr. exact (proj1 (polar_sound K r x y E Hr)). Qed.

(* ---- Expr.magnitude / phase / dB (frequency response read-out) ------------------ *)
(* self = (Nr + j Ni) / D with D real: magnitude = sqrt(gen_mag_num_sq) / D squares to |self|^2 *)
Theorem gen_magnitude_sound (Nr Ni D m r : K) : D <> f0 -> fmul r r = gen_mag_num_sq Nr Ni -> m = fdiv r D ->
  fmul m m = fadd (fmul (fdiv Nr D) (fdiv Nr D)) (fmul (fdiv Ni D) (fdiv Ni D)).
Proof. intros HD E Hm. exact (mag_sq_quotient K Nr Ni D m r HD E Hm). Qed.
(* phase = atan2(imag, real): with the sqrt/atan2 contract, magnitude e^{j phase} gives back the number *)
Theorem gen_phase_args_ok : gen_phase_atan2_args = (PIm, PRe).
Proof. reflexivity. Qed.
Theorem gen_polar_sound (r x y : K) : fmul r r = gen_mag_num_sq x y -> r <> f0 ->
  cscale r (Cx (fdiv x r) (fdiv y r)) = Cx x y.
Proof. intros E Hr. exact (proj1 (polar_sound K r x y E Hr)). Qed.
(* a real number a >= 0 has phase 0, -a has phase pi: |x| e^{j phase} = x *)
Theorem gen_phase_real_sound (a : K) :
  cscale a (qturn gen_phase_real_nonneg) = Cx a f0 /\ cscale a (qturn gen_phase_real_neg) = Cx (fopp a) f0.
Proof. unfold gen_phase_real_nonneg, gen_phase_real_neg, qturn. cbn. split; apply cx_eq; cbn; ring. Qed.
Theorem gen_dB_factors : gen_dB_factor = 20%Z /\ gen_dB_power_factor = 10%Z.
Proof. split; reflexivity. Qed.
End Ph.

Print Assumptions ac_is_s_at_jw_Z.
Print Assumptions ac_is_s_at_jw_Y.
Print Assumptions leaf_Z_textbook.
Print Assumptions phasor_time_roundtrip_gen.
Print Assumptions vac_roundtrip.
Print Assumptions sum_branch_y0.
Print Assumptions sum_branch_x0.
Print Assumptions sum_branch_else.
Print Assumptions gen_magnitude_sound.
Print Assumptions gen_polar_sound.
Print Assumptions gen_phase_real_sound.
Print Assumptions gen_dB_factors.
Print Assumptions sum_xy_is_phasor_sum.
