(* C09 — analysis side: for real s in the region of convergence the table entries and the transform theorems used by
   the specification are statements about the defining improper integral
       LT f s X  :=  is_RInt_gen (fun t => f t * exp (- s * t)) (at_point 0) (Rbar_locally p_infty) X.
   Proved in coq/theory/LaplaceAnalysis.v and LaplaceLink.v (Coquelicot); restated here so that every run
   re-checks them and prints the axioms they depend on (the classical real numbers of the standard library).
   Impulse entries (DiracDelta and derivatives) are specification-level: no distribution theory library is
   installed for Coq 8.16.  Complex s is not covered (no complex improper integrals in Coquelicot 3.x). *)
From Coq Require Import Reals Lra.
From Coquelicot Require Import Coquelicot.
Require Import LT.FieldSec LT.PolyQ LT.ExpPoly LT.LaplaceSig LT.LaplaceModel LT.LaplaceAnalysis LT.LaplaceLink LT.LaplacePointwise LT.LaplaceDen.
Open Scope R_scope.

Theorem integral_tn_exp (n : nat) (p s : R) : p < s ->
  LT (fun t => t ^ n * exp (p * t)) s (INR (fact n) / (s - p) ^ (S n)).
Proof. exact (laplace_tn_exp n p s). Qed.
Theorem integral_sin (a w phi s : R) : a < s ->
  LT (fun t => exp (a * t) * sin (w * t + phi)) s ((w * cos phi + (s - a) * sin phi) / ((s - a) ^ 2 + w ^ 2)).
Proof. exact (laplace_sin a w phi s). Qed.
Theorem integral_cos (a w phi s : R) : a < s ->
  LT (fun t => exp (a * t) * cos (w * t + phi)) s (((s - a) * cos phi - w * sin phi) / ((s - a) ^ 2 + w ^ 2)).
Proof. exact (laplace_cos a w phi s). Qed.
(* the transform is linear *)
Theorem integral_linear a b f g s X Y : LT f s X -> LT g s Y -> LT (fun t => a * f t + b * g t) s (a * X + b * Y).
Proof. intros Hf Hg. apply (LT_plus (fun t => a * f t) (fun t => b * g t)); apply LT_scal; assumption. Qed.
(* the part of the signal before t = 0 is ignored *)
Theorem integral_ignores_past f g s X : (forall t, 0 < t -> f t = g t) -> LT f s X -> LT g s X.
Proof. exact (LT_ext f g s X). Qed.
(* delay T >= 0  |->  e^{-sT} *)
Theorem integral_delay f s X T : 0 <= T -> LT f s X -> LT (LaplaceAnalysis.delayed T f) s (exp (- s * T) * X).
Proof. exact (LT_delay f s X T). Qed.
(* exponential weighting  s |-> s - a *)
Theorem integral_expw a f s X : LT f (s - a) X -> LT (fun t => exp (a * t) * f t) s X.
Proof. unfold LT. intros H. eapply is_RInt_gen_ext; [|exact H]. apply filter_forall. intros [x y] t _. cbn.
  replace (- s * t) with (a * t * -1 + - (s - a) * t) by ring. rewrite exp_plus.
  replace (a * t * -1) with (- (a * t)) by ring. rewrite exp_Ropp.
  pose proof (exp_pos (a * t)). field. lra. Qed.
Theorem integral_rect (a s : R) : 0 < a -> 0 < s -> LT (rect_pos a) s ((1 - exp (- s / (2 * a))) / s).
Proof. exact (laplace_rect a s). Qed.
Theorem integral_tri (a s : R) : 0 < a -> 0 < s -> LT (tri_pos a) s (1 / s - a * (1 - exp (- s / a)) / s ^ 2).
Proof. exact (laplace_tri a s). Qed.
Theorem integral_ramp (a s : R) : 0 < s -> LT (fun t => a * t) s (a / s ^ 2).
Proof. exact (laplace_ramp a s). Qed.
Theorem integral_rampstep (a s : R) : 0 < a -> 0 < s -> LT (rampstep_pos a) s (a * (1 - exp (- s / a)) / s ^ 2).
Proof. exact (laplace_rampstep a s). Qed.
(* THE tie between the algebraic transform L of ExpPoly.v and the integral: every exp-poly signal with real poles,
   every real s beyond the largest pole; with delays; and for the normal forms of LaplaceSig.v *)
Theorem L_is_integral_C09 (l : list (rterm RFld)) (s : R) :
  (forall c n p, In (c, n, p) l -> p < s) -> LT (sval l) s (rval (K:=RFld) s l).
Proof. exact (L_is_integral l s). Qed.
Theorem dL_is_integral_C09 X s :
  (forall T l, In (T, l) X -> 0 <= T /\ forall c n p, In (c, n, p) l -> p < s) -> LT (dsval X) s (drval s X).
Proof. exact (dL_is_integral X s). Qed.
Theorem nf_is_integral_C09 (N : nf RFld) (s : R) : nf_classical s N -> LT (nf_fun N) s (nf_val RFld exp s N).
Proof. exact (nf_is_integral N s). Qed.

(* the algebra that gives products of factors their meaning is the pointwise algebra of the real functions:
   tmul = product, tshift d = x(t + d)  (so the normal form of  t^n e^{at} sin.. u(t - T)  really is that function) *)
Theorem product_is_pointwise (l m : list (rterm RFld)) (t : R) : sval (tmul l m) t = sval l t * sval m t.
Proof. exact (sval_tmul l m t). Qed.
Theorem shift_is_pointwise (d : R) (l : list (rterm RFld)) (t : R) : sval (tshift RFld exp d l) t = sval l (t + d).
Proof. exact (sval_tshift d l t). Qed.

(* THE DENOTATION IS THE FUNCTION.  For products of real classical factors (t^n, polynomial factors, e^{at+b},
   sinh/cosh, Heaviside, rect/tri/ramp/rampstep with any scale a > 0 and shift) the normal form the model assigns to
   the product is, on t > 0, the pointwise product of the factors' real functions - so the value the model (and the
   integrate_0 / integrate_0minus contract) assigns to  c f1 f2 ...  is the defining integral of that very function *)
Theorem denotation_is_pointwise (fs : list (leaf RFld)) (N : nf RFld) :
  forallb real_classical fs = true -> prod_nf RFld exp 0 (fun _ => true) Rneg fs = Some N ->
  regular N /\ forall t, 0 < t -> nf_fun N t = prod_fun fs t.
Proof. exact (prod_nf_fun fs N). Qed.
Theorem classical_term_is_integral_C09 (c : R) (fs : list (leaf RFld)) (N : nf RFld) (s : R) :
  forallb real_classical fs = true -> prod_nf RFld exp 0 (fun _ => true) Rneg fs = Some N -> nf_classical s N ->
  LT (fun t => c * prod_fun fs t) s (c * nf_val RFld exp s N).
Proof. exact (classical_term_is_integral c fs N s). Qed.
(* distributing a polynomial factor (expand(deep=False) in LaplaceTransformer.term, modelled by poly_expand) does not
   change the function *)
Theorem poly_expand_is_pointwise (fs : list (leaf RFld)) (t : R) : npoly fs = 1%nat -> (npowt fs <= 1)%nat ->
  mono_sum (poly_expand RFld fs) t = prod_fun fs t.
Proof. exact (poly_expand_fun fs t). Qed.

Print Assumptions integral_tn_exp.
Print Assumptions denotation_is_pointwise.
Print Assumptions classical_term_is_integral_C09.
Print Assumptions poly_expand_is_pointwise.
Print Assumptions product_is_pointwise.
Print Assumptions integral_sin.
Print Assumptions integral_linear.
Print Assumptions integral_ignores_past.
Print Assumptions integral_delay.
Print Assumptions integral_expw.
Print Assumptions integral_tri.
Print Assumptions nf_is_integral_C09.
