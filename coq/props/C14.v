(* C14 - the stamps of lcapy/mnacpts.py (regenerated into Gen.StampsGen on every
   run) commute with every partial field homomorphism h : K -> K' ("evaluate at
   s = j omega"): stamping the h-image of the parameters gives the entry-wise
   h-image of the update list [stamp_hom_*]; and the stamp of the AC
   sub-netlist (mna.kind is the angular frequency, i.e. no string test
   succeeds: KOther) with the mapped parameters is the image of the s-domain
   stamp [stamp_ac_*] - for K this needs ZM_ac = h(ZM_s), for TL the ac kind is
   rejected.  Proved for arbitrary indices, flags, parameters and fields. *)
Require Import LT.FieldSec LT.Circuit LT.PhasorHom Gen.StampsGen.
Local Open Scope Z_scope.
Local Open Scope bool_scope.

Section C14.
Variables K K' : fld.
Variable h : phom K K'.

(* Laplace-domain analysis kinds of a sub-netlist without initial conditions *)
Definition lapk (k : akind) : bool := akind_eqb k KS || akind_eqb k KLaplace || akind_eqb k KTransient.
(* the context of the same component in the ac sub-netlist: same indices and
   flags, kind = the frequency (no string kind), parameters = images; the
   mutual impedance read by K._stamp in the non-s branch is the image of the one
   K._stamp reads for the Laplace kind (Circuit.ZM) *)
Definition ac_ctx (c : sctx K) : sctx K' :=
  SCtx K' KOther (typ c) (p0 c) (p1 c) (p2 c) (p3 c) (c0 c) (c1 c)
       (bown c) (bextra c) (bctrl c) (bL1 c) (bL2 c)
       (has_ic c) (ctrl_is_vsrc c) (has_arg1 c) (tp_has_src c)
       (fun n => match n with pZM1 => h (ZM c) | _ => h (par c n) end).

Ltac destruct_atom b :=
  lazymatch b with
  | andb ?x _ => destruct_atom x
  | orb ?x _ => destruct_atom x
  | negb ?x => destruct_atom x
  | true => fail
  | false => fail
  | _ => let G := fresh "G" in destruct b eqn:G
  end.
Ltac case_guards :=
  cbv beta iota;
  repeat (match goal with
          | |- context [if ?b then _ else _] =>
              lazymatch b with true => fail | false => fail | _ => destruct_atom b end
          end; cbn [andb orb negb]; cbv beta iota).
Ltac entries :=
  cbv [sres_map map app upd_map um uo ur uc uv];
  repeat (f_equal; try reflexivity);
  symmetry; hom_push h; reflexivity.
Ltac prep c :=
  destruct c as [kd ty n0 n1 n2 n3 m0 m1 bo be bc b1 b2 hic cv ha ts pr];
  cbv [Dctx par] in *;
  cbv [ctx_map ac_ctx kind typ p0 p1 p2 p3 c0 c1 bown bextra bctrl bL1 bL2 has_ic ctrl_is_vsrc has_arg1 tp_has_src par] in *.
Ltac solve_hom c := prep c; case_guards; entries.
Ltac solve_ac c Hk := prep c; cbv [ZM kind par] in *;
  match goal with k : akind |- _ => destruct k end; try (cbv in Hk; discriminate Hk); cbn [akind_eqb andb orb negb]; case_guards; entries.
Ltac solve_ac0 c := prep c; case_guards; entries.

(* ---- same kind: stamp (h params) = map h (stamp params) ------------------- *)
Lemma stamp_hom_RC c : Dctx h c -> stamp_RC (ctx_map h c) = sres_map h (stamp_RC c).
Proof. intros D. unfold stamp_RC. solve_hom c. Qed.
Lemma stamp_hom_L c : Dctx h c -> stamp_L (ctx_map h c) = sres_map h (stamp_L c).
Proof. intros D. unfold stamp_L. solve_hom c. Qed.
Lemma stamp_hom_V c : Dctx h c -> stamp_V (ctx_map h c) = sres_map h (stamp_V c).
Proof. intros D. unfold stamp_V. solve_hom c. Qed.
Lemma stamp_hom_AM c : Dctx h c -> stamp_AM (ctx_map h c) = sres_map h (stamp_AM c).
Proof. intros D. unfold stamp_AM. solve_hom c. Qed.
Lemma stamp_hom_I c : Dctx h c -> stamp_I (ctx_map h c) = sres_map h (stamp_I c).
Proof. intros D. unfold stamp_I. solve_hom c. Qed.
Lemma stamp_hom_VCVS c : Dctx h c -> stamp_VCVS (ctx_map h c) = sres_map h (stamp_VCVS c).
Proof. intros D. unfold stamp_VCVS. solve_hom c. Qed.
Lemma stamp_hom_VCCS c : Dctx h c -> stamp_VCCS (ctx_map h c) = sres_map h (stamp_VCCS c).
Proof. intros D. unfold stamp_VCCS. solve_hom c. Qed.
Lemma stamp_hom_CCCS c : Dctx h c -> stamp_CCCS (ctx_map h c) = sres_map h (stamp_CCCS c).
Proof. intros D. unfold stamp_CCCS. solve_hom c. Qed.
Lemma stamp_hom_CCVS c : Dctx h c -> stamp_CCVS (ctx_map h c) = sres_map h (stamp_CCVS c).
Proof. intros D. unfold stamp_CCVS. solve_hom c. Qed.
Lemma stamp_hom_K c : Dctx h c -> stamp_K (ctx_map h c) = sres_map h (stamp_K c).
Proof. intros D. unfold stamp_K. solve_hom c. Qed.
Lemma stamp_hom_TF c : Dctx h c -> stamp_TF (ctx_map h c) = sres_map h (stamp_TF c).
Proof. intros D. unfold stamp_TF. solve_hom c. Qed.
Lemma stamp_hom_GY c : Dctx h c -> stamp_GY (ctx_map h c) = sres_map h (stamp_GY c).
Proof. intros D. unfold stamp_GY. solve_hom c. Qed.
Lemma stamp_hom_TL c : Dctx h c -> stamp_TL (ctx_map h c) = sres_map h (stamp_TL c).
Proof. intros D. unfold stamp_TL. solve_hom c. Qed.
Lemma stamp_hom_TPA c : Dctx h c -> stamp_TPA (ctx_map h c) = sres_map h (stamp_TPA c).
Proof. intros D. unfold stamp_TPA. solve_hom c. Qed.
Lemma sub_hom (s : forall F : fld, sctx F -> sres F) c :
  s K' (ctx_map h c) = sres_map h (s K c) ->
  (if tp_has_src (ctx_map h c) then SErr else match s K' (ctx_map h c) with SOk l_ => SOk ([] ++ l_) | SErr => SErr end)
  = sres_map h (if tp_has_src c then SErr else match s K c with SOk l_ => SOk ([] ++ l_) | SErr => SErr end).
Proof. intros E. rewrite E. cbn [ctx_map tp_has_src]. destruct (tp_has_src c); [reflexivity|].
  destruct (s K c); reflexivity. Qed.
Lemma stamp_hom_TPB c : Dctx h c -> stamp_TPB (ctx_map h c) = sres_map h (stamp_TPB c).
Proof. intros D. unfold stamp_TPB. apply (sub_hom (@stamp_TPA)). apply stamp_hom_TPA; assumption. Qed.
Lemma stamp_hom_TPG c : Dctx h c -> stamp_TPG (ctx_map h c) = sres_map h (stamp_TPG c).
Proof. intros D. unfold stamp_TPG. apply (sub_hom (@stamp_TPA)). apply stamp_hom_TPA; assumption. Qed.
Lemma stamp_hom_TPH c : Dctx h c -> stamp_TPH (ctx_map h c) = sres_map h (stamp_TPH c).
Proof. intros D. unfold stamp_TPH. apply (sub_hom (@stamp_TPA)). apply stamp_hom_TPA; assumption. Qed.
Lemma stamp_hom_TPY c : Dctx h c -> stamp_TPY (ctx_map h c) = sres_map h (stamp_TPY c).
Proof. intros D. unfold stamp_TPY. solve_hom c. Qed.
Lemma stamp_hom_TPZ c : Dctx h c -> stamp_TPZ (ctx_map h c) = sres_map h (stamp_TPZ c).
Proof. intros D. unfold stamp_TPZ. apply (sub_hom (@stamp_TPY)). apply stamp_hom_TPY; assumption. Qed.
Lemma stamp_hom_TR c : Dctx h c -> stamp_TR (ctx_map h c) = sres_map h (stamp_TR c).
Proof. intros D. unfold stamp_TR. solve_hom c. Qed.
Lemma stamp_hom_SPpp c : Dctx h c -> stamp_SPpp (ctx_map h c) = sres_map h (stamp_SPpp c).
Proof. intros D. unfold stamp_SPpp. solve_hom c. Qed.
Lemma stamp_hom_SPpm c : Dctx h c -> stamp_SPpm (ctx_map h c) = sres_map h (stamp_SPpm c).
Proof. intros D. unfold stamp_SPpm. solve_hom c. Qed.
Lemma stamp_hom_SPppp c : Dctx h c -> stamp_SPppp (ctx_map h c) = sres_map h (stamp_SPppp c).
Proof. intros D. unfold stamp_SPppp. solve_hom c. Qed.
Lemma stamp_hom_SPpmm c : Dctx h c -> stamp_SPpmm (ctx_map h c) = sres_map h (stamp_SPpmm c).
Proof. intros D. unfold stamp_SPpmm. solve_hom c. Qed.
Lemma stamp_hom_SPppm c : Dctx h c -> stamp_SPppm (ctx_map h c) = sres_map h (stamp_SPppm c).
Proof. intros D. unfold stamp_SPppm. solve_hom c. Qed.
(* the potentiometer divides by R (1 - a) and R a: both must stay non-zero *)
Lemma stamp_hom_RV c : Dctx h c ->
  h (fmul (par c pArg0) (fsub f1 (par c pArg1))) <> f0 -> h (fmul (par c pArg0) (par c pArg1)) <> f0 ->
  stamp_RV (ctx_map h c) = sres_map h (stamp_RV c).
Proof. intros D N1 N2. unfold stamp_RV. prep c. case_guards;
  cbv [sres_map map app upd_map um uo ur uc uv]; repeat (f_equal; try reflexivity); symmetry;
  rewrite ?(phopp _ _ h) by hom_D h; rewrite (phdiv _ _ h) by (first [assumption | hom_D h]);
  rewrite (ph1 h); (rewrite (phmul h) by hom_D h); rewrite ?(phsub _ _ h) by hom_D h; rewrite ?(ph1 h); reflexivity. Qed.
Lemma stamp_hom_Dummy c : stamp_Dummy (ctx_map h c) = sres_map h (stamp_Dummy c).
Proof. reflexivity. Qed.

(* ---- s-domain sub-netlist -> ac sub-netlist -------------------------------- *)
Lemma stamp_ac_RC c : lapk (kind c) = true -> Dctx h c -> stamp_RC (ac_ctx c) = sres_map h (stamp_RC c).
Proof. intros Hk D. unfold stamp_RC. solve_ac c Hk. Qed.
Lemma stamp_ac_L c : lapk (kind c) = true -> Dctx h c -> stamp_L (ac_ctx c) = sres_map h (stamp_L c).
Proof. intros Hk D. unfold stamp_L. solve_ac c Hk. Qed.
Lemma stamp_ac_V c : Dctx h c -> stamp_V (ac_ctx c) = sres_map h (stamp_V c).
Proof. intros D. unfold stamp_V. solve_ac0 c. Qed.
Lemma stamp_ac_AM c : Dctx h c -> stamp_AM (ac_ctx c) = sres_map h (stamp_AM c).
Proof. intros D. unfold stamp_AM. solve_ac0 c. Qed.
Lemma stamp_ac_I c : Dctx h c -> stamp_I (ac_ctx c) = sres_map h (stamp_I c).
Proof. intros D. unfold stamp_I. solve_ac0 c. Qed.
Lemma stamp_ac_VCVS c : Dctx h c -> stamp_VCVS (ac_ctx c) = sres_map h (stamp_VCVS c).
Proof. intros D. unfold stamp_VCVS. solve_ac0 c. Qed.
Lemma stamp_ac_VCCS c : Dctx h c -> stamp_VCCS (ac_ctx c) = sres_map h (stamp_VCCS c).
Proof. intros D. unfold stamp_VCCS. solve_ac0 c. Qed.
Lemma stamp_ac_CCCS c : Dctx h c -> stamp_CCCS (ac_ctx c) = sres_map h (stamp_CCCS c).
Proof. intros D. unfold stamp_CCCS. solve_ac0 c. Qed.
Lemma stamp_ac_CCVS c : Dctx h c -> stamp_CCVS (ac_ctx c) = sres_map h (stamp_CCVS c).
Proof. intros D. unfold stamp_CCVS. solve_ac0 c. Qed.
(* mutual inductance: the s branch reads pZM0, the ac branch pZM1 := h pZM0 *)
Lemma stamp_ac_K c : lapk (kind c) = true -> Dctx h c -> stamp_K (ac_ctx c) = sres_map h (stamp_K c).
Proof. intros Hk D. unfold stamp_K. solve_ac c Hk. Qed.
Lemma stamp_ac_TF c : Dctx h c -> stamp_TF (ac_ctx c) = sres_map h (stamp_TF c).
Proof. intros D. unfold stamp_TF. solve_ac0 c. Qed.
Lemma stamp_ac_GY c : Dctx h c -> stamp_GY (ac_ctx c) = sres_map h (stamp_GY c).
Proof. intros D. unfold stamp_GY. solve_ac0 c. Qed.
(* transmission line: only 's' and 'dc' are accepted - the ac kind is rejected, never mis-stamped *)
Lemma stamp_ac_TL_rejected c : stamp_TL (ac_ctx c) = SErr.
Proof. reflexivity. Qed.
Lemma stamp_ac_TPA c : Dctx h c -> stamp_TPA (ac_ctx c) = sres_map h (stamp_TPA c).
Proof. intros D. unfold stamp_TPA. solve_ac0 c. Qed.
Lemma sub_ac (s : forall F : fld, sctx F -> sres F) c :
  s K' (ac_ctx c) = sres_map h (s K c) ->
  (if tp_has_src (ac_ctx c) then SErr else match s K' (ac_ctx c) with SOk l_ => SOk ([] ++ l_) | SErr => SErr end)
  = sres_map h (if tp_has_src c then SErr else match s K c with SOk l_ => SOk ([] ++ l_) | SErr => SErr end).
Proof. intros E. rewrite E. cbn [ac_ctx tp_has_src]. destruct (tp_has_src c); [reflexivity|].
  destruct (s K c); reflexivity. Qed.
Lemma stamp_ac_TPB c : Dctx h c -> stamp_TPB (ac_ctx c) = sres_map h (stamp_TPB c).
Proof. intros D. unfold stamp_TPB. apply (sub_ac (@stamp_TPA)). apply stamp_ac_TPA; assumption. Qed.
Lemma stamp_ac_TPG c : Dctx h c -> stamp_TPG (ac_ctx c) = sres_map h (stamp_TPG c).
Proof. intros D. unfold stamp_TPG. apply (sub_ac (@stamp_TPA)). apply stamp_ac_TPA; assumption. Qed.
Lemma stamp_ac_TPH c : Dctx h c -> stamp_TPH (ac_ctx c) = sres_map h (stamp_TPH c).
Proof. intros D. unfold stamp_TPH. apply (sub_ac (@stamp_TPA)). apply stamp_ac_TPA; assumption. Qed.
Lemma stamp_ac_TPY c : Dctx h c -> stamp_TPY (ac_ctx c) = sres_map h (stamp_TPY c).
Proof. intros D. unfold stamp_TPY. solve_ac0 c. Qed.
Lemma stamp_ac_TPZ c : Dctx h c -> stamp_TPZ (ac_ctx c) = sres_map h (stamp_TPZ c).
Proof. intros D. unfold stamp_TPZ. apply (sub_ac (@stamp_TPY)). apply stamp_ac_TPY; assumption. Qed.
Lemma stamp_ac_TR c : Dctx h c -> stamp_TR (ac_ctx c) = sres_map h (stamp_TR c).
Proof. intros D. unfold stamp_TR. solve_ac0 c. Qed.
Lemma stamp_ac_SPpp c : Dctx h c -> stamp_SPpp (ac_ctx c) = sres_map h (stamp_SPpp c).
Proof. intros D. unfold stamp_SPpp. solve_ac0 c. Qed.
Lemma stamp_ac_SPpm c : Dctx h c -> stamp_SPpm (ac_ctx c) = sres_map h (stamp_SPpm c).
Proof. intros D. unfold stamp_SPpm. solve_ac0 c. Qed.
Lemma stamp_ac_SPppp c : Dctx h c -> stamp_SPppp (ac_ctx c) = sres_map h (stamp_SPppp c).
Proof. intros D. unfold stamp_SPppp. solve_ac0 c. Qed.
Lemma stamp_ac_SPpmm c : Dctx h c -> stamp_SPpmm (ac_ctx c) = sres_map h (stamp_SPpmm c).
Proof. intros D. unfold stamp_SPpmm. solve_ac0 c. Qed.
Lemma stamp_ac_SPppm c : Dctx h c -> stamp_SPppm (ac_ctx c) = sres_map h (stamp_SPppm c).
Proof. intros D. unfold stamp_SPppm. solve_ac0 c. Qed.
Lemma stamp_ac_RV c : Dctx h c ->
  h (fmul (par c pArg0) (fsub f1 (par c pArg1))) <> f0 -> h (fmul (par c pArg0) (par c pArg1)) <> f0 ->
  stamp_RV (ac_ctx c) = sres_map h (stamp_RV c).
Proof. intros D N1 N2. unfold stamp_RV. prep c. case_guards;
  cbv [sres_map map app upd_map um uo ur uc uv]; repeat (f_equal; try reflexivity); symmetry;
  rewrite ?(phopp _ _ h) by hom_D h; rewrite (phdiv _ _ h) by (first [assumption | hom_D h]);
  rewrite (ph1 h); (rewrite (phmul h) by hom_D h); rewrite ?(phsub _ _ h) by hom_D h; rewrite ?(ph1 h); reflexivity. Qed.
Lemma stamp_ac_Dummy c : stamp_Dummy (ac_ctx c) = sres_map h (stamp_Dummy c).
Proof. reflexivity. Qed.

End C14.
Arguments ac_ctx {K K'}.
Arguments lapk k : simpl never.
