(* C18 — accepted sums (see C18_addbase.v for the space) *)
From Coq Require Import ZArith List Bool Lia.
Import ListNotations.
Require Import LT.QuantityBase LT.QuantityModel LT.QuantityCorr.
Require Import Gen.QuantityGen Gen.C18_known.
Require Import Gen.C18 Gen.C18_addbase.
Local Open Scope Z_scope.

(* like expressions add: same class, same units -> a value of that class, under every
   flag setting; an expression equals itself *)
Definition same_ok (fl : flags) (a : operand) : bool :=
  implb (expr_ops a)
        (match add_model T fl a a with RK d q _ => deqb d (od a) && qeqb q (oq a) | _ => false end
         && match eq_model T fl a a true with RB true => true | _ => false end).
Lemma same_all : forallb (fun fl => forallb (same_ok fl) (ops_default T)) flags4 = true.
Proof. vm_cast_no_check (eq_refl true). Qed.
Theorem like_expressions_add : forall l c d q v,
  has_class T d = true -> expr_ops (dop T d q v) = true ->
  (exists u, add_model T (Fl l c false) (dop T d q v) (dop T d q v) = RK d q u) /\
  eq_model T (Fl l c false) (dop T d q v) (dop T d q v) true = RB true.
Proof.
  intros l c d q v H Ho.
  pose proof (forallb2_In _ _ same_ok _ _ same_all _ _ (in_flags4 l c) (ops_default_complete T d q v H)) as K.
  unfold same_ok in K. rewrite Ho in K. cbn [implb] in K. apply andb_true_iff in K. destruct K as [K1 K2].
  split.
  - destruct (add_model T (Fl l c false) (dop T d q v) (dop T d q v)) as [rd rq ru| | |]; try discriminate.
    apply andb_true_iff in K1. destruct K1 as [A B]. apply deqb_eq in A. apply qeqb_eq in B. simpl in A, B. subst. exists ru. reflexivity.
  - destruct (eq_model T (Fl l c false) (dop T d q v) (dop T d q v) true) as [| |[|]|]; try discriminate. reflexivity.
Qed.

(* an accepted sum has the class of one of the operands; outside the conversion pairs
   it has the quantity of the operand whose quantity is defined *)
Definition resq_ok (fl : flags) (a b : operand) : bool :=
  match add_model T fl a b with
  | RK d q _ =>
      ((deqb d (od a) && qeqb q (oq a)) || (deqb d (od b) && qeqb q (oq b)))
      && (pr_pair a b || jw_pair a b ||
          (implb (defined a && negb (defined b)) (qeqb q (oq a)) && implb (defined b && negb (defined a)) (qeqb q (oq b))))
  | _ => true
  end.
Lemma resq_all : forallb (fun fl => forallb (fun a => forallb (resq_ok fl a) rspace) lspace) flags4 = true.
Proof. vm_cast_no_check (eq_refl true). Qed.
Theorem add_result_class : forall l c k a b rd rq ru,
  has_class T (od a) = true -> has_class T (od b) = true ->
  add_model T (Fl l c k) a b = RK rd rq ru ->
  ((rd = od a /\ rq = oq a) \/ (rd = od b /\ rq = oq b)) /\
  (pr_pair a b = false -> jw_pair a b = false -> defined a = true -> defined b = false -> rq = oq a) /\
  (pr_pair a b = false -> jw_pair a b = false -> defined b = true -> defined a = false -> rq = oq b).
Proof.
  intros l c k a b rd rq ru H1 H2 E.
  change (add_model T (Fl l c k) a b) with (add_model T (Fl l c false) a b) in E.
  apply res_class_of_RK in E. rewrite add_class_units_only_by_equality in E. apply res_class_RK in E. destruct E as [u' E].
  pose proof (forallb3_In _ _ _ resq_ok _ _ _ resq_all _ _ _ (in_flags4 l c) (in_lspace_wu a H1)
                (in_rspace_wu b (ueqb (ou a) (ou b)) H2)) as K.
  unfold resq_ok in K. rewrite E in K. rewrite pr_pair_wu, jw_pair_wu, !defined_wu, !od_wu, !oq_wu in K.
  apply andb_true_iff in K. destruct K as [K1 K2]. split; [|split].
  - apply orb_true_iff in K1. destruct K1 as [K|K]; apply andb_true_iff in K; destruct K as [A B];
      apply deqb_eq in A; apply qeqb_eq in B; [left|right]; split; assumption.
  - intros Hp Hj Da Db. rewrite Hp, Hj, Da, Db in K2. cbn [orb andb negb implb] in K2.
    apply andb_true_iff in K2. destruct K2 as [A _]. apply qeqb_eq in A. exact A.
  - intros Hp Hj Db Da. rewrite Hp, Hj, Da, Db in K2. cbn [orb andb negb implb] in K2. apply qeqb_eq in K2. exact K2.
Qed.

(* loose_units only relaxes, check_units only restricts: what is accepted under the
   stricter setting is accepted under the more permissive one, with the same quantity
   (loose_units may change which of the constant-domain classes is used) and, for
   check_units, the same class *)
Definition same_q (x y : res) : bool :=
  match x, y with RK _ q _, RK _ q' _ => qeqb q q' | _, _ => false end.
Definition same_c (x y : res) : bool :=
  match x, y with RK d q _, RK d' q' _ => deqb d d' && qeqb q q' | _, _ => false end.
Definition mono_ok (a b : operand) : bool :=
  let r l c := add_model T (Fl l c false) a b in
  let acc x := match x with RK _ _ _ => true | _ => false end in
  implb (acc (r false true)) (same_q (r false true) (r true true))
  && implb (acc (r false false)) (same_q (r false false) (r true false))
  && implb (acc (r true true)) (same_c (r true true) (r true false))
  && implb (acc (r false true)) (same_c (r false true) (r false false)).
Lemma mono_all : forallb (fun a => forallb (mono_ok a) rspace) lspace = true.
Proof. vm_cast_no_check (eq_refl true). Qed.
Theorem flags_monotone : forall a b rd rq ru,
  has_class T (od a) = true -> has_class T (od b) = true ->
  add_model T (Fl false true false) a b = RK rd rq ru ->
  (exists rd' ru', add_model T (Fl true true false) a b = RK rd' rq ru') /\
  (exists ru', add_model T (Fl false false false) a b = RK rd rq ru').
Proof.
  intros a b rd rq ru H1 H2 E.
  apply res_class_of_RK in E. rewrite add_class_units_only_by_equality in E. apply res_class_RK in E. destruct E as [u0 E].
  pose proof (forallb2_In _ _ mono_ok _ _ mono_all _ _ (in_lspace_wu a H1) (in_rspace_wu b (ueqb (ou a) (ou b)) H2)) as K.
  unfold mono_ok in K. rewrite E in K. cbn [implb] in K.
  apply andb_true_iff in K. destruct K as [K K4]. apply andb_true_iff in K. destruct K as [K _].
  apply andb_true_iff in K. destruct K as [K1 _].
  split.
  - destruct (add_model T (Fl true true false) (with_units a uzero) _) as [x y z| | |] eqn:E2; simpl in K1; try discriminate.
    apply qeqb_eq in K1. subst y.
    apply res_class_of_RK in E2. rewrite <- add_class_units_only_by_equality in E2. apply res_class_RK in E2.
    destruct E2 as [u2 E2]. exists x, u2. exact E2.
  - destruct (add_model T (Fl false false false) (with_units a uzero) _) as [x y z| | |] eqn:E2; simpl in K4; try discriminate.
    apply andb_true_iff in K4. destruct K4 as [A B]. apply deqb_eq in A. apply qeqb_eq in B. subst x y.
    apply res_class_of_RK in E2. rewrite <- add_class_units_only_by_equality in E2. apply res_class_RK in E2.
    destruct E2 as [u2 E2]. exists u2. exact E2.
Qed.

(* ---- the units of a sum ---------------------------------------------------------------- *)
(* Expr.__add__ builds cls(result): the sum gets the DEFAULT units of its class.  For
   operands that carry the default units of their class this is the units of the
   operand that determined the class *)
Definition sumu_ok (fl : flags) (a b : operand) : bool :=
  match add_model T fl a b with
  | RK d q u => (deqb d (od a) && qeqb q (oq a) && ueqb u (ou a)) || (deqb d (od b) && qeqb q (oq b) && ueqb u (ou b))
  | _ => true
  end.
Lemma sumu_all : forallb (fun fl => forallb (fun a => forallb (sumu_ok fl a) (ops_default T)) (ops_default T)) flags4 = true.
Proof. vm_cast_no_check (eq_refl true). Qed.
Theorem sum_units_default_operands : forall l c d q v d' q' v' rd rq ru,
  has_class T d = true -> has_class T d' = true ->
  add_model T (Fl l c false) (dop T d q v) (dop T d' q' v') = RK rd rq ru ->
  (rd = d /\ rq = q /\ ru = def_units T d q) \/ (rd = d' /\ rq = q' /\ ru = def_units T d' q').
Proof.
  intros l c d q v d' q' v' rd rq ru H1 H2 E.
  pose proof (forallb3_In _ _ _ sumu_ok _ _ _ sumu_all _ _ _ (in_flags4 l c) (ops_default_complete T d q v H1)
                (ops_default_complete T d' q' v' H2)) as K.
  unfold sumu_ok in K. rewrite E in K. simpl in K. apply orb_true_iff in K.
  destruct K as [K|K]; apply andb_true_iff in K; destruct K as [K C]; apply andb_true_iff in K; destruct K as [A B];
    apply deqb_eq in A; apply qeqb_eq in B; apply ueqb_eq in C; [left|right]; repeat split; assumption.
Qed.
(* with other operand units the strict statement "the sum has the units of one of its
   operands" fails unless __add__/__sub__ go through Expr._sum_units (C18.sum_units_cases;
   finding add.result_units_reset); witness inside the model: *)
Definition units_reset_witness : bool :=
  let a := Op Dlaplace Qpower (UV 1 1 2 0) VV in
  match add_model T (Fl true true false) a a with RK _ _ u => negb (ueqb u (ou a)) | _ => false end.
Eval vm_compute in units_reset_witness.

Print Assumptions like_expressions_add.
Print Assumptions add_result_class.
Print Assumptions flags_monotone.
Print Assumptions sum_units_default_operands.
