(* C15 - hand models (H) of NodalAnalysis._make_equations and
   LoopAnalysis._process_loop / _add_mesh_currents over the leaf relations and
   the orientation / sign handling regenerated from the source (Gen.FormulLeafGen).
   Executable: evaluated by vm_compute over Qc against the printed equations. *)
Require Import LT.FieldSec LT.Circuit LT.FormulLeaf Gen.FormulLeafGen.
Local Open Scope Z_scope.
Local Open Scope bool_scope.

Section Model.
Variable K : fld.
Implicit Types (e : lelt K) (N : list (lelt K)) (U : Z -> K).

Definition ceq_of (cl : lcls) : lkind -> lpar K -> K -> K -> K -> K :=
  match cl with
  | LR => ceq_R | LG => ceq_G | LL => ceq_L | LC => ceq_C | LY => ceq_Y | LZ => ceq_Z | LI => ceq_I
  | LV => fun _ _ _ _ _ => f0 end.
Definition veq_of (cl : lcls) : lkind -> lpar K -> K -> K -> K -> K :=
  match cl with
  | LR => veq_R | LG => veq_G | LL => veq_L | LC => veq_C | LY => veq_Y | LZ => veq_Z | LV => veq_V
  | LI => fun _ _ _ _ _ => f0 end.
Fixpoint sumL (l : list K) : K := match l with [] => f0 | x :: l' => fadd x (sumL l') end.

(* ---- nodal -------------------------------------------------------------- *)
(* the unknown of node n (ground is the constant 0) *)
Definition unk U (n : Z) : K := if 0 <=? n then U n else f0.
Definition touches (r : Z) e : bool := Z.eqb (le_n1 e) r || Z.eqb (le_n2 e) r.
(* `if node == n1: pass  elif node == n2: swap` *)
Definition contrib (k : lkind) (s : K) U (U0 : Z -> K) (r : Z) e : K :=
  nodal_contrib (Z.eqb (le_n1 e) r) (ceq_of (le_cls e) k (le_par e) s)
                (unk U (le_n1 e)) (unk U (le_n2 e)) (unk U0 (le_n1 e)) (unk U0 (le_n2 e)).
Definition is_V e : bool := lcls_eqb (le_cls e) LV.
(* lhs - rhs of the equation generated for node r.  [pick]: position in N of the
   voltage source the code took (voltage_sources[0]; the iteration order of the
   graph is NetworkX's) - only consulted when some voltage source touches r. *)
Definition node_residual (k : lkind) (s : K) N U (U0 : Z -> K) (r : Z) (pick : nat) : K :=
  let inc := filter (touches r) N in
  if existsb is_V inc then
    match nth_error N pick with
    | Some e => nodal_vsrc (veq_of LV k (le_par e) s f0 f0) (unk U (le_n1 e)) (unk U (le_n2 e))
    | None => f1
    end
  else sumL (map (contrib k s U U0 r) inc).
Definition pick_ok N (r : Z) (pick : nat) : bool :=
  negb (existsb is_V (filter (touches r) N)) ||
  match nth_error N pick with Some e => is_V e && touches r e | None => false end.

(* ---- mesh ---------------------------------------------------------------- *)
(* consecutive pairs of the closed walk [A;B;C] -> [(A,B);(B,C);(C,A)] *)
Fixpoint pairs_from (first : Z) (l : list Z) : list (Z * Z) :=
  match l with
  | [] => []
  | [a] => [(a, first)]
  | a :: ((b :: _) as l') => (a, b) :: pairs_from first l'
  end.
Definition steps (loop : list Z) : list (Z * Z) := match loop with [] => [] | a :: _ => pairs_from a loop end.
Definition zmem (x : Z) (l : list Z) : bool := existsb (Z.eqb x) l.
(* the scan of one mesh in _add_mesh_currents: first consecutive pair that is
   (n1,n2) credits [mesh_credit_fwd], (n2,n1) credits [mesh_credit_bwd]; then break *)
Fixpoint scan (n1 n2 : Z) (st : list (Z * Z)) : K :=
  match st with
  | [] => f0
  | (a, b) :: st' => if Z.eqb n1 a && Z.eqb n2 b then mesh_credit_fwd
                     else if Z.eqb n2 a && Z.eqb n1 b then mesh_credit_bwd else scan n1 n2 st'
  end.
Definition credit_of_loop (n1 n2 : Z) (loop : list Z) : K :=
  if zmem n1 loop && zmem n2 loop then scan n1 n2 (steps loop) else f0.
(* the graph: edge (a,b) -> position of the component in N (None = dummy wire / no edge);
   given as an association list on unordered pairs, as cg.component answers *)
Definition edge_lookup (edges : list (Z * Z * nat)) (a b : Z) : option nat :=
  match find (fun t => match t with (x, y, _) => (Z.eqb x a && Z.eqb y b) || (Z.eqb x b && Z.eqb y a) end) edges with
  | Some (_, _, i) => Some i | None => None end.
(* the scan when crediting goes by the component itself: the first step of the mesh whose graph
   edge carries component i; forward when the step starts at the component's first node *)
Fixpoint scan_e (edges : list (Z * Z * nat)) (i : nat) (n1 : Z) (st : list (Z * Z)) : K :=
  match st with
  | [] => f0
  | (a, b) :: st' =>
      match edge_lookup edges a b with
      | Some j => if Nat.eqb j i then (if Z.eqb n1 a then mesh_credit_fwd else mesh_credit_bwd) else scan_e edges i n1 st'
      | None => scan_e edges i n1 st'
      end
  end.
(* what one mesh contributes to `current` of component i with equipotential node names (n1, n2);
   which of the two scans the source uses is regenerated (mesh_credit_by_edge) *)
Definition credit_of (edges : list (Z * Z * nat)) (i : nat) (n1 n2 : Z) (loop : list Z) : K :=
  if mesh_credit_by_edge then scan_e edges i n1 (steps loop) else credit_of_loop n1 n2 loop.
(* `current` for component i: sum over all meshes *)
Fixpoint mesh_current (edges : list (Z * Z * nat)) (i : nat) (n1 n2 : Z) (loops : list (list Z)) (Im : nat -> K) (idx : nat) : K :=
  match loops with
  | [] => f0
  | lp :: loops' => fadd (fmul (credit_of edges i n1 n2 lp) (Im idx)) (mesh_current edges i n1 n2 loops' Im (S idx))
  end.
(* does the step a -> b run along the component from its first to its second node? *)
Definition step_fwd e (ab : Z * Z) : bool :=
  if mesh_fwd_first_only then Z.eqb (le_n1 e) (fst ab) else Z.eqb (le_n1 e) (fst ab) && Z.eqb (le_n2 e) (snd ab).
(* one step a -> b of _process_loop for mesh m *)
Definition mesh_step (k : lkind) (s : K) N (edges : list (Z * Z * nat)) (loops : list (list Z))
    (Im Im0 : nat -> K) (m : nat) (ab : Z * Z) : K :=
  match edge_lookup edges (fst ab) (snd ab) with
  | None => f0
  | Some i =>
    match nth_error N i with
    | None => f0
    | Some e =>
      let fwd := step_fwd e ab in
      if is_V e then mesh_term true fwd (veq_of LV k (le_par e) s (Im m) (Im0 m))
      else mesh_term false fwd (veq_of (le_cls e) k (le_par e) s
                                  (mesh_current edges i (le_n1 e) (le_n2 e) loops Im 0)
                                  (mesh_current edges i (le_n1 e) (le_n2 e) loops Im0 0))
    end
  end.
Definition mesh_residual (k : lkind) (s : K) N edges (loops : list (list Z)) (Im Im0 : nat -> K) (m : nat) : K :=
  sumL (map (mesh_step k s N edges loops Im Im0 m) (steps (nth m loops []))).
End Model.
Arguments ceq_of {K}. Arguments veq_of {K}. Arguments sumL {K}. Arguments unk {K}. Arguments touches {K}.
Arguments contrib {K}. Arguments is_V {K}. Arguments node_residual {K}. Arguments pick_ok {K}.
Arguments scan {K}. Arguments credit_of_loop {K}. Arguments scan_e {K}. Arguments credit_of {K}. Arguments step_fwd {K}. Arguments mesh_current {K}. Arguments mesh_step {K}.
Arguments mesh_residual {K}.

(* ---- correspondence helpers (Qc for s / dc / time kinds, Gaussian rationals for phasors) ---- *)
Section Corr.
Variable K : fld.
Variable eqb : K -> K -> bool.
Definition zfun (l : list (Z * K)) : Z -> K :=
  fun n => match find (fun p => Z.eqb (fst p) n) l with Some p => snd p | None => f0 end.
Definition nfun (l : list K) : nat -> K := fun n => nth n l f0.
(* the model's node equation takes the printed values at every probe assignment *)
Definition check_node (k : lkind) (s : K) (N : list (lelt K)) (r : Z) (pick : nat)
    (probes : list (list (Z * K) * list (Z * K) * K)) : bool :=
  pick_ok N r pick &&
  forallb (fun pr => match pr with (u, u0, expected) =>
             eqb (node_residual k s N (zfun u) (zfun u0) r pick) expected end) probes.
Definition check_mesh (k : lkind) (s : K) (N : list (lelt K)) (edges : list (Z * Z * nat)) (loops : list (list Z)) (m : nat)
    (probes : list (list K * list K * K)) : bool :=
  forallb (fun pr => match pr with (im, im0, expected) =>
             eqb (mesh_residual k s N edges loops (nfun im) (nfun im0) m) expected end) probes.
End Corr.
Arguments zfun {K}. Arguments nfun {K}. Arguments check_node {K}. Arguments check_mesh {K}.
