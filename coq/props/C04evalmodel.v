(* C04 - vocabulary of the table regenerated (tools/tr_thevenin.py) from the branch structure of
   OnePort.thevenin() / OnePort.norton() (lcapy/oneport.py): per signal kind of the open-circuit voltage /
   short-circuit current, at which point of the s-plane the immittance of the simplified network is evaluated and
   which component of the source is kept; and its semantics. *)
Require Import LT.FieldSec.
From Coq Require Import List Bool.
Import ListNotations.

(* evaluation points: 0, the imaginary unit j, the (single) angular frequency X.ac_keys()[0], products *)
Inductive pexpr := PZero | PJ | POmega | PMul (a b : pexpr).
(* X.is_superposition and not W.is_real | X.is_ac | X.is_dc and X != 0 | else *)
Inductive guard := GSuperReactive | GAc | GDcNonzero | GElse.
(* W | W.subs(p) *)
Inductive immsel := ImmAsIs | ImmAt (p : pexpr).
(* X.laplace() | X.select(key) | X(0) | X *)
Inductive srcsel := SrcLaplace | SrcSelect (p : pexpr) | SrcAtZero | SrcAsIs.
Record branch := Br { br_g : guard; br_imm : immsel; br_src : srcsel }.
Inductive ctor := CSer | CPar.

Section Eval.
Variable K : fld.
Variable jj : K.                       (* the imaginary unit of the field the phasors live in *)
(* what the source X of the simplified one-port is: several signal kinds over a reactive immittance, one ac
   component of angular frequency w, a non-zero dc value, anything else (s-domain / transient, zero, ...) *)
Inductive skind := KSuperReactive | KAc (w : K) | KDcNonzero | KOther.
Definition omega_of (k : skind) : K := match k with KAc w => w | _ => f0 end.
Fixpoint peval (w : K) (p : pexpr) : K :=
  match p with PZero => f0 | PJ => jj | POmega => w | PMul a b => fmul (peval w a) (peval w b) end.
Definition matches (g : guard) (k : skind) : bool :=
  match g, k with
  | GSuperReactive, KSuperReactive => true
  | GAc, KAc _ => true
  | GDcNonzero, KDcNonzero => true
  | GElse, _ => true
  | _, _ => false
  end.
(* the if / elif / else chain: first branch whose guard holds *)
Fixpoint pick (tb : list branch) (k : skind) : option branch :=
  match tb with [] => None | b :: tb' => if matches (br_g b) k then Some b else pick tb' k end.
(* the immittance of the returned model as a function of s, from the immittance W(s) of the simplified network *)
Definition imm_of (i : immsel) (k : skind) (W : K -> K) : K -> K :=
  match i with ImmAsIs => W | ImmAt p => fun _ => W (peval (omega_of k) p) end.
(* SPECIFICATION (phasor analysis at one angular frequency w: s = j w; dc steady state: s = 0; otherwise the
   Laplace-domain immittance itself) *)
Definition spec_imm (k : skind) (W : K -> K) : K -> K :=
  match k with KAc w => fun _ => W (fmul jj w) | KDcNonzero => fun _ => W f0 | _ => W end.
(* the component of the source that is kept: the whole transform, the phasor AT the angular frequency w (the key of a
   Superposition is w, not j w), the dc value, the source as it is *)
Definition src_ok (s : srcsel) (k : skind) : Prop :=
  match k, s with
  | KSuperReactive, SrcLaplace => True
  | KAc w, SrcSelect p => peval w p = w
  | KDcNonzero, SrcAtZero => True
  | KOther, SrcAsIs => True
  | _, _ => False
  end.
End Eval.
Arguments KSuperReactive {K}. Arguments KAc {K}. Arguments KDcNonzero {K}. Arguments KOther {K}.
