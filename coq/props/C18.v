(* C18 — facts about the hand-written operator model that hold for ARBITRARY
   tables and ARBITRARY (unbounded) unit vectors; they do not depend on the
   generated file.  The statements over the finite space of classes, value kinds
   and flags (which depend on the tables regenerated from the sources) are in
   C18_tab.v, C18_ops.v, C18_add.v and C18_tr.v. *)
From Coq Require Import ZArith List Bool Lia.
Import ListNotations.
Require Import LT.QuantityBase LT.QuantityModel.
Local Open Scope Z_scope.

Section Generic.
Variable T : tables.

Lemma as_constant_keeps_units : forall x, ou (as_constant T x true) = ou x.
Proof.
  intros x. unfold as_constant.
  destruct (cq T G_is_immittance x && unchanging T x); [|reflexivity].
  destruct (exprmap T (aq T x) Dconstant) as [[d q]|]; reflexivity.
Qed.

Lemma construct_units : forall c hv u d q w, construct T c hv (Some u) = RK d q w -> w = u.
Proof.
  intros c hv u d q w. unfold construct. destruct c as [[d' q']|]; [|discriminate].
  destruct (dflag T F_is_undefined_domain d' && negb hv); [discriminate|].
  intros H; inversion H; reflexivity.
Qed.

(* the units of a product are the product of the operand units, whatever they are
   (result.units = self.units * x.units); the only products that are not computed
   this way are the six generic f(t) * F(f)-style products *)
Theorem mul_units_implied : forall a b d q u,
  mul_keeps_units T = true ->
  generic_times_time a b = false ->
  mul_model T a b = RK d q u -> u = uadd (ou a) (ou b).
Proof.
  intros a b d q u Hk Hg. unfold mul_model. rewrite Hg, Hk.
  destruct (mown T M_mul a); try discriminate.
  destruct (mul_compatible T a (as_constant T b true)) as [[|]|]; try discriminate.
  destruct (mul_lookup T (aq T a) (aq T (as_constant T b true))); try discriminate.
  destruct (mul_domain T a (as_constant T b true)); try discriminate.
  intros H. apply construct_units in H. rewrite as_constant_keeps_units in H. exact H.
Qed.

(* the units of a quotient are the quotient of the units of the numerator and of
   the divisor AS USED (after Expr.__truediv__ replaced an unchanging immittance
   by the constant-domain object) *)
Theorem div_units_of_effective_operands : forall a b d q u,
  div_model T a b = RK d q u -> u = usub (ou a) (ou (as_constant T b (div_keeps_units T))).
Proof.
  intros a b d q u. unfold div_model.
  destruct (mown T M_truediv a); try discriminate.
  destruct (div_compatible T a (as_constant T b (div_keeps_units T))) as [[|]|]; try discriminate.
  destruct (div_lookup T (aq T a) (aq T (as_constant T b (div_keeps_units T)))); try discriminate.
  destruct (div_domain T a (as_constant T b (div_keeps_units T))); try discriminate.
  intros H. apply construct_units in H. exact H.
Qed.
(* hence, when __truediv__ restores the divisor's units as __mul__ does, the quotient has
   exactly the quotient of the operand units *)
Theorem div_units_implied : forall a b d q u,
  div_keeps_units T = true ->
  div_model T a b = RK d q u -> u = usub (ou a) (ou b).
Proof.
  intros a b d q u Hk H. apply div_units_of_effective_operands in H. rewrite Hk, as_constant_keeps_units in H. exact H.
Qed.

(* __compat_add__ looks at the operand units only through their equality: the
   exhaustive statements of C18_add.v over {equal, different} therefore cover
   every pair of unit vectors *)
(* ... and at the values only through "is it zero": *)
Definition zkind (v : valkind) : valkind := match v with VZ => VZ | _ => VC end.
Definition with_units (a : operand) (u : uvec) : operand := Op (od a) (oq a) u (zkind (ov a)).
Theorem compat_add_units_only_by_equality : forall fl a b,
  compat_add T fl a b =
  compat_add T fl (with_units a uzero) (with_units b (if ueqb (ou a) (ou b) then uzero else u_volt)).
Proof.
  intros fl [d q u v] [d' q' u' v']. unfold compat_add, compat_add_b, with_units, cq, cd, is_const, aq, adom, add_compatible, mown,
    compatible_phasors, same_dom, aq, adom. simpl.
  destruct (ueqb u u'); destruct v, v'; reflexivity.
Qed.

Lemma construct_class_indep : forall c hv u u', res_class (construct T c hv u) = res_class (construct T c hv u').
Proof.
  intros [[d q]|] hv u u'; [|reflexivity]. unfold construct.
  destruct (dflag T F_is_undefined_domain d && negb hv); reflexivity.
Qed.
(* the CLASS of a sum depends on the operand units only through their equality *)
Theorem add_class_units_only_by_equality : forall fl a b,
  res_class (add_model T fl a b) =
  res_class (add_model T fl (with_units a uzero) (with_units b (if ueqb (ou a) (ou b) then uzero else u_volt))).
Proof.
  intros fl a b. unfold add_model, add_model_b. fold (compat_add T fl a b).
  fold (compat_add T fl (with_units a uzero) (with_units b (if ueqb (ou a) (ou b) then uzero else u_volt))).
  rewrite (compat_add_units_only_by_equality fl a b).
  destruct a as [d q u v], b as [d' q' u' v']. unfold with_units, mown, is_undef_dom, cd. cbn [od oq ou ov].
  destruct (meth_owner T M_add d q); try reflexivity.
  destruct (meth_owner T M_compat_add d q); try reflexivity.
  destruct (compat_add T fl _ _) as [e|[|]]; try reflexivity; cbn [od oq]; apply construct_class_indep.
Qed.
Lemma res_class_RK : forall r d q, res_class r = RK d q uzero -> exists u, r = RK d q u.
Proof. intros [d' q' u'| | |] d q H; simpl in H; try discriminate. inversion H; subst. exists u'. reflexivity. Qed.
Lemma res_class_of_RK : forall r d q u, r = RK d q u -> res_class r = RK d q uzero.
Proof. intros r d q u ->. reflexivity. Qed.

(* the units of an accepted sum: the class default, or - when __add__/__sub__ go through
   Expr._sum_units - the units of one of the operands *)
Theorem sum_units_cases : forall fl a b d q u,
  add_model T fl a b = RK d q u -> u = def_units T d q \/ (add_keeps_units T = true /\ (u = ou a \/ u = ou b)).
Proof.
  intros fl a b d q u. unfold add_model, add_model_b.
  destruct (mown T M_add a); try discriminate. destruct (mown T M_compat_add a); try discriminate.
  destruct (compat_add_b T fl a b _) as [e|s]; [discriminate|].
  unfold construct, sum_units.
  match goal with |- context [dflag T F_is_undefined_domain ?x && ?y] => destruct (dflag T F_is_undefined_domain x && y) end;
    [discriminate|].
  destruct (add_keeps_units T).
  - match goal with |- context [if ?c then Some (ou a) else _] => destruct c end.
    + intros H; inversion H; subst. right. split; [reflexivity|left; reflexivity].
    + match goal with |- context [if ?c then Some (ou b) else _] => destruct c end.
      * intros H; inversion H; subst. right. split; [reflexivity|right; reflexivity].
      * intros H; inversion H; subst. left. reflexivity.
  - intros H; inversion H; subst. left. reflexivity.
Qed.

(* a refused sum never compares equal, and the result of == is the equality of the
   values when the sum is accepted *)
Theorem eq_false_when_refused : forall fl a b same e,
  mown T M_eq a = O_Expr -> mown T M_compat_add a = O_Expr ->
  compat_add T fl a b = inl e -> eq_model T fl a b same = RB false.
Proof. intros fl a b same e H1 H2 H. unfold eq_model, eq_model_b. unfold compat_add in H. rewrite H1, H2, H. reflexivity. Qed.

Theorem add_refused_iff_compat : forall fl a b,
  mown T M_add a = O_Expr -> mown T M_compat_add a = O_Expr ->
  forall e, compat_add T fl a b = inl e -> add_model T fl a b = RE e.
Proof. intros fl a b H1 H2 e H. unfold add_model, add_model_b. unfold compat_add in H. rewrite H1, H2, H. reflexivity. Qed.

(* the flag canonical_units is not an input of any operator model *)
Theorem canonical_units_irrelevant : forall l c k k' a b same,
  add_model T (Fl l c k) a b = add_model T (Fl l c k') a b /\
  eq_model T (Fl l c k) a b same = eq_model T (Fl l c k') a b same.
Proof. intros; split; reflexivity. Qed.

End Generic.

(* unit-vector algebra used by the statements *)
Theorem dim_ignores_rad : forall a b c r r', dim (UV a b c r) = dim (UV a b c r').
Proof. reflexivity. Qed.

Print Assumptions mul_units_implied.
Print Assumptions div_units_of_effective_operands.
Print Assumptions div_units_implied.
Print Assumptions compat_add_units_only_by_equality.
Print Assumptions add_class_units_only_by_equality.
Print Assumptions sum_units_cases.
Print Assumptions eq_false_when_refused.
Print Assumptions add_refused_iff_compat.
Print Assumptions canonical_units_irrelevant.
