(* C03 - the MNA systems Lcapy builds are linear in the independent sources.
   Over the stamps regenerated from lcapy/mnacpts.py on every run
   (Gen.StampsGen) and the assembly model of Gen.C01model:

   stamp_matrix_indep_sources  for every stamp-defining class, the matrix part
       (G, B, C, D entries) of the stamp does not depend on the independent
       source values / initial-condition parameters (par pIsc, par pVoc; for K: pI01, pI02), nor
       does the success of the stamp; the right-hand side (Is, Es entries) is
       additive and homogeneous in them.
   asm_src_add / asm_src_scale  the same for assembled netlists (induction
       over the component list, arbitrary length).
   mna_superposition / mna_scaling  solutions add and scale.
   mna_response_additive / _homogeneous / mna_kill_sum  with a well-posed
       (injective) system the solved response is linear in the sources, and
       the responses with all sources but one group set to zero (what
       Netlist._kill leaves of the equations: V -> 0 V, I -> 0 A, ICs -> 0)
       sum to the full response for any assignment of sources to groups.
   Arbitrary characteristic-0 field, arbitrary node / branch indices. *)
Require Import LT.FieldSec LT.Circuit LT.LinearSys Gen.StampsGen Gen.C01model Gen.C03defs Gen.C03a Gen.C03b Gen.C03c Gen.C03d.
Local Open Scope Z_scope.
Local Open Scope bool_scope.

Section C03.
Variable K : fld.
Add Field KFs3 : (fth K).

(* additivity and homogeneity follow from the affine form *)
Lemma src_affine_linear (st : sctx K -> sres K) : src_affine st -> src_linear st.
Proof.
  intros H. split.
  - intros c a1 b1 a2 b2.
    pose proof (H c a1 b1) as H1. pose proof (H c a2 b2) as H2. pose proof (H c (fadd a1 a2) (fadd b1 b2)) as H12.
    destruct (st (with_src c f0 f0)) as [T0|], (st (with_src c f1 f0)) as [Ta|], (st (with_src c f0 f1)) as [Tb|];
    destruct (st (with_src c a1 b1)) as [T1|]; try contradiction;
    destruct (st (with_src c a2 b2)) as [T2|]; try contradiction;
    destruct (st (with_src c (fadd a1 a2) (fadd b1 b2))) as [T12|]; try contradiction; cbn [sres3]; try exact I.
    destruct H1 as [M1 V1], H2 as [M2 V2], H12 as [M12 V12]. repeat split.
    + apply (mat_eq_trans K _ _ _ M1). apply mat_eq_sym. exact M12.
    + apply (mat_eq_trans K _ _ _ M2). apply mat_eq_sym. exact M12.
    + intros mm r Hm. rewrite (V12 mm r Hm), (V1 mm r Hm), (V2 mm r Hm). ring.
  - intros c k a b.
    pose proof (H c a b) as H1. pose proof (H c (fmul k a) (fmul k b)) as Hk.
    destruct (st (with_src c f0 f0)) as [T0|], (st (with_src c f1 f0)) as [Ta|], (st (with_src c f0 f1)) as [Tb|];
    destruct (st (with_src c a b)) as [T1|]; try contradiction;
    destruct (st (with_src c (fmul k a) (fmul k b))) as [Tk|]; try contradiction; cbn [sres2]; try exact I.
    destruct H1 as [M1 V1], Hk as [Mk Vk]. split.
    + apply (mat_eq_trans K _ _ _ M1). apply mat_eq_sym. exact Mk.
    + intros mm r Hm. rewrite (Vk mm r Hm), (V1 mm r Hm). ring.
Qed.

Theorem stamp_src_linear (cl : cname) : src_linear (K:=K) (stamp_of cl).
Proof.
  destruct cl; cbn [stamp_of];
  first [ exact (src_affine_linear _ (src_affine_RC K)) | exact (src_affine_linear _ (src_affine_L K)) | exact (src_affine_linear _ (src_affine_V K)) | exact (src_affine_linear _ (src_affine_AM K)) | exact (src_affine_linear _ (src_affine_I K))
        | exact (src_affine_linear _ (src_affine_VCVS K)) | exact (src_affine_linear _ (src_affine_VCCS K)) | exact (src_affine_linear _ (src_affine_CCCS K)) | exact (src_affine_linear _ (src_affine_CCVS K))
        | exact (src_affine_linear _ (src_affine_K K)) | exact (src_affine_linear _ (src_affine_TF K)) | exact (src_affine_linear _ (src_affine_GY K)) | exact (src_affine_linear _ (src_affine_TL K))
        | exact (src_affine_linear _ (src_affine_TPA K)) | exact (src_affine_linear _ (src_affine_TPB K)) | exact (src_affine_linear _ (src_affine_TPG K)) | exact (src_affine_linear _ (src_affine_TPH K))
        | exact (src_affine_linear _ (src_affine_TPY K)) | exact (src_affine_linear _ (src_affine_TPZ K)) | exact (src_affine_linear _ (src_affine_TR K))
        | exact (src_affine_linear _ (src_affine_SPpp K)) | exact (src_affine_linear _ (src_affine_SPpm K)) | exact (src_affine_linear _ (src_affine_SPppp K)) | exact (src_affine_linear _ (src_affine_SPpmm K))
        | exact (src_affine_linear _ (src_affine_SPppm K)) | exact (src_affine_linear _ (src_affine_RV K)) | exact (src_affine_linear _ (src_affine_Dummy K)) ].
Qed.

(* (1) the statement asked for, per class: matrix independent of the sources,
   right-hand side additive and homogeneous, in residual form *)
Theorem stamp_matrix_indep_sources (cl : cname) (c : sctx K) (a1 b1 a2 b2 : K) :
  match stamp_of cl (with_src c a1 b1), stamp_of cl (with_src c a2 b2) with
  | SOk T1, SOk T2 => mat_eq T1 T2
  | SErr, SErr => True
  | _, _ => False
  end.
Proof.
  pose proof (proj1 (stamp_src_linear cl) c a1 b1 a2 b2) as H. unfold sres3 in H.
  destruct (stamp_of cl (with_src c a1 b1)), (stamp_of cl (with_src c a2 b2)),
           (stamp_of cl (with_src c (fadd a1 a2) (fadd b1 b2))); try contradiction; try exact I.
  destruct H as [H1 [H2 _]]. apply (mat_eq_trans K _ _ _ H1). apply mat_eq_sym. exact H2.
Qed.
Theorem stamp_res_superpose (cl : cname) (c : sctx K) (a1 b1 a2 b2 : K) T1 T2 T12 :
  stamp_of cl (with_src c a1 b1) = SOk T1 -> stamp_of cl (with_src c a2 b2) = SOk T2 ->
  stamp_of cl (with_src c (fadd a1 a2) (fadd b1 b2)) = SOk T12 ->
  forall v1 ib1 v2 ib2 r,
    node_res T12 (vadd v1 v2) (vadd ib1 ib2) r = fadd (node_res T1 v1 ib1 r) (node_res T2 v2 ib2 r) /\
    br_res T12 (vadd v1 v2) (vadd ib1 ib2) r = fadd (br_res T1 v1 ib1 r) (br_res T2 v2 ib2 r).
Proof.
  intros E1 E2 E12 v1 ib1 v2 ib2 r.
  pose proof (proj1 (stamp_src_linear cl) c a1 b1 a2 b2) as H. rewrite E1, E2, E12 in H. cbn [sres3] in H.
  split; [apply node_res_superpose | apply br_res_superpose]; exact H.
Qed.
Theorem stamp_res_scale (cl : cname) (c : sctx K) (k a b : K) T Tk :
  stamp_of cl (with_src c a b) = SOk T -> stamp_of cl (with_src c (fmul k a) (fmul k b)) = SOk Tk ->
  forall v ib r,
    node_res Tk (vscale k v) (vscale k ib) r = fmul k (node_res T v ib r) /\
    br_res Tk (vscale k v) (vscale k ib) r = fmul k (br_res T v ib r).
Proof.
  intros E Ek v ib r.
  pose proof (proj2 (stamp_src_linear cl) c k a b) as H. rewrite E, Ek in H. cbn [sres2] in H.
  split; [apply node_res_scale | apply br_res_scale]; exact H.
Qed.

End C03.

Print Assumptions stamp_src_linear.
Print Assumptions stamp_matrix_indep_sources.
Print Assumptions stamp_res_superpose.
Print Assumptions stamp_res_scale.
