(* C03 - the MNA systems Lcapy builds are linear in the independent sources.
   Over the stamps regenerated from lcapy/mnacpts.py on every run
   (Gen.StampsGen) and the assembly model of Gen.C01model:

   stamp_matrix_indep_sources  for every stamp-defining class, the matrix part
       (G, B, C, D entries) of the stamp does not depend on the independent
       source values / initial-condition parameters (par pIsc, par pVoc), nor
       does the success of the stamp; the right-hand side (Is, Es entries) is
       additive and homogeneous in them.
   asm_src_add / asm_src_scale  the same for assembled netlists (induction
       over the component list, arbitrary length).
   mna_superposition / mna_scaling  solutions add and scale.
   mna_response_additive / _homogeneous / mna_kill_sum  with a well-posed
       (injective) system the solved response is linear in the sources, and
       the responses with all sources but one group set to zero (what
       Netlist._kill leaves of the equations: V -> 0 V, I -> 0 A, ICs -> 0)
       sum to the full response for any assignment of sources to groups.
   Arbitrary characteristic-0 field, arbitrary node / branch indices. *)
Require Import LT.FieldSec LT.Circuit LT.LinearSys Gen.StampsGen Gen.C01model.
Local Open Scope Z_scope.
Local Open Scope bool_scope.

Section C03.
Variable K : fld.
Add Field KFs3 : (fth K).

(* the context with the source value / initial-condition parameters replaced *)
Definition with_src (c : sctx K) (a b : K) : sctx K :=
  SCtx K (kind c) (typ c) (p0 c) (p1 c) (p2 c) (p3 c) (c0 c) (c1 c)
       (bown c) (bextra c) (bctrl c) (bL1 c) (bL2 c)
       (has_ic c) (ctrl_is_vsrc c) (has_arg1 c) (tp_has_src c)
       (fun n => match n with pIsc => a | pVoc => b | _ => par c n end).

Definition sres3 (R : list (upd K) -> list (upd K) -> list (upd K) -> Prop) (s1 s2 s12 : sres K) : Prop :=
  match s1, s2, s12 with
  | SOk a, SOk b, SOk c => R a b c
  | SErr, SErr, SErr => True
  | _, _, _ => False
  end.
Definition sres2 (R : list (upd K) -> list (upd K) -> Prop) (s1 s2 : sres K) : Prop :=
  match s1, s2 with
  | SOk a, SOk b => R a b
  | SErr, SErr => True
  | _, _ => False
  end.

(* what has to hold of one stamp function *)
Definition src_linear (st : sctx K -> sres K) : Prop :=
  (forall c a1 b1 a2 b2,
     sres3 (@add_rel K) (st (with_src c a1 b1)) (st (with_src c a2 b2)) (st (with_src c (fadd a1 a2) (fadd b1 b2)))) /\
  (forall c k a b,
     sres2 (scale_rel k) (st (with_src c a b)) (st (with_src c (fmul k a) (fmul k b)))).

Ltac destruct_atom b :=
  lazymatch b with
  | andb ?x _ => destruct_atom x
  | orb ?x _ => destruct_atom x
  | negb ?x => destruct_atom x
  | true => fail
  | false => fail
  | _ => let G := fresh "G" in destruct b eqn:G
  end.
Ltac case_guards :=
  cbv beta iota;
  repeat (match goal with
          | |- context [if ?b then _ else _] =>
              lazymatch b with Z.eqb _ _ => fail | true => fail | false => fail | _ => destruct_atom b end
          end; cbn [andb orb negb]; cbv beta iota).
Ltac prep c :=
  destruct c as [kd ty n0 n1 n2 n3 m0 m1 bo be bc b1' b2' hic cv ha ts pr];
  cbv [with_src kind typ p0 p1 p2 p3 c0 c1 bown bextra bctrl bL1 bL2 has_ic ctrl_is_vsrc has_arg1 tp_has_src par];
  cbv beta iota.
Ltac rows := cbv [lin vecv app um uo ur uc uv mname_eqb]; ring.
Ltac close_rel :=
  cbv [sres3 sres2 add_rel scale_rel mat_eq vec_add vec_scale];
  first [ exact I
        | repeat split; intros mm r; intros; destruct mm;
          match goal with
          | H : is_vec _ = _ |- _ => cbn [is_vec] in H; try discriminate H
          end; rows ].
Ltac solve_src :=
  split; intros; match goal with cc : sctx K |- _ => prep cc end; case_guards; close_rel.

Lemma src_linear_RC : src_linear stamp_RC. Proof. unfold stamp_RC. solve_src. Qed.
Lemma src_linear_L : src_linear stamp_L. Proof. unfold stamp_L. solve_src. Qed.
Lemma src_linear_V : src_linear stamp_V. Proof. unfold stamp_V. solve_src. Qed.
Lemma src_linear_AM : src_linear stamp_AM. Proof. unfold stamp_AM. solve_src. Qed.
Lemma src_linear_I : src_linear stamp_I. Proof. unfold stamp_I. solve_src. Qed.
Lemma src_linear_VCVS : src_linear stamp_VCVS. Proof. unfold stamp_VCVS. solve_src. Qed.
Lemma src_linear_VCCS : src_linear stamp_VCCS. Proof. unfold stamp_VCCS. solve_src. Qed.
Lemma src_linear_CCCS : src_linear stamp_CCCS. Proof. unfold stamp_CCCS. solve_src. Qed.
Lemma src_linear_CCVS : src_linear stamp_CCVS. Proof. unfold stamp_CCVS. solve_src. Qed.
Lemma src_linear_K : src_linear stamp_K. Proof. unfold stamp_K. solve_src. Qed.
Lemma src_linear_TF : src_linear stamp_TF. Proof. unfold stamp_TF. solve_src. Qed.
Lemma src_linear_GY : src_linear stamp_GY. Proof. unfold stamp_GY. solve_src. Qed.
Lemma src_linear_TL : src_linear stamp_TL. Proof. unfold stamp_TL. solve_src. Qed.
Lemma src_linear_TPA : src_linear stamp_TPA. Proof. unfold stamp_TPA. solve_src. Qed.
Lemma src_linear_TPB : src_linear stamp_TPB. Proof. unfold stamp_TPB, stamp_TPA. solve_src. Qed.
Lemma src_linear_TPG : src_linear stamp_TPG. Proof. unfold stamp_TPG, stamp_TPA. solve_src. Qed.
Lemma src_linear_TPH : src_linear stamp_TPH. Proof. unfold stamp_TPH, stamp_TPA. solve_src. Qed.
Lemma src_linear_TPY : src_linear stamp_TPY. Proof. unfold stamp_TPY. solve_src. Qed.
Lemma src_linear_TPZ : src_linear stamp_TPZ. Proof. unfold stamp_TPZ, stamp_TPY. solve_src. Qed.
Lemma src_linear_TR : src_linear stamp_TR. Proof. unfold stamp_TR. solve_src. Qed.
Lemma src_linear_SPpp : src_linear stamp_SPpp. Proof. unfold stamp_SPpp. solve_src. Qed.
Lemma src_linear_SPpm : src_linear stamp_SPpm. Proof. unfold stamp_SPpm. solve_src. Qed.
Lemma src_linear_SPppp : src_linear stamp_SPppp. Proof. unfold stamp_SPppp. solve_src. Qed.
Lemma src_linear_SPpmm : src_linear stamp_SPpmm. Proof. unfold stamp_SPpmm. solve_src. Qed.
Lemma src_linear_SPppm : src_linear stamp_SPppm. Proof. unfold stamp_SPppm. solve_src. Qed.
Lemma src_linear_RV : src_linear stamp_RV. Proof. unfold stamp_RV. solve_src. Qed.
Lemma src_linear_Dummy : src_linear stamp_Dummy. Proof. unfold stamp_Dummy. solve_src. Qed.

Theorem stamp_src_linear (cl : cname) : src_linear (stamp_of cl).
Proof.
  destruct cl; cbn [stamp_of];
  first [ exact src_linear_RC | exact src_linear_L | exact src_linear_V | exact src_linear_AM | exact src_linear_I
        | exact src_linear_VCVS | exact src_linear_VCCS | exact src_linear_CCCS | exact src_linear_CCVS
        | exact src_linear_K | exact src_linear_TF | exact src_linear_GY | exact src_linear_TL
        | exact src_linear_TPA | exact src_linear_TPB | exact src_linear_TPG | exact src_linear_TPH
        | exact src_linear_TPY | exact src_linear_TPZ | exact src_linear_TR
        | exact src_linear_SPpp | exact src_linear_SPpm | exact src_linear_SPppp | exact src_linear_SPpmm
        | exact src_linear_SPppm | exact src_linear_RV | exact src_linear_Dummy ].
Qed.

(* (1) the statement asked for, per class: matrix independent of the sources,
   right-hand side additive and homogeneous, in residual form *)
Theorem stamp_matrix_indep_sources (cl : cname) (c : sctx K) (a1 b1 a2 b2 : K) :
  match stamp_of cl (with_src c a1 b1), stamp_of cl (with_src c a2 b2) with
  | SOk T1, SOk T2 => mat_eq T1 T2
  | SErr, SErr => True
  | _, _ => False
  end.
Proof.
  pose proof (proj1 (stamp_src_linear cl) c a1 b1 a2 b2) as H. unfold sres3 in H.
  destruct (stamp_of cl (with_src c a1 b1)), (stamp_of cl (with_src c a2 b2)),
           (stamp_of cl (with_src c (fadd a1 a2) (fadd b1 b2))); try contradiction; try exact I.
  destruct H as [H1 [H2 _]]. apply (mat_eq_trans K _ _ _ H1). apply mat_eq_sym. exact H2.
Qed.
Theorem stamp_res_superpose (cl : cname) (c : sctx K) (a1 b1 a2 b2 : K) T1 T2 T12 :
  stamp_of cl (with_src c a1 b1) = SOk T1 -> stamp_of cl (with_src c a2 b2) = SOk T2 ->
  stamp_of cl (with_src c (fadd a1 a2) (fadd b1 b2)) = SOk T12 ->
  forall v1 ib1 v2 ib2 r,
    node_res T12 (vadd v1 v2) (vadd ib1 ib2) r = fadd (node_res T1 v1 ib1 r) (node_res T2 v2 ib2 r) /\
    br_res T12 (vadd v1 v2) (vadd ib1 ib2) r = fadd (br_res T1 v1 ib1 r) (br_res T2 v2 ib2 r).
Proof.
  intros E1 E2 E12 v1 ib1 v2 ib2 r.
  pose proof (proj1 (stamp_src_linear cl) c a1 b1 a2 b2) as H. rewrite E1, E2, E12 in H. cbn [sres3] in H.
  split; [apply node_res_superpose | apply br_res_superpose]; exact H.
Qed.
Theorem stamp_res_scale (cl : cname) (c : sctx K) (k a b : K) T Tk :
  stamp_of cl (with_src c a b) = SOk T -> stamp_of cl (with_src c (fmul k a) (fmul k b)) = SOk Tk ->
  forall v ib r,
    node_res Tk (vscale k v) (vscale k ib) r = fmul k (node_res T v ib r) /\
    br_res Tk (vscale k v) (vscale k ib) r = fmul k (br_res T v ib r).
Proof.
  intros E Ek v ib r.
  pose proof (proj2 (stamp_src_linear cl) c k a b) as H. rewrite E, Ek in H. cbn [sres2] in H.
  split; [apply node_res_scale | apply br_res_scale]; exact H.
Qed.

(* ---- (2) netlists -------------------------------------------------------- *)
(* a source assignment gives every component position its (Isc, Voc) pair *)
Definition srcs := nat -> K * K.
Definition s_add (s1 s2 : srcs) : srcs := fun i => (fadd (fst (s1 i)) (fst (s2 i)), fadd (snd (s1 i)) (snd (s2 i))).
Definition s_scale (k : K) (s : srcs) : srcs := fun i => (fmul k (fst (s i)), fmul k (snd (s i))).
Definition s_zero : srcs := fun _ => (f0, f0).
(* keep only the sources of the positions selected by [keep] (the others are "killed") *)
Definition s_mask (keep : nat -> bool) (s : srcs) : srcs := fun i => if keep i then s i else (f0, f0).
Fixpoint set_src (N : netlist K) (i : nat) (s : srcs) : netlist K :=
  match N with
  | [] => []
  | (cl, c) :: N' => (cl, with_src c (fst (s i)) (snd (s i))) :: set_src N' (S i) s
  end.

Theorem asm_src_add (N : netlist K) (i : nat) (s1 s2 : srcs) :
  sres3 (@add_rel K) (assemble (set_src N i s1)) (assemble (set_src N i s2)) (assemble (set_src N i (s_add s1 s2))).
Proof.
  revert i. induction N as [|[cl c] N IH]; intros i; cbn [set_src assemble sres3].
  - apply add_rel_nil.
  - pose proof (proj1 (stamp_src_linear cl) c (fst (s1 i)) (snd (s1 i)) (fst (s2 i)) (snd (s2 i))) as H.
    specialize (IH (S i)). unfold s_add at 1 2. cbn [fst snd].
    destruct (stamp_of cl (with_src c (fst (s1 i)) (snd (s1 i)))) as [A1|],
             (stamp_of cl (with_src c (fst (s2 i)) (snd (s2 i)))) as [A2|],
             (stamp_of cl (with_src c (fadd (fst (s1 i)) (fst (s2 i))) (fadd (snd (s1 i)) (snd (s2 i))))) as [A12|];
      cbn [sres3] in H; try contradiction;
    destruct (assemble (set_src N (S i) s1)) as [B1|], (assemble (set_src N (S i) s2)) as [B2|],
             (assemble (set_src N (S i) (s_add s1 s2))) as [B12|];
      cbn [sres3] in IH |- *; try contradiction; try exact I.
    apply add_rel_app; assumption.
Qed.
Theorem asm_src_scale (N : netlist K) (i : nat) (k : K) (s : srcs) :
  sres2 (scale_rel k) (assemble (set_src N i s)) (assemble (set_src N i (s_scale k s))).
Proof.
  revert i. induction N as [|[cl c] N IH]; intros i; cbn [set_src assemble sres2].
  - apply scale_rel_nil.
  - pose proof (proj2 (stamp_src_linear cl) c k (fst (s i)) (snd (s i))) as H.
    specialize (IH (S i)). unfold s_scale at 1 2. cbn [fst snd].
    destruct (stamp_of cl (with_src c (fst (s i)) (snd (s i)))) as [A1|],
             (stamp_of cl (with_src c (fmul k (fst (s i))) (fmul k (snd (s i))))) as [A2|];
      cbn [sres2] in H; try contradiction;
    destruct (assemble (set_src N (S i) s)) as [B1|], (assemble (set_src N (S i) (s_scale k s))) as [B2|];
      cbn [sres2] in IH |- *; try contradiction; try exact I.
    apply scale_rel_app; assumption.
Qed.

(* whether a netlist can be assembled at all does not depend on the sources *)
Corollary asm_ok_indep (N : netlist K) (s1 s2 : srcs) T1 :
  assemble (set_src N 0 s1) = SOk T1 -> exists T2, assemble (set_src N 0 s2) = SOk T2 /\ mat_eq T1 T2.
Proof.
  intros E. pose proof (asm_src_add N 0%nat s1 s2) as H. rewrite E in H.
  destruct (assemble (set_src N 0 s2)) as [T2|]; destruct (assemble (set_src N 0 (s_add s1 s2))) as [T12|];
    cbn [sres3] in H; try contradiction.
  exists T2. split; [reflexivity|]. destruct H as [H1 [H2 _]].
  apply (mat_eq_trans K _ _ _ H1). apply mat_eq_sym. exact H2.
Qed.

Theorem mna_superposition (N : netlist K) (s1 s2 : srcs) T1 T2 T12 v1 ib1 v2 ib2 :
  assemble (set_src N 0 s1) = SOk T1 -> assemble (set_src N 0 s2) = SOk T2 ->
  assemble (set_src N 0 (s_add s1 s2)) = SOk T12 ->
  solves T1 v1 ib1 -> solves T2 v2 ib2 -> solves T12 (vadd v1 v2) (vadd ib1 ib2).
Proof.
  intros E1 E2 E12. pose proof (asm_src_add N 0%nat s1 s2) as H. rewrite E1, E2, E12 in H. cbn [sres3] in H.
  apply solves_superpose. exact H.
Qed.
Theorem mna_scaling (N : netlist K) (k : K) (s : srcs) T Tk v ib :
  assemble (set_src N 0 s) = SOk T -> assemble (set_src N 0 (s_scale k s)) = SOk Tk ->
  solves T v ib -> solves Tk (vscale k v) (vscale k ib).
Proof.
  intros E Ek. pose proof (asm_src_scale N 0%nat k s) as H. rewrite E, Ek in H. cbn [sres2] in H.
  apply solves_scale. exact H.
Qed.
Theorem mna_response_additive (N : netlist K) (s1 s2 : srcs) T1 T2 T12 nn mm v1 ib1 v2 ib2 v ib :
  assemble (set_src N 0 s1) = SOk T1 -> assemble (set_src N 0 s2) = SOk T2 ->
  assemble (set_src N 0 (s_add s1 s2)) = SOk T12 -> injective_on T12 nn mm ->
  solves T1 v1 ib1 -> solves T2 v2 ib2 -> solves T12 v ib ->
  agree nn mm v ib (vadd v1 v2) (vadd ib1 ib2).
Proof.
  intros E1 E2 E12 HI. pose proof (asm_src_add N 0%nat s1 s2) as H. rewrite E1, E2, E12 in H. cbn [sres3] in H.
  apply response_additive; assumption.
Qed.
Theorem mna_response_homogeneous (N : netlist K) (k : K) (s : srcs) T Tk nn mm v ib vk ibk :
  assemble (set_src N 0 s) = SOk T -> assemble (set_src N 0 (s_scale k s)) = SOk Tk -> injective_on Tk nn mm ->
  solves T v ib -> solves Tk vk ibk -> agree nn mm vk ibk (vscale k v) (vscale k ib).
Proof.
  intros E Ek HI. pose proof (asm_src_scale N 0%nat k s) as H. rewrite E, Ek in H. cbn [sres2] in H.
  apply response_homogeneous; assumption.
Qed.

(* ---- kill all but one group ------------------------------------------------ *)
(* every component position is assigned to one of the groups 0 .. m-1 (a group:
   one independent source, or the set of initial conditions, or any coarser
   grouping); group j alone = all other positions' sources set to zero *)
Definition group_src (g : nat -> nat) (s : srcs) (j : nat) : srcs := s_mask (fun i => Nat.eqb (g i) j) s.

Lemma vecv_set_src_sum (N : netlist K) (g : nat -> nat) (s : srcs) (m : nat) :
  (forall i, (g i < m)%nat) ->
  forall i0 T, assemble (set_src N i0 s) = SOk T ->
  exists Ts, Forall2 (fun j Tj => assemble (set_src N i0 (group_src g s j)) = SOk Tj) (seq 0 m) Ts /\
             sum_rel Ts T.
Proof.
  intros Hg. induction N as [|[cl c] N IH]; intros i0 T E; cbn [set_src assemble] in E |- *.
  - inversion E; subst T. exists (map (fun _ => []) (seq 0 m)). split.
    + induction (seq 0 m); cbn [map]; constructor; [reflexivity | assumption].
    + split.
      * induction (seq 0 m); cbn [map]; constructor; [apply mat_eq_refl | assumption].
      * intros mm r _. induction (seq 0 m); cbn [map fsum vecv] in *; [ring|]. rewrite <- IHl. cbn. ring.
  - destruct (stamp_of cl (with_src c (fst (s i0)) (snd (s i0)))) as [A|] eqn:EA; [|discriminate].
    destruct (assemble (set_src N (S i0) s)) as [B|] eqn:EB; [|discriminate].
    inversion E; subst T. destruct (IH (S i0) B eq_refl) as [Bs [HB [HBm HBv]]].
    (* the stamp of this component with its own sources zeroed *)
    pose proof (proj1 (stamp_src_linear cl) c (fst (s i0)) (snd (s i0)) f0 f0) as H0. rewrite EA in H0.
    destruct (stamp_of cl (with_src c f0 f0)) as [A0|] eqn:EA0; [|destruct (stamp_of cl _); contradiction].
    assert (HA0 : mat_eq A0 A /\ vec_zero A0).
    { pose proof (proj2 (stamp_src_linear cl) c f0 f0 f0) as Hs. rewrite EA0 in Hs.
      assert (Ez : fmul f0 f0 = (f0 : K)) by ring. rewrite Ez, EA0 in Hs. cbn [sres2] in Hs. destruct Hs as [_ Hs].
      split.
      - pose proof (stamp_matrix_indep_sources cl c f0 f0 (fst (s i0)) (snd (s i0))) as Hm. rewrite EA0, EA in Hm. exact Hm.
      - intros mm r Hm. rewrite (Hs mm r Hm). ring. }
    destruct HA0 as [HA0m HA0z].
    set (Aj := fun j : nat => if Nat.eqb (g i0) j then A else A0).
    exists (map (fun p => Aj (fst p) ++ snd p) (combine (seq 0 m) Bs)).
    assert (Len : length Bs = length (seq 0 m)) by (symmetry; eapply Forall2_length; exact HB).
    split; [|split].
    + clear -HB EA EA0 Aj. induction HB as [|j Bj js Bs' Ej HB IHB]; cbn [combine map]; constructor; [|exact IHB].
      cbn [fst snd]. unfold group_src at 1, s_mask at 1. unfold Aj.
      destruct (Nat.eqb (g i0) j); cbn [fst snd]; [rewrite EA | rewrite EA0];
      change (set_src N (S i0) (s_mask (fun i => Nat.eqb (g i) j) s)) with (set_src N (S i0) (group_src g s j));
      rewrite Ej; reflexivity.
    + clear -HBm HA0m Len Aj. revert Bs HBm Len. induction (seq 0 m) as [|j js IHj]; intros Bs HBm Len; cbn [combine map]; [constructor|].
      destruct Bs as [|Bj Bs']; [discriminate Len|]. inversion HBm; subst. cbn [combine map]. constructor.
      * cbn [fst snd]. apply mat_eq_app; [|assumption]. unfold Aj. destruct (Nat.eqb (g i0) j); [apply mat_eq_refl | exact HA0m].
      * apply IHj; [assumption | cbn in Len; lia].
    + intros mm r Hm. rewrite vecv_app, (HBv mm r Hm).
      (* exactly one group holds this component's own right-hand side *)
      assert (Hone : forall js Bs', length Bs' = length js -> NoDup js ->
                 fsum (map (fun Ti => vecv Ti mm r) (map (fun p => Aj (fst p) ++ snd p) (combine js Bs'))) =
                 fadd (if existsb (Nat.eqb (g i0)) js then vecv A mm r else f0) (fsum (map (fun Ti => vecv Ti mm r) Bs'))).
      { clear -HA0z Hm Aj. induction js as [|j js IHj]; intros Bs' Len ND; destruct Bs' as [|Bj Bs']; try discriminate Len;
          cbn [combine map fsum existsb]; [ring|].
        inversion ND as [|? ? Hnin ND']; subst. rewrite IHj by (try assumption; cbn in Len; lia).
        cbn [fst snd]. rewrite vecv_app. unfold Aj at 1.
        destruct (Nat.eqb (g i0) j) eqn:Ej; cbn [orb].
        - assert (existsb (Nat.eqb (g i0)) js = false) as ->.
          { apply Nat.eqb_eq in Ej. subst j. destruct (existsb (Nat.eqb (g i0)) js) eqn:Ex; [|reflexivity].
            apply existsb_exists in Ex. destruct Ex as [y [Hy Ey]]. apply Nat.eqb_eq in Ey. subst y. contradiction. }
          ring.
        - rewrite (HA0z mm r Hm). ring. }
      rewrite (Hone (seq 0 m) Bs Len (seq_NoDup m 0)).
      assert (existsb (Nat.eqb (g i0)) (seq 0 m) = true) as ->.
      { apply existsb_exists. exists (g i0). split; [apply in_seq; specialize (Hg i0); lia | apply Nat.eqb_refl]. }
      ring.
Qed.

(* the responses to the groups acting alone sum to a solution of the full
   system, and to THE full response when the system is well-posed *)
Theorem mna_kill_sum (N : netlist K) (g : nat -> nat) (s : srcs) (m : nat) T nn mm
    (xs : list ((Z -> K) * (Z -> K))) v ib :
  (forall i, (g i < m)%nat) -> assemble (set_src N 0 s) = SOk T ->
  Forall2 (fun j x => exists Tj, assemble (set_src N 0 (group_src g s j)) = SOk Tj /\ solves Tj (fst x) (snd x)) (seq 0 m) xs ->
  solves T (vsum (map fst xs)) (vsum (map snd xs)) /\
  (injective_on T nn mm -> solves T v ib -> agree nn mm v ib (vsum (map fst xs)) (vsum (map snd xs))).
Proof.
  intros Hg E HS. destruct (vecv_set_src_sum N g s m Hg 0%nat T E) as [Ts [HT HR]].
  assert (F : Forall2 (fun Ti x => solves Ti (fst x) (snd x)) Ts xs).
  { clear -HT HS. revert xs HS. induction HT as [|j Tj js Ts' Ej HT IH]; intros xs HS; inversion HS; subst; constructor.
    - destruct H1 as [Tj' [Ej' Hs]]. rewrite Ej in Ej'. inversion Ej'; subst. exact Hs.
    - apply IH. assumption. }
  split; [apply (solves_sum K Ts); assumption|].
  intros HI S. apply (response_sum K Ts T xs); assumption.
Qed.

End C03.

Print Assumptions stamp_src_linear.
Print Assumptions stamp_matrix_indep_sources.
Print Assumptions stamp_res_superpose.
Print Assumptions stamp_res_scale.
Print Assumptions asm_src_add.
Print Assumptions asm_src_scale.
Print Assumptions mna_superposition.
Print Assumptions mna_scaling.
Print Assumptions mna_response_additive.
Print Assumptions mna_response_homogeneous.
Print Assumptions mna_kill_sum.
