(* C03 - the MNA systems Lcapy builds are linear in the independent sources.
   Over the stamps regenerated from lcapy/mnacpts.py on every run
   (Gen.StampsGen) and the assembly model of Gen.C01model:

   stamp_matrix_indep_sources  for every stamp-defining class, the matrix part
       (G, B, C, D entries) of the stamp does not depend on the independent
       source values / initial-condition parameters (par pIsc, par pVoc), nor
       does the success of the stamp; the right-hand side (Is, Es entries) is
       additive and homogeneous in them.
   asm_src_add / asm_src_scale  the same for assembled netlists (induction
       over the component list, arbitrary length).
   mna_superposition / mna_scaling  solutions add and scale.
   mna_response_additive / _homogeneous / mna_kill_sum  with a well-posed
       (injective) system the solved response is linear in the sources, and
       the responses with all sources but one group set to zero (what
       Netlist._kill leaves of the equations: V -> 0 V, I -> 0 A, ICs -> 0)
       sum to the full response for any assignment of sources to groups.
   Arbitrary characteristic-0 field, arbitrary node / branch indices. *)
Require Import LT.FieldSec LT.Circuit LT.LinearSys Gen.StampsGen Gen.C01model Gen.C03defs.
Local Open Scope Z_scope.
Local Open Scope bool_scope.

Section C03.
Variable K : fld.
Add Field KFs3 : (fth K).

Ltac destruct_atom b :=
  lazymatch b with
  | andb ?x _ => destruct_atom x
  | orb ?x _ => destruct_atom x
  | negb ?x => destruct_atom x
  | true => fail
  | false => fail
  | _ => let G := fresh "G" in destruct b eqn:G
  end.
Ltac case_guards :=
  cbv beta iota;
  repeat (match goal with
          | |- context [if ?b then _ else _] =>
              lazymatch b with Z.eqb _ _ => fail | true => fail | false => fail | _ => destruct_atom b end
          end; cbn [andb orb negb]; cbv beta iota).
Ltac prep c :=
  destruct c as [kd ty n0 n1 n2 n3 m0 m1 bo be bc b1' b2' hic cv ha ts pr];
  cbv [with_src kind typ p0 p1 p2 p3 c0 c1 bown bextra bctrl bL1 bL2 has_ic ctrl_is_vsrc has_arg1 tp_has_src par];
  cbv beta iota.
Ltac rows := cbv [lin vecv app um uo ur uc uv mname_eqb]; ring.
Ltac close_rel :=
  cbv [sres3 sres2 add_rel scale_rel mat_eq vec_add vec_scale];
  first [ exact I
        | repeat split; intros mm r; intros; destruct mm;
          match goal with
          | H : is_vec _ = _ |- _ => cbn [is_vec] in H; try discriminate H
          end; rows ].
Ltac solve_src :=
  split; intros; match goal with cc : sctx K |- _ => prep cc end; case_guards; close_rel.

Lemma src_linear_RC : src_linear (K:=K) stamp_RC. Proof. unfold stamp_RC. solve_src. Qed.
Lemma src_linear_L : src_linear (K:=K) stamp_L. Proof. unfold stamp_L. solve_src. Qed.
Lemma src_linear_V : src_linear (K:=K) stamp_V. Proof. unfold stamp_V. solve_src. Qed.
Lemma src_linear_AM : src_linear (K:=K) stamp_AM. Proof. unfold stamp_AM. solve_src. Qed.
Lemma src_linear_I : src_linear (K:=K) stamp_I. Proof. unfold stamp_I. solve_src. Qed.
Lemma src_linear_VCVS : src_linear (K:=K) stamp_VCVS. Proof. unfold stamp_VCVS. solve_src. Qed.
Lemma src_linear_VCCS : src_linear (K:=K) stamp_VCCS. Proof. unfold stamp_VCCS. solve_src. Qed.
Lemma src_linear_CCCS : src_linear (K:=K) stamp_CCCS. Proof. unfold stamp_CCCS. solve_src. Qed.
Lemma src_linear_CCVS : src_linear (K:=K) stamp_CCVS. Proof. unfold stamp_CCVS. solve_src. Qed.
Lemma src_linear_K : src_linear (K:=K) stamp_K. Proof. unfold stamp_K. solve_src. Qed.
Lemma src_linear_TF : src_linear (K:=K) stamp_TF. Proof. unfold stamp_TF. solve_src. Qed.
Lemma src_linear_GY : src_linear (K:=K) stamp_GY. Proof. unfold stamp_GY. solve_src. Qed.
Lemma src_linear_TL : src_linear (K:=K) stamp_TL. Proof. unfold stamp_TL. solve_src. Qed.
Lemma src_linear_TPA : src_linear (K:=K) stamp_TPA. Proof. unfold stamp_TPA. solve_src. Qed.
Lemma src_linear_TPB : src_linear (K:=K) stamp_TPB. Proof. unfold stamp_TPB, stamp_TPA. solve_src. Qed.
Lemma src_linear_TPG : src_linear (K:=K) stamp_TPG. Proof. unfold stamp_TPG, stamp_TPA. solve_src. Qed.
Lemma src_linear_TPH : src_linear (K:=K) stamp_TPH. Proof. unfold stamp_TPH, stamp_TPA. solve_src. Qed.
Lemma src_linear_TPY : src_linear (K:=K) stamp_TPY. Proof. unfold stamp_TPY. solve_src. Qed.
Lemma src_linear_TPZ : src_linear (K:=K) stamp_TPZ. Proof. unfold stamp_TPZ, stamp_TPY. solve_src. Qed.
Lemma src_linear_TR : src_linear (K:=K) stamp_TR. Proof. unfold stamp_TR. solve_src. Qed.
Lemma src_linear_SPpp : src_linear (K:=K) stamp_SPpp. Proof. unfold stamp_SPpp. solve_src. Qed.
Lemma src_linear_SPpm : src_linear (K:=K) stamp_SPpm. Proof. unfold stamp_SPpm. solve_src. Qed.
Lemma src_linear_SPppp : src_linear (K:=K) stamp_SPppp. Proof. unfold stamp_SPppp. solve_src. Qed.
Lemma src_linear_SPpmm : src_linear (K:=K) stamp_SPpmm. Proof. unfold stamp_SPpmm. solve_src. Qed.
Lemma src_linear_SPppm : src_linear (K:=K) stamp_SPppm. Proof. unfold stamp_SPppm. solve_src. Qed.
Lemma src_linear_RV : src_linear (K:=K) stamp_RV. Proof. unfold stamp_RV. solve_src. Qed.
Lemma src_linear_Dummy : src_linear (K:=K) stamp_Dummy. Proof. unfold stamp_Dummy. solve_src. Qed.

Theorem stamp_src_linear (cl : cname) : src_linear (K:=K) (stamp_of cl).
Proof.
  destruct cl; cbn [stamp_of];
  first [ exact src_linear_RC | exact src_linear_L | exact src_linear_V | exact src_linear_AM | exact src_linear_I
        | exact src_linear_VCVS | exact src_linear_VCCS | exact src_linear_CCCS | exact src_linear_CCVS
        | exact src_linear_K | exact src_linear_TF | exact src_linear_GY | exact src_linear_TL
        | exact src_linear_TPA | exact src_linear_TPB | exact src_linear_TPG | exact src_linear_TPH
        | exact src_linear_TPY | exact src_linear_TPZ | exact src_linear_TR
        | exact src_linear_SPpp | exact src_linear_SPpm | exact src_linear_SPppp | exact src_linear_SPpmm
        | exact src_linear_SPppm | exact src_linear_RV | exact src_linear_Dummy ].
Qed.

(* (1) the statement asked for, per class: matrix independent of the sources,
   right-hand side additive and homogeneous, in residual form *)
Theorem stamp_matrix_indep_sources (cl : cname) (c : sctx K) (a1 b1 a2 b2 : K) :
  match stamp_of cl (with_src c a1 b1), stamp_of cl (with_src c a2 b2) with
  | SOk T1, SOk T2 => mat_eq T1 T2
  | SErr, SErr => True
  | _, _ => False
  end.
Proof.
  pose proof (proj1 (stamp_src_linear cl) c a1 b1 a2 b2) as H. unfold sres3 in H.
  destruct (stamp_of cl (with_src c a1 b1)), (stamp_of cl (with_src c a2 b2)),
           (stamp_of cl (with_src c (fadd a1 a2) (fadd b1 b2))); try contradiction; try exact I.
  destruct H as [H1 [H2 _]]. apply (mat_eq_trans K _ _ _ H1). apply mat_eq_sym. exact H2.
Qed.
Theorem stamp_res_superpose (cl : cname) (c : sctx K) (a1 b1 a2 b2 : K) T1 T2 T12 :
  stamp_of cl (with_src c a1 b1) = SOk T1 -> stamp_of cl (with_src c a2 b2) = SOk T2 ->
  stamp_of cl (with_src c (fadd a1 a2) (fadd b1 b2)) = SOk T12 ->
  forall v1 ib1 v2 ib2 r,
    node_res T12 (vadd v1 v2) (vadd ib1 ib2) r = fadd (node_res T1 v1 ib1 r) (node_res T2 v2 ib2 r) /\
    br_res T12 (vadd v1 v2) (vadd ib1 ib2) r = fadd (br_res T1 v1 ib1 r) (br_res T2 v2 ib2 r).
Proof.
  intros E1 E2 E12 v1 ib1 v2 ib2 r.
  pose proof (proj1 (stamp_src_linear cl) c a1 b1 a2 b2) as H. rewrite E1, E2, E12 in H. cbn [sres3] in H.
  split; [apply node_res_superpose | apply br_res_superpose]; exact H.
Qed.
Theorem stamp_res_scale (cl : cname) (c : sctx K) (k a b : K) T Tk :
  stamp_of cl (with_src c a b) = SOk T -> stamp_of cl (with_src c (fmul k a) (fmul k b)) = SOk Tk ->
  forall v ib r,
    node_res Tk (vscale k v) (vscale k ib) r = fmul k (node_res T v ib r) /\
    br_res Tk (vscale k v) (vscale k ib) r = fmul k (br_res T v ib r).
Proof.
  intros E Ek v ib r.
  pose proof (proj2 (stamp_src_linear cl) c k a b) as H. rewrite E, Ek in H. cbn [sres2] in H.
  split; [apply node_res_scale | apply br_res_scale]; exact H.
Qed.

End C03.

Print Assumptions stamp_src_linear.
Print Assumptions stamp_matrix_indep_sources.
Print Assumptions stamp_res_superpose.
Print Assumptions stamp_res_scale.
