(* C15 - from_transfer_function_coeffs sends each form keyword to its constructor
   with the coefficient lists in the order (b, a) (table regenerated from the
   source into Gen.FormulGen). *)
Require Import Gen.FormulGen.
From Coq Require Import List String.
Import ListNotations.
Local Open Scope string_scope.
Lemma dispatch_ok : dispatch_table =
  [("CCF", "from_ba_CCF", ["b"; "a"]); ("OCF", "from_ba_OCF", ["b"; "a"]); ("DCF", "from_ba_DCF", ["b"; "a"])]
  /\ tfc_params = ["b"; "a"; "form"].
Proof. split; reflexivity. Qed.
Print Assumptions dispatch_ok.
