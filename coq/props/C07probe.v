(* C07 - the netlist probes of NetlistOpsMixin (Aparams, Bparams, Zparams, twoport): specification of a
   measurement on a two-port relation, the text-book extraction theorems, and the measurements that are
   NOT the source vector of a model (refutation witnesses for NetlistOpsMixin.twoport).

   A probe applies a unit test source to one port (or none: the sources of the network stay alive),
   terminates the other port by an open circuit (reading Voc) or by a short circuit (reading Isc), and
   reads one quantity.  Lcapy conventions (fixed by the correspondence evaluation on every run):
     V? Np Nm {DiracDelta(t)}  makes  V(Np) - V(Nm) = 1  in the s-domain;
     I? Np Nm {DiracDelta(t)}  injects 1 into Np (I1 = 1: the port current flows INTO the + terminal);
     Voc(Np, Nm) = V(Np) - V(Nm);   Isc(Np, Nm) = current from Np to Nm through the short = - I(port).
   The probe formulas themselves are regenerated from lcapy/netlistopsmixin.py (tools/tr_probes.py ->
   Gen/ProbesGen.v); the theorems about the regenerated formulas are generated next to them and use the
   lemmas of this file. *)
Require Import LT.FieldSec LT.TwoPort LT.Sections.
Local Open Scope F_scope.

Inductive drive := NoDrive | DV1 | DI1 | DV2 | DI2.
Inductive quant := QVoc1 | QVoc2 | QIsc1 | QIsc2.

Section Probe.
Variable K : fld.
Add Field KFprobe : (fth K).
Implicit Types v : port K.

(* what the test source and the termination impose on the port state *)
Definition port_cond (d : drive) (q : quant) v : Prop :=
  match d, q with
  | DV1, QVoc1 | DV1, QVoc2 => V1 v = 1 /\ I2 v = 0
  | DV1, QIsc2 => V1 v = 1 /\ V2 v = 0
  | DI1, QVoc1 | DI1, QVoc2 => I1 v = 1 /\ I2 v = 0
  | DI1, QIsc2 => I1 v = 1 /\ V2 v = 0
  | DV2, QVoc1 | DV2, QVoc2 => V2 v = 1 /\ I1 v = 0
  | DV2, QIsc1 => V2 v = 1 /\ V1 v = 0
  | DI2, QVoc1 | DI2, QVoc2 => I2 v = 1 /\ I1 v = 0
  | DI2, QIsc1 => I2 v = 1 /\ V1 v = 0
  | NoDrive, QVoc1 | NoDrive, QVoc2 => I1 v = 0 /\ I2 v = 0
  | NoDrive, QIsc1 => V1 v = 0 /\ I2 v = 0
  | NoDrive, QIsc2 => I1 v = 0 /\ V2 v = 0
  | _, _ => False            (* a short across the driven port is not a measurement *)
  end.
Definition quant_val (q : quant) v : K :=
  match q with QVoc1 => V1 v | QVoc2 => V2 v | QIsc1 => - I1 v | QIsc2 => - I2 v end.
(* the analysis has a solution, and every solution reads x *)
Definition is_meas (R : port K -> Prop) (d : drive) (q : quant) (x : K) : Prop :=
  (exists v, R v /\ port_cond d q v) /\ forall v, R v -> port_cond d q v -> quant_val q v = x.
Definition meas := drive -> quant -> K.

Lemma div_from_mul (a n d : K) : a * d = n -> n <> 0 -> d <> 0 /\ a = n / d.
Proof.
  intros E Hn. assert (Hd : d <> 0) by (intro Z; apply Hn; rewrite <- E, Z; ring).
  split; [exact Hd|]. rewrite <- E. field. exact Hd.
Qed.
Lemma one_nz' : (1 : K) <> 0. Proof. apply one_nz. Qed.

(* ---------------- A parameters: drive port 1, read port 2 ------------------------------------------ *)
Definition meas_A_ok R (m : meas) : Prop :=
  is_meas R DV1 QVoc1 (m DV1 QVoc1) /\ is_meas R DV1 QVoc2 (m DV1 QVoc2) /\ is_meas R DV1 QIsc2 (m DV1 QIsc2) /\
  is_meas R DI1 QVoc2 (m DI1 QVoc2) /\ is_meas R DI1 QIsc2 (m DI1 QIsc2).
Definition spec_A (m : meas) : mat K :=
  Mat (1 / m DV1 QVoc2) (1 / m DV1 QIsc2) (1 / m DI1 QVoc2) (1 / m DI1 QIsc2).
Definition facts_A (m : meas) : Prop :=
  m DV1 QVoc1 = 1 /\ m DV1 QVoc2 <> 0 /\ m DV1 QIsc2 <> 0 /\ m DI1 QVoc2 <> 0 /\ m DI1 QIsc2 <> 0.
Theorem extract_A_spec (Z0 : K) R (M : mat K) (m : meas) :
  (forall v, R v <-> rel_A Z0 M v) -> meas_A_ok R m -> facts_A m /\ spec_A m = M.
Proof.
  intros HR (M0 & M1 & M2 & M3 & M4). destruct M as [a b c d]. unfold facts_A, spec_A.
  destruct M0 as [[v0 [R0 [C0 C0']]] U0]. pose proof (U0 v0 R0 (conj C0 C0')) as E0. cbn in E0.
  destruct M1 as [[v1 [R1 [C1 C1']]] U1]. pose proof (U1 v1 R1 (conj C1 C1')) as E1. apply HR in R1. destruct R1 as [A1 _]. cbn in *.
  destruct M2 as [[v2 [R2 [C2 C2']]] U2]. pose proof (U2 v2 R2 (conj C2 C2')) as E2. apply HR in R2. destruct R2 as [A2 _]. cbn in *.
  destruct M3 as [[v3 [R3 [C3 C3']]] U3]. pose proof (U3 v3 R3 (conj C3 C3')) as E3. apply HR in R3. destruct R3 as [_ A3]. cbn in *.
  destruct M4 as [[v4 [R4 [C4 C4']]] U4]. pose proof (U4 v4 R4 (conj C4 C4')) as E4. apply HR in R4. destruct R4 as [_ A4]. cbn in *.
  assert (Ha : a * m DV1 QVoc2 = 1) by (rewrite <- E1, <- C1, A1, C1'; ring).
  assert (Hb : b * m DV1 QIsc2 = 1) by (rewrite <- E2, <- C2, A2, C2'; ring).
  assert (Hc : c * m DI1 QVoc2 = 1) by (rewrite <- E3, <- C3, A3, C3'; ring).
  assert (Hd : d * m DI1 QIsc2 = 1) by (rewrite <- E4, <- C4, A4, C4'; ring).
  destruct (div_from_mul _ _ _ Ha one_nz') as [Na Ea]. destruct (div_from_mul _ _ _ Hb one_nz') as [Nb Eb].
  destruct (div_from_mul _ _ _ Hc one_nz') as [Nc Ec]. destruct (div_from_mul _ _ _ Hd one_nz') as [Nd Ed].
  repeat split; try assumption; [rewrite <- E0; exact C0 | apply mat_eq; symmetry; assumption].
Qed.

(* ---------------- B parameters: drive port 2, read port 1 ------------------------------------------ *)
Definition meas_B_ok R (m : meas) : Prop :=
  is_meas R DV2 QVoc2 (m DV2 QVoc2) /\ is_meas R DV2 QVoc1 (m DV2 QVoc1) /\ is_meas R DV2 QIsc1 (m DV2 QIsc1) /\
  is_meas R DI2 QVoc1 (m DI2 QVoc1) /\ is_meas R DI2 QIsc1 (m DI2 QIsc1).
(* [V2; -I2] = B [V1; I1]:  B11 = V2/V1 at I1 = 0,  B12 = V2/I1 at V1 = 0 (I1 = -Isc1),
   B21 = -I2/V1 at I1 = 0,  B22 = -I2/I1 at V1 = 0 *)
Definition spec_B (m : meas) : mat K :=
  Mat (1 / m DV2 QVoc1) (- (1 / m DV2 QIsc1)) (- (1 / m DI2 QVoc1)) (1 / m DI2 QIsc1).
Definition facts_B (m : meas) : Prop :=
  m DV2 QVoc2 = 1 /\ m DV2 QVoc1 <> 0 /\ m DV2 QIsc1 <> 0 /\ m DI2 QVoc1 <> 0 /\ m DI2 QIsc1 <> 0.
Theorem extract_B_spec (Z0 : K) R (M : mat K) (m : meas) :
  (forall v, R v <-> rel_B Z0 M v) -> meas_B_ok R m -> facts_B m /\ spec_B m = M.
Proof.
  intros HR (M0 & M1 & M2 & M3 & M4). destruct M as [a b c d]. unfold facts_B, spec_B.
  destruct M0 as [[v0 [R0 [C0 C0']]] U0]. pose proof (U0 v0 R0 (conj C0 C0')) as E0. cbn in E0.
  destruct M1 as [[v1 [R1 [C1 C1']]] U1]. pose proof (U1 v1 R1 (conj C1 C1')) as E1. apply HR in R1. destruct R1 as [A1 _]. cbn in *.
  destruct M2 as [[v2 [R2 [C2 C2']]] U2]. pose proof (U2 v2 R2 (conj C2 C2')) as E2. apply HR in R2. destruct R2 as [A2 _]. cbn in *.
  destruct M3 as [[v3 [R3 [C3 C3']]] U3]. pose proof (U3 v3 R3 (conj C3 C3')) as E3. apply HR in R3. destruct R3 as [_ A3]. cbn in *.
  destruct M4 as [[v4 [R4 [C4 C4']]] U4]. pose proof (U4 v4 R4 (conj C4 C4')) as E4. apply HR in R4. destruct R4 as [_ A4]. cbn in *.
  assert (Ha : a * m DV2 QVoc1 = 1) by (rewrite <- E1, <- C1, A1, C1'; ring).
  assert (Hb : (- b) * m DV2 QIsc1 = 1) by (rewrite <- E2, <- C2, A2, C2'; ring).
  assert (Hc : (- c) * m DI2 QVoc1 = 1) by (rewrite <- E3; transitivity (- - I2 v3); [rewrite A3, C3'; ring | rewrite C3; ring]).
  assert (Hd : d * m DI2 QIsc1 = 1) by (rewrite <- E4; transitivity (- - I2 v4); [rewrite A4, C4'; ring | rewrite C4; ring]).
  destruct (div_from_mul _ _ _ Ha one_nz') as [Na Ea]. destruct (div_from_mul _ _ _ Hb one_nz') as [Nb Eb].
  destruct (div_from_mul _ _ _ Hc one_nz') as [Nc Ec]. destruct (div_from_mul _ _ _ Hd one_nz') as [Nd Ed].
  repeat split; try assumption; [rewrite <- E0; exact C0 |].
  apply mat_eq; [symmetry; exact Ea | rewrite <- Eb; ring | rewrite <- Ec; ring | symmetry; exact Ed].
Qed.

(* ---------------- Z parameters: unit current into one port, the other open ---------------------------- *)
Definition meas_Z_ok R (m : meas) : Prop :=
  is_meas R DI1 QVoc1 (m DI1 QVoc1) /\ is_meas R DI1 QVoc2 (m DI1 QVoc2) /\
  is_meas R DI2 QVoc1 (m DI2 QVoc1) /\ is_meas R DI2 QVoc2 (m DI2 QVoc2).
Definition spec_Z (m : meas) : mat K := Mat (m DI1 QVoc1) (m DI2 QVoc1) (m DI1 QVoc2) (m DI2 QVoc2).
Theorem extract_Z_spec (Z0 : K) R (M : mat K) (m : meas) :
  (forall v, R v <-> rel_Z Z0 M v) -> meas_Z_ok R m -> spec_Z m = M.
Proof.
  intros HR (M1 & M2 & M3 & M4). destruct M as [a b c d]. unfold spec_Z.
  destruct M1 as [[v1 [R1 [C1 C1']]] U1]. pose proof (U1 v1 R1 (conj C1 C1')) as E1. apply HR in R1. destruct R1 as [A1 _]. cbn in *.
  destruct M2 as [[v2 [R2 [C2 C2']]] U2]. pose proof (U2 v2 R2 (conj C2 C2')) as E2. apply HR in R2. destruct R2 as [_ A2]. cbn in *.
  destruct M3 as [[v3 [R3 [C3 C3']]] U3]. pose proof (U3 v3 R3 (conj C3 C3')) as E3. apply HR in R3. destruct R3 as [A3 _]. cbn in *.
  destruct M4 as [[v4 [R4 [C4 C4']]] U4]. pose proof (U4 v4 R4 (conj C4 C4')) as E4. apply HR in R4. destruct R4 as [_ A4]. cbn in *.
  apply mat_eq; [rewrite <- E1, A1, C1, C1' | rewrite <- E3, A3, C3, C3' | rewrite <- E2, A2, C2, C2' | rewrite <- E4, A4, C4, C4']; ring.
Qed.

(* ---------------- source vector of the Z model: both ports open, sources alive ------------------------- *)
Theorem src_Z_spec R (M : mat K) (s1 s2 x1 x2 : K) :
  (forall v, R v <-> relZs M s1 s2 v) -> is_meas R NoDrive QVoc1 x1 -> is_meas R NoDrive QVoc2 x2 -> x1 = s1 /\ x2 = s2.
Proof.
  intros HR [[v1 [R1 [C1 C1']]] U1] [[v2 [R2 [C2 C2']]] U2]. destruct M as [a b c d].
  pose proof (U1 v1 R1 (conj C1 C1')) as E1. pose proof (U2 v2 R2 (conj C2 C2')) as E2.
  apply HR in R1. apply HR in R2. destruct R1 as [A1 _], R2 as [_ A2]. cbn in *.
  split; [rewrite <- E1, A1, C1, C1' | rewrite <- E2, A2, C2, C2']; ring.
Qed.

(* ---------------- measurements that are NOT the source vector of the model ------------------------------- *)
Lemma eq_div (a n d : K) : d <> 0 -> a * d = n -> a = n / d.
Proof. intros Hd E. rewrite <- E. field. exact Hd. Qed.
Ltac absdiv1 n d := let w := fresh "w" in let Ew := fresh "Ew" in let Hw := fresh "Hw" in
   remember (fdiv n d) as w eqn:Ew; assert (Hw : fmul w d = n) by (rewrite Ew; field; assumption); clear Ew.
Ltac absdiv := repeat match goal with
  | H : context [fdiv ?n ?d] |- _ => absdiv1 n d
  | |- context [fdiv ?n ?d] => absdiv1 n d end.
Ltac lin := cbn in *; first [ ring | knsatz | (absdiv; knsatz) ].
(* the network used as the witness: a shunt one-port with Norton data (y, j) / a series one-port (z, e) *)
Lemma shunt_open_meas (y j : K) : y <> 0 ->
  is_meas (shunt_src_rel y j) NoDrive QVoc1 (j / y) /\ is_meas (shunt_src_rel y j) NoDrive QVoc2 (j / y).
Proof.
  intros Hy. assert (S : shunt_src_rel y j (Port (j / y) 0 (j / y) 0)) by (split; cbn; [reflexivity | field; exact Hy]).
  split; (split; [exists (Port (j / y) 0 (j / y) 0); split; [exact S | split; reflexivity] |]);
    intros [v1 i1 v2 i2] [A B] [C D]; cbn in *; apply eq_div; try exact Hy; knsatz.
Qed.
Lemma div_nz' (j y : K) : y <> 0 -> j <> 0 -> j / y <> 0.
Proof. intros. apply div_nz; assumption. Qed.

(* twoport(model='B') reads V2b as Voc(port 2) with port 1 open; the B-model source V2b of a shunt branch is 0 *)
Theorem twoport_src_B_refuted (y j : K) : y <> 0 -> j <> 0 ->
  exists R M s1 s2 x, (forall v, R v <-> relBs (TPM M s1 s2) v) /\ is_meas R NoDrive QVoc2 x /\ x <> s1.
Proof.
  intros Hy Hj. exists (shunt_src_rel y j), (Bsh y), 0, j, (j / y). split; [|split].
  - intros [v1 i1 v2 i2]. unfold shunt_src_rel, relBs, Bsh. split; intros [A B]; split; lin.
  - apply shunt_open_meas; exact Hy.
  - apply div_nz'; assumption.
Qed.
(* twoport(model='A') reads V1a as Voc(port 1) with port 2 open; V1a of a shunt branch is 0 *)
Theorem twoport_src_A_refuted (y j : K) : y <> 0 -> j <> 0 ->
  exists R M s1 s2 x, (forall v, R v <-> relAs M s1 s2 v) /\ is_meas R NoDrive QVoc1 x /\ x <> s1.
Proof.
  intros Hy Hj. exists (shunt_src_rel y j), (Mat 1 0 y 1), 0, (- j), (j / y). split; [|split].
  - intros [v1 i1 v2 i2]. unfold shunt_src_rel, relAs. split; intros [A B]; split; lin.
  - apply shunt_open_meas; exact Hy.
  - apply div_nz'; assumption.
Qed.
(* twoport(model='H') reads V1h as Voc(port 1) with port 2 OPEN (V1h is defined with port 2 shorted); V1h of a shunt branch is 0 *)
Theorem twoport_src_H_refuted (y j : K) : y <> 0 -> j <> 0 ->
  exists R M s1 s2 x, (forall v, R v <-> relHs M s1 s2 v) /\ is_meas R NoDrive QVoc1 x /\ x <> s1.
Proof.
  intros Hy Hj. exists (shunt_src_rel y j), (Mat 0 1 (- (1)) y), 0, (- j), (j / y). split; [|split].
  - intros [v1 i1 v2 i2]. unfold shunt_src_rel, relHs. split; intros [A B]; split; lin.
  - apply shunt_open_meas; exact Hy.
  - apply div_nz'; assumption.
Qed.
(* twoport(model='G') reads V2g as Voc(port 2) with port 1 OPEN (V2g is defined with port 1 shorted); V2g of a shunt branch is 0 *)
Theorem twoport_src_G_refuted (y j : K) : y <> 0 -> j <> 0 ->
  exists R M s1 s2 x, (forall v, R v <-> relGs M s1 s2 v) /\ is_meas R NoDrive QVoc2 x /\ x <> s2.
Proof.
  intros Hy Hj. exists (shunt_src_rel y j), (Mat y (- (1)) 1 0), (- j), 0, (j / y). split; [|split].
  - intros [v1 i1 v2 i2]. unfold shunt_src_rel, relGs. split; intros [A B]; split; lin.
  - apply shunt_open_meas; exact Hy.
  - apply div_nz'; assumption.
Qed.
(* twoport(model='Y') reads I1y as Isc(port 1) with port 2 OPEN (I1y is defined with both ports shorted, and is the
   current INTO the port): a series branch (z, e) has I1y = - e / z, the reading is 0 *)
Theorem twoport_src_Y_refuted (z e : K) : z <> 0 -> e <> 0 ->
  exists R M s1 s2 x, (forall v, R v <-> relYs M s1 s2 v) /\ is_meas R NoDrive QIsc1 x /\ x <> s1.
Proof.
  intros Hz He. exists (series_src_rel z e), (Mat (1 / z) (- (1 / z)) (- (1 / z)) (1 / z)), (- (e / z)), (e / z), 0. split; [|split].
  - intros [v1 i1 v2 i2]. unfold series_src_rel, relYs. split; intros [A B]; split; lin.
  - split.
    + exists (Port 0 0 (- e) 0). split; [split; cbn; ring | split; reflexivity].
    + intros [v1 i1 v2 i2] [A B] [C D]. cbn in *. rewrite B, D. ring.
  - intro E. apply (div_nz' e z Hz He). transitivity (- - (e / z)); [ring | rewrite <- E; ring].
Qed.

(* ---------------- the readings of a two-port given by its B model with sources (executable; used by the
   correspondence evaluation: the regenerated probe formulas applied to these readings must reproduce what the
   real Aparams ... twoport() return on the emitted netlist).  Test sources act on the source-free network. *)
Definition meas_of_Bs (t : tpm K) : meas := fun d q =>
  let b11 := m11 (tB t) in let b12 := m12 (tB t) in let b21 := m21 (tB t) in let b22 := m22 (tB t) in
  let det := b11 * b22 - b12 * b21 in let vb := tV2b t in let ib := tI2b t in
  match d, q with
  | DV1, QVoc1 => 1 | DV1, QVoc2 => det / b22 | DV1, QIsc2 => - (det / b12)
  | DI1, QVoc1 => - (b22 / b21) | DI1, QVoc2 => - (det / b21) | DI1, QIsc2 => det / b11
  | DV2, QVoc2 => 1 | DV2, QVoc1 => 1 / b11 | DV2, QIsc1 => - (1 / b12)
  | DI2, QVoc1 => - (1 / b21) | DI2, QVoc2 => - (b11 / b21) | DI2, QIsc1 => 1 / b22
  | NoDrive, QVoc1 => - (ib / b21) | NoDrive, QVoc2 => vb - b11 * (ib / b21)
  | NoDrive, QIsc1 => ib / b22 | NoDrive, QIsc2 => ib - b21 * (vb / b11)
  | _, _ => 0
  end.
(* the readings are right wherever the four entries of B do not vanish (each reading needs one of them) *)
Ltac meas_tac P :=
  split; [ exists P; split; [ split; cbn; field; repeat split; assumption | cbn; split; reflexivity ]
         | let v1 := fresh "v1" in let i1 := fresh "i1" in let v2 := fresh "v2" in let i2 := fresh "i2" in
           intros [v1 i1 v2 i2] [? ?] [? ?]; cbn in *; absdiv; first [ knsatz | wit_all; knsatz ] ].
Theorem meas_of_Bs_driven_ok (Z0 a b c d : K) (dr : drive) (q : quant) :
  a <> 0 -> b <> 0 -> c <> 0 -> d <> 0 -> dr <> NoDrive ->
  (exists v, port_cond dr q v) (* the pair is a measurement: no short across the driven port *) -> is_meas (rel_B Z0 (Mat a b c d)) dr q (meas_of_Bs (TPM (Mat a b c d) 0 0) dr q).
Proof.
  intros Ha Hb Hc Hd Hdr [v0 Hv0]. set (det := a * d - b * c).
  destruct dr, q; try (exfalso; exact Hv0); try (exfalso; apply Hdr; reflexivity); clear v0 Hv0 Hdr; unfold rel_B; cbn [meas_of_Bs tB tV2b tI2b m11 m12 m21 m22].
  - meas_tac (Port 1 (- (c / d)) ((a * d - b * c) / d) 0).
  - meas_tac (Port 1 (- (c / d)) ((a * d - b * c) / d) 0).
  - meas_tac (Port 1 (- (a / b)) 0 ((a * d - b * c) / b)).
  - meas_tac (Port (- (d / c)) 1 (- ((a * d - b * c) / c)) 0).
  - meas_tac (Port (- (d / c)) 1 (- ((a * d - b * c) / c)) 0).
  - meas_tac (Port (- (b / a)) 1 0 (- ((a * d - b * c) / a))).
  - meas_tac (Port (1 / a) 0 1 (- (c / a))).
  - meas_tac (Port (1 / a) 0 1 (- (c / a))).
  - meas_tac (Port 0 (1 / b) 1 (- (d / b))).
  - meas_tac (Port (- (1 / c)) 0 (- (a / c)) 1).
  - meas_tac (Port (- (1 / c)) 0 (- (a / c)) 1).
  - meas_tac (Port 0 (- (1 / d)) (- (b / d)) 1).
Qed.
Theorem meas_of_Bs_alive_ok (a b c d vb ib : K) (q : quant) :
  a <> 0 -> b <> 0 -> c <> 0 -> d <> 0 ->
  is_meas (relBs (TPM (Mat a b c d) vb ib)) NoDrive q (meas_of_Bs (TPM (Mat a b c d) vb ib) NoDrive q).
Proof.
  intros Ha Hb Hc Hd. destruct q; unfold relBs; cbn [meas_of_Bs tB tV2b tI2b m11 m12 m21 m22].
  - meas_tac (Port (- (ib / c)) 0 (vb - a * (ib / c)) 0).
  - meas_tac (Port (- (ib / c)) 0 (vb - a * (ib / c)) 0).
  - meas_tac (Port 0 (- (ib / d)) (vb - b * (ib / d)) 0).
  - meas_tac (Port (- (vb / a)) 0 0 (- (ib - c * (vb / a)))).
Qed.

(* ---------------- from the B relation of a section (what section_sem_* / chain_sem / ladder_sem_* prove about the
   section classes) to the representation a probe extracts -------------------------------------------------- *)
Definition B_as_A (M : mat K) : mat K :=
  let det := m11 M * m22 M - m12 M * m21 M in Mat (m22 M / det) (- (m12 M / det)) (- (m21 M / det)) (m11 M / det).
Definition B_as_Z (M : mat K) : mat K :=
  let det := m11 M * m22 M - m12 M * m21 M in Mat (- (m22 M / m21 M)) (- (1 / m21 M)) (- (det / m21 M)) (- (m11 M / m21 M)).
Lemma relB_as_A (Z0 : K) (M : mat K) v : m11 M * m22 M - m12 M * m21 M <> 0 -> (rel_B Z0 M v <-> rel_A Z0 (B_as_A M) v).
Proof.
  destruct M as [a b c d], v as [v1 i1 v2 i2]. unfold B_as_A, rel_A, rel_B. cbn. intros Hd.
  split; intros [E1 E2]; split; absdiv; first [ knsatz | wit_all; knsatz ].
Qed.
Lemma relB_as_Z (Z0 : K) (M : mat K) v : m21 M <> 0 -> (rel_B Z0 M v <-> rel_Z Z0 (B_as_Z M) v).
Proof.
  destruct M as [a b c d], v as [v1 i1 v2 i2]. unfold B_as_Z, rel_Z, rel_B. cbn. intros Hc.
  split; intros [E1 E2]; split; absdiv; first [ knsatz | wit_all; knsatz ].
Qed.
End Probe.

Arguments port_cond {K}. Arguments quant_val {K}. Arguments is_meas {K}. Arguments meas_A_ok {K}. Arguments meas_B_ok {K}.
Arguments meas_Z_ok {K}. Arguments meas_of_Bs {K}. Arguments B_as_A {K}. Arguments B_as_Z {K}. Arguments spec_A {K}. Arguments spec_B {K}. Arguments spec_Z {K}. Arguments facts_A {K}. Arguments facts_B {K}.

Print Assumptions extract_A_spec.
Print Assumptions extract_B_spec.
Print Assumptions extract_Z_spec.
Print Assumptions src_Z_spec.
Print Assumptions twoport_src_B_refuted.
Print Assumptions twoport_src_A_refuted.
Print Assumptions twoport_src_H_refuted.
Print Assumptions twoport_src_G_refuted.
Print Assumptions twoport_src_Y_refuted.
Print Assumptions meas_of_Bs_driven_ok.
Print Assumptions meas_of_Bs_alive_ok.
Print Assumptions relB_as_A.
Print Assumptions relB_as_Z.
