(* C01, wires: Lcapy analyses the netlist obtained by MERGING the nodes that
   wires join (no stamp for a wire).  Physical reading of a wire: an ideal
   conductor - its two ends have the same potential and it carries whatever
   current KCL requires.  This file proves that the two agree:

     merged_to_wires : a solution of the merged netlist (node indices rho'),
                       pulled back to the raw nodes, satisfies KCL at every raw
                       node for suitable wire currents, every constitutive
                       relation, and equal potentials across every wire;
     wires_to_merged : conversely every such raw solution gives a solution of
                       the merged netlist;
     mna_wires       : hence the assembled MNA system of the merged netlist
                       holds iff the raw circuit with ideal wires is satisfied

   for ANY index map rho' with the kernel of the sequential contraction
   LT.WireMerge.merge - the decidable check [kern_okb], evaluated inside Coq on
   the node indices Lcapy actually used for every generated circuit. *)
Require Import LT.FieldSec LT.Circuit LT.CircuitLinear LT.WireMerge Gen.StampsGen Gen.C01 Gen.C01model Gen.C01net.
Local Open Scope Z_scope.
Local Open Scope bool_scope.

Section C01wire.
Variable K : fld.
Add Field KFww : (fth K).
Notation netlist := (netlist K).

(* renaming the nodes of a component / netlist *)
Definition ren (rho : Z -> Z) (c : sctx K) : sctx K :=
  SCtx K (kind c) (typ c) (rho (p0 c)) (rho (p1 c)) (rho (p2 c)) (rho (p3 c)) (rho (c0 c)) (rho (c1 c))
       (bown c) (bextra c) (bctrl c) (bL1 c) (bL2 c) (has_ic c) (ctrl_is_vsrc c) (has_arg1 c) (tp_has_src c) (par c).
Definition ren_net (rho : Z -> Z) (N : netlist) : netlist := map (fun e => (fst e, ren rho (snd e))) N.
Definition cnodes_ok (NL : list Z) (c : sctx K) : Prop :=
  node_ok NL (p0 c) /\ node_ok NL (p1 c) /\ node_ok NL (p2 c) /\ node_ok NL (p3 c).
Definition nodes_ok (NL : list Z) (N : netlist) : Prop := Forall (fun e => cnodes_ok NL (snd e)) N.

Section Ren.
Variables (NL : list Z) (rho : Z -> Z) (v v' ib : Z -> K).
Hypothesis ND : NoDup NL.
Hypothesis NN : nonneg NL.
Hypothesis Hm1 : rho (-1) < 0.
Hypothesis Hv : forall n, node_ok NL n -> vv v n = vv v' (rho n).

Lemma brel_ren (cl : cname) (c : sctx K) q : cnodes_ok NL c ->
  brel_of cl (ren rho c) v' ib q = brel_of cl c v ib q.
Proof.
  intros OK. destruct OK as [O0 [O1 [O2 O3]]].
  assert (T0 := node_ok_thru NL rho _ Hm1 O0). assert (T1 := node_ok_thru NL rho _ Hm1 O1).
  assert (T2 := node_ok_thru NL rho _ Hm1 O2). assert (T3 := node_ok_thru NL rho _ Hm1 O3).
  assert (V0 := Hv _ O0). assert (V1 := Hv _ O1). assert (V2 := Hv _ O2). assert (V3 := Hv _ O3).
  destruct cl; cbn [brel_of]; try reflexivity;
  unfold brel_RC, brel_L, brel_V, brel_AM, brel_I, brel_VCVS, brel_VCCS, brel_CCCS, brel_CCVS, brel_K, brel_TF, brel_GY,
         brel_TPA, brel_TPY, brel_TR, brel_SP, brel_RV, dV01, dV23, Ac, ZM, MI;
  cbn [ren kind typ p0 p1 p2 p3 c0 c1 bown bextra bctrl bL1 bL2 has_ic ctrl_is_vsrc has_arg1 tp_has_src par];
  rewrite <- ?V0, <- ?V1, <- ?V2, <- ?V3; reflexivity.
Qed.

Lemma drawn_ren (cl : cname) (c : sctx K) r : cnodes_ok NL c -> 0 <= r ->
  drawn_of cl (ren rho c) v' ib r = csum NL rho (fun x => drawn_of cl c v ib x) r.
Proof.
  intros OK Hr. destruct OK as [O0 [O1 [O2 O3]]].
  assert (T0 := node_ok_thru NL rho _ Hm1 O0). assert (T1 := node_ok_thru NL rho _ Hm1 O1).
  assert (T2 := node_ok_thru NL rho _ Hm1 O2). assert (T3 := node_ok_thru NL rho _ Hm1 O3).
  assert (V0 := Hv _ O0). assert (V1 := Hv _ O1). assert (V2 := Hv _ O2). assert (V3 := Hv _ O3).
  destruct cl; cbn [drawn_of];
  unfold drawn_RC, drawn_L, drawn_V, drawn_AM, drawn_I, drawn_VCVS, drawn_VCCS, drawn_CCCS, drawn_CCVS, drawn_K, drawn_TF, drawn_GY,
         drawn_TPA, drawn_TPY, drawn_TR, drawn_SP, drawn_RV, dV01, dV23, Yeff;
  cbv zeta;
  cbn [ren kind typ p0 p1 p2 p3 c0 c1 bown bextra bctrl bL1 bL2 has_ic ctrl_is_vsrc has_arg1 tp_has_src par];
  rewrite ?csum_add;
  repeat (rewrite csum_thru by assumption);
  repeat (rewrite csum_ind by assumption);
  rewrite <- ?V0, <- ?V1, <- ?V2, <- ?V3;
  try reflexivity;
  try (symmetry; apply csum_zero; reflexivity).
Qed.
End Ren.

Lemma sumK_map_cons {A} (f : A -> K) a l : sumK (map f (a :: l)) = fadd (f a) (sumK (map f l)).
Proof. reflexivity. Qed.

Lemma kcl_ren NL rho v v' ib (N : netlist) r :
  NoDup NL -> nonneg NL -> rho (-1) < 0 -> (forall n, node_ok NL n -> vv v n = vv v' (rho n)) ->
  nodes_ok NL N -> 0 <= r ->
  kcl (ren_net rho N) v' ib r = csum NL rho (fun x => kcl N v ib x) r.
Proof.
  intros ND NN Hm1 Hv OK Hr. unfold kcl. induction N as [|[cl c] N IH].
  - cbn [ren_net map sumK]. symmetry. apply csum_zero. reflexivity.
  - inversion OK as [|? ? Oc OK']; subst. cbn [snd] in Oc. cbn [ren_net map sumK fst snd].
    rewrite csum_add. f_equal; [apply (drawn_ren NL rho v v' ib ND NN Hm1 Hv); assumption | apply IH; exact OK'].
Qed.
Lemma crel_ren NL rho v v' ib (N : netlist) q :
  rho (-1) < 0 -> (forall n, node_ok NL n -> vv v n = vv v' (rho n)) -> nodes_ok NL N ->
  crel (ren_net rho N) v' ib q = crel N v ib q.
Proof.
  intros Hm1 Hv OK. unfold crel. induction N as [|[cl c] N IH]; [reflexivity|].
  inversion OK as [|? ? Oc OK']; subst. cbn [snd] in Oc. cbn [ren_net map sumK fst snd].
  f_equal; [apply (brel_ren NL rho v v' ib Hm1 Hv); assumption | apply IH; exact OK'].
Qed.

(* the raw circuit with ideal wires: KCL at every raw node including the wire
   currents, every constitutive relation, equal potentials across every wire *)
Definition phys_w (NL : list Z) (N : netlist) (W : list (Z * Z)) (v ib : Z -> K) : Prop :=
  exists iw, length iw = length W /\
    (forall x, In x NL -> fadd (kcl N v ib x) (wsum W iw x) = f0) /\
    (forall q, 0 <= q -> crel N v ib q = f0) /\
    Forall (fun w => vv v (fst w) = vv v (snd w)) W.

Theorem merged_to_wires NL (N : netlist) W rho' (v v' ib : Z -> K) :
  NoDup NL -> nonneg NL -> nodes_ok NL N -> wires_ok NL W -> kern_ok NL W rho' ->
  (forall n, node_ok NL n -> vv v n = vv v' (rho' n)) ->
  phys (ren_net rho' N) v' ib -> phys_w NL N W v ib.
Proof.
  intros ND NN OK WO HK Hv [Hk Hc]. assert (Hm1 := kern_negneg NL W rho' HK).
  destruct (flow_exists_kern K NL W rho' (fun x => kcl N v ib x) ND NN WO HK) as [iw [Hl Hb]].
  - intros r Hr. rewrite <- (kcl_ren NL rho' v v' ib N r ND NN Hm1 Hv OK Hr). apply Hk; exact Hr.
  - exists iw. split; [exact Hl|]. split; [exact Hb|]. split.
    + intros q Hq. rewrite <- (crel_ren NL rho' v v' ib N q Hm1 Hv OK). apply Hc; exact Hq.
    + apply (wire_potentials_kern K NL W rho' v v' WO HK Hv).
Qed.

Theorem wires_to_merged NL (N : netlist) W rho' (v ib : Z -> K) :
  NoDup NL -> nonneg NL -> nodes_ok NL N -> wires_ok NL W -> kern_ok NL W rho' ->
  phys_w NL N W v ib ->
  (forall n, node_ok NL n -> vv v n = vv (vmerged NL rho' v) (rho' n)) /\
  phys (ren_net rho' N) (vmerged NL rho' v) ib.
Proof.
  intros ND NN OK WO HK [iw [Hl [Hb [Hc HW]]]]. assert (Hm1 := kern_negneg NL W rho' HK).
  assert (Hv := merged_potential K NL W rho' v NN HK HW). split; [exact Hv|]. split.
  - intros r Hr. rewrite (kcl_ren NL rho' v _ ib N r ND NN Hm1 Hv OK Hr).
    apply (merged_balance K NL W rho' _ iw ND NN WO HK Hb r Hr).
  - intros q Hq. rewrite (crel_ren NL rho' v _ ib N q Hm1 Hv OK). apply Hc; exact Hq.
Qed.

(* with the stamps: the MNA system Lcapy assembles for the merged netlist *)
Theorem mna_wires NL (N : netlist) W rho' (T : list (upd K)) :
  NoDup NL -> nonneg NL -> nodes_ok NL N -> wires_ok NL W -> kern_ok NL W rho' ->
  wf_net (ren_net rho' N) -> assemble (ren_net rho' N) = SOk T ->
  (forall v v' ib, (forall n, node_ok NL n -> vv v n = vv v' (rho' n)) ->
     (forall r, 0 <= r -> node_res T v' ib r = f0) -> (forall q, 0 <= q -> br_res T v' ib q = f0) ->
     phys_w NL N W v ib) /\
  (forall v ib, phys_w NL N W v ib ->
     (forall r, 0 <= r -> node_res T (vmerged NL rho' v) ib r = f0) /\
     (forall q, 0 <= q -> br_res T (vmerged NL rho' v) ib q = f0)).
Proof.
  intros ND NN OK WO HK Wf E. split.
  - intros v v' ib Hv Hn Hb. apply (merged_to_wires NL N W rho' v v' ib ND NN OK WO HK Hv).
    apply (mna_iff_phys K (ren_net rho' N) T v' ib Wf E). split; assumption.
  - intros v ib P. destruct (wires_to_merged NL N W rho' v ib ND NN OK WO HK P) as [_ Ph].
    apply (mna_iff_phys K (ren_net rho' N) T _ ib Wf E). exact Ph.
Qed.
End C01wire.

(* non-vacuity: V1 a 0; W a b; R1 b 0 with raw nodes a = 0, b = 1 and ground -1;
   Lcapy's merged indices send both a and b to 0 *)
Example wire_example_kernel :
  kern_okb [0; 1] [(0, 1)] (fun x => if (x <? 0) then -1 else 0) = true.
Proof. vm_compute. reflexivity. Qed.
Example wire_example_merge : map (merge [(0, 1); (1, 2); (4, -1); (3, 4)]) [0; 1; 2; 3; 4; 5] = [0; 0; 0; -1; -1; 5].
Proof. vm_compute. reflexivity. Qed.

Print Assumptions merged_to_wires.
Print Assumptions wires_to_merged.
Print Assumptions mna_wires.
Print Assumptions flow_exists.
Print Assumptions potentials_merge.
