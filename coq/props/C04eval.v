(* C04 - the evaluation point of OnePort.thevenin() / OnePort.norton() (table regenerated from lcapy/oneport.py on
   every run, Gen.C04evalGen) is the model's: for every field, imaginary unit, source kind and immittance function
   W(s) of the simplified network, the immittance of the returned model is W(j omega) for an ac source of angular
   frequency omega, W(0) for a non-zero dc source and W itself otherwise; the source component kept is the matching
   one; and the returned network Ser(Z1, V1) / Par(Y1, I1) has the Thevenin / Norton line as its terminal relation. *)
Require Import LT.FieldSec LT.TheveninOnePort Gen.C04evalmodel Gen.C04evalGen.
From Coq Require Import List Bool.
Import ListNotations.

Theorem thevenin_eval_point_ok : forall (K : fld) (jj : K) (k : skind K) (W : K -> K),
  exists b, pick K thevenin_table k = Some b /\ imm_of K jj (br_imm b) k W = spec_imm K jj k W.
Proof. intros K jj k W. destruct k; eexists; (split; [reflexivity | reflexivity]). Qed.
Print Assumptions thevenin_eval_point_ok.

Theorem norton_eval_point_ok : forall (K : fld) (jj : K) (k : skind K) (W : K -> K),
  exists b, pick K norton_table k = Some b /\ imm_of K jj (br_imm b) k W = spec_imm K jj k W.
Proof. intros K jj k W. destruct k; eexists; (split; [reflexivity | reflexivity]). Qed.
Print Assumptions norton_eval_point_ok.

Theorem thevenin_source_sel_ok : forall (K : fld) (jj : K) (k : skind K),
  exists b, pick K thevenin_table k = Some b /\ src_ok K jj (br_src b) k.
Proof. intros K jj k. destruct k; eexists; (split; [reflexivity | cbn; auto]). Qed.
Print Assumptions thevenin_source_sel_ok.

Theorem norton_source_sel_ok : forall (K : fld) (jj : K) (k : skind K),
  exists b, pick K norton_table k = Some b /\ src_ok K jj (br_src b) k.
Proof. intros K jj k. destruct k; eexists; (split; [reflexivity | cbn; auto]). Qed.
Print Assumptions norton_source_sel_ok.

(* the returned network: immittance leaf first, source leaf second, joined by the regenerated constructor.
   Z(Zt): u = - Zt j;  V(V): u = V;  Y(Y): j = - Y u;  I(I): j = I *)
Definition returned (K : fld) (c : ctor) (imm src : tree K) : tree K := match c with CSer => Ser [imm; src] | CPar => Par [imm; src] end.
Section Form.
Variable K : fld.
Add Field KFe : (fth K).
Local Open Scope F_scope.
Theorem thevenin_form_ok : forall (V Zt u j : K),
  sem (returned K thevenin_ctor (Leaf 1 Zt 0) (Leaf 1 0 V)) u j <-> th_line (V, Zt) u j.
Proof.
  intros V Zt u j. unfold th_line. cbn [returned thevenin_ctor sem fst snd]. split.
  - intros [u1 [u2 [A [[u3 [u4 [B [C D]]]] E]]]]. subst u4 u2 u.
    transitivity ((1 * u1 + Zt * j) + (1 * u3 + 0 * j) - Zt * j); [ring | rewrite A, B; ring].
  - intros ->. exists (- Zt * j), V. split; [ring|]. split; [|ring].
    exists V, 0. split; [ring|]. split; [reflexivity | ring].
Qed.
Theorem norton_form_ok : forall (I Y u j : K),
  sem (returned K norton_ctor (Leaf Y 1 0) (Leaf 0 1 I)) u j <-> no_line (I, Y) u j.
Proof.
  intros I Y u j. unfold no_line. cbn [returned norton_ctor sem fst snd]. split.
  - intros [j1 [j2 [A [[j3 [j4 [B [C D]]]] E]]]]. subst j4 j2 j.
    transitivity ((Y * u + 1 * j1) + (0 * u + 1 * j3) - Y * u); [ring | rewrite A, B; ring].
  - intros ->. exists (- Y * u), I. split; [ring|]. split; [|ring].
    exists I, 0. split; [ring|]. split; [reflexivity | ring].
Qed.
End Form.
Print Assumptions thevenin_form_ok.
Print Assumptions norton_form_ok.
