(* C03, per-class lemmas (part b): for the stamp regenerated from lcapy/mnacpts.py the matrix part is
   independent of the source / initial-condition parameters and the right-hand side is
   a * rhs(1,0) + b * rhs(0,1) in them ([src_affine], Gen.C03defs); additivity and homogeneity follow
   in Gen.C03.  Split over four files only to compile in parallel. *)
Require Import LT.FieldSec LT.Circuit LT.LinearSys Gen.StampsGen Gen.C01model Gen.C03defs.
Local Open Scope Z_scope.
Local Open Scope bool_scope.

Section C03b.
Variable K : fld.
Add Field KFs3b : (fth K).

Ltac destruct_atom b :=
  lazymatch b with
  | andb ?x _ => destruct_atom x
  | orb ?x _ => destruct_atom x
  | negb ?x => destruct_atom x
  | true => fail
  | false => fail
  | _ => let G := fresh "G" in destruct b eqn:G
  end.
Ltac case_guards :=
  cbv beta iota;
  repeat (match goal with
          | |- context [if ?b then _ else _] =>
              lazymatch b with Z.eqb _ _ => fail | true => fail | false => fail | _ => destruct_atom b end
          end; cbn [andb orb negb]; cbv beta iota).
Ltac prep c :=
  destruct c as [kd ty n0 n1 n2 n3 m0 m1 bo be bc b1' b2' hic cv ha ts pr];
  cbv [with_src kind typ p0 p1 p2 p3 c0 c1 bown bextra bctrl bL1 bL2 has_ic ctrl_is_vsrc has_arg1 tp_has_src par];
  cbv beta iota.
Ltac rows := cbv [lin vecv app um uo ur uc uv mname_eqb]; ring.
Ltac close_rel :=
  first [ exact I
        | cbv [mat_eq]; split; intros; match goal with m : mname |- _ => destruct m end;
          match goal with Hv : is_vec _ = _ |- _ => cbn [is_vec] in Hv; try discriminate Hv end; rows ].
Ltac solve_src :=
  unfold src_affine; intros; match goal with cc : sctx K |- _ => prep cc end; case_guards; close_rel.

Lemma src_affine_VCVS : src_affine (K:=K) stamp_VCVS. Proof. unfold stamp_VCVS. solve_src. Qed.
Lemma src_affine_VCCS : src_affine (K:=K) stamp_VCCS. Proof. unfold stamp_VCCS. solve_src. Qed.
Lemma src_affine_CCCS : src_affine (K:=K) stamp_CCCS. Proof. unfold stamp_CCCS. solve_src. Qed.
Lemma src_affine_CCVS : src_affine (K:=K) stamp_CCVS. Proof. unfold stamp_CCVS. solve_src. Qed.
Lemma src_affine_TF : src_affine (K:=K) stamp_TF. Proof. unfold stamp_TF. solve_src. Qed.
Lemma src_affine_GY : src_affine (K:=K) stamp_GY. Proof. unfold stamp_GY. solve_src. Qed.
End C03b.
