(* C09 table entry: the closed form translated from lcapy/laplace.py (Gen.LaplaceGen) equals the specification entry.
   Compiled on every run against the regenerated LaplaceGen.v. *)
Require Import LT.FieldSec LT.PolyQ LT.ExpPoly LT.LaplaceSig LT.LaplaceModel Gen.LaplaceGen.
Local Open Scope F_scope.
Section Entry.
Variable K : fld.
Add Field KFent : (fth K).
Variable V : lenv K.
Notation ex := (l_ex K V). Notation sn := (l_sn K V). Notation cs := (l_cs K V). Notation fabs := (l_fabs K V).
Notation pi_ := (l_pi K V). Notation isr := (l_isr K V). Notation neg := (l_neg K V). Notation Fn := (l_Fn K V). Notation Ic := (l_Ic K V).
(* the usual identities of exp / sin / cos, as hypotheses on the abstract functions *)
Hypothesis ex_add : forall a b, ex (a + b) = ex a * ex b.
Hypothesis ex_0 : ex 0 = 1.
Hypothesis sn_quarter : forall x, sn (x + pi_ / (1 + 1)) = cs x.
Hypothesis cs_quarter : forall x, cs (x + pi_ / (1 + 1)) = - sn x.

Lemma ex_eq a b : a = b -> ex a = ex b. Proof. intros ->. reflexivity. Qed.
Lemma sn_eq a b : a = b -> sn a = sn b. Proof. intros ->. reflexivity. Qed.
Lemma cs_eq a b : a = b -> cs a = cs b. Proof. intros ->. reflexivity. Qed.
Ltac ex1 a := rewrite (ex_eq a 0) by ring; rewrite ex_0.

(* value of tau as computed by sin_cos = the delay of the specification *)
Lemma tau_gen (hasu : bool) (zeta : K) :
  (if hasu && neg (if hasu then - (if hasu then zeta else 0) else 0) then 0 else (if hasu then - (if hasu then zeta else 0) else 0))
  = sc_tau K neg hasu zeta.
Proof. unfold sc_tau. destruct hasu; cbn [andb]; [|reflexivity].
  destruct (neg (- zeta)) eqn:En; cbn [orb]; [reflexivity|].
  destruct (feqb (- zeta) 0) eqn:Ez; [apply feqb_eq in Ez; exact Ez | reflexivity]. Qed.

Theorem table_entry_sincos : forall (iscos hasu : bool) (al be w p zeta s : K), sq K (s - al) + sq K w <> 0 ->
  gen_sincos K V iscos hasu al be w p (if hasu then zeta else 0) s = spec_sincos K ex sn cs neg iscos hasu al be w p zeta s.
Proof using ex_add ex_0 sn_quarter cs_quarter.
  intros iscos hasu al be w p zeta s Hd. unfold gen_sincos, spec_sincos. cbv zeta.
  rewrite (tau_gen hasu zeta). set (tau := sc_tau K neg hasu zeta). clearbody tau.
  assert (Hd' : fpow w 2 + fpow (s - al) 2 <> 0).
  { intro E. apply Hd. rewrite <- E. unfold sq. cbn [fpow]. ring. }
  assert (Den : fpow w 2 + fpow (s - al) 2 = sq K (s - al) + sq K w) by (unfold sq; cbn [fpow]; ring).
  (* phase *)
  set (p0 := if iscos then p + pi_ / (1 + 1) else p).
  assert (Ph : (if negb (feqb tau 0) then p0 + w * tau else p0) = p0 + w * tau).
  { destruct (feqb tau 0) eqn:Et; cbn [negb]; [apply feqb_eq in Et; rewrite Et; ring | reflexivity]. }
  rewrite Ph.
  assert (Num : w * cs (p0 + w * tau) + (s - al) * sn (p0 + w * tau)
                = (if iscos then (s - al) * cs (p + w * tau) - w * sn (p + w * tau)
                   else w * cs (p + w * tau) + (s - al) * sn (p + w * tau))).
  { unfold p0. destruct iscos; [|reflexivity].
    rewrite (cs_eq (p + pi_ / (1 + 1) + w * tau) (p + w * tau + pi_ / (1 + 1))) by ring.
    rewrite (sn_eq (p + pi_ / (1 + 1) + w * tau) (p + w * tau + pi_ / (1 + 1))) by ring.
    rewrite cs_quarter, sn_quarter. ring. }
  rewrite Num, Den.
  set (R := (if iscos then _ else _) / _).
  destruct (feqb tau 0) eqn:Et; cbn [negb andb].
  - apply feqb_eq in Et. subst tau. ex1 (- (0 * s)). ex1 (al * 0).
    destruct (feqb be 0) eqn:Eb; cbn [negb]; [apply feqb_eq in Eb; subst be; rewrite ex_0; ring | ring].
  - rewrite (ex_eq (- tau * s) (- (tau * s))) by ring.
    destruct (feqb al 0) eqn:Ea; cbn [negb].
    + apply feqb_eq in Ea. subst al. ex1 (0 * tau).
      destruct (feqb be 0) eqn:Eb; cbn [negb]; [apply feqb_eq in Eb; subst be; rewrite ex_0; ring | ring].
    + destruct (feqb be 0) eqn:Eb; cbn [negb]; [apply feqb_eq in Eb; subst be; rewrite ex_0; ring | ring].
Qed.
End Entry.
Print Assumptions table_entry_sincos.
