(* C09 table entry: the closed form translated from lcapy/laplace.py (Gen.LaplaceGen) equals the specification entry.
   Compiled on every run against the regenerated LaplaceGen.v. *)
Require Import LT.FieldSec LT.PolyQ LT.ExpPoly LT.LaplaceSig LT.LaplaceModel Gen.LaplaceGen.
Local Open Scope F_scope.
Section Entry.
Variable K : fld.
Add Field KFent : (fth K).
Variable V : lenv K.
Notation ex := (l_ex K V). Notation sn := (l_sn K V). Notation cs := (l_cs K V). Notation fabs := (l_fabs K V).
Notation pi_ := (l_pi K V). Notation isr := (l_isr K V). Notation neg := (l_neg K V). Notation Fn := (l_Fn K V). Notation Ic := (l_Ic K V).
Lemma ex_eq a b : a = b -> ex a = ex b. Proof. intros ->. reflexivity. Qed.
Lemma two_nz : (1 + 1 : K) <> 0. Proof. exact (fchar0 K 2%positive). Qed.
(* tri(a t) restricted to t >= 0, a > 0:  1/s - a (1 - e^{-s/a}) / s^2 *)
Theorem table_entry_tri : forall a s : K, a <> 0 -> s <> 0 -> gen_tri K V a s = spec_tri K ex a s.
Proof. intros a s Ha Hs. unfold gen_tri, spec_tri, sq. cbn [fpow].
  rewrite (ex_eq (- s / a) (- (s / a))) by (field; exact Ha).
  field; repeat split; assumption. Qed.
End Entry.
Print Assumptions table_entry_tri.
