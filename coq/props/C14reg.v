(* C14 - regularity: when every parameter of a component is regular for the
   homomorphism h (lies in its domain pD), so is every entry its stamp writes;
   hence h may be pushed through the residuals of the assembled system. *)
Require Import LT.FieldSec LT.Circuit LT.PhasorHom Gen.StampsGen.
Local Open Scope Z_scope.
Local Open Scope bool_scope.

Section C14reg.
Variables K K' : fld.
Variable h : phom K K'.

Definition Dres (s : sres K) : Prop := match s with SOk T => Dupd h T | SErr => True end.

Ltac destruct_atom b :=
  lazymatch b with
  | andb ?x _ => destruct_atom x
  | orb ?x _ => destruct_atom x
  | negb ?x => destruct_atom x
  | true => fail
  | false => fail
  | _ => let G := fresh "G" in destruct b eqn:G
  end.
Ltac case_guards :=
  cbv beta iota;
  repeat (match goal with
          | |- context [if ?b then _ else _] =>
              lazymatch b with true => fail | false => fail | _ => destruct_atom b end
          end; cbn [andb orb negb]; cbv beta iota).
Ltac solve_reg c :=
  destruct c as [kd ty n0 n1 n2 n3 m0 m1 bo be bc b1 b2 hic cv ha ts pr];
  cbv [Dctx par] in *;
  cbv [kind typ p0 p1 p2 p3 c0 c1 bown bextra bctrl bL1 bL2 has_ic ctrl_is_vsrc has_arg1 tp_has_src par] in *;
  case_guards; cbv [Dres Dupd app]; try exact I;
  repeat (apply Forall_cons; [cbv [uv]; hom_D h|]); apply Forall_nil.

Lemma stamp_reg_RC c : Dctx h c -> Dres (stamp_RC c).
Proof. intros D. unfold stamp_RC. solve_reg c. Qed.
Lemma stamp_reg_L c : Dctx h c -> Dres (stamp_L c).
Proof. intros D. unfold stamp_L. solve_reg c. Qed.
Lemma stamp_reg_V c : Dctx h c -> Dres (stamp_V c).
Proof. intros D. unfold stamp_V. solve_reg c. Qed.
Lemma stamp_reg_AM c : Dctx h c -> Dres (stamp_AM c).
Proof. intros D. unfold stamp_AM. solve_reg c. Qed.
Lemma stamp_reg_I c : Dctx h c -> Dres (stamp_I c).
Proof. intros D. unfold stamp_I. solve_reg c. Qed.
Lemma stamp_reg_VCVS c : Dctx h c -> Dres (stamp_VCVS c).
Proof. intros D. unfold stamp_VCVS. solve_reg c. Qed.
Lemma stamp_reg_VCCS c : Dctx h c -> Dres (stamp_VCCS c).
Proof. intros D. unfold stamp_VCCS. solve_reg c. Qed.
Lemma stamp_reg_CCCS c : Dctx h c -> Dres (stamp_CCCS c).
Proof. intros D. unfold stamp_CCCS. solve_reg c. Qed.
Lemma stamp_reg_CCVS c : Dctx h c -> Dres (stamp_CCVS c).
Proof. intros D. unfold stamp_CCVS. solve_reg c. Qed.
Lemma stamp_reg_K c : Dctx h c -> Dres (stamp_K c).
Proof. intros D. unfold stamp_K. solve_reg c. Qed.
Lemma stamp_reg_TF c : Dctx h c -> Dres (stamp_TF c).
Proof. intros D. unfold stamp_TF. solve_reg c. Qed.
Lemma stamp_reg_GY c : Dctx h c -> Dres (stamp_GY c).
Proof. intros D. unfold stamp_GY. solve_reg c. Qed.
Lemma stamp_reg_TL c : Dctx h c -> Dres (stamp_TL c).
Proof. intros D. unfold stamp_TL. solve_reg c. Qed.
Lemma stamp_reg_TPA c : Dctx h c -> Dres (stamp_TPA c).
Proof. intros D. unfold stamp_TPA. solve_reg c. Qed.
Lemma stamp_reg_TPY c : Dctx h c -> Dres (stamp_TPY c).
Proof. intros D. unfold stamp_TPY. solve_reg c. Qed.
Lemma stamp_reg_TR c : Dctx h c -> Dres (stamp_TR c).
Proof. intros D. unfold stamp_TR. solve_reg c. Qed.
Lemma stamp_reg_SPpp c : Dctx h c -> Dres (stamp_SPpp c).
Proof. intros D. unfold stamp_SPpp. solve_reg c. Qed.
Lemma stamp_reg_SPpm c : Dctx h c -> Dres (stamp_SPpm c).
Proof. intros D. unfold stamp_SPpm. solve_reg c. Qed.
Lemma stamp_reg_SPppp c : Dctx h c -> Dres (stamp_SPppp c).
Proof. intros D. unfold stamp_SPppp. solve_reg c. Qed.
Lemma stamp_reg_SPpmm c : Dctx h c -> Dres (stamp_SPpmm c).
Proof. intros D. unfold stamp_SPpmm. solve_reg c. Qed.
Lemma stamp_reg_SPppm c : Dctx h c -> Dres (stamp_SPppm c).
Proof. intros D. unfold stamp_SPppm. solve_reg c. Qed.
Lemma sub_reg (s : sctx K -> sres K) c : Dres (s c) ->
  Dres (if tp_has_src c then SErr else match s c with SOk l_ => SOk ([] ++ l_) | SErr => SErr end).
Proof. intros H. destruct (tp_has_src c); [exact I|]. destruct (s c); [exact H | exact I]. Qed.
Lemma stamp_reg_TPB c : Dctx h c -> Dres (stamp_TPB c).
Proof. intros D. unfold stamp_TPB. apply (sub_reg (@stamp_TPA K)). apply stamp_reg_TPA; assumption. Qed.
Lemma stamp_reg_TPG c : Dctx h c -> Dres (stamp_TPG c).
Proof. intros D. unfold stamp_TPG. apply (sub_reg (@stamp_TPA K)). apply stamp_reg_TPA; assumption. Qed.
Lemma stamp_reg_TPH c : Dctx h c -> Dres (stamp_TPH c).
Proof. intros D. unfold stamp_TPH. apply (sub_reg (@stamp_TPA K)). apply stamp_reg_TPA; assumption. Qed.
Lemma stamp_reg_TPZ c : Dctx h c -> Dres (stamp_TPZ c).
Proof. intros D. unfold stamp_TPZ. apply (sub_reg (@stamp_TPY K)). apply stamp_reg_TPY; assumption. Qed.
Lemma stamp_reg_RV c : Dctx h c ->
  h (fmul (par c pArg0) (fsub f1 (par c pArg1))) <> f0 -> h (fmul (par c pArg0) (par c pArg1)) <> f0 ->
  Dres (stamp_RV c).
Proof. intros D N1 N2. unfold stamp_RV. solve_reg c. Qed.
Lemma stamp_reg_Dummy c : Dres (stamp_Dummy c).
Proof. exact (Forall_nil _). Qed.
End C14reg.
Arguments Dres {K K'}.
