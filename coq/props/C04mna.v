(* C04 - port_affine for the MNA system that the stamps regenerated from
   lcapy/mnacpts.py assemble (Gen.C01net.mna_sem: node / branch residuals of
   the assembled update list = kcl / crel of the netlist): this is the system
   the correspondence evaluation checks Lcapy's values against. *)
Require Import LT.FieldSec LT.Circuit LT.MNA LT.Thevenin Gen.StampsGen Gen.C01model Gen.C01 Gen.C01net Gen.C04model Gen.C04.
Local Open Scope Z_scope.

Section C04mna.
Variable K : fld.
Add Field KFc4m : (fth K).
Notation netlist := (netlist K).
Notation vec := (Z -> K).
Variables p m : Z.
Notation psol N := (sol p m (kcl N) (crel N)).
Notation pvv := (pv p m).

(* the same statements about the MNA system assembled from the regenerated stamps *)
Definition mna_sol (T : list (upd K)) (i : K) (v ib : vec) : Prop :=
  (forall r, 0 <= r -> node_res T v ib r = thru p m r i) /\ (forall q, 0 <= q -> br_res T v ib q = f0).
Theorem mna_sol_iff (N : netlist) T i v ib : wf_net N -> assemble N = SOk T -> (mna_sol T i v ib <-> psol N i v ib).
Proof.
  intros W E. destruct (mna_sem K N W) as [T' [E' [_ [_ R]]]]. rewrite E in E'. inversion E'; subst T'.
  destruct (R v ib) as [Rn Rb]. unfold mna_sol, sol. split; intros [A B]; split; intros x Hx.
  - rewrite <- Rn by assumption. auto. - rewrite <- Rb by assumption. auto.
  - rewrite Rn by assumption. auto. - rewrite Rb by assumption. auto.
Qed.
Lemma wf_killnet (N : netlist) : wf_net N -> wf_net (killnet N).
Proof. unfold wf_net, killnet. intros H. apply Forall_map. revert H. apply Forall_impl.
  intros [cl c] [Wc Pc]. cbn [fst snd] in *. split; [exact Wc|]. destruct cl; exact Pc. Qed.
Theorem mna_port_affine (N : netlist) T Tk v0 ib0 vt ibt :
  wf_net N -> assemble N = SOk T -> assemble (killnet N) = SOk Tk ->
  (forall v ib, mna_sol Tk f0 v ib -> pvv v = f0) ->
  mna_sol T f0 v0 ib0 -> mna_sol Tk f1 vt ibt ->
  forall i u, (exists v ib, mna_sol T i v ib /\ pvv v = u) <-> u = fadd (pvv v0) (fmul (pvv vt) i).
Proof.
  intros W E Ek WP S0 St i u. pose proof (wf_killnet N W) as Wk.
  rewrite <- (net_port_affine K p m N v0 ib0 vt ibt).
  - unfold port_rel. split; intros [v [ib [S Eu]]]; exists v, ib; (split; [|exact Eu]);
      [apply (mna_sol_iff N T i v ib W E) | apply (mna_sol_iff N T i v ib W E)]; exact S.
  - intros v ib Hp. apply (WP v ib). apply (mna_sol_iff (killnet N) Tk f0 v ib Wk Ek). apply (phys_sol K p m). exact Hp.
  - apply (phys_sol K p m). apply (mna_sol_iff N T f0 v0 ib0 W E). exact S0.
  - apply (mna_sol_iff (killnet N) Tk f1 vt ibt Wk Ek). exact St.
Qed.
End C04mna.
Print Assumptions mna_sol_iff.
Print Assumptions mna_port_affine.
