(* C09 table entry: the closed form translated from lcapy/laplace.py (Gen.LaplaceGen) equals the specification entry.
   Compiled on every run against the regenerated LaplaceGen.v. *)
Require Import LT.FieldSec LT.PolyQ LT.ExpPoly LT.LaplaceSig LT.LaplaceModel Gen.LaplaceGen.
Local Open Scope F_scope.
Section Entry.
Variable K : fld.
Add Field KFent : (fth K).
Variable V : lenv K.
Notation ex := (l_ex K V). Notation sn := (l_sn K V). Notation cs := (l_cs K V). Notation fabs := (l_fabs K V).
Notation pi_ := (l_pi K V). Notation isr := (l_isr K V). Notation neg := (l_neg K V). Notation Fn := (l_Fn K V). Notation Ic := (l_Ic K V). Notation Fv := (l_Fv K V).
Hypothesis ex_0 : ex 0 = 1.
Hypothesis fabs_pos : forall a, pos K neg a = true -> fabs a = a.
Lemma ex_eq a b : a = b -> ex a = ex b. Proof. intros ->. reflexivity. Qed.

Theorem table_entry_const : forall c s : K, s <> 0 -> gen_const K c s = c / s.
Proof. intros. reflexivity. Qed.
Theorem table_entry_exp : forall c a s : K, s - a <> 0 -> gen_exp K c a s = c / (s - a).
Proof. intros. reflexivity. Qed.
Theorem table_entry_integ : forall c X s : K, s <> 0 -> gen_integ K c X s = c * X / s.
Proof. intros. reflexivity. Qed.
Theorem table_entry_conv : forall c A B : K, gen_conv K c A B = c * A * B.
Proof. intros. reflexivity. Qed.
(* similarity and shift for a named function:  v(a t + b), a > 0  |->  e^{s b / a} V(s / a) / a *)
Theorem table_entry_func : forall (v : nat) (a b s : K), pos K neg a = true ->
  gen_func K V v a b s = spec_func K ex Fn v a b s.
Proof using ex_0 fabs_pos. intros v a b s Ha. unfold gen_func, spec_func. cbv zeta. rewrite (fabs_pos a Ha).
  assert (Hz : a <> 0).
  { unfold pos in Ha. apply andb_true_iff in Ha. destruct Ha as [_ H]. apply negb_true_iff in H. apply feqb_neq in H. exact H. }
  destruct (feqb b 0) eqn:Eb; cbn [negb].
  - apply feqb_eq in Eb. subst b. rewrite (ex_eq (s * 0 / a) 0) by (field; exact Hz). rewrite ex_0. field. exact Hz.
  - field. exact Hz. Qed.
(* derivative with initial values at 0-:  s^k V(s) - sum_{m<k} s^{k-1-m} v^(m)(0-)  (all zero when zero_initial_conditions) *)
Theorem table_entry_deriv : forall (v k : nat) (zic : bool) (s : K),
  gen_deriv K V v k zic s = spec_deriv K Fn Ic v k zic s.
Proof. intros v k zic s. unfold gen_deriv, spec_deriv. cbv zeta. destruct zic; cbn [negb].
  - assert (Z : forall n, ic_sum K (Icz K Ic true) v n s = 0).
    { induction n as [|n IH]; cbn [ic_sum]; [reflexivity | rewrite IH; unfold Icz; ring]. }
    rewrite Z. ring.
  - rewrite (sum_range_ic K Ic v k s). unfold Icz.
    assert (E : forall n, ic_sum K (fun v m => Ic v m) v n s = ic_sum K Ic v n s) by (intros; reflexivity).
    replace (ic_sum K (fun (v0 m : nat) => if false then 0 else Ic v0 m) v k s) with (ic_sum K Ic v k s) by reflexivity. ring. Qed.
(* sifting: delta(a t + b) v(.), a > 0, X = v at t0 = -b/a  |->  const X e^{-s t0} / a *)
Theorem table_entry_sift : forall (c X a b s : K), pos K neg a = true ->
  gen_sift K V c X a b s = spec_sift K ex c X a b s.
Proof using fabs_pos. intros c X a b s Ha. unfold gen_sift, spec_sift. cbv zeta. rewrite (fabs_pos a Ha).
  assert (Hz : a <> 0).
  { unfold pos in Ha. apply andb_true_iff in Ha. destruct Ha as [_ H]. apply negb_true_iff in H. apply feqb_neq in H. exact H. }
  rewrite (ex_eq (- s * (- b / a)) (- (- b / a * s))) by (field; exact Hz). reflexivity. Qed.
End Entry.
Print Assumptions table_entry_func.
Print Assumptions table_entry_sift.
Print Assumptions table_entry_deriv.
