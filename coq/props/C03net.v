(* C03, netlist level: by induction over the component list the assembled MNA
   system is linear in the sources (uses the per-class theorem of Gen.C03);
   superposition, scaling, and "the responses with all but one source group
   killed sum to the full response". *)
Require Import LT.FieldSec LT.Circuit LT.LinearSys Gen.StampsGen Gen.C01model Gen.C03defs Gen.C03.
Local Open Scope Z_scope.
Local Open Scope bool_scope.

Section C03net.
Variable K : fld.
Add Field KFn3 : (fth K).
Notation srcs := (srcs K).

(* ---- (2) netlists -------------------------------------------------------- *)
Theorem asm_src_add (N : netlist K) (i : nat) (s1 s2 : srcs) :
  sres3 (@add_rel K) (assemble (set_src N i s1)) (assemble (set_src N i s2)) (assemble (set_src N i (s_add s1 s2))).
Proof.
  revert i. induction N as [|[cl c] N IH]; intros i; cbn [set_src assemble sres3].
  - apply add_rel_nil.
  - pose proof (proj1 (stamp_src_linear K cl) c (fst (s1 i)) (snd (s1 i)) (fst (s2 i)) (snd (s2 i))) as H.
    specialize (IH (S i)). unfold s_add at 1 2. cbn [fst snd].
    destruct (stamp_of cl (with_src c (fst (s1 i)) (snd (s1 i)))) as [A1|],
             (stamp_of cl (with_src c (fst (s2 i)) (snd (s2 i)))) as [A2|],
             (stamp_of cl (with_src c (fadd (fst (s1 i)) (fst (s2 i))) (fadd (snd (s1 i)) (snd (s2 i))))) as [A12|];
      cbn [sres3] in H; try contradiction;
    destruct (assemble (set_src N (S i) s1)) as [B1|], (assemble (set_src N (S i) s2)) as [B2|],
             (assemble (set_src N (S i) (s_add s1 s2))) as [B12|];
      cbn [sres3] in IH |- *; try contradiction; try exact I.
    apply add_rel_app; assumption.
Qed.
Theorem asm_src_scale (N : netlist K) (i : nat) (k : K) (s : srcs) :
  sres2 (scale_rel k) (assemble (set_src N i s)) (assemble (set_src N i (s_scale k s))).
Proof.
  revert i. induction N as [|[cl c] N IH]; intros i; cbn [set_src assemble sres2].
  - apply scale_rel_nil.
  - pose proof (proj2 (stamp_src_linear K cl) c k (fst (s i)) (snd (s i))) as H.
    specialize (IH (S i)). unfold s_scale at 1 2. cbn [fst snd].
    destruct (stamp_of cl (with_src c (fst (s i)) (snd (s i)))) as [A1|],
             (stamp_of cl (with_src c (fmul k (fst (s i))) (fmul k (snd (s i))))) as [A2|];
      cbn [sres2] in H; try contradiction;
    destruct (assemble (set_src N (S i) s)) as [B1|], (assemble (set_src N (S i) (s_scale k s))) as [B2|];
      cbn [sres2] in IH |- *; try contradiction; try exact I.
    apply scale_rel_app; assumption.
Qed.

(* whether a netlist can be assembled at all does not depend on the sources *)
Corollary asm_ok_indep (N : netlist K) (s1 s2 : srcs) T1 :
  assemble (set_src N 0 s1) = SOk T1 -> exists T2, assemble (set_src N 0 s2) = SOk T2 /\ mat_eq T1 T2.
Proof.
  intros E. pose proof (asm_src_add N 0%nat s1 s2) as H. rewrite E in H.
  destruct (assemble (set_src N 0 s2)) as [T2|]; destruct (assemble (set_src N 0 (s_add s1 s2))) as [T12|];
    cbn [sres3] in H; try contradiction.
  exists T2. split; [reflexivity|]. destruct H as [H1 [H2 _]].
  apply (mat_eq_trans K _ _ _ H1). apply mat_eq_sym. exact H2.
Qed.

Theorem mna_superposition (N : netlist K) (s1 s2 : srcs) T1 T2 T12 v1 ib1 v2 ib2 :
  assemble (set_src N 0 s1) = SOk T1 -> assemble (set_src N 0 s2) = SOk T2 ->
  assemble (set_src N 0 (s_add s1 s2)) = SOk T12 ->
  solves T1 v1 ib1 -> solves T2 v2 ib2 -> solves T12 (vadd v1 v2) (vadd ib1 ib2).
Proof.
  intros E1 E2 E12. pose proof (asm_src_add N 0%nat s1 s2) as H. rewrite E1, E2, E12 in H. cbn [sres3] in H.
  apply solves_superpose. exact H.
Qed.
Theorem mna_scaling (N : netlist K) (k : K) (s : srcs) T Tk v ib :
  assemble (set_src N 0 s) = SOk T -> assemble (set_src N 0 (s_scale k s)) = SOk Tk ->
  solves T v ib -> solves Tk (vscale k v) (vscale k ib).
Proof.
  intros E Ek. pose proof (asm_src_scale N 0%nat k s) as H. rewrite E, Ek in H. cbn [sres2] in H.
  apply solves_scale. exact H.
Qed.
Theorem mna_response_additive (N : netlist K) (s1 s2 : srcs) T1 T2 T12 nn mm v1 ib1 v2 ib2 v ib :
  assemble (set_src N 0 s1) = SOk T1 -> assemble (set_src N 0 s2) = SOk T2 ->
  assemble (set_src N 0 (s_add s1 s2)) = SOk T12 -> injective_on T12 nn mm ->
  solves T1 v1 ib1 -> solves T2 v2 ib2 -> solves T12 v ib ->
  agree nn mm v ib (vadd v1 v2) (vadd ib1 ib2).
Proof.
  intros E1 E2 E12 HI. pose proof (asm_src_add N 0%nat s1 s2) as H. rewrite E1, E2, E12 in H. cbn [sres3] in H.
  apply response_additive; assumption.
Qed.
Theorem mna_response_homogeneous (N : netlist K) (k : K) (s : srcs) T Tk nn mm v ib vk ibk :
  assemble (set_src N 0 s) = SOk T -> assemble (set_src N 0 (s_scale k s)) = SOk Tk -> injective_on Tk nn mm ->
  solves T v ib -> solves Tk vk ibk -> agree nn mm vk ibk (vscale k v) (vscale k ib).
Proof.
  intros E Ek HI. pose proof (asm_src_scale N 0%nat k s) as H. rewrite E, Ek in H. cbn [sres2] in H.
  apply response_homogeneous; assumption.
Qed.

(* ---- kill all but one group ------------------------------------------------ *)
(* every component position is assigned to one of the groups 0 .. m-1 (a group:
   one independent source, or the set of initial conditions, or any coarser
   grouping); group j alone = all other positions' sources set to zero *)
Lemma group_src_at (g : nat -> nat) (s : srcs) (j i : nat) :
  group_src g s j i = if Nat.eqb (g i) j then s i else (f0, f0).
Proof. reflexivity. Qed.
Lemma Forall2_len {A B} (R : A -> B -> Prop) l1 l2 : Forall2 R l1 l2 -> length l1 = length l2.
Proof. induction 1; cbn; [reflexivity | f_equal; assumption]. Qed.

Lemma vecv_set_src_sum (N : netlist K) (g : nat -> nat) (s : srcs) (m : nat) :
  (forall i, (g i < m)%nat) ->
  forall i0 T, assemble (set_src N i0 s) = SOk T ->
  exists Ts, Forall2 (fun j Tj => assemble (set_src N i0 (group_src g s j)) = SOk Tj) (seq 0 m) Ts /\
             sum_rel Ts T.
Proof.
  intros Hg. induction N as [|[cl c] N IH]; intros i0 T E; cbn [set_src assemble] in E |- *.
  - inversion E; subst T. exists (map (fun _ => []) (seq 0 m)). split.
    + induction (seq 0 m); cbn [map]; constructor; [reflexivity | assumption].
    + split.
      * induction (seq 0 m); cbn [map]; constructor; [apply mat_eq_refl | assumption].
      * intros mm r _. induction (seq 0 m); cbn [map fsum vecv] in *; [ring|]. rewrite <- IHl. cbn. ring.
  - destruct (stamp_of cl (with_src c (fst (s i0)) (snd (s i0)))) as [A|] eqn:EA; [|discriminate].
    destruct (assemble (set_src N (S i0) s)) as [B|] eqn:EB; [|discriminate].
    inversion E; subst T. destruct (IH (S i0) B EB) as [Bs [HB [HBm HBv]]].
    (* the stamp of this component with its own sources zeroed *)
    pose proof (proj1 (stamp_src_linear K cl) c (fst (s i0)) (snd (s i0)) f0 f0) as H0. rewrite EA in H0.
    destruct (stamp_of cl (with_src c f0 f0)) as [A0|] eqn:EA0; [|destruct (stamp_of cl _); contradiction].
    assert (HA0 : mat_eq A0 A /\ vec_zero A0).
    { pose proof (proj2 (stamp_src_linear K cl) c f0 f0 f0) as Hs. rewrite EA0 in Hs.
      assert (Ez : fmul f0 f0 = (f0 : K)) by ring. rewrite Ez, EA0 in Hs. cbn [sres2] in Hs. destruct Hs as [_ Hs].
      split.
      - pose proof (stamp_matrix_indep_sources K cl c f0 f0 (fst (s i0)) (snd (s i0))) as Hm. rewrite EA0, EA in Hm. exact Hm.
      - intros mm r Hm. rewrite (Hs mm r Hm). ring. }
    destruct HA0 as [HA0m HA0z].
    set (Aj := fun j : nat => if Nat.eqb (g i0) j then A else A0).
    exists (map (fun p => Aj (fst p) ++ snd p) (combine (seq 0 m) Bs)).
    assert (Len : length Bs = length (seq 0 m)) by (symmetry; eapply Forall2_len; exact HB).
    split; [|split].
    + clear -HB EA EA0 Aj. induction HB as [|j Bj js Bs' Ej HB IHB]; cbn [combine map]; constructor; [|exact IHB].
      cbn [fst snd]. rewrite !group_src_at. unfold Aj.
      destruct (Nat.eqb (g i0) j); cbn [fst snd]; [rewrite EA | rewrite EA0]; rewrite Ej; reflexivity.
    + clear -HBm HA0m Len Aj. revert Bs HBm Len. induction (seq 0 m) as [|j js IHj]; intros Bs HBm Len; cbn [combine map]; [constructor|].
      destruct Bs as [|Bj Bs']; [discriminate Len|]. inversion HBm; subst. cbn [combine map]. constructor.
      * cbn [fst snd]. apply mat_eq_app; [|assumption]. unfold Aj. destruct (Nat.eqb (g i0) j); [apply mat_eq_refl | exact HA0m].
      * apply IHj; [assumption | cbn in Len; lia].
    + intros mm r Hm. rewrite vecv_app, (HBv mm r Hm).
      (* exactly one group holds this component's own right-hand side *)
      assert (Hone : forall js Bs', length Bs' = length js -> NoDup js ->
                 fsum (map (fun Ti => vecv Ti mm r) (map (fun p => Aj (fst p) ++ snd p) (combine js Bs'))) =
                 fadd (if existsb (Nat.eqb (g i0)) js then vecv A mm r else f0) (fsum (map (fun Ti => vecv Ti mm r) Bs'))).
      { clear -HA0z Hm Aj. induction js as [|j js IHj]; intros Bs' Len ND; destruct Bs' as [|Bj Bs']; try discriminate Len;
          cbn [combine map fsum existsb]; [ring|].
        inversion ND as [|? ? Hnin ND']; subst. rewrite IHj by (try assumption; cbn in Len; lia).
        cbn [fst snd]. rewrite vecv_app. unfold Aj at 1.
        destruct (Nat.eqb (g i0) j) eqn:Ej; cbn [orb].
        - assert (existsb (Nat.eqb (g i0)) js = false) as ->.
          { apply Nat.eqb_eq in Ej. subst j. destruct (existsb (Nat.eqb (g i0)) js) eqn:Ex; [|reflexivity].
            apply existsb_exists in Ex. destruct Ex as [y [Hy Ey]]. apply Nat.eqb_eq in Ey. subst y. contradiction. }
          ring.
        - rewrite (HA0z mm r Hm). ring. }
      rewrite (Hone (seq 0 m) Bs Len (seq_NoDup m 0)).
      assert (existsb (Nat.eqb (g i0)) (seq 0 m) = true) as ->.
      { apply existsb_exists. exists (g i0). split; [apply in_seq; specialize (Hg i0); lia | apply Nat.eqb_refl]. }
      ring.
Qed.

(* the responses to the groups acting alone sum to a solution of the full
   system, and to THE full response when the system is well-posed *)
Theorem mna_kill_sum (N : netlist K) (g : nat -> nat) (s : srcs) (m : nat) T nn mm
    (xs : list ((Z -> K) * (Z -> K))) v ib :
  (forall i, (g i < m)%nat) -> assemble (set_src N 0 s) = SOk T ->
  Forall2 (fun j x => exists Tj, assemble (set_src N 0 (group_src g s j)) = SOk Tj /\ solves Tj (fst x) (snd x)) (seq 0 m) xs ->
  solves T (vsum (map fst xs)) (vsum (map snd xs)) /\
  (injective_on T nn mm -> solves T v ib -> agree nn mm v ib (vsum (map fst xs)) (vsum (map snd xs))).
Proof.
  intros Hg E HS. destruct (vecv_set_src_sum N g s m Hg 0%nat T E) as [Ts [HT HR]].
  assert (F : Forall2 (fun Ti x => solves Ti (fst x) (snd x)) Ts xs).
  { clear -HT HS. revert xs HS. induction HT as [|j Tj js Ts' Ej HT IH]; intros xs HS; inversion HS; subst; constructor.
    - destruct H1 as [Tj' [Ej' Hs]]. rewrite Ej in Ej'. inversion Ej'; subst. exact Hs.
    - apply IH. assumption. }
  split; [apply (solves_sum K Ts); assumption|].
  intros HI S. apply (response_sum K Ts T xs); assumption.
Qed.

End C03net.

Print Assumptions asm_src_add.
Print Assumptions asm_src_scale.
Print Assumptions mna_superposition.
Print Assumptions mna_scaling.
Print Assumptions mna_response_additive.
Print Assumptions mna_response_homogeneous.
Print Assumptions mna_kill_sum.
