(* C20 - schematic layout honours every orientation and minimum-size hint.
   Property theorems (proved in coq/theory/Layout*.v); the per-class geometry
   obligations are generated into LayoutGen.v from the current source on every
   run, and the real placements are validated in cases_*.v by the checker
   whose correctness is stated here. *)
From Coq Require Import QArith List Bool Arith.
Require Import LT.Layout LT.LayoutPath LT.LayoutPlace LT.LayoutMulti LT.LayoutPrune LT.LayoutSolve LT.LayoutLineq.
Import ListNotations.
Local Open Scope Q_scope.

(* 1. the position checker decides exactly "every constraint holds" *)
Theorem C20_checker_sound : forall cs pos, check cs pos = true -> Forall (holds pos) cs.
Proof. exact checker_sound. Qed.
Theorem C20_checker_complete : forall cs pos, Forall (holds pos) cs -> check cs pos = true.
Proof. exact checker_complete. Qed.
Theorem C20_failing_nil_iff : forall cs pos, failing cs pos = [] <-> (forall c, In c cs -> holds pos c).
Proof. exact failing_nil_iff. Qed.
Theorem C20_failing_sound : forall cs pos i, In i (failing cs pos) -> exists c, nth_error cs i = Some c /\ ~ holds pos c.
Proof. exact failing_sound. Qed.

(* 2. every drawn node has exactly one coordinate entry *)
Theorem C20_one_position : forall drawn coords,
  not_one drawn coords = [] <-> (forall n, In n drawn -> count_occ Nat.eq_dec coords n = 1%nat).
Proof. intros. rewrite not_one_nil. apply one_position_iff. Qed.

(* 3. the constraint set the placer-base model builds for a two-node component
      with hint right/left/up/down = s (stretchy or fixed) is exactly: second
      node in the hinted direction at distance >= s (= s when fixed), other
      coordinate equal *)
Theorem C20_constraints_from_hints : forall a b d s stretch px py, 0 < s ->
  (Forall (holds px) (xconstraints [bipole a b d s stretch]) /\
   Forall (holds py) (yconstraints [bipole a b d s stretch]))
  <-> hint_spec d s stretch a b px py.
Proof. exact constraints_from_hints. Qed.

(* ... and after Lcapy multiplies the graph-unit solution by node_spacing k the
   distance bound is s * k *)
Theorem C20_hints_with_spacing : forall a b d s k stretch gx gy, 0 < s -> 0 < k ->
  Forall (holds gx) (xconstraints [bipole a b d s stretch]) ->
  Forall (holds gy) (yconstraints [bipole a b d s stretch]) ->
  hint_spec d (s * k) stretch a b (fun n => gx n * k) (fun n => gy n * k).
Proof. exact hints_with_spacing. Qed.

(* 3b. components with ANY number of pins: on each axis the model's constraint
       set for one component is equivalent to the all-pairs statement the
       validation uses (equal pin values -> equal coordinate; smaller value ->
       at least (exactly, when not stretchy) (val_j - val_i) * size apart) *)
Theorem C20_place_iff_all_pairs : forall ns vs s st pos, 0 < s ->
  (Forall (holds pos) (map cstr_of_link (links ns vs) ++ map cstr_of_gedge (place ns vs s st))
   <-> all_pairs pos (combine vs ns) s st).
Proof. exact place_iff_all_pairs. Qed.

Theorem C20_scale_all : forall k pos cs, 0 < k ->
  Forall (holds pos) cs -> Forall (holds (fun n => pos n * k)) (map (scale_c k) cs).
Proof. exact scale_all. Qed.

(* 4. longest-path distances are a feasible placement of every DAG of >=
      constraints (graphs of any size; rank = a topological height) *)
Theorem C20_longest_path_feasible : forall (E : list (edge Q)) tgt rank F D,
  ranked E rank ->
  (forall e, In e E -> (rank (e_from e) < F)%nat) ->
  (forall e, In e E -> e_from e <> tgt) ->
  (forall u, u <> tgt -> (exists e, In e E /\ (e_from e = u \/ e_to e = u)) -> exists e, In e E /\ e_from e = u) ->
  Forall (holds (lp_pos E tgt F D)) (map cstr_of_edge E).
Proof. exact longest_path_feasible. Qed.

Theorem C20_longest_path_check : forall (E : list (edge Q)) tgt rank F D,
  ranked E rank ->
  (forall e, In e E -> (rank (e_from e) < F)%nat) ->
  (forall e, In e E -> e_from e <> tgt) ->
  (forall u, u <> tgt -> (exists e, In e E /\ (e_from e = u \/ e_to e = u)) -> exists e, In e E /\ e_from e = u) ->
  check (map cstr_of_edge E) (lp_pos E tgt F D) = true.
Proof. exact longest_path_check. Qed.

(* 4b. Graph.prune: the edge kept for a pair of gnodes is one of the parallel
       edges; a fixed edge survives (the same reduction is applied to the forward
       and to the reverse list, so it survives in both views); when all are
       stretchy the kept one is a largest one and implies the dropped ones *)
Theorem C20_prune_keeps_fixed : forall l e, In e l -> snd e = false -> exists b, best l = Some b /\ snd b = false.
Proof. exact best_keeps_fixed. Qed.
Theorem C20_prune_in : forall l b, best l = Some b -> In b l.
Proof. exact best_in. Qed.
Theorem C20_prune_sound_stretchy : forall pos a c l b,
  (forall e, In e l -> snd e = true /\ 0 < fst e) -> best l = Some b ->
  holds pos (mkC a c (fst b) RGe) -> forall e, In e l -> holds pos (mkC a c (fst e) RGe).
Proof. exact prune_sound_stretchy. Qed.

(* 4c. the solve stage of the graph placer (hand model LayoutSolve.solve of longest_path / assign_longest /
       assign_fixed / assign_stretchy / path_to_closest_known, tied to the real Graph.solve by in-Coq
       evaluation on every generated graph) is NOT feasibility preserving: for each of these constraint
       graphs - built by lcapy for the netlist quoted in LayoutSolve.v - a witness placement satisfies every
       constraint, and the placement the modelled rules compute violates one.  These are the open findings
       Graph.assign_stretchy:...:dangling-path / unwalked-neighbour and Graph.assign_fixed:...:rigid-fixed-chain /
       squeezed-path and Graph.assign_stretchy:...:walk-not-longest-path (solve_offpath_refuted: a gnode positioned as
       a passer-by of another gnode's walk with the stretch of a different path; solve_offpath_position: where it is
       put, and that the same graph with the two unknown gnodes in the other work-list order is placed feasibly). *)
Theorem C20_solve_dangling_refuted :
  check (cstrs_of_adj ex_dangling_F 4%nat 5%nat) (posof ex_dangling_wit) = true /\
  check (cstrs_of_adj ex_dangling_F 4%nat 5%nat) (posof (st_pos (solve ex_dangling_F ex_dangling_R ex_dangling_gn 4%nat 5%nat))) = false.
Proof. exact solve_dangling_refuted. Qed.
Theorem C20_solve_unwalked_refuted :
  check (cstrs_of_adj ex_unwalked_F 4%nat 5%nat) (posof ex_unwalked_wit) = true /\
  check (cstrs_of_adj ex_unwalked_F 4%nat 5%nat) (posof (st_pos (solve ex_unwalked_F ex_unwalked_R ex_unwalked_gn 4%nat 5%nat))) = false.
Proof. exact solve_unwalked_refuted. Qed.

(* 4d. the constraint table of the lineq placer (model of Lineq.add, tied to the real Lineq.constraints by
       in-Coq evaluation): a fixed constraint, once in the table, is never replaced by a later one *)
Theorem C20_lineq_table_keeps_fixed : forall es t x y c,
  lfind t x y = Some c -> l_st c = false ->
  lfind (fold_left (fun t g => ladd t (g_from g) (g_to g) (g_size g) (g_stretch g)) es t) x y = Some c.
Proof. exact lineq_table_keeps_fixed. Qed.

(* 5. the emission loop draws each non-ignored element exactly once *)
Theorem C20_tikz_once : forall (elt : Type) (name : elt -> nat) (ignored : elt -> bool) elts e,
  NoDup (map name elts) -> In e elts ->
  count (emitted elt name ignored elts) (name e) = if ignored e then 0%nat else 1%nat.
Proof. exact tikz_once. Qed.

(* sanity of the specification: a concrete layout that honours `R 0 1; right=2`
   at node spacing 2 and one that does not *)
Example spec_accepts :
  check (map (scale_c 2) (xconstraints [bipole 0%nat 1%nat DRight 2 true])) (lookup [(0%nat, 0); (1%nat, 4)]) = true.
Proof. vm_compute. reflexivity. Qed.
Example spec_rejects_short :
  check (map (scale_c 2) (xconstraints [bipole 0%nat 1%nat DRight 2 true])) (lookup [(0%nat, 0); (1%nat, 3)]) = false.
Proof. vm_compute. reflexivity. Qed.
Example spec_rejects_wrong_side :
  check (map (scale_c 2) (xconstraints [bipole 0%nat 1%nat DRight 2 true])) (lookup [(0%nat, 4); (1%nat, 0)]) = false.
Proof. vm_compute. reflexivity. Qed.
Example spec_fixed_exact :
  check (map (scale_c 2) (xconstraints [bipole 0%nat 1%nat DRight 2 false])) (lookup [(0%nat, 0); (1%nat, 5)]) = false.
Proof. vm_compute. reflexivity. Qed.

Print Assumptions C20_checker_sound.
Print Assumptions C20_checker_complete.
Print Assumptions C20_failing_nil_iff.
Print Assumptions C20_failing_sound.
Print Assumptions C20_one_position.
Print Assumptions C20_constraints_from_hints.
Print Assumptions C20_hints_with_spacing.
Print Assumptions C20_place_iff_all_pairs.
Print Assumptions C20_scale_all.
Print Assumptions C20_longest_path_feasible.
Print Assumptions C20_longest_path_check.
Print Assumptions C20_tikz_once.
Print Assumptions C20_lineq_table_keeps_fixed.
Print Assumptions C20_solve_dangling_refuted.
Print Assumptions C20_solve_unwalked_refuted.
Print Assumptions solve_rigid_eq_refuted.
Print Assumptions solve_squeezed_refuted.
Print Assumptions solve_offpath_refuted.
Print Assumptions solve_offpath_position.
Print Assumptions C20_prune_keeps_fixed.
Print Assumptions C20_prune_in.
Print Assumptions C20_prune_sound_stretchy.
