(* C13 — analytic statements (Coquelicot): the closed forms are the values of
   the defining unilateral sums inside the region of convergence (real z). *)
From Coq Require Import Reals.
From Coquelicot Require Import Coquelicot.
Require Import LT.FieldSec LT.SeqFilter LT.SeqDFT LT.SeqZ LT.SeqZAnalysis.
Open Scope R_scope.

(* a^n  o--o  z / (z - a),  |a / z| < 1 : the table entry behind `a**n` (X(z/a) of 1/(1 - 1/z)) *)
Theorem C13_geometric_entry (a z : R) : z <> 0 -> Rabs (a / z) < 1 ->
  is_series (fun n => a ^ n * (/ z) ^ n) (z / (z - a)).
Proof. exact (geometric_entry a z). Qed.

(* whenever Q . X = P as formal power series and sum x[n] w^n converges
   absolutely around w = 1/z, the closed form P(w)/Q(w) is the value of the sum *)
Theorem C13_zt_analytic (x : nat -> R) (P Q : list R) (w : R) :
  is_ztl (K:=RF) x (P, Q) -> Rbar_lt (Finite (Rabs w)) (CV_radius x) ->
  evalw (K:=RF) Q w * PSeries x w = evalw (K:=RF) P w.
Proof. exact (zt_analytic x P Q w). Qed.

(* ... in particular for every descriptor accepted by the model of ZTransformer.term *)
Theorem C13_zt_term_analytic (c : R) p geos steps (b : base RF) (w : R) :
  base_wf RF b ->
  Rbar_lt (Finite (Rabs w)) (CV_radius (sem_term (K:=RF) c p geos steps b)) ->
  evalw (K:=RF) (snd (zt_term (K:=RF) c p geos steps b)) w * PSeries (sem_term (K:=RF) c p geos steps b) w
  = evalw (K:=RF) (fst (zt_term (K:=RF) c p geos steps b)) w.
Proof. exact (zt_term_analytic c p geos steps b w). Qed.

Print Assumptions C13_geometric_entry.
Print Assumptions C13_zt_analytic.
Print Assumptions C13_zt_term_analytic.
