(* C15 - the loop selection of mesh analysis (CircuitGraph.loops / chordless_loops, NetworkX simple_cycles
   behind it) as a checked contract.  The loops the real code recorded are handed to Coq together with the
   edges of its circuit graph; Coq builds the signed edge-incidence row of every loop itself and checks
     - every recorded loop is a cycle of the graph (>= 3 distinct nodes, consecutive nodes joined by an edge),
     - a certificate of INDEPENDENCE (an elimination order in which every loop owns an edge that no later
       loop uses), or a certificate of DEPENDENCE (a non-zero combination of the rows that vanishes on every edge),
     - the number of loops against the cyclomatic number E - V + 1 of the connected graph.
   Theorems (any characteristic-0 field):
     peel_independent        an elimination order makes the incidence rows linearly independent;
     mesh_currents_unique    hence the mesh currents are determined by the branch currents they induce;
     kernel_not_unique       a vanishing non-zero combination gives two different mesh-current vectors that
                             induce the same current in every branch (the printed system A y = b is singular);
     peel_cert_unique / kernel_cert_sound   the two boolean certificates evaluated on real runs imply the above;
     loops_span / span_cert_sound   a certificate I - R^T P = Q Inc makes EVERY branch-current pattern that satisfies KCL
                             the image of mesh currents (the premise of mesh_sat_steps, for every solution);
     wheatstone_loops_dependent / wheatstone_mesh_currents_not_unique   the four loops Lcapy records for a
                             Wheatstone bridge (all four triangles of K4, cyclomatic number 3) are dependent. *)
Require Import LT.FieldSec LT.FormulCanon.
From Coq Require Import ZArith List Bool Arith Lia QArith Qcanon.
Import ListNotations.
Local Open Scope bool_scope.

Section Loops.
Variable K : fld.
Add Field KFloops : (fth K).
Local Open Scope F_scope.

(* one incidence function per loop: edge index -> -1, 0, 1 *)
Definition lrow := nat -> K.
(* current induced in branch e by the mesh currents cs *)
Fixpoint comb (cs : list K) (rows : list lrow) (e : nat) : K :=
  match cs, rows with c :: cs', r :: rows' => c * r e + comb cs' rows' e | _, _ => 0 end.

Fixpoint peel_ok (rows : list lrow) : Prop :=
  match rows with
  | [] => True
  | r :: rest => (exists e, r e <> 0 /\ Forall (fun r' : lrow => r' e = 0) rest) /\ peel_ok rest
  end.

Lemma comb_zero_rest cs rest e : Forall (fun r' : lrow => r' e = 0) rest -> comb cs rest e = 0.
Proof.
  revert cs; induction rest as [|r rest IH]; intros cs H; destruct cs as [|c cs]; cbn [comb]; try reflexivity.
  inversion H as [|? ? H1 H2]; subst. rewrite H1, (IH cs H2). ring.
Qed.

Theorem peel_independent rows : peel_ok rows -> forall cs, length cs = length rows ->
  (forall e, comb cs rows e = 0) -> Forall (fun c => c = 0) cs.
Proof.
  induction rows as [|r rest IH]; intros Hp cs Hl Hc.
  - destruct cs; [constructor | discriminate].
  - destruct cs as [|c cs]; [discriminate|]. destruct Hp as [[e [Hne Hz]] Hp].
    assert (Hc0 : c = 0).
    { pose proof (Hc e) as He. cbn [comb] in He. rewrite (comb_zero_rest cs rest e Hz) in He.
      destruct (fdec K c 0) as [E|E]; [exact E|]. exfalso. apply (mul_nz K c (r e) E Hne). rewrite <- He. ring. }
    constructor; [exact Hc0|]. apply IH; [exact Hp | cbn [length] in Hl; lia |].
    intros e'. pose proof (Hc e') as He. cbn [comb] in He. subst c. rewrite <- He. ring.
Qed.

Fixpoint vsub (a b : list K) : list K := match a, b with x :: a', y :: b' => (x - y) :: vsub a' b' | _, _ => [] end.
Fixpoint vadd (a b : list K) : list K := match a, b with x :: a', y :: b' => (x + y) :: vadd a' b' | _, _ => [] end.

Lemma vsub_length a b : length a = length b -> length (vsub a b) = length a.
Proof. revert b; induction a as [|x a IH]; intros [|y b] H; cbn [vsub length] in *; try reflexivity; try discriminate. rewrite IH; [reflexivity | lia]. Qed.
Lemma comb_vsub a b rows e : length a = length b -> comb (vsub a b) rows e = comb a rows e - comb b rows e.
Proof.
  revert b rows; induction a as [|x a IH]; intros [|y b] [|r rows] Hl; cbn [vsub comb length] in *; try discriminate; try ring.
  rewrite IH by lia. ring.
Qed.
Lemma comb_vadd a b rows e : length a = length b -> comb (vadd a b) rows e = comb a rows e + comb b rows e.
Proof.
  revert b rows; induction a as [|x a IH]; intros [|y b] [|r rows] Hl; cbn [vadd comb length] in *; try discriminate; try ring.
  rewrite IH by lia. ring.
Qed.
Lemma vsub_zero a b : length a = length b -> Forall (fun c => c = 0) (vsub a b) -> a = b.
Proof.
  revert b; induction a as [|x a IH]; intros [|y b] Hl H; cbn [vsub length] in *; try reflexivity; try discriminate.
  inversion H as [|? ? H1 H2]; subst. f_equal; [|apply IH; [lia | exact H2]].
  transitivity (x - y + y); [ring | rewrite H1; ring].
Qed.
Lemma vadd_fix a b : length a = length b -> vadd a b = a -> Forall (fun c => c = 0) b.
Proof.
  revert b; induction a as [|x a IH]; intros [|y b] Hl H; cbn [vadd length] in *; try constructor; try discriminate.
  - injection H as H1 H2. transitivity (x + y - x); [ring | rewrite H1; ring].
  - injection H as H1 H2. apply IH; [lia | exact H2].
Qed.

(* independent loops: the mesh currents are determined by the branch currents *)
Theorem mesh_currents_unique rows : peel_ok rows -> forall m1 m2, length m1 = length rows -> length m2 = length rows ->
  (forall e, comb m1 rows e = comb m2 rows e) -> m1 = m2.
Proof.
  intros Hp m1 m2 H1 H2 He. apply vsub_zero; [congruence|].
  apply (peel_independent rows Hp); [rewrite vsub_length; congruence|].
  intros e. rewrite comb_vsub by congruence. rewrite He. ring.
Qed.

(* dependent loops: two different mesh-current vectors induce the same current in every branch below nE *)
Theorem kernel_not_unique rows cs (nE : nat) : length cs = length rows -> Exists (fun c => c <> 0) cs ->
  (forall e, (e < nE)%nat -> comb cs rows e = 0) ->
  forall m, length m = length rows -> (forall e, (e < nE)%nat -> comb (vadd m cs) rows e = comb m rows e) /\ vadd m cs <> m.
Proof.
  intros Hl Hex Hk m Hm. split.
  - intros e He. rewrite comb_vadd by congruence. rewrite (Hk e He). ring.
  - intros E. apply vadd_fix in E; [|congruence]. apply Exists_exists in Hex. destruct Hex as [c [Hin Hc]].
    rewrite Forall_forall in E. exact (Hc (E c Hin)).
Qed.
End Loops.

(* ---- executable contract over Qc, evaluated on the loops of real runs --------------------------------------- *)
Local Open Scope Z_scope.
Definition steps_c (l : list Z) : list (Z * Z) := combine l (tl l ++ [hd 0 l]).
Definition same_dir (uv p : Z * Z) : bool := Z.eqb (fst p) (fst uv) && Z.eqb (snd p) (snd uv).
Definition opp_dir (uv p : Z * Z) : bool := Z.eqb (fst p) (snd uv) && Z.eqb (snd p) (fst uv).
Definition inc1 (l : list Z) (uv : Z * Z) : Z :=
  if existsb (same_dir uv) (steps_c l) then 1 else if existsb (opp_dir uv) (steps_c l) then -1 else 0.
Definition inc_row (edges : list (Z * Z)) (l : list Z) : list Qc := map (fun uv => qc (inc1 l uv) 1) edges.
Fixpoint nodupbZ (l : list Z) : bool := match l with [] => true | x :: r => negb (existsb (Z.eqb x) r) && nodupbZ r end.
Definition is_edge (edges : list (Z * Z)) (p : Z * Z) : bool := existsb (fun uv => same_dir uv p || opp_dir uv p) edges.
Definition cycle_okb (edges : list (Z * Z)) (l : list Z) : bool :=
  Nat.leb 3 (length l) && nodupbZ l && forallb (is_edge edges) (steps_c l).
Definition cycles_okb (edges : list (Z * Z)) (loops : list (list Z)) : bool := forallb (cycle_okb edges) loops.
Definition nodes_of (edges : list (Z * Z)) : list Z := nodup Z.eq_dec (flat_map (fun uv => [fst uv; snd uv]) edges).
(* cyclomatic number of a connected graph: E - V + 1 *)
Definition count_okb (edges : list (Z * Z)) (loops : list (list Z)) : bool :=
  Nat.eqb (length loops + length (nodes_of edges)) (length edges + 1).

Definition nthQ0 (l : list Qc) (k : nat) : Qc := nth k l 0%Qc.
Definition rowf (r : list Qc) : lrow QcF := fun e => nthQ0 r e.
Fixpoint peel_okb (rows : list (list Qc)) (wit : list nat) : bool :=
  match rows, wit with
  | [], [] => true
  | r :: rest, e :: wit' => negb (qc_eqb (nthQ0 r e) 0%Qc) && forallb (fun r' => qc_eqb (nthQ0 r' e) 0%Qc) rest && peel_okb rest wit'
  | _, _ => false
  end.
Definition permb (n : nat) (perm : list nat) : bool :=
  Nat.eqb (length perm) n && forallb (fun i => existsb (Nat.eqb i) perm) (seq 0 n).
Definition perm_rows (edges : list (Z * Z)) (loops : list (list Z)) (perm : list nat) : list (list Qc) :=
  map (fun i => inc_row edges (nth i loops [])) perm.
Definition peel_certb (edges : list (Z * Z)) (loops : list (list Z)) (perm wit : list nat) : bool :=
  permb (length loops) perm && peel_okb (perm_rows edges loops perm) wit.
Definition all_rows (edges : list (Z * Z)) (loops : list (list Z)) : list (lrow QcF) := map rowf (map (inc_row edges) loops).
Definition kernel_certb (edges : list (Z * Z)) (loops : list (list Z)) (cs : list Qc) : bool :=
  Nat.eqb (length cs) (length loops) && existsb (fun c => negb (qc_eqb c 0%Qc)) cs &&
  forallb (fun e => qc_eqb (comb QcF cs (all_rows edges loops) e) 0%Qc) (seq 0 (length edges)).

Lemma peel_okb_sound rows wit : peel_okb rows wit = true -> peel_ok QcF (map rowf rows).
Proof.
  revert wit; induction rows as [|r rest IH]; intros wit H; [exact I|].
  destruct wit as [|e wit]; [discriminate|]. cbn [peel_okb] in H.
  apply andb_true_iff in H. destruct H as [H H3]. apply andb_true_iff in H. destruct H as [H1 H2].
  cbn [map peel_ok]. split; [|exact (IH wit H3)].
  exists e. split.
  - unfold rowf. apply qc_neq. apply negb_true_iff. exact H1.
  - apply Forall_forall. intros r' Hin. apply in_map_iff in Hin. destruct Hin as [x [Hx Hin]]. subst r'.
    rewrite forallb_forall in H2. unfold rowf. apply qc_eqb_eq. exact (H2 x Hin).
Qed.

(* an accepted independence certificate: the mesh currents (listed in the order perm) are determined by the branch currents *)
Theorem peel_cert_unique edges loops perm wit : peel_certb edges loops perm wit = true ->
  forall m1 m2 : list Qc, length m1 = length perm -> length m2 = length perm ->
  (forall e, comb QcF m1 (map rowf (perm_rows edges loops perm)) e = comb QcF m2 (map rowf (perm_rows edges loops perm)) e) -> m1 = m2.
Proof.
  intros H m1 m2 H1 H2 He. unfold peel_certb in H. apply andb_true_iff in H. destruct H as [_ H].
  apply (mesh_currents_unique QcF _ (peel_okb_sound _ _ H)); [| |exact He];
    rewrite map_length; unfold perm_rows; rewrite map_length; assumption.
Qed.

(* an accepted dependence certificate: the mesh currents are NOT determined - m and m + cs induce the same branch currents *)
Theorem kernel_cert_sound edges loops cs : kernel_certb edges loops cs = true ->
  forall m : list Qc, length m = length loops ->
  (forall e, (e < length edges)%nat -> comb QcF (vadd QcF m cs) (all_rows edges loops) e = comb QcF m (all_rows edges loops) e)
  /\ vadd QcF m cs <> m.
Proof.
  intros H m Hm. unfold kernel_certb in H.
  apply andb_true_iff in H. destruct H as [H H3]. apply andb_true_iff in H. destruct H as [H1 H2].
  apply Nat.eqb_eq in H1.
  assert (Hlen : length (all_rows edges loops) = length loops) by (unfold all_rows; rewrite !map_length; reflexivity).
  apply (kernel_not_unique QcF (all_rows edges loops) cs (length edges)).
  - rewrite Hlen. exact H1.
  - apply existsb_exists in H2. destruct H2 as [c [Hin Hc]]. apply Exists_exists. exists c. split; [exact Hin|].
    apply qc_neq. apply negb_true_iff. exact Hc.
  - intros e He. rewrite forallb_forall in H3. apply qc_eqb_eq. apply H3. apply in_seq. lia.
  - rewrite Hlen. exact Hm.
Qed.

(* ---- the Wheatstone bridge: V1 1 0; R1 1 2; R2 1 3; R3 2 3; R4 2 0; R5 3 0 ------------------------------------
   CircuitGraph.chordless_loops keeps every simple cycle whose node set contains no other cycle's node set: all four
   triangles of K4, although the cyclomatic number is 3.  (Checked against the real code on every run: corpus case
   tagged loops-dependent.) *)
Definition wb_edges : list (Z * Z) := [(1, 0); (1, 2); (1, 3); (2, 3); (2, 0); (3, 0)].
Definition wb_loops : list (list Z) := [[0; 1; 2]; [1; 2; 3]; [0; 2; 3]; [0; 1; 3]].
Definition wb_kernel : list Qc := [qc 1 1; qc (-1) 1; qc 1 1; qc (-1) 1].

Theorem wheatstone_loops_are_cycles : cycles_okb wb_edges wb_loops = true.
Proof. vm_compute. reflexivity. Qed.
Theorem wheatstone_loops_count_refuted : count_okb wb_edges wb_loops = false.
Proof. vm_compute. reflexivity. Qed.
Theorem wheatstone_loops_dependent : kernel_certb wb_edges wb_loops wb_kernel = true.
Proof. vm_compute. reflexivity. Qed.
Theorem wheatstone_mesh_currents_not_unique : forall m : list Qc, length m = 4%nat ->
  (forall e, (e < 6)%nat -> comb QcF (vadd QcF m wb_kernel) (all_rows wb_edges wb_loops) e = comb QcF m (all_rows wb_edges wb_loops) e)
  /\ vadd QcF m wb_kernel <> m.
Proof. intros m Hm. exact (kernel_cert_sound wb_edges wb_loops wb_kernel wheatstone_loops_dependent m Hm). Qed.
(* dropping any one of the four loops (here the last) gives an independent set with the right count *)
Theorem wheatstone_three_loops_independent :
  peel_certb wb_edges (firstn 3 wb_loops) [0%nat; 1%nat; 2%nat] [0%nat; 2%nat; 5%nat] = true /\ count_okb wb_edges (firstn 3 wb_loops) = true.
Proof. vm_compute. split; reflexivity. Qed.


(* ---- the loops SPAN: every branch-current pattern that satisfies Kirchhoff's current law is induced by mesh currents ----
   Certificate (found by untrusted Python, checked here entry by entry): matrices P (loops x edges) and Q (edges x nodes) with
       I - R^T P = Q Inc        (R = loop/edge incidence rows, Inc = node/edge incidence),
   so that for every ib with Inc ib = 0 the mesh currents m = P ib induce R^T m = ib.  This discharges, for EVERY solution,
   the premise "the mesh currents reproduce the branch currents" of mesh_sat_steps (there checked on the reported solution). *)
Section Span.
Variable K : fld.
Add Field KFspan : (fth K).
Local Open Scope F_scope.
Variables (nE nV nL : nat).
Variables (R P Q Inc : nat -> nat -> K).
Definition delta (i j : nat) : K := if Nat.eqb i j then 1 else 0.
Definition induced (m : nat -> K) (e : nat) : K := sumn nL (fun k => m k * R k e).
Definition kcl_edges (ib : nat -> K) : Prop := forall n, (n < nV)%nat -> sumn nE (fun j => Inc n j * ib j) = 0.
Definition mesh_of (ib : nat -> K) (k : nat) : K := sumn nE (fun j => P k j * ib j).
Definition span_cert : Prop := forall i j, (i < nE)%nat -> (j < nE)%nat ->
  delta i j - sumn nL (fun k => R k i * P k j) = sumn nV (fun n => Q i n * Inc n j).

Lemma sumn_swap2 n m (F : nat -> nat -> K) : sumn n (fun i => sumn m (fun j => F i j)) = sumn m (fun j => sumn n (fun i => F i j)).
Proof.
  induction n as [|n IH]; cbn [sumn].
  - symmetry. apply sumn_zero. intros; reflexivity.
  - rewrite IH. rewrite <- sumn_add. reflexivity.
Qed.
Lemma sumn_delta i ib : (i < nE)%nat -> sumn nE (fun j => delta i j * ib j) = ib i.
Proof.
  intros Hi. rewrite (sumn_single K nE _ i Hi).
  - unfold delta. rewrite Nat.eqb_refl. ring.
  - intros k _ Hk. unfold delta. destruct (Nat.eqb i k) eqn:E; [apply Nat.eqb_eq in E; congruence | ring].
Qed.

Theorem loops_span : span_cert -> forall ib, kcl_edges ib -> forall i, (i < nE)%nat -> induced (mesh_of ib) i = ib i.
Proof.
  intros Hc ib Hk i Hi. unfold induced, mesh_of.
  transitivity (sumn nL (fun k => sumn nE (fun j => R k i * P k j * ib j))).
  { apply sumn_ext. intros k _. rewrite <- sumn_scale_r. apply sumn_ext. intros j _. ring. }
  rewrite sumn_swap2.
  transitivity (sumn nE (fun j => (delta i j - sumn nV (fun n => Q i n * Inc n j)) * ib j)).
  { apply sumn_ext. intros j Hj. rewrite <- (Hc i j Hi Hj).
    transitivity (sumn nL (fun k => R k i * P k j) * ib j); [rewrite <- sumn_scale_r; reflexivity | ring]. }
  transitivity (sumn nE (fun j => delta i j * ib j) - sumn nE (fun j => sumn nV (fun n => Q i n * (Inc n j * ib j)))).
  { rewrite <- sumn_sub. apply sumn_ext. intros j _.
    transitivity (delta i j * ib j - sumn nV (fun n => Q i n * Inc n j) * ib j); [ring|].
    rewrite <- sumn_scale_r. f_equal. apply sumn_ext. intros n _. ring. }
  rewrite sumn_delta by exact Hi. rewrite sumn_swap2.
  rewrite (sumn_zero K nV).
  - ring.
  - intros n Hn. cbv beta. rewrite sumn_scale. rewrite (Hk n Hn). ring.
Qed.
End Span.

Definition matQ (M : list (list Qc)) : nat -> nat -> QcF := fun i j => nthQ0 (nth i M []) j.
Definition inc_node (edges : list (Z * Z)) (n : Z) : list Qc :=
  map (fun uv : Z * Z => if Z.eqb (fst uv) n then qc 1 1 else if Z.eqb (snd uv) n then qc (-1) 1 else qc 0 1) edges.
Definition span_certb (edges : list (Z * Z)) (loops : list (list Z)) (nodes : list Z) (P Q : list (list Qc)) : bool :=
  let nE := length edges in
  let Rm := matQ (map (inc_row edges) loops) in
  let Im := matQ (map (inc_node edges) nodes) in
  forallb (fun i => forallb (fun j =>
     qc_eqb (Qcminus (delta QcF i j) (sumn (K:=QcF) (length loops) (fun k => Qcmult (Rm k i) (matQ P k j))))
            (sumn (K:=QcF) (length nodes) (fun n => Qcmult (matQ Q i n) (Im n j)))) (seq 0 nE)) (seq 0 nE).

(* an accepted spanning certificate: for EVERY branch currents ib that satisfy KCL at the listed nodes, the mesh currents P ib
   induce exactly ib in every branch of the circuit graph *)
Theorem span_cert_sound edges loops nodes P Q : span_certb edges loops nodes P Q = true ->
  forall ib : nat -> Qc,
  kcl_edges QcF (length edges) (length nodes) (matQ (map (inc_node edges) nodes)) ib ->
  forall i, (i < length edges)%nat ->
  induced QcF (length loops) (matQ (map (inc_row edges) loops)) (mesh_of QcF (length edges) (matQ P) ib) i = ib i.
Proof.
  intros H ib Hk i Hi.
  apply (loops_span QcF (length edges) (length nodes) (length loops) _ (matQ P) (matQ Q) (matQ (map (inc_node edges) nodes))); [|exact Hk|exact Hi].
  intros a b Ha Hb. unfold span_certb in H. rewrite forallb_forall in H.
  assert (Ha' : In a (seq 0 (length edges))) by (apply in_seq; lia).
  assert (Hb' : In b (seq 0 (length edges))) by (apply in_seq; lia).
  pose proof (H a Ha') as H1. rewrite forallb_forall in H1. pose proof (H1 b Hb') as H2.
  apply qc_eqb_eq in H2. exact H2.
Qed.

(* the Wheatstone bridge with one of the four triangles dropped: the three remaining loops span *)
Definition wb_P : list (list Qc) :=
  [[qc (-1) 1; qc 0 1; qc 0 1; qc 0 1; qc 0 1; qc 0 1];
   [qc 1 1; qc 1 1; qc 0 1; qc 0 1; qc 0 1; qc 0 1];
   [qc (-1) 1; qc (-1) 1; qc 0 1; qc 1 1; qc 0 1; qc 0 1]].
Definition wb_Q : list (list Qc) :=
  [[qc 0 1; qc 0 1; qc 0 1; qc 0 1];
   [qc 0 1; qc 0 1; qc 0 1; qc 0 1];
   [qc 0 1; qc 1 1; qc 0 1; qc 0 1];
   [qc 0 1; qc 0 1; qc 0 1; qc 0 1];
   [qc 0 1; qc 0 1; qc 1 1; qc 0 1];
   [qc 0 1; qc 1 1; qc 0 1; qc 1 1]].
Theorem wheatstone_three_loops_span : span_certb wb_edges (firstn 3 wb_loops) [0; 1; 2; 3] wb_P wb_Q = true.
Proof. vm_compute. reflexivity. Qed.

Print Assumptions peel_independent.
Print Assumptions mesh_currents_unique.
Print Assumptions kernel_not_unique.
Print Assumptions peel_okb_sound.
Print Assumptions peel_cert_unique.
Print Assumptions kernel_cert_sound.
Print Assumptions wheatstone_loops_are_cycles.
Print Assumptions wheatstone_loops_count_refuted.
Print Assumptions wheatstone_loops_dependent.
Print Assumptions wheatstone_mesh_currents_not_unique.
Print Assumptions wheatstone_three_loops_independent.
Print Assumptions loops_span.
Print Assumptions span_cert_sound.
Print Assumptions wheatstone_three_loops_span.
