(* C13 — N-point DFT over a field with a primitive N-th root of unity W
   (for Lcapy W = exp(-2 j pi / N)): definition, orthogonality, inversion, and
   the closed forms of lcapy/dft.py that have a closed form in k and N
   (impulse, constant, geometric, complex exponential).  Axiom-free. *)
Require Import LT.FieldSec LT.SeqFilter.
Local Open Scope F_scope.

Section DFT.
Variable K : fld.
Add Field KFdft : (fth K).
Notation sumn := (@sumn K). Notation pw := (@pw K).

Definition ofnat (n : nat) : K := sumn n (fun _ => 1).
Lemma ofnat_S n : ofnat (S n) = ofnat n + 1.
Proof. reflexivity. Qed.
Lemma ofnat_pos p : ofnat (Pos.to_nat p) = Pos.iter_op fadd p 1.
Proof. induction p using Pos.peano_ind.
  - change (Pos.to_nat 1) with 1%nat. unfold ofnat. cbn [SeqFilter.sumn Pos.iter_op]. ring.
  - rewrite Pos2Nat.inj_succ, ofnat_S, IHp.
    rewrite Pos.iter_op_succ by (intros; ring). ring. Qed.
Lemma ofnat_nz n : (0 < n)%nat -> ofnat n <> 0.
Proof. intros H. replace n with (Pos.to_nat (Pos.of_nat n)) by (apply Nat2Pos.id; lia).
  rewrite ofnat_pos. apply fchar0. Qed.
Lemma sumn_const n c : sumn n (fun _ => c) = c * ofnat n.
Proof. induction n as [|n IH]; cbn [SeqFilter.sumn]; [unfold ofnat; cbn; ring|]. rewrite IH, ofnat_S. ring. Qed.

Lemma pw_1 n : pw 1 n = 1.
Proof. induction n as [|n IH]; cbn; [reflexivity|]. rewrite IH. ring. Qed.
Lemma pw_mul z n m : pw z (n * m) = pw (pw z m) n.
Proof. induction n as [|n IH]; cbn [Nat.mul SeqFilter.pw]; [reflexivity|]. rewrite pw_add, IH. reflexivity. Qed.
Lemma pw_mul' z n m : pw z (n * m) = pw (pw z n) m.
Proof. rewrite Nat.mul_comm. apply pw_mul. Qed.
Lemma pw_prod a b n : pw (a * b) n = pw a n * pw b n.
Proof. induction n as [|n IH]; cbn; [ring|]. rewrite IH. ring. Qed.
(* geometric sum *)
Lemma geom_sum q n : (1 - q) * sumn n (fun i => pw q i) = 1 - pw q n.
Proof. induction n as [|n IH]; cbn [SeqFilter.sumn SeqFilter.pw]; [ring|].
  transitivity ((1 - q) * sumn n (fun i => pw q i) + (1 - q) * pw q n); [ring|]. rewrite IH. ring. Qed.
Lemma geom_sum_div q n : q <> 1 -> sumn n (fun i => pw q i) = (1 - pw q n) / (1 - q).
Proof. intros Hq. assert (H1 : 1 - q <> 0) by (intros E; apply Hq; transitivity (1 - (1 - q)); [ring|rewrite E; ring]).
  rewrite <- geom_sum. field. exact H1. Qed.
(* geometric sum over a window  lower .. upper  (dft.py: termXq) *)
Lemma geom_range q lower len : q <> 1 ->
  sumn len (fun i => pw q (lower + i)) = pw q lower * (1 - pw q len) / (1 - q).
Proof. intros Hq. assert (H1 : 1 - q <> 0) by (intros E; apply Hq; transitivity (1 - (1 - q)); [ring|rewrite E; ring]).
  rewrite (sumn_ext K len _ (fun i => pw q lower * pw q i)) by (intros; apply pw_add).
  rewrite sumn_scal, geom_sum_div by exact Hq. field. exact H1. Qed.

(* telescoping principle behind the closed forms  (q^lower A_l - q^(upper+1) B_u) / (1-q)^(p+1)
   of termXq for n**p: if A - q B(l) = T(l) and B(u) - q B(u+1) = T(u+1) then
   sum_{n=l}^{l+len} T(n) q^n = q^l A - q^(l+len+1) B(l+len) *)
Lemma tele_sum (q : K) (l : nat) (A : K) (B T : nat -> K) :
  A - q * B l = T l -> (forall u, B u - q * B (S u) = T (S u)) ->
  forall len, sumn (S len) (fun i => T (l + i)%nat * pw q (l + i)) = pw q l * A - pw q (l + len + 1) * B (l + len)%nat.
Proof.
  intros H0 Hs len. induction len as [|len IH].
  - cbn [SeqFilter.sumn]. rewrite !Nat.add_0_r. replace (l + 1)%nat with (S l) by lia. cbn [SeqFilter.pw].
    rewrite <- H0. ring.
  - rewrite sumn_S, IH. replace (l + S len)%nat with (S (l + len)) by lia. rewrite <- (Hs (l + len)%nat).
    replace (l + len + 1)%nat with (S (l + len)) by lia. replace (S (l + len) + 1)%nat with (S (S (l + len))) by lia.
    cbn [SeqFilter.pw]. ring.
Qed.
(* q d/dq on the finite sum (termXq "* n":  Xq <- q * diff(Xq, q)) and q -> q a (termXq "* a**n") act termwise *)
Lemma sum_scale_q (a q : K) (x : nat -> K) n : sumn n (fun i => pw a i * x i * pw q i) = sumn n (fun i => x i * pw (q * a) i).
Proof. apply sumn_ext. intros i Hi. rewrite pw_prod. ring. Qed.

Variable W : K.
Variable N : nat.
Hypothesis HN : (0 < N)%nat.
Hypothesis WN : pw W N = 1.
Hypothesis Wprim : forall k, (0 < k < N)%nat -> pw W k <> 1.
Let V := 1 / W.

Lemma W_nz : W <> 0.
Proof. intros E. destruct N as [|n]; [lia|]. cbn in WN. rewrite E in WN. apply (one_nz K). rewrite <- WN. ring. Qed.
Lemma V_pw d : (d <= N)%nat -> pw V d = pw W (N - d).
Proof. intros Hd. pose proof W_nz as Hw.
  transitivity (pw V d * pw W N); [rewrite WN; ring|].
  replace N with (d + (N - d))%nat at 1 by lia. rewrite pw_add.
  transitivity ((pw W d * pw (1 / W) d) * pw W (N - d)); [unfold V; ring|]. rewrite pw_inv by exact Hw. ring. Qed.
Lemma W_period k : pw W (N + k) = pw W k.
Proof. rewrite pw_add, WN. ring. Qed.

(* the N-point DFT and its inverse, as Lcapy defines them
     X[k] = sum_{n<N} x[n] W^(n k),  x[n] = (1/N) sum_{k<N} X[k] W^(-n k)  *)
Definition dft (x : nat -> K) (k : nat) : K := sumn N (fun n => x n * pw W (n * k)).
Definition idft (X : nat -> K) (n : nat) : K := sumn N (fun k => X k * pw V (n * k)) / ofnat N.

(* dft_def: the model is the finite defining sum, for every k *)
Theorem dft_def x k : dft x k = sumn N (fun n => x n * pw (pw W k) n).
Proof. unfold dft. apply sumn_ext. intros n Hn. rewrite pw_mul. reflexivity. Qed.

(* orthogonality *)
Lemma orth0 k : (0 < k < N)%nat -> sumn N (fun n => pw W (n * k)) = 0.
Proof. intros Hk.
  rewrite (sumn_ext K N _ (fun n => pw (pw W k) n)) by (intros; apply pw_mul).
  rewrite geom_sum_div by (apply Wprim; exact Hk).
  rewrite <- pw_mul, Nat.mul_comm, pw_mul, WN, pw_1.
  assert (H1 : 1 - pw W k <> 0).
  { intros E. apply (Wprim k Hk). transitivity (1 - (1 - pw W k)); [ring|rewrite E; ring]. }
  field. exact H1. Qed.
Lemma orth m n : (m < N)%nat -> (n < N)%nat ->
  sumn N (fun k => pw W (m * k) * pw V (n * k)) = if Nat.eq_dec m n then ofnat N else 0.
Proof. intros Hm Hn. pose proof W_nz as Hw. destruct (Nat.eq_dec m n) as [->|Hne].
  - rewrite (sumn_ext K N _ (fun _ => 1)); [rewrite sumn_const; ring|].
    intros k Hk. unfold V. apply pw_inv. exact Hw.
  - destruct (Nat.lt_ge_cases n m) as [Hlt|Hge].
    + rewrite <- (orth0 (m - n)) by lia. apply sumn_ext. intros k Hk.
      replace (m * k)%nat with ((m - n) * k + n * k)%nat by nia. rewrite pw_add.
      transitivity (pw W ((m - n) * k) * (pw W (n * k) * pw (1 / W) (n * k))); [unfold V; ring|].
      rewrite pw_inv by exact Hw. rewrite (Nat.mul_comm k). ring.
    + rewrite <- (orth0 (N - (n - m))) by lia. apply sumn_ext. intros k Hk.
      replace (n * k)%nat with ((n - m) * k + m * k)%nat by nia. rewrite (pw_add K V).
      transitivity (pw V ((n - m) * k) * (pw W (m * k) * pw (1 / W) (m * k))); [unfold V; ring|].
      rewrite pw_inv by exact Hw. rewrite (Nat.mul_comm (n - m)), pw_mul, V_pw by lia.
      rewrite <- pw_mul. ring. Qed.

(* idft_dft: the inverse DFT recovers the N samples the DFT determines *)
Theorem idft_dft x n : (n < N)%nat -> idft (dft x) n = x n.
Proof. intros Hn. pose proof (ofnat_nz N HN) as HNz. unfold idft, dft.
  rewrite (sumn_ext K N _ (fun k => sumn N (fun m => x m * (pw W (m * k) * pw V (n * k))))).
  2:{ intros k Hk. rewrite <- sumn_scal_r. apply sumn_ext. intros; ring. }
  rewrite sumn_swap.
  rewrite (sumn_ext K N _ (fun m => x m * (if Nat.eq_dec m n then ofnat N else 0))).
  2:{ intros m Hm. rewrite sumn_scal. rewrite orth by assumption. reflexivity. }
  rewrite (sumn_single K N _ n Hn).
  - destruct (Nat.eq_dec n n); [|congruence]. field. exact HNz.
  - intros i Hi Hne. destruct (Nat.eq_dec i n); [contradiction|ring]. Qed.
Theorem dft_idft X k : (k < N)%nat -> dft (idft X) k = X k.
Proof. intros Hk. pose proof (ofnat_nz N HN) as HNz. unfold idft, dft.
  rewrite (sumn_ext K N _ (fun n => (1 / ofnat N) * sumn N (fun m => X m * (pw W (k * n) * pw V (m * n))))).
  2:{ intros n Hn.
      transitivity ((1 / ofnat N) * (sumn N (fun m => X m * pw V (n * m)) * pw W (n * k))); [field; exact HNz|].
      f_equal. rewrite <- sumn_scal_r. apply sumn_ext. intros m Hm.
      rewrite (Nat.mul_comm n k), (Nat.mul_comm n m). ring. }
  rewrite sumn_scal, sumn_swap.
  rewrite (sumn_ext K N _ (fun m => X m * (if Nat.eq_dec k m then ofnat N else 0))).
  2:{ intros m Hm. rewrite sumn_scal. rewrite orth by assumption. reflexivity. }
  rewrite (sumn_single K N _ k Hk).
  - destruct (Nat.eq_dec k k); [|congruence]. field. exact HNz.
  - intros i Hi Hne. destruct (Nat.eq_dec k i); [congruence|ring]. Qed.

(* --- closed forms of dft.py (termXq / make_transform) ------------------- *)
(* impulse  delta[n - n0], 0 <= n0 < N :  X[k] = W^(n0 k)  (q**nn0) *)
Theorem dft_impulse n0 k : (n0 < N)%nat ->
  dft (fun n => if Nat.eq_dec n n0 then 1 else 0) k = pw W (n0 * k).
Proof. intros H. unfold dft. rewrite (sumn_single K N _ n0 H).
  - destruct (Nat.eq_dec n0 n0); [ring|congruence].
  - intros i Hi Hne. destruct (Nat.eq_dec i n0); [contradiction|ring]. Qed.
(* ... dft.py shifts n0 > N/2 to n0 - N: same value since W^N = 1 *)
Lemma impulse_shift n0 k : (n0 < N)%nat -> pw W (n0 * k) * pw W ((N - n0) * k) = 1.
Proof. intros H. rewrite <- pw_add. replace (n0 * k + (N - n0) * k)%nat with (k * N)%nat by nia.
  rewrite pw_mul, WN. apply pw_1. Qed.
(* constant c:  X[k] = c N delta[k]   (result_1 = c (upper - lower + 1); general q-form vanishes since q^N = 1) *)
Theorem dft_const c k : (k < N)%nat -> dft (fun _ => c) k = if Nat.eq_dec k 0 then c * ofnat N else 0.
Proof. intros Hk. unfold dft. destruct (Nat.eq_dec k 0) as [->|Hne].
  - rewrite (sumn_ext K N _ (fun _ => c)); [apply sumn_const|]. intros n Hn. rewrite Nat.mul_0_r. cbn. ring.
  - rewrite sumn_scal. rewrite orth0 by lia. ring. Qed.
(* geometric a^n:  X[k] = (1 - a^N) / (1 - a W^k)   when a W^k <> 1 *)
Theorem dft_geom a k : a * pw W k <> 1 ->
  dft (fun n => pw a n) k = (1 - pw a N) / (1 - a * pw W k).
Proof. intros H. unfold dft.
  rewrite (sumn_ext K N _ (fun n => pw (a * pw W k) n)).
  2:{ intros n Hn. rewrite pw_prod, <- pw_mul. reflexivity. }
  rewrite geom_sum_div by exact H. rewrite pw_prod, <- pw_mul, Nat.mul_comm, pw_mul, WN, pw_1.
  f_equal. ring. Qed.
(* complex exponential exp(+2 j pi k0 n / N) = W^(-k0 n):  X[k] = N delta[k - k0] *)
Theorem dft_cexp k0 k : (k0 < N)%nat -> (k < N)%nat ->
  dft (fun n => pw V (k0 * n)) k = if Nat.eq_dec k k0 then ofnat N else 0.
Proof. intros H0 Hk. unfold dft.
  rewrite (sumn_ext K N _ (fun n => pw W (k * n) * pw V (k0 * n))).
  2:{ intros n Hn. rewrite (Nat.mul_comm n k). ring. }
  apply orth; assumption. Qed.
(* the conjugate tone W^(+k0 n) = exp(-2 j pi k0 n / N) lands on bin N - k0 *)
Lemma orthW m k : (m < N)%nat -> (k < N)%nat ->
  sumn N (fun n => pw W (m * n) * pw W (n * k)) = if Nat.eq_dec ((m + k) mod N) 0 then ofnat N else 0.
Proof.
  intros Hm Hk.
  rewrite (sumn_ext K N _ (fun n => pw W (n * (m + k)))).
  2:{ intros n Hn. rewrite <- pw_add. f_equal. lia. }
  destruct (Nat.eq_dec (m + k) 0) as [E0|E0].
  - rewrite E0. rewrite Nat.mod_0_l by lia. cbn [Nat.eq_dec]. destruct (Nat.eq_dec 0 0); [|congruence].
    rewrite (sumn_ext K N _ (fun _ => 1)); [rewrite sumn_const; ring|]. intros n Hn. rewrite Nat.mul_0_r. reflexivity.
  - destruct (Nat.lt_ge_cases (m + k) N) as [Hlt|Hge].
    + rewrite Nat.mod_small by exact Hlt. destruct (Nat.eq_dec (m + k) 0) as [Ez|Ez]; [contradiction|]. apply orth0. lia.
    + destruct (Nat.eq_dec (m + k) N) as [EN|EN].
      * rewrite EN, Nat.mod_same by lia. destruct (Nat.eq_dec 0 0); [|congruence].
        rewrite (sumn_ext K N _ (fun _ => 1)); [rewrite sumn_const; ring|]. intros n Hn. rewrite pw_mul, WN. apply pw_1.
      * assert (Hs : ((m + k) mod N = m + k - N)%nat).
        { replace (m + k)%nat with ((m + k - N) + 1 * N)%nat at 1 by lia. rewrite Nat.mod_add by lia. apply Nat.mod_small. lia. }
        rewrite Hs. destruct (Nat.eq_dec (m + k - N) 0) as [Ez|Ez]; [lia|].
        rewrite <- (orth0 (m + k - N)) by lia. apply sumn_ext. intros n Hn.
        replace (n * (m + k))%nat with (n * (m + k - N) + n * N)%nat by nia. rewrite pw_add, (pw_mul W n N), WN, pw_1. ring.
Qed.
(* two tones  A exp(+2 j pi k0 n/N) + B exp(-2 j pi k0 n/N)  (cos/sin with phase on a DFT bin):
   A lands on bin k0 and B on bin N - k0  (termXq: rq1.shift_k(k0), rq2.shift_k(-k0)) *)
Theorem dft_two_tone (A B : K) k0 k : (0 < k0 < N)%nat -> (k < N)%nat ->
  dft (fun n => A * pw V (k0 * n) + B * pw W (k0 * n)) k
  = A * (if Nat.eq_dec k k0 then ofnat N else 0) + B * (if Nat.eq_dec k (N - k0) then ofnat N else 0).
Proof.
  intros H0 Hk. unfold dft.
  rewrite (sumn_ext K N _ (fun n => A * (pw V (k0 * n) * pw W (n * k)) + B * (pw W (k0 * n) * pw W (n * k)))) by (intros; ring).
  rewrite sumn_add, !sumn_scal. f_equal; f_equal.
  - pose proof (dft_cexp k0 k ltac:(lia) Hk) as E. unfold dft in E. exact E.
  - rewrite orthW by lia.
    destruct (Nat.eq_dec k (N - k0)) as [->|Hne].
    + replace (k0 + (N - k0))%nat with N by lia. rewrite Nat.mod_same by lia. destruct (Nat.eq_dec 0 0); [reflexivity|congruence].
    + destruct (Nat.eq_dec ((k0 + k) mod N) 0) as [Em|Em]; [|reflexivity]. exfalso.
      destruct (Nat.lt_ge_cases (k0 + k) N) as [Hlt|Hge].
      * rewrite Nat.mod_small in Em by exact Hlt. lia.
      * replace (k0 + k)%nat with ((k0 + k - N) + 1 * N)%nat in Em by lia. rewrite Nat.mod_add in Em by lia.
        rewrite Nat.mod_small in Em by lia. lia.
Qed.
(* shift: a sequence stored with origin n0 (Sequence.DFT uses self.n) *)
Theorem dft_shift (x : nat -> K) n0 k :
  sumn N (fun i => x i * pw W ((n0 + i) * k)) = pw W (n0 * k) * dft x k.
Proof. unfold dft. rewrite <- sumn_scal. apply sumn_ext. intros i Hi.
  rewrite Nat.mul_add_distr_r, pw_add. ring. Qed.
End DFT.

(* executable forms used by the correspondence evaluation (lists) *)
Section DFTList.
Variable K : fld.
Definition zpw (z : K) (e : Z) : K := if (e <? 0)%Z then pw (1 / z) (Z.to_nat (- e)) else pw z (Z.to_nat e).
(* DiscreteTimeDomainSequence.DFT: N = len(vals), exponent uses the stored index n0 + i *)
Definition seq_dft (W : K) (n0 : Z) (vals : list K) (k : nat) : K :=
  sumn (length vals) (fun i => nth i vals 0 * zpw W ((n0 + Z.of_nat i) * Z.of_nat k)).
Definition seq_idft (W : K) (k0 : Z) (vals : list K) (n : nat) : K :=
  sumn (length vals) (fun i => nth i vals 0 * zpw (1 / W) (Z.of_nat n * (k0 + Z.of_nat i))) / ofnat K (length vals).
Lemma seq_dft_origin0 W vals k :
  seq_dft W 0 vals k = dft K W (length vals) (fun i => nth i vals 0) k.
Proof. unfold seq_dft, dft. apply sumn_ext. intros i Hi. f_equal. unfold zpw.
  destruct (Z.ltb_spec (0 + Z.of_nat i) 0); [lia|].
  destruct (Z.ltb_spec ((0 + Z.of_nat i) * Z.of_nat k) 0); [lia|]. f_equal. lia. Qed.
End DFTList.
Arguments dft {K}. Arguments idft {K}. Arguments ofnat {K}. Arguments zpw {K}. Arguments seq_dft {K}. Arguments seq_idft {K}.
