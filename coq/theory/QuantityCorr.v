(* C18 — helpers for the in-Coq correspondence evaluation (generated cases_*.v
   files): enumeration of the operand space in the order used by
   tools/impl_quantity.py, run-length decoding of the observed results, and the
   comparison that prints the failing indices. *)
From Coq Require Import ZArith NArith List Bool.
Import ListNotations.
Require Import LT.QuantityBase LT.QuantityModel.

Section Corr.
Variable T : tables.

Definition class_domains : list domain := filter (has_class T) all_domains.

(* operand with the default units of its class *)
Definition dop (d : domain) (q : quantity) (v : valkind) : operand := Op d q (def_units T d q) v.

(* right operands in the order domains x quantities x value kinds *)
Definition bspace (vks : list valkind) : list operand :=
  flat_map (fun d => flat_map (fun q => map (dop d q) vks) all_quantities) class_domains.

Fixpoint repeatN {A} (x : A) (n : nat) (acc : list A) : list A :=
  match n with O => acc | S k => repeatN x k (x :: acc) end.

(* run-length decoding, tail recursive; the result is REVERSED *)
Fixpoint expand_rev {A} (l : list (A * N)) (acc : list A) : list A :=
  match l with
  | [] => acc
  | (x, n) :: r => expand_rev r (repeatN x (N.to_nat n) acc)
  end.
Definition expand {A} (l : list (A * N)) : list A := rev' (expand_rev l []).

(* indices (from 0) where the two lists differ; a length difference is reported
   as index = length of the shorter list *)
Fixpoint mism (i : N) (xs ys : list res) (acc : list N) : list N :=
  match xs, ys with
  | [], [] => acc
  | x :: xr, y :: yr => mism (N.succ i) xr yr (if res_eqb x y then acc else i :: acc)
  | _, _ => i :: acc
  end.
Definition mismatches (model observed : list res) : N * list N :=
  let m := rev' (mism 0%N model observed []) in
  (N.of_nat (length m), firstn 40 m).

End Corr.

(* ---- the finite operand space used by the exhaustive statements ------------- *)
Section Space.
Variable T : tables.
Definition vks : list valkind := [VZ; VC; VV].
(* every class x value kind, all with the units u *)
Definition ops_u (u : uvec) : list operand :=
  flat_map (fun d => flat_map (fun q => map (Op d q u) vks) all_quantities) (class_domains T).
(* every class x value kind with the class's default units *)
Definition ops_default : list operand := bspace T vks.

Lemma vks_complete : forall v, In v vks.
Proof. destruct v; simpl; tauto. Qed.
Lemma class_domains_complete : forall d, has_class T d = true -> In d (class_domains T).
Proof. intros d H. unfold class_domains. apply filter_In. split; [apply all_domains_complete|exact H]. Qed.
Lemma ops_u_complete : forall u d q v, has_class T d = true -> In (Op d q u v) (ops_u u).
Proof.
  intros u d q v H. unfold ops_u. apply in_flat_map. exists d. split; [apply class_domains_complete; exact H|].
  apply in_flat_map. exists q. split; [apply all_quantities_complete|]. apply in_map. apply vks_complete.
Qed.
(* the same with a chosen list of value kinds *)
Definition ops_uv (vs : list valkind) (u : uvec) : list operand :=
  flat_map (fun d => flat_map (fun q => map (Op d q u) vs) all_quantities) (class_domains T).
Lemma ops_uv_complete : forall vs u d q v, has_class T d = true -> In v vs -> In (Op d q u v) (ops_uv vs u).
Proof.
  intros vs u d q v H Hv. unfold ops_uv. apply in_flat_map. exists d. split; [apply class_domains_complete; exact H|].
  apply in_flat_map. exists q. split; [apply all_quantities_complete|]. apply in_map. exact Hv.
Qed.
Lemma ops_default_complete : forall d q v, has_class T d = true -> In (dop T d q v) ops_default.
Proof.
  intros d q v H. unfold ops_default, bspace. apply in_flat_map. exists d. split; [apply class_domains_complete; exact H|].
  apply in_flat_map. exists q. split; [apply all_quantities_complete|]. apply in_map. apply vks_complete.
Qed.
End Space.

Definition all_bools : list bool := [true; false].
Definition all_flags : list flags :=
  flat_map (fun l => flat_map (fun c => map (fun k => Fl l c k) all_bools) all_bools) all_bools.
Lemma all_flags_complete : forall fl, In fl all_flags.
Proof. intros [[|] [|] [|]]; simpl; tauto. Qed.

Lemma forallb2_In : forall (A B : Type) (f : A -> B -> bool) la lb,
  forallb (fun a => forallb (f a) lb) la = true -> forall a b, In a la -> In b lb -> f a b = true.
Proof.
  intros A B f la lb H a b Ha Hb. rewrite forallb_forall in H. specialize (H a Ha).
  rewrite forallb_forall in H. exact (H b Hb).
Qed.
Lemma forallb3_In : forall (A B C : Type) (f : A -> B -> C -> bool) la lb lc,
  forallb (fun a => forallb (fun b => forallb (f a b) lc) lb) la = true ->
  forall a b c, In a la -> In b lb -> In c lc -> f a b c = true.
Proof.
  intros A B C f la lb lc H a b c Ha Hb Hc. rewrite forallb_forall in H. specialize (H a Ha).
  exact (forallb2_In _ _ (f a) lb lc H b c Hb Hc).
Qed.
