(* SynthPat — model of the pattern realisers of lcapy/synthesis.py
   (seriesRL ... parallelRLC) as an interpreter over a small table language;
   the tables themselves are regenerated from the source by tools/tr_synth.py.

   A realiser computes  d = E.partfrac().expr.collect(var, evaluate=False)
   with E = lexpr (series forms) or E = 1/lexpr (parallel forms), pops the
   entries for the keys 1/var, 1, var and must find nothing else.  Everything
   that is not a monomial in var ends up (with an s-dependent coefficient)
   under the key 1 and makes the element constructor raise, other powers stay
   in d and make the final test raise.  Hence the model: E must be
   cm/x + c0 + c1*x  ([laurent3], decided by ONE exact polynomial division:
   x*a = Q*b with deg Q <= 2), a key is present iff its coefficient is not 0.

   Theorems: [laurent3_sound]; [pattern_sound] (any table whose coefficient
   level behaviour is sound realises n/d, multiplicatively: Z * d(x) = n(x));
   tactics [coeff_sound_tac] / [coeff_rejects_tac] used on the generated tables.
   Axiom-free. *)
Require Import LT.FieldSec LT.PolyQ LT.SynthNet.
Local Open Scope F_scope.

Inductive res (A : Type) := Ok (a : A) | Err.
Arguments Ok {A}. Arguments Err {A}.
Inductive pw := Pm1 | P0 | P1.                     (* keys 1/var, 1, var *)
Inductive comb := CSet | CSer | CPar.              (* v = X | v = series(v, X) | v = parallel(v, X) *)
Inductive step :=
| SPop (key : pw) (var : nat) (cb : comb) (k : kind) (inv : bool)
     (* a = d.pop(key, None); if a is not None: var = cb(var, k(a))   (k(1/a) when inv) *)
| SRej (key : pw).                                  (* a = d.pop(key, 0); if a != 0: raise *)
Inductive retk := RVar (v : nat) | RSer (vs : list nat) | RPar (vs : list nat).
(* the test between the last pop and the return:
   GExhaust    if d != {}: raise        (every term of the expansion was consumed)
   GVarNone v  if v is None: raise      (does NOT imply that all terms were consumed)
   GNoGuard    no test at all *)
Inductive guard := GExhaust | GVarNone (v : nat) | GNoGuard.
Record pat := MkPat { p_par : bool;                (* d built from 1/lexpr *)
                      p_zero_none : bool;          (* lexpr == 0: return None (else raise) *)
                      p_guard : guard;
                      p_steps : list step;
                      p_ret : retk }.

Definition p_exhaust (p : pat) : bool := match p_guard p with GExhaust => true | _ => false end.

Section Pat.
Variable K : fld.
Add Field KFpat : (fth K).
Notation poly := (list K).
Notation net := (net K).
Definition coef := (K * K * K)%type.               (* (c_{-1}, c_0, c_1) *)
Definition coef_get (k : pw) (c : coef) : K := let '(cm, c0, c1) := c in match k with Pm1 => cm | P0 => c0 | P1 => c1 end.
Definition coef_clr (k : pw) (c : coef) : coef :=
  let '(cm, c0, c1) := c in match k with Pm1 => (0, c0, c1) | P0 => (cm, 0, c1) | P1 => (cm, c0, 0) end.
Definition coef_zero (c : coef) : bool := let '(cm, c0, c1) := c in feqb cm 0 && feqb c0 0 && feqb c1 0.
Definition lval (c : coef) (x : K) : K := let '(cm, c0, c1) := c in cm + c0 * x + c1 * x * x.   (* x * E(x) *)

Definition env := list (option net).
Definition env_get (v : nat) (e : env) : option net := nth v e None.
Fixpoint env_set (v : nat) (o : option net) (e : env) : env :=
  match v, e with
  | O, [] => [o] | O, _ :: t => o :: t
  | S v', [] => None :: env_set v' o [] | S v', a :: t => a :: env_set v' o t
  end.

Fixpoint steps_run (st : list step) (c : coef) (e : env) : res (coef * env) :=
  match st with
  | [] => Ok (c, e)
  | SPop key v cb k inv :: r =>
      let a := coef_get key c in
      if feqb a 0 then steps_run r (coef_clr key c) e
      else let leaf := Some (Leaf k (if inv then 1 / a else a)) in
           let nv := match cb with CSet => leaf | CSer => series2 (env_get v e) leaf | CPar => parallel2 (env_get v e) leaf end in
           steps_run r (coef_clr key c) (env_set v nv e)
  | SRej key :: r => if feqb (coef_get key c) 0 then steps_run r (coef_clr key c) e else Err
  end.
Definition ret_run (r : retk) (e : env) : option net :=
  match r with
  | RVar v => env_get v e
  | RSer vs => series_l (map (fun v => env_get v e) vs)
  | RPar vs => parallel_l (map (fun v => env_get v e) vs)
  end.
Definition pat_coeffs (p : pat) (c : coef) : res (option net) :=
  match steps_run (p_steps p) c [] with
  | Err => Err
  | Ok (c', e) =>
      match p_guard p with
      | GExhaust => if coef_zero c' then Ok (ret_run (p_ret p) e) else Err     (* if d != {}: raise *)
      | GVarNone v => match env_get v e with None => Err | Some _ => Ok (ret_run (p_ret p) e) end
      | GNoGuard => Ok (ret_run (p_ret p) e)
      end
  end.

(* E = a/b is cm/x + c0 + c1 x  iff  x*a = (cm + c0 x + c1 x^2) * b *)
Definition laurent3 (a b : poly) : option coef :=
  let (Q, R) := pdiv (0 :: a) b in
  if pzerob R && (psize Q <=? 3)%nat then
    let q := pnorm Q in Some (nth 0 q 0, nth 1 q 0, nth 2 q 0)
  else None.
Theorem laurent3_sound (a b : poly) c : pzerob b = false -> laurent3 a b = Some c ->
  forall x, x * peval a x = lval c x * peval b x.
Proof. intros Hb. unfold laurent3. destruct (pdiv_spec K (0 :: a) b Hb) as [He _]. unfold pquo in He.
  destruct (pdiv (0 :: a) b) as [Q R]. cbn [fst snd] in He.
  destruct (pzerob R) eqn:HR; cbn [andb]; [|discriminate].
  destruct (psize Q <=? 3)%nat eqn:HS; [|discriminate]. apply Nat.leb_le in HS. unfold psize in HS.
  intros H x. inversion H; subst; clear H. specialize (He x). cbn [peval] in He.
  rewrite (pzerob_eval _ _ HR x) in He. rewrite <- (peval_pnorm K Q x) in He.
  destruct (pnorm Q) as [|q0 [|q1 [|q2 [|q3 t]]]]; cbn [length] in HS; try lia; cbn [nth peval lval] in *;
    (transitivity (0 + x * peval a x); [ring | rewrite He; ring]). Qed.

Definition pattern_run (p : pat) (arg : rat K) : res (option net) :=
  let (n, d) := arg in
  if pzerob d then Err
  else if pzerob n then (if p_zero_none p then Ok None else Err)
  else match (if p_par p then laurent3 d n else laurent3 n d) with
       | None => Err
       | Some c => pat_coeffs p c
       end.
(* try: return self.A(lexpr)  except: return self.B(lexpr) *)
Definition pattern_try (p1 p2 : pat) (arg : rat K) : res (option net) :=
  match pattern_run p1 arg with Ok r => Ok r | Err => pattern_run p2 arg end.

(* what a table has to satisfy: the guard before the return is the exhaustiveness
   test (only then "anything that is not cm/x + c0 + c1 x raises" -- the premise of
   [pattern_run]'s use of [laurent3] -- is a property of the code: other powers of x
   stay in d), and the coefficient-level behaviour is sound *)
Definition coeff_sound0 (p : pat) : Prop := forall cm c0 c1 x, x <> 0 ->
  match pat_coeffs p (cm, c0, c1) with
  | Ok (Some nt) => Zwf nt x ->
      if p_par p then Zev nt x * lval (cm, c0, c1) x = x else Zev nt x * x = lval (cm, c0, c1) x
  | Ok None => cm = 0 /\ c0 = 0 /\ c1 = 0
  | Err => True
  end.
Definition coeff_sound (p : pat) : Prop := p_exhaust p = true /\ coeff_sound0 p.
(* result of a realiser on n/d: the impedance Z of the returned network satisfies Z * d(x) = n(x) *)
Definition realises (r : option net) (n d : poly) (x : K) : Prop :=
  match r with
  | Some nt => Zwf nt x -> Zev nt x * peval d x = peval n x
  | None => peval n x = 0 \/ peval d x = 0
  end.
Lemma mul_cancel_x (x u v : K) : x <> 0 -> u * x = v * x -> u = v.
Proof. intros Hx E. transitivity (u * x / x); [field; exact Hx | rewrite E; field; exact Hx]. Qed.
Theorem pattern_sound (p : pat) : coeff_sound p ->
  forall n d r x, pattern_run p (n, d) = Ok r -> x <> 0 -> realises r n d x.
Proof. intros [_ Hp] n d r x. unfold pattern_run.
  destruct (pzerob d) eqn:Hd; [discriminate|]. destruct (pzerob n) eqn:Hn.
  - destruct (p_zero_none p); [|discriminate]. intros H Hx. inversion H; subst. left. apply pzerob_eval. exact Hn.
  - specialize (Hp). destruct (p_par p) eqn:Par.
    + destruct (laurent3 d n) as [[[cm c0] c1]|] eqn:L; [|discriminate]. intros H Hx.
      pose proof (laurent3_sound _ _ _ Hn L x) as E. specialize (Hp cm c0 c1 x Hx). rewrite H, Par in Hp.
      destruct r as [nt|].
      * intros Hw. specialize (Hp Hw). apply (mul_cancel_x x); [exact Hx|].
        transitivity (Zev nt x * (x * peval d x)); [ring|]. rewrite E.
        transitivity (Zev nt x * lval (cm, c0, c1) x * peval n x); [ring|]. rewrite Hp. ring.
      * destruct Hp as [-> [-> ->]]. right. apply (mul_cancel_x x); [exact Hx|].
        transitivity (x * peval d x); [ring|]. rewrite E. cbn [lval]. ring.
    + destruct (laurent3 n d) as [[[cm c0] c1]|] eqn:L; [|discriminate]. intros H Hx.
      pose proof (laurent3_sound _ _ _ Hd L x) as E. specialize (Hp cm c0 c1 x Hx). rewrite H, Par in Hp.
      destruct r as [nt|].
      * intros Hw. specialize (Hp Hw). apply (mul_cancel_x x); [exact Hx|].
        transitivity (Zev nt x * x * peval d x); [ring|]. rewrite Hp, <- E. ring.
      * destruct Hp as [-> [-> ->]]. left. apply (mul_cancel_x x); [exact Hx|].
        transitivity (x * peval n x); [ring|]. rewrite E. cbn [lval]. ring. Qed.
Theorem pattern_try_sound (p1 p2 : pat) : coeff_sound p1 -> coeff_sound p2 ->
  forall n d r x, pattern_try p1 p2 (n, d) = Ok r -> x <> 0 -> realises r n d x.
Proof. intros H1 H2 n d r x. unfold pattern_try. destruct (pattern_run p1 (n, d)) as [r1|] eqn:E1.
  - intros H. inversion H; subst. apply (pattern_sound p1 H1 _ _ _ _ E1).
  - apply (pattern_sound p2 H2). Qed.
(* an expression that is not of the form cm/x + c0 + c1 x is never realised *)
Theorem pattern_rejects_nonlaurent (p : pat) n d :
  (if p_par p then laurent3 d n else laurent3 n d) = None -> pzerob n = false -> pattern_run p (n, d) = Err.
Proof. intros H Hn. unfold pattern_run. rewrite Hn. destruct (pzerob d); [reflexivity|]. rewrite H. reflexivity. Qed.
(* a non-zero numerator with a zero-coefficient Laurent form does not exist at points x <> 0 *)

(* helper facts for the table tactics *)
Lemma feqb_refl_eq (a : K) : feqb a a = true.
Proof. apply feqb_eq. reflexivity. Qed.
Lemma Zev_Par_mul (l : list net) x : ysum l x <> 0 -> Zev (Par l) x * ysum l x = 1.
Proof. intros H. rewrite Zev_Par. field. exact H. Qed.
Lemma Zwf_Par_ysum (l : list net) x : Zwf (Par l) x -> ysum l x <> 0.
Proof. intros [_ H]. exact H. Qed.
Lemma par_close (l : list net) (x L : K) : Zwf (Par l) x -> L = ysum l x * x -> Zev (Par l) x * L = x.
Proof. intros Hw E. pose proof (Zev_Par_mul l x (Zwf_Par_ysum l x Hw)) as M. rewrite E.
  transitivity (Zev (Par l) x * ysum l x * x); [ring | rewrite M; ring]. Qed.
End Pat.

Arguments coef_get {K}. Arguments coef_clr {K}. Arguments coef_zero {K}. Arguments lval {K}.
Arguments env_get {K}. Arguments env_set {K}. Arguments steps_run {K}. Arguments ret_run {K}.
Arguments pat_coeffs {K}. Arguments laurent3 {K}. Arguments pattern_run {K}. Arguments pattern_try {K}.
Arguments coeff_sound {K}. Arguments coeff_sound0 {K}. Arguments realises {K}.

(* ---- tactics for concrete (generated) tables ---------------------------------
   [coeff_sound_tac tbl]: proves [coeff_sound K tbl] by the 8-way case split
   "coefficient = 0 or not", evaluation of the interpreter and field algebra. *)
Ltac fe_rewrite K :=
  repeat first
    [ rewrite (feqb_refl_eq K)
    | match goal with H : ?a <> f0 |- context [feqb ?a f0] => rewrite (proj2 (feqb_neq K a f0) H) end ].
Ltac red_pat :=
  cbv beta iota zeta delta [pat_coeffs steps_run p_steps p_ret p_par p_guard coef_get coef_clr coef_zero env_get env_set nth ret_run
       series2 parallel2 series_l parallel_l somes fold_right map andb].
Ltac zsplit K c := destruct (fdec K c f0) as [?|?]; [subst c|].
Ltac leaf_nz :=
  repeat match goal with |- _ /\ _ => split end;
  try assumption; try apply one_nz; try (apply mul_nz; assumption); try (apply div_nz; try apply one_nz; assumption).
Ltac coeff_goal K :=
  red_pat; fe_rewrite K; red_pat; fe_rewrite K; red_pat; fe_rewrite K; red_pat; fe_rewrite K; red_pat;
  first
  [ exact I
  | repeat split; reflexivity
  | let Hw := fresh "Hw" in intros Hw;
    first
    [ (* parallel composition of leaves *)
      apply (par_close K); [exact Hw|]; cbn [ysum fold_right Zev lval]; field; leaf_nz
    | cbn [Zev Zwf lval] in *; field; leaf_nz ] ].
Ltac coeff_sound_tac K tbl :=
  let cm := fresh "cm" in let c0 := fresh "c0" in let c1 := fresh "c1" in let x := fresh "x" in let Hx := fresh "Hx" in
  split; [reflexivity|]; unfold coeff_sound0; intros cm c0 c1 x Hx; unfold tbl;
  zsplit K cm; zsplit K c0; zsplit K c1; coeff_goal K.
(* [coeff_rejects_tac]: goal  forall cm c0 c1, <some coefficient> <> 0 -> pat_coeffs tbl (cm,c0,c1) = Err *)
Ltac coeff_rejects_tac K tbl :=
  let cm := fresh "cm" in let c0 := fresh "c0" in let c1 := fresh "c1" in let Hn := fresh "Hn" in
  intros cm c0 c1 Hn; unfold tbl;
  zsplit K cm; zsplit K c0; zsplit K c1; try congruence;
  red_pat; fe_rewrite K; red_pat; fe_rewrite K; red_pat; fe_rewrite K; red_pat; fe_rewrite K; red_pat; reflexivity.
