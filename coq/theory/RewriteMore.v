(* C05: further consequences of the chain theory: the current of a closed loop
   and the converse of the series theorem (different Thevenin source sums are
   distinguishable), removal of a dangling branch, node renumbering. *)
Require Import LT.FieldSec LT.Circuit LT.RewriteEquiv LT.RewriteBranch.
Local Open Scope Z_scope.

Section More.
Variable K : fld.
Add Field KFrm : (fth K).

(* in a chain that satisfies its own constraints every branch carries one
   current i and the end-to-end drop is zsum * i + esum *)
Lemma chain_solution_shape (a : Z) (l : list (step K)) (IN IR : Z -> bool) v ib :
  chain_wf a l -> (forall n, In n (interior l) -> IN n = true) -> (forall o, In o (owns l) -> IR o = true) ->
  int_ok IN IR (chain_sems a l) v ib ->
  exists i, Forall (fun c => c = i) (scurs a l v ib) /\
            fsub (vv v a) (vv v (lastn a l)) = fadd (fmul (zsum l) i) (esum l) /\
            forall r, ~ In r (interior l) -> gkcl (chain_sems a l) v ib r = thru a (lastn a l) r i.
Proof.
  intros [ND [Ha [Hl [Hp [NO [Ho T]]]]]] HIN HIR [Ik Ic].
  destruct (chain_current K l a v ib ND Ha Hl) as [i [Ci Hout]].
  { intros r Hr. rewrite <- gkcl_chain. apply Ik; [apply Hp; exact Hr | apply HIN; exact Hr]. }
  assert (R : resids K a l v ib).
  { apply chain_rows; [exact NO|]. intros o Hoo. apply Ic; [apply Ho; exact Hoo | apply HIR; exact Hoo]. }
  exists i. split; [exact Ci|]. split.
  - rewrite (chain_drop K l a v ib i T Ci R). apply tdrop_lin.
  - intros r Hr. rewrite gkcl_chain. apply Hout. exact Hr.
Qed.

(* a closed loop with non-zero total impedance: the current is forced *)
Theorem loop_current (a : Z) (l : list (step K)) (IN IR : Z -> bool) v ib :
  chain_wf a l -> lastn a l = a -> zsum l <> f0 ->
  (forall n, In n (interior l) -> IN n = true) -> (forall o, In o (owns l) -> IR o = true) ->
  int_ok IN IR (chain_sems a l) v ib ->
  Forall (fun c => c = fopp (fdiv (esum l) (zsum l))) (scurs a l v ib).
Proof.
  intros WF Hc Hz HIN HIR I. destruct (chain_solution_shape a l IN IR v ib WF HIN HIR I) as [i [Ci [Hd _]]].
  rewrite Hc in Hd. assert (E : i = fopp (fdiv (esum l) (zsum l))).
  { transitivity (fdiv (fsub (fadd (fmul (zsum l) i) (esum l)) (esum l)) (zsum l)); [field; exact Hz|]. rewrite <- Hd. field. exact Hz. }
  rewrite <- E. exact Ci.
Qed.

(* converse of the series theorem for closed loops: equal impedance sums but
   different source sums give different loop currents, so the two loops are
   NOT related by the current-preserving simulation *)
Theorem loop_esum_necessary (a : Z) (l1 l2 : list (step K)) (IN IV IR : Z -> bool) :
  chain_wf a l1 -> chain_wf a l2 -> lastn a l1 = a -> lastn a l2 = a -> l1 <> [] -> l2 <> [] ->
  zsum l1 = zsum l2 -> zsum l1 <> f0 ->
  (forall n, In n (interior l1 ++ interior l2) -> IN n = true) -> (forall o, In o (owns l1 ++ owns l2) -> IR o = true) ->
  (exists v ib, int_ok IN IR (chain_sems a l1) v ib) ->
  port_sim_o (same_current a l1 l2) IN IV IR (chain_sems a l1) (chain_sems a l2) ->
  esum l1 = esum l2.
Proof.
  intros W1 W2 C1 C2 N1 N2 EZ Hz HIN HIR [v [ib I1]] S.
  destruct (S v ib I1) as [v' [ib' [_ [_ [I2 [_ [_ [i [F1 F2]]]]]]]]].
  pose proof (loop_current a l1 IN IR v ib W1 C1 Hz (fun n H => HIN n (in_or_app _ _ _ (or_introl H))) (fun o H => HIR o (in_or_app _ _ _ (or_introl H))) I1) as L1.
  assert (Hz2 : zsum l2 <> f0) by (rewrite <- EZ; exact Hz).
  pose proof (loop_current a l2 IN IR v' ib' W2 C2 Hz2 (fun n H => HIN n (in_or_app _ _ _ (or_intror H))) (fun o H => HIR o (in_or_app _ _ _ (or_intror H))) I2) as L2.
  destruct l1 as [|s1 l1]; [congruence|]. destruct l2 as [|s2 l2]; [congruence|]. cbn [scurs] in *.
  pose proof (Forall_inv F1) as A1. pose proof (Forall_inv L1) as B1. pose proof (Forall_inv F2) as A2. pose proof (Forall_inv L2) as B2. cbn beta in *.
  assert (E : fopp (fdiv (esum (s1 :: l1)) (zsum (s1 :: l1))) = fopp (fdiv (esum (s2 :: l2)) (zsum (s2 :: l2)))) by congruence.
  rewrite <- EZ in E.
  transitivity (fmul (fopp (fopp (fdiv (esum (s1 :: l1)) (zsum (s1 :: l1))))) (zsum (s1 :: l1))); [field; exact Hz|]. rewrite E. field. exact Hz.
Qed.

(* ---- a dangling branch --------------------------------------------------- *)
(* a two-terminal branch from p to a node d that nothing else touches carries
   no current; dropping it changes nothing that is visible elsewhere *)
Definition own_private (st : step K) (IV IR : Z -> bool) : Prop :=
  match sbr st with BZ _ _ o => 0 <= o /\ IV o = true /\ IR o = true | _ => True end.
Theorem dangling_equiv (p d : Z) (st : step K) (IN IV IR : Z -> bool) :
  snext st = d -> p <> d -> 0 <= d -> IN d = true -> thev st -> own_private st IV IR ->
  port_equiv IN IV IR [ssem p st] [].
Proof.
  intros Hd Hpd Hd0 HINd T OP. split.
  - intros v ib [Ik _]. exists v, ib. split; [apply agree_refl|]. split; [apply agree_refl|].
    assert (Hc : scur p st v ib = f0).
    { specialize (Ik d Hd0 HINd). rewrite gkcl_cons, gkcl_nil, ssem_fst, Hd, thru_at_b in Ik by exact Hpd.
      transitivity (fopp (fadd (fopp (scur p st v ib)) f0)); [ring | rewrite Ik; ring]. }
    split; [split; intros x Hx Hi; reflexivity|]. split.
    + intros r Hr Hi. rewrite gkcl_cons, !gkcl_nil, ssem_fst, Hc. unfold thru. ring.
    + intros q Hq Hi. rewrite gcrel_cons, !gcrel_nil. unfold ssem. rewrite bsem_snd. unfold own_private in OP.
      destruct (sbr st) as [Y J|Zb E o|J]; cbn [bown_of resid]; try ring.
      rewrite ind_ne; [ring|]. intros ->. destruct OP as [_ [_ OP]]. congruence.
  - intros v ib _.
    set (v' := upd v d (fsub (vv v p) (sdrop K st f0))). set (ib' := assign_ib K [st] f0 ib).
    assert (D : drops_ok K p [st] f0 v').
    { cbn [drops_ok]. split; [|exact I]. rewrite Hd. unfold v'. rewrite vv_upd_other by exact Hpd. rewrite vv_upd_same by exact Hd0. ring. }
    assert (NO : NoDup (owns [st])) by (cbn [owns]; destruct (sbr st); repeat constructor; intros []).
    destruct (built_ok K [st] f0 p v' ib NO (Forall_cons _ T (Forall_nil _)) D) as [C R]. fold ib' in C, R.
    cbn [scurs] in C. pose proof (Forall_inv C) as C1. cbn beta in C1. destruct R as [R1 _].
    exists v', ib'. split; [|split; [|split; [split|split]]].
    + intros n Hn. unfold v'. symmetry. apply upd_other. intros ->. congruence.
    + intros o Ho. unfold ib'. cbn [assign_ib]. unfold own_private in OP. destruct (sbr st) as [Y J|Zb E o'|J]; try reflexivity.
      symmetry. apply upd_other. intros ->. destruct OP as [_ [OP _]]. congruence.
    + intros r Hr Hi. rewrite gkcl_cons, gkcl_nil, ssem_fst, C1. unfold thru. ring.
    + intros q Hq Hi. rewrite gcrel_cons, gcrel_nil. unfold ssem. rewrite bsem_snd, R1. ring.
    + intros r Hr Hi. rewrite gkcl_cons, !gkcl_nil, ssem_fst, C1. unfold thru. ring.
    + intros q Hq Hi. rewrite gcrel_cons, !gcrel_nil. unfold ssem. rewrite bsem_snd, R1. ring.
Qed.

(* ---- renumbering ------------------------------------------------------------ *)
(* g: a bijection of the node indices that maps ground to ground *)
Definition node_bij (g ginv : Z -> Z) : Prop :=
  (forall n, ginv (g n) = n) /\ (forall n, g (ginv n) = n) /\ (forall n, 0 <= n <-> 0 <= g n).
Lemma ind_bij g ginv a b : node_bij g ginv -> @ind K (g a) (g b) = ind a b.
Proof. intros [H1 _]. unfold ind. destruct (Z.eqb_spec a b) as [->|Hne]; [rewrite Z.eqb_refl; reflexivity|].
  destruct (Z.eqb_spec (g a) (g b)) as [E|_]; [|reflexivity]. exfalso. apply Hne. rewrite <- (H1 a), <- (H1 b), E. reflexivity. Qed.
Lemma vv_bij g ginv (v : Z -> K) n : node_bij g ginv -> vv v (g n) = vv (fun m => v (g m)) n.
Proof. intros [_ [_ H3]]. unfold vv. pose proof (H3 n) as H. destruct (Z.leb_spec 0 n) as [Hn|Hn]; destruct (Z.leb_spec 0 (g n)) as [Hg|Hg]; try reflexivity; exfalso; lia. Qed.
(* a branch between renamed nodes, seen at a renamed row, is the original branch *)
Lemma bsem_rename g ginv p q (b : branch K) v ib r x : node_bij g ginv ->
  fst (bsem (g p) (g q) b) v ib (g r) = fst (bsem p q b) (fun m => v (g m)) ib r /\
  snd (bsem (g p) (g q) b) v ib x = snd (bsem p q b) (fun m => v (g m)) ib x.
Proof. intros B. rewrite !bsem_fst, !bsem_snd. unfold thru. rewrite !(ind_bij g ginv) by exact B.
  unfold cur, resid. destruct b; rewrite ?(vv_bij g ginv) by exact B; split; reflexivity. Qed.
Definition sems_rename (g : Z -> Z) (l : list (Z * Z * branch K)) : list (sem K) :=
  map (fun t => bsem (g (fst (fst t))) (g (snd (fst t))) (snd t)) l.
Definition sems_plain (l : list (Z * Z * branch K)) : list (sem K) :=
  map (fun t => bsem (fst (fst t)) (snd (fst t)) (snd t)) l.
Theorem renumber_branches g ginv (l : list (Z * Z * branch K)) v ib : node_bij g ginv ->
  (gphys (sems_rename g l) v ib <-> gphys (sems_plain l) (fun m => v (g m)) ib).
Proof.
  intros B.
  assert (Ek : forall r, gkcl (sems_rename g l) v ib (g r) = gkcl (sems_plain l) (fun m => v (g m)) ib r).
  { intros r. induction l as [|t l IH]; [reflexivity|]. unfold sems_rename, sems_plain in *. cbn [map]. rewrite !gkcl_cons, IH.
    rewrite (proj1 (bsem_rename g ginv _ _ _ v ib r 0 B)). reflexivity. }
  assert (Ec : forall x, gcrel (sems_rename g l) v ib x = gcrel (sems_plain l) (fun m => v (g m)) ib x).
  { clear Ek. intros x. induction l as [|t l IH]; [reflexivity|]. unfold sems_rename, sems_plain in *. cbn [map]. rewrite !gcrel_cons, IH.
    rewrite (proj2 (bsem_rename g ginv _ _ _ v ib 0 x B)). reflexivity. }
  destruct B as [H1 [H2 H3]]. split; intros [Hk Hc]; split; intros x Hx.
  - rewrite <- Ek. apply Hk. apply (proj1 (H3 x)). exact Hx.
  - rewrite <- Ec. apply Hc. exact Hx.
  - rewrite <- (H2 x), Ek. apply Hk. apply (proj2 (H3 (ginv x))). rewrite H2. exact Hx.
  - rewrite Ec. apply Hc. exact Hx.
Qed.

(* a closed loop with non-zero total impedance has a solution of its own constraints *)
Theorem loop_solvable (a : Z) (l : list (step K)) (IN IR : Z -> bool) (v0 ib0 : Z -> K) :
  chain_wf a l -> lastn a l = a -> zsum l <> f0 ->
  exists v ib, int_ok IN IR (chain_sems a l) v ib.
Proof.
  intros [ND [Ha [Hl [Hp [NO [Ho T]]]]]] Hc Hz.
  set (i := fopp (fdiv (esum l) (zsum l))).
  destruct (assign_spec K l i a (vv v0 a) v0 ND Ha Hl Hp eq_refl) as [Av Ad].
  set (v := assign K (vv v0 a) l i v0) in *.
  assert (D : drops_ok K a l i v).
  { apply Ad. rewrite Hc, tdrop_lin. unfold i. field. exact Hz. }
  destruct (built_ok K l i a v ib0 NO T D) as [C R].
  exists v, (assign_ib K l i ib0). split.
  - intros r Hr Hi. rewrite gkcl_chain, (ckcl_const K a l v _ r i C), Hc. apply thru_same.
  - intros q Hq Hi. apply gcrel_chain_in; assumption.
Qed.

(* converse of the parallel theorem: groups whose signed source-current sums
   differ are distinguishable at the node pair *)
Theorem par_norton_necessary (a b : Z) (l1 l2 : list (pstep K)) (IN IV IR : Z -> bool) :
  Forall norton l1 -> Forall norton l2 -> a <> b -> 0 <= a -> IN a = false -> IN b = false ->
  port_sim IN IV IR (psems a b l1) (psems a b l2) -> Jsum l1 = Jsum l2.
Proof.
  intros N1 N2 Hab Ha Hia Hib S.
  destruct (S (fun _ => f0) (fun _ => f0)) as [v' [ib' [A1 [_ [_ [Ek _]]]]]].
  { split; intros x Hx Hi.
    - rewrite gkcl_par. apply thru_out; intros ->; congruence.
    - apply par_norton_crel. exact N1. }
  specialize (Ek a Ha Hia). rewrite !gkcl_par, !par_norton_cur, !thru_at_a in Ek by assumption.
  assert (Va : vv v' a = f0) by (unfold vv; rewrite <- (A1 a Hia); destruct (0 <=? a); reflexivity).
  assert (Vb : vv v' b = f0) by (unfold vv; rewrite <- (A1 b Hib); destruct (0 <=? b); reflexivity).
  rewrite Va, Vb in Ek. unfold vv in Ek. replace (if 0 <=? a then f0 else f0) with (f0 : K) in Ek by (destruct (0 <=? a); reflexivity).
  replace (if 0 <=? b then f0 else f0) with (f0 : K) in Ek by (destruct (0 <=? b); reflexivity).
  transitivity (fopp (fsub (fmul (Ysum l1) (fsub f0 f0)) (Jsum l1))); [ring | rewrite Ek; ring].
Qed.
End More.
Arguments node_bij : clear implicits. Arguments sems_rename {K}. Arguments sems_plain {K}. Arguments own_private {K}.
Print Assumptions loop_current.
Print Assumptions loop_esum_necessary.
Print Assumptions dangling_equiv.
Print Assumptions renumber_branches.
Print Assumptions loop_solvable.
Print Assumptions par_norton_necessary.
