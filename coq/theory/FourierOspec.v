(* FourierOspec - the results that Lcapy takes from SymPy (fall-through of
   FourierTransformer.term: impulses and their derivatives, t^n e^{ct} u(t),
   two-sided exponentials, Gaussians, and in the inverse direction the Lorentzian)
   are compared by checks/c12.py with the closed forms [FourierModel.ospec].
   Here every one of these closed forms is DERIVED in the specification FourierSpec.FPair
   from the table and the rules (linearity, reversal, similarity, duality), so the
   contract assumed for SymPy is itself a theorem of the specification and not a
   second, independent table.  Axiom-free. *)
Require Import LT.FieldSec LT.PolyQ LT.ExpPoly LT.FourierSpec LT.FourierFn LT.FourierTable LT.FourierModel.
Local Open Scope F_scope.

Section OSound.
Variable K : fld.
Add Field KFos : (fth K).
Variable C : fctx K.
Variable rho : nat -> K.
Variable Q : K -> K.
Notation pi := (c_pi C). Notation j := (c_j C).
Notation E := (c_E C). Notation hv := (c_hv C). Notation dl := (c_dl C).
Notation FP := (FPair C).
Notation evq := (ev C rho Q).
Notation a := (rho 2%nat).
Notation w := (fun f : K => j * ((1 + 1) * pi) * f).

Ltac oevs := cbn [ev happ fofZ fofpos Pos.iter_op fpow o_delta o_twoexp o_gauss o_gausspi o_texpu o_sgnexp o_ttwoexp o_lorentz
  JW W2 N2 TPI Sub Dv].
Ltac nzc := pose proof (tpi_nz K C) as Htpi; pose proof (j_nz K C) as Hj; pose proof (two_nz K) as H2;
  pose proof (c_pi_nz C) as Hpi; unfold tpi, two in *.

(* delta^(n) <-> (j 2 pi f)^n *)
Theorem os_sound_delta n : FP (dl n) (evq (o_delta n)).
Proof. eapply FP_exteq; [ | | exact (FP_deltan K C n)].
  - intros t. reflexivity.
  - intros f. cbv beta. unfold o_delta. cbn [ev]. oevs. unfold tpi, two. first [reflexivity | f_equal; ring]. Qed.

(* t^n e^{ct} u(t) <-> n!/(j 2 pi f - c)^{n+1} *)
Theorem os_sound_texpu n : c_stable C (rho 3%nat) ->
  FP (fun t => fpow t n * E (rho 3%nat * t) * hv t)
     (fun f => fnat (natfact n) / fpow (w f - rho 3%nat) (S n)).
Proof. intros Hs. pose proof (ExpPoly.natfact_pos n) as [m Hm]. pose proof (ExpPoly.fnat_S_nz K m) as Hn. rewrite <- Hm in Hn.
  eapply FP_ext; [ | | exact (FP_scale K C (fnat (natfact n)) _ _ (FP_tnexpu K C n _ Hs))].
  - apply eqae_all. intros t. cbv beta. field. exact Hn.
  - apply eqae_all. intros f. cbv beta. unfold tpi, two. unfold fdiv. rewrite !(Fdiv_def (fth K)). assert (T : forall x : K, 1 * x = x) by (intros; ring). rewrite T. reflexivity. Qed.
Lemma o_texpu_1 f : evq (o_texpu 1 1) f = fnat (natfact 1) / fpow (w f - rho 3%nat) 2.
Proof. cbv beta. oevs. cbn [natfact fnat Nat.mul Nat.add]. unfold fdiv. rewrite !(Fdiv_def (fth K)).
  assert (Z : forall x c : K, x + - c = x - c) by (intros; ring). rewrite !Z. ring. Qed.
Lemma o_texpu_2 f : evq (o_texpu 2 2) f = fnat (natfact 2) / fpow (w f - rho 3%nat) 3.
Proof. cbv beta. oevs. cbn [natfact fnat Nat.mul Nat.add]. unfold fdiv. rewrite !(Fdiv_def (fth K)).
  assert (Z : forall x c : K, x + - c = x - c) by (intros; ring). rewrite !Z. ring. Qed.

(* the one-sided pieces of e^{-a|t|}:  e^{-a t} u(t)  and its reversal  e^{a t} u(-t) *)
Let P1 (Hs : c_stable C (- a)) := FP_expu K C (- a) Hs.
Let P2 (Hs : c_stable C (- a)) := FP_reverse K C _ _ (FP_expu K C (- a) Hs).
Definition off2 (f : K) : Prop := w f + a <> 0 /\ w (- f) + a <> 0.
Lemma off2_ae : a <> 0 -> forall X Y : K -> K, (forall f, off2 f -> X f = Y f) -> eqae X Y.
Proof. intros Ha X Y H. nzc.
  apply (eqae_off K [- a / (j * ((1 + 1) * pi)); a / (j * ((1 + 1) * pi))]). intros f Hin. apply H. split.
  - intro Z. apply Hin. left. transitivity ((j * ((1 + 1) * pi) * f + a - a) / (j * ((1 + 1) * pi))); [rewrite Z|]; field; nz.
  - intro Z. apply Hin. right. left. transitivity (- ((j * ((1 + 1) * pi) * - f + a - a) / (j * ((1 + 1) * pi)))); [rewrite Z|]; field; nz. Qed.

Lemma den_fact (W : K) : a * a + W * W = (j * W + a) * (- (j * W) + a).
Proof. transitivity (a * a - (j * j) * (W * W)); [rewrite (c_j2 C); ring | ring]. Qed.
Ltac den W := replace (a * (a * 1) + W * (W * 1)) with ((j * W + a) * (- (j * W) + a)) by (symmetry; transitivity (a * a + W * W); [ring | apply den_fact]).
Ltac pre f H1 H2' :=
  assert (D1 : j * ((1 + 1) * pi * f) + a <> 0) by (let Hz := fresh "Hz" in intro Hz; apply H1; rewrite <- Hz; ring);
  assert (D2 : - (j * ((1 + 1) * pi * f)) + a <> 0) by (let Hz := fresh "Hz" in intro Hz; apply H2'; rewrite <- Hz; ring).

(* e^{-a|t|} = e^{-at}u(t) + e^{at}u(-t)  <->  2a/(a^2 + (2 pi f)^2) *)
Theorem os_sound_twoexp : a <> 0 -> c_stable C (- a) ->
  FP (fun t => E (- a * t) * hv t + E (a * t) * hv (- t)) (evq o_twoexp).
Proof. intros Ha Hs. nzc.
  eapply FP_ext; [ | | exact (FP_add K C _ _ _ _ (P1 Hs) (P2 Hs))].
  - apply eqae_all. intros t. cbv beta. replace (- a * - t) with (a * t) by ring. reflexivity.
  - apply (off2_ae Ha). intros f [H1 H2']. cbv beta. oevs. unfold tpi, two. pre f H1 H2'.
    den ((1 + 1) * pi * f). field. nz. Qed.
(* sgn(t) e^{-a|t|} = e^{-at}u(t) - e^{at}u(-t)  <->  -2 j (2 pi f)/(a^2 + (2 pi f)^2) *)
Theorem os_sound_sgnexp : a <> 0 -> c_stable C (- a) ->
  FP (fun t => E (- a * t) * hv t - E (a * t) * hv (- t)) (evq o_sgnexp).
Proof. intros Ha Hs. nzc.
  eapply FP_ext; [ | | exact (FP_lin K C 1 (- (1)) _ _ _ _ (P1 Hs) (P2 Hs))].
  - apply eqae_all. intros t. cbv beta. replace (- a * - t) with (a * t) by ring. ring.
  - apply (off2_ae Ha). intros f [H1 H2']. cbv beta. oevs. unfold tpi, two. pre f H1 H2'.
    den ((1 + 1) * pi * f). field. nz. Qed.
(* t e^{-a|t|} = t e^{-at}u(t) + t e^{at}u(-t)  <->  -4 j a (2 pi f)/(a^2 + (2 pi f)^2)^2 *)
Theorem os_sound_ttwoexp : a <> 0 -> c_stable C (- a) ->
  FP (fun t => t * E (- a * t) * hv t + t * E (a * t) * hv (- t)) (evq o_ttwoexp).
Proof. intros Ha Hs. nzc.
  pose proof (FP_tnexpu K C 1 (- a) Hs) as Q1. pose proof (FP_reverse K C _ _ Q1) as Q2.
  eapply FP_ext; [ | | exact (FP_lin K C 1 (- (1)) _ _ _ _ Q1 Q2)].
  - apply eqae_all. intros t. cbv beta. cbn [fpow natfact fnat Nat.mul Nat.add].
    replace (- a * - t) with (a * t) by ring. field. apply one_nz.
  - apply (off2_ae Ha). intros f [H1 H2']. cbv beta. oevs. unfold tpi, two. pre f H1 H2'.
    den ((1 + 1) * pi * f). cbn [fpow]. field. nz. Qed.
(* inverse direction: the Lorentzian 2a/(a^2 + (2 pi t)^2) <-> e^{-a|f|}, by duality *)
Theorem os_sound_lorentz : a <> 0 -> c_stable C (- a) ->
  FP (evq o_twoexp) (evq o_lorentz).
Proof. intros Ha Hs. pose proof (FPair_dual K C _ _ (os_sound_twoexp Ha Hs)) as D.
  eapply FP_exteq; [ | | exact D]; intros; cbv beta; [reflexivity|]. unfold flip. oevs.
  replace (- a * - f) with (a * f) by ring. replace (a * - f) with (- (a * f)) by ring.
  replace (- - f) with f by ring. ring. Qed.

(* Gaussians, from the self-dual pair e^{-pi t^2} by similarity *)
Theorem os_sound_gausspi : c_isR C a -> a <> 0 -> c_rabs C a = a ->
  FP (fun t => E (- pi * (t / a) * (t / a))) (evq o_gausspi).
Proof. intros Ra Ha Hab. nzc.
  assert (Ri : c_isR C (1 / a)) by (apply (c_isR_inv C), Ra).
  assert (Hi : 1 / a <> 0) by (apply div_nz; [apply one_nz | exact Ha]).
  eapply FP_exteq; [ | | exact (FP_scaling K C (1 / a) _ _ Ri Hi (FP_gauss K C))]; intros; cbv beta.
  - apply f_equal. field. exact Ha.
  - rewrite (c_rabs_inv C a Ra Ha), Hab. oevs.
    replace (- pi * (f / (1 / a)) * (f / (1 / a))) with (- (pi * (a * (a * 1)) * (f * (f * 1)))) by (field; nz).
    field. nz. Qed.
Theorem os_sound_gauss : c_isR C a -> a <> 0 -> c_rabs C a = a ->
  c_isR C (c_sqrtpi C) -> c_rabs C (c_sqrtpi C) = c_sqrtpi C ->
  FP (fun t => E (- ((t / a) * (t / a)))) (evq o_gauss).
Proof. intros Ra Ha Hab Rs Hsab. nzc. set (sp := c_sqrtpi C) in *.
  assert (Hsp : sp * sp = pi) by exact (c_sqrtpi2 C).
  assert (Hs0 : sp <> 0) by (intro Z; apply Hpi; rewrite <- Hsp, Z; ring).
  set (k := a * sp).
  assert (Rk : c_isR C k) by (apply (c_isR_mul C); assumption).
  assert (Hk : k <> 0) by (apply mul_nz; assumption).
  assert (Ri : c_isR C (1 / k)) by (apply (c_isR_inv C), Rk).
  assert (Hi : 1 / k <> 0) by (apply div_nz; [apply one_nz | exact Hk]).
  assert (Hrk : c_rabs C k = k) by (unfold k; rewrite (c_rabs_mul C _ _ Ra Rs), Hab, Hsab; reflexivity).
  eapply FP_exteq; [ | | exact (FP_scaling K C (1 / k) _ _ Ri Hi (FP_gauss K C))]; intros; cbv beta.
  - apply f_equal. transitivity (- (sp * sp) * (1 / k * t) * (1 / k * t)); [rewrite Hsp; reflexivity | unfold k; field; nz].
  - rewrite (c_rabs_inv C k Rk Hk), Hrk. oevs. fold sp.
    replace (- pi * (f / (1 / k)) * (f / (1 / k))) with (- (pi * a * (pi * a * 1) * (f * (f * 1)))).
    + unfold k. field. nz.
    + rewrite <- Hsp. unfold k. field. nz. Qed.
End OSound.
