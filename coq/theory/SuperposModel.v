(* C03 - hand model (H) of lcapy.superposition.Superposition and of the noise
   combination rules (lcapy/noiseexpr.py __add__/__sub__, Superposition._add_noise, .n).

   A Superposition is an ExprDict  key |-> summed expression.  The model keeps
   the multiset of additive terms that were put in, each tagged with the key it
   is stored under ('dc', omega, 't', 'x', 's', 'n*') and - for terms of a
   time-domain expression - with its class (constant / sinusoid of angular
   frequency w / anything else), which is what _decompose_timedomain_expr
   extracts with  coeff(t, 0)  and  is_ac  (SymPy; an oracle O whose contract
   "a term is AC iff it is A cos/sin(w t)" is validated on the generated terms).
   A term's VALUE is abstract: only its images matter - the time-domain image
   [timg] (a Q-linear functional of the expression), the Laplace image [simg]
   (value of the transform at a point), and for sinusoids the phasor (pre, pim).

   Theorems: decompose() changes no image; time()/laplace() of the container,
   of its decomposition, of the dc + ac + transient parts, and of ANY grouping
   of the terms coincide (regroup); the analysis kinds returned by
   kinds(transform=True) cover every non-noise term, so the per-kind selected
   source values sum to the source value; noise: same identifier => amplitudes
   add, distinct identifiers => powers add, totals are order/grouping
   independent.  Arbitrary field, axiom-free. *)
Require Import LT.FieldSec.
From Coq Require Import Permutation Arith.

Inductive key := KyDC | KyAC (w : nat) | KyT | KyX | KyS | KyN (id : nat).
Inductive tclass := ClDC | ClAC (w : nat) | ClX.
(* transform groups of kinds(transform=True): 'dc', omega, 'transient', 'n*' *)
Inductive group := GDC | GAC (w : nat) | GTR | GN (id : nat).

Definition key_eqb (a b : key) : bool :=
  match a, b with
  | KyDC, KyDC | KyT, KyT | KyX, KyX | KyS, KyS => true
  | KyAC u, KyAC v => Nat.eqb u v
  | KyN u, KyN v => Nat.eqb u v
  | _, _ => false end.
Lemma key_eqb_eq a b : key_eqb a b = true <-> a = b.
Proof. destruct a, b; cbn; split; intros H; try discriminate; try reflexivity;
  try (apply Nat.eqb_eq in H; subst; reflexivity); try (inversion H; subst; apply Nat.eqb_refl). Qed.
Definition group_eqb (a b : group) : bool :=
  match a, b with
  | GDC, GDC | GTR, GTR => true
  | GAC u, GAC v => Nat.eqb u v
  | GN u, GN v => Nat.eqb u v
  | _, _ => false end.
Lemma group_eqb_eq a b : group_eqb a b = true <-> a = b.
Proof. destruct a, b; cbn; split; intros H; try discriminate; try reflexivity;
  try (apply Nat.eqb_eq in H; subst; reflexivity); try (inversion H; subst; apply Nat.eqb_refl). Qed.
Definition is_noise_key (k : key) : bool := match k with KyN _ => true | _ => false end.

(* keywords understood by Superposition.select and the views it returns *)
Inductive selkey := SkSuper | SkTime | SkIvp | SkLaplace | SkNoise | SkTransient.
Inductive view := VwSelf | VwTime | VwLaplace | VwNoise | VwTransient.
(* Netlist._analysis_groups: how the transform groups of the sources become analyses *)
Inductive amode := AIvp | ATime | AGeneral.
Inductive agroup := AgIvp | AgTime | AgKind (g : group).
Definition agroup_eqb (a b : agroup) : bool :=
  match a, b with
  | AgIvp, AgIvp | AgTime, AgTime => true
  | AgKind g, AgKind h => group_eqb g h
  | _, _ => false end.
Definition select_view (k : selkey) : view :=
  match k with SkSuper => VwSelf | SkTime => VwTime | SkIvp | SkLaplace => VwLaplace | SkNoise => VwNoise | SkTransient => VwTransient end.
(* an initial value problem merges every non-noise group into 'ivp' and ignores noise; a circuit without
   reactive components merges them into 'time' and keeps the noise groups; otherwise the transform groups *)
Definition agroup_of (m : amode) (g : group) : option agroup :=
  match m, g with
  | AIvp, GN _ => None
  | AIvp, _ => Some AgIvp
  | ATime, GN i => Some (AgKind (GN i))
  | ATime, _ => Some AgTime
  | AGeneral, g => Some (AgKind g)
  end.

Section Sup.
Variable K : fld.
Add Field KFsup : (fth K).

Record term := Tm { tkey : key; tcls : tclass; timg : K; simg : K; pre : K; pim : K }.
Definition sig := list term.

(* ---- add -------------------------------------------------------------- *)
(* Superposition.add(value): the value goes under the key of its domain; adding
   a Superposition adds each of its values; the dict entry is the running sum *)
Definition add (s : sig) (t : term) : sig := s ++ [t].
Definition add_all (s x : sig) : sig := s ++ x.

(* ---- decompose --------------------------------------------------------- *)
Definition dkey (t : term) : key :=
  match tkey t with
  | KyT => match tcls t with ClDC => KyDC | ClAC w => KyAC w | ClX => KyX end
  | k => k
  end.
Definition dterm (t : term) : term := Tm (dkey t) (tcls t) (timg t) (simg t) (pre t) (pim t).
Definition decompose (s : sig) : sig := map dterm s.

(* ---- sums --------------------------------------------------------------- *)
Fixpoint sumw (w : term -> K) (s : sig) : K :=
  match s with [] => f0 | t :: s' => fadd (w t) (sumw w s') end.
Definition at_key (k : key) (s : sig) : sig := filter (fun t => key_eqb (tkey t) k) s.
(* dict entry under key k: image of the stored (summed) expression *)
Definition tval (k : key) (s : sig) : K := sumw timg (at_key k s).
Definition sval (k : key) (s : sig) : K := sumw simg (at_key k s).
Definition signal (s : sig) : sig := filter (fun t => negb (is_noise_key (tkey t))) s.
(* Superposition.time() / .laplace(): sum over all stored values; noise values
   contribute 0 (NoiseExpression.time/laplace return 0) *)
Definition time (s : sig) : K := sumw timg (signal s).
Definition laplace (s : sig) : K := sumw simg (signal s).
(* .dc, .ac[w], .transient (time domain: 'x' of the decomposition + inverse
   Laplace of 's'), .transient_laplace *)
Definition part_dc (s : sig) : K := tval KyDC (decompose s).
Definition part_ac (w : nat) (s : sig) : K := tval (KyAC w) (decompose s).
Definition part_transient (s : sig) : K := fadd (tval KyX (decompose s)) (tval KyS s).
Definition part_dc_s (s : sig) : K := sval KyDC (decompose s).
Definition part_ac_s (w : nat) (s : sig) : K := sval (KyAC w) (decompose s).
Definition part_transient_s (s : sig) : K := fadd (sval KyX (decompose s)) (sval KyS s).
(* phasor of the component of angular frequency w *)
Definition phasor_re (w : nat) (s : sig) : K := sumw pre (at_key (KyAC w) (decompose s)).
Definition phasor_im (w : nat) (s : sig) : K := sumw pim (at_key (KyAC w) (decompose s)).

Lemma sumw_app w s1 s2 : sumw w (s1 ++ s2) = fadd (sumw w s1) (sumw w s2).
Proof. induction s1 as [|t s1 IH]; cbn [sumw app]; [ring | rewrite IH; ring]. Qed.
Lemma sumw_perm w s1 s2 : Permutation s1 s2 -> sumw w s1 = sumw w s2.
Proof. induction 1; cbn [sumw]; [ring | rewrite IHPermutation; reflexivity | ring | congruence]. Qed.
Lemma filter_perm {A} (f : A -> bool) l1 l2 : Permutation l1 l2 -> Permutation (filter f l1) (filter f l2).
Proof. induction 1; cbn [filter].
  - constructor.
  - destruct (f x); [constructor|]; assumption.
  - destruct (f x), (f y); try apply perm_swap; apply Permutation_refl.
  - eapply Permutation_trans; eassumption. Qed.

(* ---- the regrouping lemma: for EVERY grouping the sum of the parts is the whole *)
Section Regroup.
Context {A : Type} (eqb : A -> A -> bool) (eqb_eq : forall a b, eqb a b = true <-> a = b).
Fixpoint dedup (l : list A) : list A :=
  match l with [] => [] | a :: l' => a :: filter (fun b => negb (eqb a b)) (dedup l') end.
Lemma sumw_filter_split w (p : term -> bool) s :
  sumw w s = fadd (sumw w (filter p s)) (sumw w (filter (fun t => negb (p t)) s)).
Proof. induction s as [|t s IH]; cbn [sumw filter]; [ring|]. destruct (p t); cbn [negb sumw]; rewrite IH; ring. Qed.
Fixpoint sum_groups (w : term -> K) (f : term -> A) (gs : list A) (s : sig) : K :=
  match gs with [] => f0 | g :: gs' => fadd (sumw w (filter (fun t => eqb (f t) g) s)) (sum_groups w f gs' s) end.

Lemma eqb_refl a : eqb a a = true. Proof. apply eqb_eq. reflexivity. Qed.
Lemma eqb_sym a b : eqb a b = eqb b a.
Proof. destruct (eqb a b) eqn:E1, (eqb b a) eqn:E2; try reflexivity.
  - apply eqb_eq in E1. subst. rewrite eqb_refl in E2. discriminate.
  - apply eqb_eq in E2. subst. rewrite eqb_refl in E1. discriminate. Qed.
Lemma filter_filter {B} (p q : B -> bool) l : filter p (filter q l) = filter (fun x => q x && p x) l.
Proof. induction l as [|x l IH]; cbn [filter]; [reflexivity|]. destruct (q x); cbn [filter andb]; [destruct (p x)|]; rewrite IH; reflexivity. Qed.
Lemma filter_ext' {B} (p q : B -> bool) l : (forall x, p x = q x) -> filter p l = filter q l.
Proof. intros H. induction l as [|x l IH]; cbn [filter]; [reflexivity|]. rewrite H, IH. reflexivity. Qed.
Lemma dedup_map_filter (f : term -> A) (g : A) (s : sig) :
  filter (fun b => negb (eqb g b)) (dedup (map f s)) = dedup (map f (filter (fun t => negb (eqb (f t) g)) s)).
Proof.
  induction s as [|t s IH]; cbn [map dedup filter]; [reflexivity|].
  rewrite (eqb_sym (f t) g). destruct (eqb g (f t)) eqn:E; cbn [negb map dedup].
  - apply eqb_eq in E. subst g. rewrite filter_filter.
    rewrite (filter_ext' _ (fun b => negb (eqb (f t) b))) by (intros x; destruct (eqb (f t) x); reflexivity).
    rewrite IH. reflexivity.
  - f_equal. rewrite <- IH. rewrite !filter_filter. apply filter_ext'. intros x. apply andb_comm.
Qed.
Lemma sum_groups_filter_other w f gs s g : ~ In g gs ->
  sum_groups w f gs (filter (fun t => negb (eqb (f t) g)) s) = sum_groups w f gs s.
Proof.
  induction gs as [|h gs IH]; intros Hn; cbn [sum_groups]; [reflexivity|].
  rewrite IH by (intros Hi; apply Hn; right; exact Hi). f_equal.
  rewrite filter_filter. f_equal. apply filter_ext'. intros x.
  destruct (eqb (f x) h) eqn:E; [|rewrite andb_false_r; reflexivity].
  apply eqb_eq in E. rewrite E. destruct (eqb h g) eqn:E2; [|reflexivity].
  apply eqb_eq in E2. subst. exfalso. apply Hn. left. reflexivity.
Qed.
Lemma filter_len_le {B} (p : B -> bool) l : (length (filter p l) <= length l)%nat.
Proof. induction l as [|x l IH]; cbn [filter length]; [lia|]. destruct (p x); cbn [length]; lia. Qed.
Lemma dedup_nodup l : NoDup (dedup l).
Proof. induction l as [|a l IH]; cbn [dedup]; constructor.
  - intros Hi. apply filter_In in Hi. destruct Hi as [_ H]. rewrite eqb_refl in H. discriminate.
  - apply NoDup_filter. exact IH. Qed.

Theorem regroup (w : term -> K) (f : term -> A) (s : sig) :
  sumw w s = sum_groups w f (dedup (map f s)) s.
Proof.
  remember (length s) as n eqn:Hn. revert s Hn.
  induction n as [n IHn] using lt_wf_ind. intros s Hn.
  destruct s as [|t s]; [reflexivity|].
  cbn [map dedup sum_groups].
  rewrite (sumw_filter_split w (fun u => eqb (f u) (f t)) (t :: s)). f_equal.
  rewrite dedup_map_filter.
  set (rest := filter (fun u => negb (eqb (f u) (f t))) s).
  assert (Hrest : filter (fun u => negb (eqb (f u) (f t))) (t :: s) = rest).
  { cbn [filter]. rewrite eqb_refl. reflexivity. }
  rewrite Hrest.
  assert (Hlen : (length rest < n)%nat).
  { subst n rest. cbn [length]. pose proof (filter_len_le (fun u => negb (eqb (f u) (f t))) s). lia. }
  rewrite (IHn (length rest) Hlen rest eq_refl).
  assert (Hnin : ~ In (f t) (dedup (map f rest))).
  { intros Hi. assert (Hi' : In (f t) (map f rest)).
    { clear -Hi eqb_eq. revert Hi. generalize (map f rest) as l. induction l as [|a l IH]; cbn [dedup]; [auto|].
      intros [->|Hi]; [left; reflexivity|]. apply filter_In in Hi. right. apply IH. exact (proj1 Hi). }
    apply in_map_iff in Hi'. destruct Hi' as [u [Eu Hu]]. apply filter_In in Hu. destruct Hu as [_ Hu].
    rewrite Eu, eqb_refl in Hu. discriminate. }
  rewrite <- (sum_groups_filter_other w f (dedup (map f rest)) (t :: s) (f t) Hnin).
  rewrite Hrest. reflexivity.
Qed.
End Regroup.

(* ---- decompose keeps every image -------------------------------------------- *)
Lemma signal_decompose s : signal (decompose s) = decompose (signal s).
Proof. induction s as [|t s IH]; cbn [decompose map signal filter]; [reflexivity|].
  assert (E : is_noise_key (tkey (dterm t)) = is_noise_key (tkey t)).
  { unfold dterm, dkey; cbn [tkey]. destruct (tkey t); try reflexivity. destruct (tcls t); reflexivity. }
  rewrite E. destruct (is_noise_key (tkey t)); cbn [negb map]; unfold decompose, signal in IH; rewrite IH; reflexivity. Qed.
Lemma sumw_decompose (w : term -> K) s : (forall t, w (dterm t) = w t) -> sumw w (decompose s) = sumw w s.
Proof. intros H. induction s as [|t s IH]; cbn [decompose map sumw]; [reflexivity|]. unfold decompose in IH. rewrite IH, H. reflexivity. Qed.
Theorem time_decompose s : time (decompose s) = time s.
Proof. unfold time. rewrite signal_decompose. apply sumw_decompose. reflexivity. Qed.
Theorem laplace_decompose s : laplace (decompose s) = laplace s.
Proof. unfold laplace. rewrite signal_decompose. apply sumw_decompose. reflexivity. Qed.
Lemma dkey_idem t : dkey (dterm t) = dkey t.
Proof. unfold dterm, dkey; cbn [tkey tcls]. destruct (tkey t); try reflexivity. destruct (tcls t); reflexivity. Qed.
Theorem decompose_idem s : decompose (decompose s) = decompose s.
Proof. unfold decompose. rewrite map_map. apply map_ext. intros t. unfold dterm at 1. rewrite dkey_idem. reflexivity. Qed.

(* ---- adding is order and grouping independent ------------------------------ *)
Theorem time_add_all s x : time (add_all s x) = fadd (time s) (time x).
Proof. unfold time, add_all, signal. rewrite filter_app. apply sumw_app. Qed.
Theorem laplace_add_all s x : laplace (add_all s x) = fadd (laplace s) (laplace x).
Proof. unfold laplace, add_all, signal. rewrite filter_app. apply sumw_app. Qed.
Theorem tval_add_all k s x : tval k (add_all s x) = fadd (tval k s) (tval k x).
Proof. unfold tval, add_all, at_key. rewrite filter_app. apply sumw_app. Qed.
Theorem sval_add_all k s x : sval k (add_all s x) = fadd (sval k s) (sval k x).
Proof. unfold sval, add_all, at_key. rewrite filter_app. apply sumw_app. Qed.
Theorem tval_perm k s s' : Permutation s s' -> tval k s = tval k s'.
Proof. intros H. unfold tval, at_key. apply sumw_perm. apply filter_perm. exact H. Qed.
Theorem sval_perm k s s' : Permutation s s' -> sval k s = sval k s'.
Proof. intros H. unfold sval, at_key. apply sumw_perm. apply filter_perm. exact H. Qed.
Theorem time_perm s s' : Permutation s s' -> time s = time s'.
Proof. intros H. unfold time, signal. apply sumw_perm. apply filter_perm. exact H. Qed.
Theorem laplace_perm s s' : Permutation s s' -> laplace s = laplace s'.
Proof. intros H. unfold laplace, signal. apply sumw_perm. apply filter_perm. exact H. Qed.

(* ---- reassembly ---------------------------------------------------------------- *)
(* time() literally sums the stored entries: one entry per key *)
Theorem time_by_keys s : time s = sum_groups key_eqb timg tkey (dedup key_eqb (map tkey (signal s))) (signal s).
Proof. unfold time. apply regroup. exact key_eqb_eq. Qed.
Theorem laplace_by_keys s : laplace s = sum_groups key_eqb simg tkey (dedup key_eqb (map tkey (signal s))) (signal s).
Proof. unfold laplace. apply regroup. exact key_eqb_eq. Qed.
(* the decomposition's entries ('dc', each omega, 'x', 's') sum to the whole *)
Theorem decompose_reassemble_t s :
  time s = sum_groups key_eqb timg tkey (dedup key_eqb (map tkey (signal (decompose s)))) (signal (decompose s)).
Proof. rewrite <- time_decompose. apply time_by_keys. Qed.
Theorem decompose_reassemble_s s :
  laplace s = sum_groups key_eqb simg tkey (dedup key_eqb (map tkey (signal (decompose s)))) (signal (decompose s)).
Proof. rewrite <- laplace_decompose. apply laplace_by_keys. Qed.
(* ... and so do the parts of ANY grouping of the terms (by source, by kind, ...) *)
Theorem decompose_reassemble {A} (eqb : A -> A -> bool) (H : forall a b, eqb a b = true <-> a = b) (f : term -> A) s :
  time s = sum_groups eqb timg f (dedup eqb (map f (signal s))) (signal s) /\
  laplace s = sum_groups eqb simg f (dedup eqb (map f (signal s))) (signal s).
Proof. split; [unfold time | unfold laplace]; apply regroup; exact H. Qed.

(* dc + ac + transient, for a container whose keys are 't', 's', omega, 'dc', 'x', 'n*' *)
Definition ac_ws (s : sig) : list nat :=
  dedup Nat.eqb (flat_map (fun t => match dkey t with KyAC w => [w] | _ => [] end) s).
Fixpoint sum_ac (part : nat -> K) (ws : list nat) : K :=
  match ws with [] => f0 | w :: ws' => fadd (part w) (sum_ac part ws') end.

Definition kcode (k : key) : group :=   (* which of dc / ac w / transient / noise a decomposed key belongs to *)
  match k with KyDC => GDC | KyAC w => GAC w | KyT | KyX | KyS => GTR | KyN i => GN i end.
Definition gof (t : term) : group := kcode (dkey t).

Lemma filter_signal_key k s : is_noise_key k = false -> at_key k (signal s) = at_key k s.
Proof. intros Hk. unfold at_key, signal. rewrite filter_filter. apply filter_ext'. intros t.
  destruct (key_eqb (tkey t) k) eqn:E; [|rewrite andb_false_r; reflexivity].
  apply key_eqb_eq in E. rewrite E, Hk. reflexivity. Qed.

(* value selected for an analysis group (Superposition.select / netval feeding
   V._select, I._select): 'dc' -> dc entry, omega -> phasor entry,
   'transient' -> 'x' + 's' entries *)
Definition select_t (g : group) (s : sig) : K := sumw timg (filter (fun t => group_eqb (gof t) g) (signal s)).
Definition select_s (g : group) (s : sig) : K := sumw simg (filter (fun t => group_eqb (gof t) g) (signal s)).
(* kinds(transform=True) without the noise identifiers *)
Definition kinds_tr (s : sig) : list group := dedup group_eqb (map gof (signal s)).

(* the analysis groups cover the source: selecting every kind and adding up
   gives the source value back, in both images *)
Fixpoint sum_over (h : group -> K) (gs : list group) : K :=
  match gs with [] => f0 | g :: gs' => fadd (h g) (sum_over h gs') end.
Theorem groups_cover s :
  time s = sum_over (fun g => select_t g s) (kinds_tr s) /\
  laplace s = sum_over (fun g => select_s g s) (kinds_tr s).
Proof.
  destruct (decompose_reassemble group_eqb group_eqb_eq gof s) as [Ht Hs]. split.
  - rewrite Ht. unfold kinds_tr, select_t. generalize (dedup group_eqb (map gof (signal s))) as gs.
    induction gs as [|g gs IH]; cbn [sum_groups sum_over]; [reflexivity | rewrite IH; reflexivity].
  - rewrite Hs. unfold kinds_tr, select_s. generalize (dedup group_eqb (map gof (signal s))) as gs.
    induction gs as [|g gs IH]; cbn [sum_groups sum_over]; [reflexivity | rewrite IH; reflexivity].
Qed.
(* no noise identifier among the analysis groups of the signal part, and a
   group that is not listed selects nothing *)
Theorem select_unlisted g s : ~ In g (map gof (signal s)) -> select_t g s = f0 /\ select_s g s = f0.
Proof. intros H. unfold select_t, select_s.
  assert (E : filter (fun t => group_eqb (gof t) g) (signal s) = []).
  { induction (signal s) as [|t l IH]; cbn [filter]; [reflexivity|]. cbn [map] in H.
    destruct (group_eqb (gof t) g) eqn:Eg.
    - apply group_eqb_eq in Eg. exfalso. apply H. left. exact Eg.
    - apply IH. intros Hi. apply H. right. exact Hi. }
  rewrite E. split; reflexivity. Qed.

(* the dc group is the .dc part, an ac group the .ac[w] part, the transient group .transient,
   provided the container holds no un-decomposed 't' entry other than through decompose
   (true of every container: 't' terms are re-keyed by dkey) *)
Lemma gof_dc t : group_eqb (gof t) GDC = key_eqb (dkey t) KyDC.
Proof. unfold gof. destruct (dkey t); reflexivity. Qed.
Lemma gof_ac t w : group_eqb (gof t) (GAC w) = key_eqb (dkey t) (KyAC w).
Proof. unfold gof. destruct (dkey t); reflexivity. Qed.
Lemma at_key_decompose (wt : term -> K) k s : (forall t, wt (dterm t) = wt t) ->
  sumw wt (at_key k (decompose s)) = sumw wt (filter (fun t => key_eqb (dkey t) k) s).
Proof. intros H. induction s as [|t s IH]; cbn [decompose map at_key filter]; [reflexivity|].
  unfold dterm at 1; cbn [tkey]. destruct (key_eqb (dkey t) k); cbn [sumw]; unfold at_key, decompose in IH; rewrite IH; [rewrite H|]; reflexivity. Qed.
Theorem select_dc s : select_t GDC s = part_dc s /\ select_s GDC s = part_dc_s s.
Proof. unfold select_t, select_s, part_dc, part_dc_s, tval, sval. rewrite !at_key_decompose by reflexivity.
  unfold signal. rewrite !filter_filter. split; f_equal; apply filter_ext'; intros t; rewrite gof_dc;
  unfold dkey; destruct (tkey t); try reflexivity; destruct (tcls t); reflexivity. Qed.
Theorem select_ac w s : select_t (GAC w) s = part_ac w s /\ select_s (GAC w) s = part_ac_s w s.
Proof. unfold select_t, select_s, part_ac, part_ac_s, tval, sval. rewrite !at_key_decompose by reflexivity.
  unfold signal. rewrite !filter_filter. split; f_equal; apply filter_ext'; intros t; rewrite gof_ac;
  unfold dkey; destruct (tkey t); try reflexivity; destruct (tcls t); reflexivity. Qed.

Lemma sumw_filter_or (wt : term -> K) (p q : term -> bool) l : (forall t, p t && q t = false) ->
  sumw wt (filter (fun t => p t || q t) l) = fadd (sumw wt (filter p l)) (sumw wt (filter q l)).
Proof. intros D. induction l as [|t l IH]; cbn [filter sumw]; [ring|]. specialize (D t).
  destruct (p t), (q t); cbn [orb andb sumw] in *; try discriminate; rewrite IH; ring. Qed.
Theorem select_tr s : select_t GTR s = part_transient s /\ select_s GTR s = part_transient_s s.
Proof.
  unfold select_t, select_s, part_transient, part_transient_s, tval, sval. rewrite !at_key_decompose by reflexivity.
  assert (E : forall wt, sumw wt (filter (fun t => group_eqb (gof t) GTR) (signal s)) =
                   fadd (sumw wt (filter (fun t => key_eqb (dkey t) KyX) s)) (sumw wt (at_key KyS s))).
  { intros wt. unfold signal, at_key. rewrite filter_filter.
    rewrite (filter_ext' _ (fun t => key_eqb (dkey t) KyX || key_eqb (tkey t) KyS)).
    - apply sumw_filter_or. intros t. unfold dkey. destruct (tkey t); try reflexivity. destruct (tcls t); reflexivity.
    - intros t. unfold gof, dkey. destruct (tkey t); try reflexivity. destruct (tcls t); reflexivity. }
  split; apply E. Qed.

(* ---- analysis groups (Netlist._analysis_groups) and views (Superposition.select) --------------- *)
Definition view_t (v : view) (s : sig) : K :=
  match v with VwSelf | VwTime | VwLaplace => time s | VwTransient => part_transient s | VwNoise => f0 end.
Definition view_s (v : view) (s : sig) : K :=
  match v with VwSelf | VwTime | VwLaplace => laplace s | VwTransient => part_transient_s s | VwNoise => f0 end.
(* value the analysis group uses for the source: the whole signal for 'ivp' (laplace()) and 'time' (time()) *)
Definition aselect_t (a : agroup) (s : sig) : K := match a with AgIvp | AgTime => time s | AgKind g => select_t g s end.
Definition aselect_s (a : agroup) (s : sig) : K := match a with AgIvp | AgTime => laplace s | AgKind g => select_s g s end.
Definition agroups (m : amode) (s : sig) : list agroup :=
  match m with
  | AGeneral => map AgKind (kinds_tr s)
  | AIvp => match signal s with [] => [] | _ => [AgIvp] end
  | ATime => match signal s with [] => [] | _ => [AgTime] end
  end.
Fixpoint sum_agroups (h : agroup -> K) (l : list agroup) : K :=
  match l with [] => f0 | a :: l' => fadd (h a) (sum_agroups h l') end.

Lemma dedup_In {A} (eqb : A -> A -> bool) (H : forall a b, eqb a b = true <-> a = b) (x : A) l : In x (dedup eqb l) <-> In x l.
Proof. induction l as [|a l IH]; cbn [dedup]; [tauto|]. split.
  - intros [->|Hi]; [left; reflexivity|]. apply filter_In in Hi. right. apply IH. exact (proj1 Hi).
  - intros [->|Hi]; [left; reflexivity|]. destruct (eqb a x) eqn:E.
    + apply H in E. left. exact E.
    + right. apply filter_In. split; [apply IH; exact Hi | rewrite E; reflexivity]. Qed.
Lemma kinds_tr_In g s : In g (kinds_tr s) <-> exists t, In t (signal s) /\ gof t = g.
Proof. unfold kinds_tr. rewrite (dedup_In group_eqb group_eqb_eq). rewrite in_map_iff. split; intros [t [A B]]; exists t; tauto. Qed.
Lemma kinds_tr_no_noise g s : In g (kinds_tr s) -> match g with GN _ => False | _ => True end.
Proof. intros H. apply kinds_tr_In in H. destruct H as [t [Ht <-]]. unfold signal in Ht. apply filter_In in Ht. destruct Ht as [_ Hn].
  unfold gof, dkey. destruct (tkey t); cbn in *; try exact I; try discriminate. destruct (tcls t); exact I. Qed.
(* the listed analysis groups are exactly the images of the signal's transform groups *)
Theorem agroups_spec m s a : In a (agroups m s) <-> exists g, In g (kinds_tr s) /\ agroup_of m g = Some a.
Proof.
  assert (Hne : forall t l, signal s = t :: l -> In (gof t) (kinds_tr s)).
  { intros t l E. apply kinds_tr_In. exists t. split; [rewrite E; left; reflexivity | reflexivity]. }
  assert (Hemp : signal s = [] -> kinds_tr s = []).
  { intros E. unfold kinds_tr. rewrite E. reflexivity. }
  destruct m; cbn [agroups].
  - destruct (signal s) as [|t l] eqn:E.
    + rewrite (Hemp eq_refl). split; [intros [] | intros [g [[] _]]].
    + split.
      * intros [<-|[]]. exists (gof t). split; [apply (Hne t l eq_refl)|].
        pose proof (kinds_tr_no_noise _ _ (Hne t l eq_refl)) as Hn. destruct (gof t); try reflexivity. contradiction.
      * intros [g [Hg Ha]]. pose proof (kinds_tr_no_noise _ _ Hg) as Hn. destruct g; cbn in Ha; try contradiction; inversion Ha; left; reflexivity.
  - destruct (signal s) as [|t l] eqn:E.
    + rewrite (Hemp eq_refl). split; [intros [] | intros [g [[] _]]].
    + split.
      * intros [<-|[]]. exists (gof t). split; [apply (Hne t l eq_refl)|].
        pose proof (kinds_tr_no_noise _ _ (Hne t l eq_refl)) as Hn. destruct (gof t); try reflexivity. contradiction.
      * intros [g [Hg Ha]]. pose proof (kinds_tr_no_noise _ _ Hg) as Hn. destruct g; cbn in Ha; try contradiction; inversion Ha; left; reflexivity.
  - rewrite in_map_iff. split.
    + intros [g [<- Hg]]. exists g. split; [exact Hg | reflexivity].
    + intros [g [Hg Ha]]. cbn in Ha. inversion Ha. exists g. split; [reflexivity | exact Hg].
Qed.
(* whatever the mode, the values the analyses use add up to the source value: the 'ivp' and 'time'
   shortcuts select the same total as the per-kind analyses *)
Theorem analysis_groups_cover m s :
  time s = sum_agroups (fun a => aselect_t a s) (agroups m s) /\
  laplace s = sum_agroups (fun a => aselect_s a s) (agroups m s).
Proof.
  destruct m; cbn [agroups].
  - destruct (signal s) eqn:E; cbn [sum_agroups aselect_t aselect_s]; [unfold time, laplace; rewrite E; cbn; split; ring | split; ring].
  - destruct (signal s) eqn:E; cbn [sum_agroups aselect_t aselect_s]; [unfold time, laplace; rewrite E; cbn; split; ring | split; ring].
  - destruct (groups_cover s) as [Ht Hs]. rewrite Ht, Hs. generalize (kinds_tr s) as gs.
    induction gs as [|g gs [IH1 IH2]]; cbn [map sum_over sum_agroups aselect_t aselect_s]; [split; reflexivity|]. rewrite IH1, IH2. split; reflexivity.
Qed.
(* views: 'time' -> time(), 'ivp'/'laplace' -> laplace(), 'transient' -> the transient part; the whole
   signal is the dc + ac + transient views *)
Theorem view_whole k s : select_view k = VwTime \/ select_view k = VwLaplace \/ select_view k = VwSelf ->
  view_t (select_view k) s = time s /\ view_s (select_view k) s = laplace s.
Proof. intros [H|[H|H]]; rewrite H; split; reflexivity. Qed.

(* ---- noise ---------------------------------------------------------------------- *)
(* a noise value: identifier and (complex) amplitude; nsq = |.|^2 *)
Variable nsq : K -> K.
Definition nitem := (nat * K)%type.
(* amplitude held under identifier i after adding the items (Superposition._add_noise:
   same identifier => NoiseExpression.__add__ adds the amplitudes) *)
Fixpoint namp (i : nat) (l : list nitem) : K :=
  match l with [] => f0 | (j, a) :: l' => fadd (if Nat.eqb i j then a else f0) (namp i l') end.
(* the store: association list built by _add_noise, entries that become 0 are popped *)
Fixpoint nlookup (i : nat) (st : list nitem) : K :=
  match st with [] => f0 | (j, a) :: st' => if Nat.eqb i j then a else nlookup i st' end.
Fixpoint nset (i : nat) (a : K) (st : list nitem) : list nitem :=
  match st with [] => [(i, a)] | (j, b) :: st' => if Nat.eqb i j then (j, a) :: st' else (j, b) :: nset i a st' end.
Fixpoint nremove (i : nat) (st : list nitem) : list nitem :=
  match st with [] => [] | (j, b) :: st' => if Nat.eqb i j then st' else (j, b) :: nremove i st' end.
Definition nhas (i : nat) (st : list nitem) : bool := existsb (fun p => Nat.eqb i (fst p)) st.
Definition add_noise (st : list nitem) (it : nitem) : list nitem :=
  let (i, a) := it in
  if nhas i st then
    let b := fadd (nlookup i st) a in
    if fdec K b f0 then nremove i st else nset i b st
  else (if fdec K a f0 then st else st ++ [(i, a)]).   (* add() ignores a zero value *)
Definition nstore (l : list nitem) : list nitem := fold_left add_noise l [].

Definition ids_nodup (st : list nitem) : Prop := NoDup (map fst st).
Lemma nlookup_absent i st : nhas i st = false -> nlookup i st = f0.
Proof. induction st as [|[j b] st IH]; cbn [nhas existsb nlookup fst]; [reflexivity|].
  destruct (Nat.eqb i j); cbn [orb]; [discriminate | exact IH]. Qed.
Lemma nlookup_nset i a st j : nlookup j (nset i a st) = if Nat.eqb j i then a else nlookup j st.
Proof. induction st as [|[h b] st IH]; cbn [nset nlookup].
  - destruct (Nat.eqb j i); reflexivity.
  - destruct (Nat.eqb i h) eqn:E; cbn [nlookup].
    + apply Nat.eqb_eq in E. subst h. destruct (Nat.eqb j i); reflexivity.
    + rewrite IH. destruct (Nat.eqb j h) eqn:E2; [|reflexivity].
      apply Nat.eqb_eq in E2. subst h. destruct (Nat.eqb j i) eqn:E3; [|reflexivity].
      apply Nat.eqb_eq in E3. subst. rewrite Nat.eqb_refl in E. discriminate. Qed.
Lemma nhas_In i st : nhas i st = true <-> In i (map fst st).
Proof. unfold nhas. rewrite existsb_exists. split.
  - intros [p [Hp E]]. apply Nat.eqb_eq in E. subst. apply in_map. exact Hp.
  - intros H. apply in_map_iff in H. destruct H as [p [E Hp]]. exists p. split; [exact Hp | subst; apply Nat.eqb_refl]. Qed.
Lemma nlookup_nremove i st j : ids_nodup st -> nlookup j (nremove i st) = if Nat.eqb j i then f0 else nlookup j st.
Proof. induction st as [|[h b] st IH]; intros ND; cbn [nremove nlookup].
  - destruct (Nat.eqb j i); reflexivity.
  - unfold ids_nodup in ND. cbn [map fst] in ND. inversion ND as [|? ? Hn ND']; subst.
    destruct (Nat.eqb i h) eqn:E.
    + apply Nat.eqb_eq in E. subst h. destruct (Nat.eqb j i) eqn:E2; [|reflexivity].
      apply Nat.eqb_eq in E2. subst j. apply nlookup_absent. destruct (nhas i st) eqn:Hh; [|reflexivity].
      apply nhas_In in Hh. contradiction.
    + cbn [nlookup]. rewrite (IH ND'). destruct (Nat.eqb j h) eqn:E2; [|reflexivity].
      apply Nat.eqb_eq in E2. subst h. destruct (Nat.eqb j i) eqn:E3; [|reflexivity].
      apply Nat.eqb_eq in E3. subst. rewrite Nat.eqb_refl in E. discriminate. Qed.
Lemma nset_ids i a st : nhas i st = true -> map fst (nset i a st) = map fst st.
Proof. induction st as [|[h b] st IH]; cbn [nhas existsb fst]; [discriminate|].
  cbn [nset]. destruct (Nat.eqb i h) eqn:E; cbn [orb map fst]; [reflexivity|]. intros H. f_equal. apply IH. exact H. Qed.
Lemma nremove_incl i st x : In x (map fst (nremove i st)) -> In x (map fst st).
Proof. induction st as [|[g c] st IH]; cbn [nremove]; [auto|]. destruct (Nat.eqb i g); cbn [map fst].
  - intros H. right. exact H.
  - intros [H|H]; [left; exact H | right; apply IH; exact H]. Qed.
Lemma nremove_nodup i st : ids_nodup st -> ids_nodup (nremove i st).
Proof. unfold ids_nodup. induction st as [|[h b] st IH]; intros ND; cbn [nremove]; [constructor|].
  cbn [map fst] in ND. inversion ND as [|? ? Hn ND']; subst. destruct (Nat.eqb i h); [exact ND'|].
  cbn [map fst]. constructor; [|apply IH; exact ND'].
  intros Hi. apply Hn. eapply nremove_incl. exact Hi. Qed.

Lemma NoDup_app_snoc {A} (l : list A) (k : A) : NoDup l -> ~ In k l -> NoDup (l ++ [k]).
Proof. induction l as [|x l IH]; intros ND Hn; cbn [app].
  - constructor; [intros []|constructor].
  - inversion ND as [|? ? Hx ND']; subst. constructor.
    + intros Hi. apply in_app_or in Hi. destruct Hi as [Hi|[Hi|[]]]; [exact (Hx Hi)|]. subst. apply Hn. left. reflexivity.
    + apply IH; [exact ND'|]. intros Hi. apply Hn. right. exact Hi. Qed.
Lemma add_noise_inv st it : ids_nodup st ->
  ids_nodup (add_noise st it) /\ forall j, nlookup j (add_noise st it) = fadd (nlookup j st) (if Nat.eqb j (fst it) then snd it else f0).
Proof.
  destruct it as [i a]. intros ND. unfold add_noise. cbn [fst snd].
  destruct (nhas i st) eqn:Hh.
  - destruct (fdec K (fadd (nlookup i st) a) f0) as [E|E].
    + split; [apply nremove_nodup; exact ND|]. intros j. rewrite nlookup_nremove by exact ND.
      destruct (Nat.eqb j i) eqn:Ej; [|ring]. apply Nat.eqb_eq in Ej. subst j. rewrite E. reflexivity.
    + split; [unfold ids_nodup; rewrite nset_ids by exact Hh; exact ND|]. intros j. rewrite nlookup_nset.
      destruct (Nat.eqb j i) eqn:Ej; [|ring]. apply Nat.eqb_eq in Ej. subst j. reflexivity.
  - destruct (fdec K a f0) as [E|E].
    + split; [exact ND|]. intros j. subst a. destruct (Nat.eqb j i); ring.
    + split.
      * unfold ids_nodup. rewrite map_app. cbn [map fst]. apply NoDup_app_snoc; [exact ND|].
        intros Hi. apply nhas_In in Hi. congruence.
      * intros j. induction st as [|[h b] st IH]; cbn [app nlookup].
        -- destruct (Nat.eqb j i); ring.
        -- cbn [nhas existsb fst] in Hh. destruct (Nat.eqb i h) eqn:E2; cbn [orb] in Hh; [discriminate|].
           destruct (Nat.eqb j h) eqn:E3.
           ++ apply Nat.eqb_eq in E3. subst h. destruct (Nat.eqb j i) eqn:E4; [|ring].
              apply Nat.eqb_eq in E4. subst. rewrite Nat.eqb_refl in E2. discriminate.
           ++ unfold ids_nodup in ND. cbn [map fst] in ND. inversion ND; subst. apply IH; assumption.
Qed.

(* same identifier => amplitudes add: the store holds, for every identifier,
   the SUM of the amplitudes added under it - whatever the order *)
Theorem noise_add_same_id (l : list nitem) :
  ids_nodup (nstore l) /\ forall i, nlookup i (nstore l) = namp i l.
Proof.
  unfold nstore.
  assert (G : forall l st, ids_nodup st ->
     ids_nodup (fold_left add_noise l st) /\ forall i, nlookup i (fold_left add_noise l st) = fadd (nlookup i st) (namp i l)).
  { clear l. induction l as [|[j a] l IH]; intros st ND; cbn [fold_left namp].
    - split; [exact ND | intros i; ring].
    - destruct (add_noise_inv st (j, a) ND) as [ND' HL]. destruct (IH _ ND') as [ND'' HL'].
      split; [exact ND''|]. intros i. rewrite HL', HL. cbn [fst snd]. ring. }
  destruct (G l [] (NoDup_nil _)) as [ND HL]. split; [exact ND|]. intros i. rewrite HL. cbn. ring.
Qed.
Theorem namp_perm i l l' : Permutation l l' -> namp i l = namp i l'.
Proof. induction 1 as [|[j a] l l' H IH|[j a] [h b] l|]; cbn [namp]; [ring | rewrite IH; reflexivity | ring | congruence]. Qed.
Theorem namp_app i l l' : namp i (l ++ l') = fadd (namp i l) (namp i l').
Proof. induction l as [|[j a] l IH]; cbn [namp app]; [ring | rewrite IH; ring]. Qed.

(* distinct identifiers => powers add.  NoiseExpression.__add__ for different
   identifiers returns sqrt(|a|^2 + |b|^2) under a fresh identifier; in squared
   form this is [qadd]; Superposition.n folds it over the store *)
Definition qadd (p q : K) : K := fadd p q.
Lemma qadd_comm p q : qadd p q = qadd q p. Proof. unfold qadd; ring. Qed.
Lemma qadd_assoc p q r : qadd p (qadd q r) = qadd (qadd p q) r. Proof. unfold qadd; ring. Qed.
Definition total_power (st : list nitem) : K := fold_left (fun acc p => qadd acc (nsq (snd p))) st f0.
Fixpoint power_sum (st : list nitem) : K := match st with [] => f0 | p :: st' => fadd (nsq (snd p)) (power_sum st') end.
Theorem noise_add_distinct_ids st : total_power st = power_sum st.
Proof. unfold total_power.
  assert (G : forall st acc, fold_left (fun acc p => qadd acc (nsq (snd p))) st acc = fadd acc (power_sum st)).
  { clear st. induction st as [|p st IH]; intros acc; cbn [fold_left power_sum]; [ring|]. rewrite IH. unfold qadd. ring. }
  rewrite G. ring. Qed.
Theorem power_sum_perm st st' : Permutation st st' -> power_sum st = power_sum st'.
Proof. induction 1; cbn [power_sum]; [ring | rewrite IHPermutation; reflexivity | ring | congruence]. Qed.
Theorem power_sum_app st st' : power_sum (st ++ st') = fadd (power_sum st) (power_sum st').
Proof. induction st as [|p st IH]; cbn [power_sum app]; [ring | rewrite IH; ring]. Qed.
(* the total noise power of a container: per identifier the coherent sum, across identifiers the power sum *)
Definition noise_power (l : list nitem) : K := total_power (nstore l).
(* summary for two noise values: same identifier => amplitudes add,
   distinct identifiers => powers add *)
Theorem noise_add (i j : nat) (a b : K) :
  (i = j -> nlookup i (nstore [(i, a); (j, b)]) = fadd a b) /\
  (i <> j -> noise_power [(i, a); (j, b)] = fadd (nsq a) (nsq b) \/ a = f0 \/ b = f0).
Proof.
  split.
  - intros <-. destruct (noise_add_same_id [(i, a); (i, b)]) as [_ H]. rewrite H. cbn [namp]. rewrite Nat.eqb_refl. ring.
  - intros Hij. destruct (fdec K a f0) as [Ea|Ea]; [right; left; exact Ea|].
    destruct (fdec K b f0) as [Eb|Eb]; [right; right; exact Eb|]. left.
    unfold noise_power, nstore. cbn [fold_left add_noise nhas existsb].
    destruct (fdec K a f0) as [E|_]; [contradiction|]. cbn [app nhas existsb fst].
    assert (Nat.eqb j i = false) as -> by (apply Nat.eqb_neq; intros E; apply Hij; symmetry; exact E).
    cbn [orb]. destruct (fdec K b f0) as [E|_]; [contradiction|].
    cbn [app]. unfold total_power. cbn [fold_left snd]. unfold qadd. ring.
Qed.
End Sup.

Arguments Tm {K}. Arguments tkey {K}. Arguments tcls {K}. Arguments timg {K}. Arguments simg {K}. Arguments pre {K}. Arguments pim {K}.
Arguments add {K}. Arguments add_all {K}. Arguments dkey {K}. Arguments dterm {K}. Arguments decompose {K}.
Arguments sumw {K}. Arguments at_key {K}. Arguments tval {K}. Arguments sval {K}. Arguments signal {K}.
Arguments time {K}. Arguments laplace {K}. Arguments part_dc {K}. Arguments part_ac {K}. Arguments part_transient {K}.
Arguments part_dc_s {K}. Arguments part_ac_s {K}. Arguments part_transient_s {K}. Arguments phasor_re {K}. Arguments phasor_im {K}.
Arguments view_t {K}. Arguments view_s {K}. Arguments aselect_t {K}. Arguments aselect_s {K}. Arguments agroups {K}. Arguments sum_agroups {K}.
Arguments gof {K}. Arguments select_t {K}. Arguments select_s {K}. Arguments kinds_tr {K}. Arguments ac_ws {K}.
Arguments namp {K}. Arguments nlookup {K}. Arguments add_noise {K}. Arguments nstore {K}. Arguments total_power {K}.
Arguments power_sum {K}. Arguments noise_power {K}. Arguments sig K : clear implicits. Arguments term K : clear implicits.
Arguments nitem K : clear implicits.
