(* FourierModel - hand-written executable model (H) of what Lcapy's Fourier-family
   transforms return for the signal class of C12, evaluated by vm_compute inside
   Coq on the same inputs the real code ran on (checks/c12.py):

     ft tbl rsim rmod inv s  :  the canonical form (FourierFn.nfe) of the transform
        of the structured signal s, where the closed form of every base pattern
        and the similarity/shift and modulation rules are looked up in a TABLE
        (the one translated from lcapy/fourier.py on every run, or the textbook
        table [spec_tbl] of FourierTable.v), linearity is applied for sums and
        constant factors (BilateralForwardTransformer.doit / term), and results
        that Lcapy obtains from SymPy (O) are taken from their specification;
     the frequency variable (f, omega, F, Omega) enters as the affine map
        Var |-> al * x + be  (al = 1, 1/(2 pi), 1/dt, 1/(2 pi dt));
     doit / cache : abstract state machine with the theorem that the cache
        (keyed without the constant factor) is transparent, and that term
        splitting with the partial-fraction retry is sound for a linear spec;
     Lshort : the s -> j omega shortcut of sexpr.fourier on exp-poly images.
   Axiom-free. *)
Require Import LT.FieldSec LT.PolyQ LT.QcI LT.ExpPoly LT.FourierSpec LT.FourierFn LT.FourierTable.
From Coq Require Import QArith Qcanon.
Local Open Scope Qc_scope.

(* pattern ids (shared with checks/c12.py) *)
Definition P_const := 0%nat. Definition P_t := 1%nat. Definition P_t2 := 2%nat. Definition P_abs := 3%nat.
Definition P_sign := 4%nat. Definition P_step := 5%nat. Definition P_recip := 6%nat. Definition P_recip2 := 7%nat.
Definition P_tstep := 8%nat. Definition P_expu := 9%nat. Definition P_sincn := 10%nat. Definition P_sincu := 11%nat.
Definition P_sincn2 := 12%nat. Definition P_rect := 13%nat. Definition P_tri := 14%nat. Definition P_trap := 15%nat.
Definition P_trap0 := 16%nat. Definition P_reciplin := 17%nat. Definition P_sech := 18%nat. Definition P_csch := 19%nat.
Definition P_tanh := 20%nat. Definition P_cexp := 21%nat. Definition P_tratio := 22%nat. Definition P_tration := 23%nat.

Definition spec_tbl : list (nat * fn) :=
  [(P_const, sp_const); (P_t, sp_t); (P_t2, sp_t2); (P_abs, sp_abs); (P_sign, sp_sign); (P_step, sp_step);
   (P_recip, sp_recip); (P_recip2, sp_recip2); (P_tstep, sp_tstep); (P_expu, sp_expu); (P_sincn, sp_sincn);
   (P_sincu, sp_sincu); (P_sincn2, sp_sincn2); (P_rect, sp_rect); (P_tri, sp_tri); (P_trap, sp_trap);
   (P_trap0, sp_trap0); (P_reciplin, sp_reciplin); (P_sech, sp_sech); (P_csch, sp_csch); (P_tanh, sp_tanh);
   (P_cexp, sp_cexp); (P_tratio, sp_tratio); (P_tration, sp_tration)].
(* the inverse transformer evaluates the same closed forms at -x *)
Fixpoint flipfn (e : fn) : fn :=
  match e with
  | Var => Neg Var
  | Add a b => Add (flipfn a) (flipfn b) | Mul a b => Mul (flipfn a) (flipfn b) | Neg a => Neg (flipfn a)
  | Inv a => Inv (flipfn a) | Pw a n => Pw (flipfn a) n | App h a => App h (flipfn a) | Dl n a => Dl n (flipfn a)
  | Trp a al => Trp (flipfn a) (flipfn al)
  | Rec a => Rec (Neg (flipfn a))      (* Q_inv(y) = Q_fwd(-y) *)
  | _ => e end.

(* results that Lcapy takes from SymPy, by their specification (O):
   Par 2 = a (or r), Par 3 = c *)
Definition JW := Mul (Mul Jm TPI) Var.     (* j 2 pi f *)
Definition W2 := Pw (Mul TPI Var) 2.       (* (2 pi f)^2 *)
Definition o_delta (n : nat) := Pw JW n.                                        (* delta^(n)(t) *)
Definition o_twoexp := Dv (Mul N2 (Par 2)) (Add (Pw (Par 2) 2) W2).             (* e^{-a|t|} *)
Definition o_gauss := Mul (Mul SqrtPi (Par 2)) (App HExp (Neg (Mul (Pw (Mul Pi (Par 2)) 2) (Pw Var 2)))).   (* e^{-(t/r)^2} *)
Definition o_gausspi := Mul (Par 2) (App HExp (Neg (Mul (Mul Pi (Pw (Par 2) 2)) (Pw Var 2)))).           (* e^{-pi (t/r)^2} *)
Definition o_texpu (n : nat) (nfact : Z) := Dv (Num nfact 1) (Pw (Sub JW (Par 3)) (S n)).                   (* t^n e^{ct} u(t) *)
Definition o_sgnexp := Neg (Dv (Mul (Mul N2 Jm) (Mul TPI Var)) (Add (Pw (Par 2) 2) W2)).                   (* sgn(t) e^{-a|t|} *)
Definition o_ttwoexp := Neg (Dv (Mul (Mul (Mul (Num 4 1) Jm) (Par 2)) (Mul TPI Var)) (Pw (Add (Pw (Par 2) 2) W2) 2)). (* t e^{-a|t|} *)
(* inverse direction: the Lorentzian 2a/(a^2 + (2 pi f)^2) -> e^{-a|t|} written with steps *)
Definition o_lorentz := Add (Mul (App HExp (Neg (Mul (Par 2) Var))) (App HHeav Var)) (Mul (App HExp (Mul (Par 2) Var)) (App HHeav (Neg Var))).
Definition ospec (oid : nat) : option fn :=
  match oid with
  | 0%nat => Some (o_delta 0) | 1%nat => Some (o_delta 1) | 2%nat => Some (o_delta 2)
  | 3%nat => Some o_twoexp | 4%nat => Some o_gauss | 5%nat => Some o_gausspi
  | 6%nat => Some (o_texpu 1 1) | 7%nat => Some (o_texpu 2 2)
  | 8%nat => Some o_sgnexp | 9%nat => Some o_ttwoexp | 10%nat => Some o_lorentz
  | _ => None end.

Inductive sig :=
| SB (pid : nat) (ps : list (nat * cq))       (* table pattern with its parameters *)
| SO (oid : nat) (ps : list (nat * cq))       (* delegated to SymPy; value by specification *)
| SSc (c : cq) (x : sig)
| SAd (x y : sig)
| SAf (a b : Qc) (x : sig)                    (* x(a t + b) *)
| SMo (w : lp) (x : sig).                     (* e^{j 2 pi w t} x(t) *)

Fixpoint lookup {A} (k : nat) (l : list (nat * A)) : option A :=
  match l with [] => None | (k', v) :: r => if Nat.eqb k k' then Some v else lookup k r end.
Definition rho_of (ps : list (nat * cq)) (k : nat) : option cq :=
  match lookup k ps with Some v => Some v | None => if Nat.eqb k 0 then Some (cq_q 1) else if Nat.eqb k 10 then Some (cq_q 1) else None end.
Definition noQ : lp -> lp -> Qc -> option (list term) := fun _ _ _ => None.
Definition tpi_lp (w : lp) : option lp := lp_mul (0, 0, qc 2 1) w.

Section Model.
Variable tbl : list (nat * fn).      (* closed form per pattern id (first match, as the elif chain) *)
Variables rsim rmod : fn.            (* the similarity/shift and the modulation rule *)
Variable inv : bool.
Variables P sqrtP : Qc.

Fixpoint ft (s : sig) (al be : lp) (x0 : Qc) {struct s} : option (list term) :=
  match s with
  | SB pid ps => match lookup pid tbl with
                 | Some e => nfe (Env al be x0 P sqrtP (rho_of ps) noQ) e
                 | None => None end
  | SO oid ps => match ospec oid with
                 | Some e => nfe (Env al be x0 P sqrtP (rho_of ps) noQ) (if inv then flipfn e else e)
                 | None => None end
  | SSc c x => match ft x al be x0 with Some r => Some (map (t_scale (cq_val P c)) r) | None => None end
  | SAd x y => match ft x al be x0, ft y al be x0 with Some a, Some b => Some (a ++ b) | _, _ => None end
  | SAf a b x =>
      nfe (Env al be x0 P sqrtP (rho_of [(7%nat, cq_q a); (8%nat, cq_q b)]) (fun al' be' x' => ft x al' be' x')) rsim
  | SMo w x =>
      match tpi_lp w with
      | Some tw => nfe (Env al be x0 P sqrtP (rho_of [(9%nat, (lp0, tw))]) (fun al' be' x' => ft x al' be' x')) rmod
      | None => None end
  end.
End Model.

(* ---- doit: term splitting, cache keyed without the constant, retry -------------- *)
Section Doit.
Variables (Key R Cst : Type).
Variable keq : Key -> Key -> bool.
Hypothesis keq_eq : forall a b, keq a b = true <-> a = b.
Variable compute : Key -> option R.        (* sum over the terms of self.term(...), incl. the retry *)
Variable scale : Cst -> R -> R.
Definition cache := list (Key * R).
Fixpoint clookup (k : Key) (c : cache) : option R :=
  match c with [] => None | (k', r) :: c' => if keq k k' then Some r else clookup k c' end.
(* one call doit(const * key) *)
Definition doit (c : cache) (cst : Cst) (k : Key) : cache * option R :=
  match clookup k c with
  | Some r => (c, Some (scale cst r))
  | None => match compute k with Some r => ((k, r) :: c, Some (scale cst r)) | None => (c, None) end
  end.
Definition cache_ok (c : cache) : Prop := forall k r, clookup k c = Some r -> compute k = Some r.
Theorem doit_cache_transparent c cst k : cache_ok c ->
  snd (doit c cst k) = option_map (scale cst) (compute k) /\ cache_ok (fst (doit c cst k)).
Proof.
  intros Hc. unfold doit. destruct (clookup k c) as [r|] eqn:E.
  - rewrite (Hc k r E). split; [reflexivity | exact Hc].
  - destruct (compute k) as [r|] eqn:Ek; cbn [fst snd option_map]; split; try reflexivity; try exact Hc.
    intros k' r'. cbn [clookup]. destruct (keq k' k) eqn:Eq.
    + apply keq_eq in Eq. subst k'. intros H. injection H as <-. exact Ek.
    + apply Hc.
Qed.
(* any history of calls: every answer equals the uncached computation *)
Fixpoint run (c : cache) (qs : list (Cst * Key)) : list (option R) :=
  match qs with [] => [] | (cst, k) :: r => let '(c', a) := doit c cst k in a :: run c' r end.
Theorem run_history_independent qs : forall c, cache_ok c ->
  run c qs = map (fun q => option_map (scale (fst q)) (compute (snd q))) qs.
Proof.
  induction qs as [|[cst k] qs IH]; intros c Hc; cbn [run map fst snd]; [reflexivity|].
  destruct (doit c cst k) as [c' a] eqn:E. pose proof (doit_cache_transparent c cst k Hc) as [H1 H2].
  rewrite E in H1, H2. cbn [fst snd] in H1, H2. rewrite H1, (IH c' H2). reflexivity.
Qed.
Lemma cache_ok_nil : cache_ok []. Proof. intros k r H. discriminate. Qed.
End Doit.

(* term splitting is sound for every linear specification *)
Section Split.
Variables (Ex S R : Type).
Variable den : Ex -> S.                    (* meaning of an expression *)
Variables (sadd : S -> S -> S) (s0 : S) (radd : R -> R -> R) (r0 : R).
Variable Rel : S -> R -> Prop.             (* the specification (FPair) *)
Hypothesis Rel_0 : Rel s0 r0.
Hypothesis Rel_add : forall x y X Y, Rel x X -> Rel y Y -> Rel (sadd x y) (radd X Y).
Variable term : Ex -> option R.
Hypothesis term_sound : forall e X, term e = Some X -> Rel (den e) X.
Fixpoint ssum (l : list Ex) : S := match l with [] => s0 | e :: r => sadd (den e) (ssum r) end.
Fixpoint tsum (l : list Ex) : option R :=
  match l with [] => Some r0 | e :: r => match term e, tsum r with Some a, Some b => Some (radd a b) | _, _ => None end end.
Lemma tsum_sound l : forall X, tsum l = Some X -> Rel (ssum l) X.
Proof. induction l as [|e l IH]; cbn [tsum ssum]; intros X H.
  - injection H as <-. exact Rel_0.
  - destruct (term e) as [a|] eqn:Ea; [|discriminate]. destruct (tsum l) as [b|]; [|discriminate].
    injection H as <-. apply Rel_add; [apply term_sound, Ea | apply IH; reflexivity]. Qed.
(* doit1(terms), and on failure doit1(partial-fraction terms); both term lists sum to the expression
   (as_ordered_terms, Ratfun.partfrac: contracts of SymPy / ratfun.py, O) *)
Variables (terms pfterms : Ex -> list Ex).
Definition compute_split (e : Ex) : option R :=
  match tsum (terms e) with Some r => Some r | None => tsum (pfterms e) end.
Theorem compute_split_sound e X : ssum (terms e) = den e -> ssum (pfterms e) = den e ->
  compute_split e = Some X -> Rel (den e) X.
Proof. intros H1 H2. unfold compute_split. destruct (tsum (terms e)) as [r|] eqn:E.
  - intros H. injection H as <-. rewrite <- H1. apply tsum_sound, E.
  - intros H. rewrite <- H2. apply tsum_sound, H. Qed.
End Split.

(* ---- frequency-variable changes ---------------------------------------------------- *)
(* variable v = k f with k = vk v; converting the A-form to the B-form substitutes
   var_A := (k_A / k_B) var_B (FourierSpec.varchange_sound) *)
Definition vk (v : fvar) : fn :=
  match v with Vf => Num 1 1 | Vw => TPI | VF => Par 11 | VW => Mul TPI (Par 11) end.
Definition vsubst_spec (A B : fvar) : fn := Mul (Dv (vk A) (vk B)) Var.
(* s := j k_omega / k_B * var_B for the s -> j omega shortcut *)
Definition sshort_spec (B : fvar) : fn := Mul (Mul Jm (Dv TPI (vk B))) Var.
Section VarChange.
Variable K : fld.
Add Field KFfm : (fth K).
Variable C : fctx K.
Variable rho : nat -> K.
Hypothesis rho_dt : rho 11%nat = c_dt C.
Local Open Scope F_scope.
Lemma ev_vk Q v x : ev C rho Q (vk v) x = vscale C v.
Proof. destruct v; cbn [vk ev vscale TPI N2 fofZ fofpos Pos.iter_op]; unfold tpi, two; rewrite ?rho_dt; reflexivity. Qed.
Theorem vsubst_spec_sound Q A B X XA : vform C A X XA ->
  vform C B X (fun u => XA (ev C rho Q (vsubst_spec A B) u)).
Proof. intros H. pose proof (varchange_sound K C A B X XA H) as G. intros u. rewrite <- (G u).
  cbn [vsubst_spec ev Dv]. rewrite !ev_vk. f_equal.
  pose proof (vscale_nz K C A). pose proof (vscale_nz K C B). field. assumption. Qed.
(* the shortcut substitutes s = j omega with omega = 2 pi f = (2 pi / k_B) var_B *)
Theorem sshort_spec_sound Q B (u : K) : ev C rho Q (sshort_spec B) u = c_j C * tpi C * (u / vscale C B).
Proof. cbn [sshort_spec ev Dv TPI N2 fofZ fofpos Pos.iter_op]. rewrite ev_vk. pose proof (vscale_nz K C B).
  unfold tpi, two. field. assumption. Qed.
End VarChange.

(* the shortcut on exp-poly images over the Gaussian rationals: H(j w) *)
Definition Lshort (l : list (rterm QcIF)) (w : Qc) : qci := rval (K:=QcIF) (QI 0 w) l.
