(* C20 - schematic layout.  Part 2: the longest-path (critical path) solve of
   lcapy/schemgraph.py Graph.longest_path, as a fuelled function, and the
   theorem that longest-path distances are a feasible placement for every DAG
   of ">=" constraints - for graphs of any size, over any totally ordered
   weight type (instantiated to Q and Z).

   Code modelled (schemgraph.py, Graph.longest_path / traverse, first call,
   when no gnode has a position yet):
       gnode == to_gnode            -> 0
       otherwise dist = -1; for edge in gnode.fedges:
           d = traverse(edge.to_gnode)
           if d >= 0 and gnode.dist < d + edge.size: gnode.dist = d + edge.size
   "-1" (target not reachable) is [None] here; memoisation does not change the
   value, so the model recomputes and uses fuel for termination. *)
From Coq Require Import QArith ZArith List Bool Arith Lia Lqa.
Require Import LT.Layout.
Import ListNotations.

Section LongestPath.
Variable T : Type.
Variable le : T -> T -> Prop.
Variable leb : T -> T -> bool.
Variable add : T -> T -> T.
Variable zero : T.
Hypothesis leb_spec : forall a b, leb a b = true <-> le a b.
Hypothesis le_refl : forall a, le a a.
Hypothesis le_trans : forall a b c, le a b -> le b c -> le a c.
Hypothesis le_total : forall a b, le a b \/ le b a.

Record edge := mkE { e_from : node; e_to : node; e_w : T }.

(* `if gnode.dist < cand: gnode.dist = cand` with -1 as None *)
Definition better (acc : option T) (cand : T) : option T :=
  match acc with
  | None => Some cand
  | Some a => if leb cand a then Some a else Some cand
  end.

Definition step (sub : node -> option T) (u : node) (acc : option T) (e : edge) : option T :=
  if Nat.eqb (e_from e) u then
    match sub (e_to e) with
    | Some d => better acc (add d (e_w e))
    | None => acc
    end
  else acc.

Fixpoint ldist (E : list edge) (tgt : node) (fuel : nat) (u : node) : option T :=
  match fuel with
  | O => None
  | S n => if Nat.eqb u tgt then Some zero
           else fold_left (step (ldist E tgt n) u) E None
  end.

Definition ole (x y : option T) : Prop :=
  match x, y with
  | None, _ => True
  | Some a, Some b => le a b
  | Some _, None => False
  end.

Lemma ole_refl x : ole x x.
Proof. destruct x; cbn; auto. Qed.
Lemma ole_trans x y z : ole x y -> ole y z -> ole x z.
Proof. destruct x, y, z; cbn; try tauto. apply le_trans. Qed.

Lemma better_ge_acc acc c : ole acc (better acc c).
Proof.
  destruct acc as [a|]; cbn; [|exact I].
  destruct (leb c a) eqn:E; cbn; [apply le_refl|].
  destruct (le_total a c) as [H|H]; [exact H|].
  apply leb_spec in H. congruence.
Qed.
Lemma better_ge_cand acc c : ole (Some c) (better acc c).
Proof.
  destruct acc as [a|]; cbn; [|apply le_refl].
  destruct (leb c a) eqn:E; cbn; [apply leb_spec; exact E|apply le_refl].
Qed.

Lemma step_mono sub u acc e : ole acc (step sub u acc e).
Proof.
  unfold step. destruct (Nat.eqb (e_from e) u); [|apply ole_refl].
  destruct (sub (e_to e)); [apply better_ge_acc|apply ole_refl].
Qed.

Lemma fold_mono sub u l acc : ole acc (fold_left (step sub u) l acc).
Proof.
  revert acc. induction l as [|e r IH]; intros acc; cbn [fold_left]; [apply ole_refl|].
  apply (ole_trans _ (step sub u acc e)); [apply step_mono|apply IH].
Qed.

(* the fold dominates every candidate *)
Lemma fold_ge_cand sub u l acc e d :
  In e l -> e_from e = u -> sub (e_to e) = Some d ->
  ole (Some (add d (e_w e))) (fold_left (step sub u) l acc).
Proof.
  revert acc. induction l as [|x r IH]; intros acc Hin Hf Hs; [destruct Hin|].
  cbn [fold_left]. destruct Hin as [->|Hin].
  - apply (ole_trans _ (step sub u acc e)); [|apply fold_mono].
    unfold step. rewrite Hf, Nat.eqb_refl, Hs. apply better_ge_cand.
  - apply IH; assumption.
Qed.

Lemma fold_ext_in (f g : option T -> edge -> option T) l acc :
  (forall a e, In e l -> f a e = g a e) -> fold_left f l acc = fold_left g l acc.
Proof.
  revert acc. induction l as [|x r IH]; intros acc H; cbn; [reflexivity|].
  rewrite (H acc x (or_introl eq_refl)). apply IH. intros a e He. apply H. right; exact He.
Qed.

(* DAG: a height function that strictly decreases along every edge *)
Definition ranked (E : list edge) (rank : node -> nat) : Prop :=
  forall e, In e E -> (rank (e_to e) < rank (e_from e))%nat.

(* enough fuel: the value no longer changes (this is what memoisation relies on) *)
Lemma ldist_stable E tgt rank : ranked E rank ->
  forall n u, (rank u < n)%nat -> ldist E tgt (S n) u = ldist E tgt n u.
Proof.
  intros HR. induction n as [|n IH]; intros u Hu; [lia|].
  change (ldist E tgt (S (S n)) u) with
    (if Nat.eqb u tgt then Some zero else fold_left (step (ldist E tgt (S n)) u) E None).
  change (ldist E tgt (S n) u) with
    (if Nat.eqb u tgt then Some zero else fold_left (step (ldist E tgt n) u) E None).
  destruct (Nat.eqb u tgt); [reflexivity|].
  apply fold_ext_in. intros a e He. unfold step.
  destruct (Nat.eqb (e_from e) u) eqn:Ef; [|reflexivity].
  apply Nat.eqb_eq in Ef. specialize (HR e He). rewrite Ef in HR.
  rewrite IH by lia. reflexivity.
Qed.

Lemma ldist_stable_le E tgt rank : ranked E rank ->
  forall m n u, (rank u < n)%nat -> (n <= m)%nat -> ldist E tgt m u = ldist E tgt n u.
Proof.
  intros HR m n u Hu Hle. induction Hle as [|m Hle IH]; [reflexivity|].
  rewrite (ldist_stable E tgt rank HR m u) by lia. exact IH.
Qed.

(* core inequality: along every edge that leaves a non-target node, the
   distance-to-target of the tail dominates distance of the head + edge size *)
Theorem ldist_edge E tgt rank F : ranked E rank ->
  forall e d, In e E -> (rank (e_from e) < F)%nat -> e_from e <> tgt ->
  ldist E tgt F (e_to e) = Some d ->
  ole (Some (add d (e_w e))) (ldist E tgt F (e_from e)).
Proof.
  intros HR e d He HF Hne Hd. destruct F as [|n]; [lia|].
  pose proof (HR e He) as Hr.
  assert (Hs : ldist E tgt n (e_to e) = Some d).
  { rewrite <- Hd. symmetry. apply (ldist_stable E tgt rank HR). lia. }
  change (ldist E tgt (S n) (e_from e)) with
    (if Nat.eqb (e_from e) tgt then Some zero else fold_left (step (ldist E tgt n) (e_from e)) E None).
  apply Nat.eqb_neq in Hne. rewrite Hne.
  apply fold_ge_cand; auto.
Qed.

(* reachability: add_start_nodes gives every gnode without forward edges an
   edge to 'end', so in a DAG every node reaches the target *)
Theorem ldist_reach E tgt rank : ranked E rank ->
  (forall u, u <> tgt -> (exists e, In e E /\ (e_from e = u \/ e_to e = u)) -> exists e, In e E /\ e_from e = u) ->
  forall n u, (rank u < n)%nat -> (u = tgt \/ exists e, In e E /\ (e_from e = u \/ e_to e = u)) ->
  ldist E tgt n u <> None.
Proof.
  intros HR Hout. induction n as [|n IH]; intros u Hu Hin; [lia|].
  change (ldist E tgt (S n) u) with
    (if Nat.eqb u tgt then Some zero else fold_left (step (ldist E tgt n) u) E None).
  destruct (Nat.eqb u tgt) eqn:Eu; [discriminate|].
  apply Nat.eqb_neq in Eu. destruct Hin as [Hin|Hin]; [contradiction|].
  destruct (Hout u Eu Hin) as [e [He Hf]].
  pose proof (HR e He) as Hr. rewrite Hf in Hr.
  assert (Hsub : ldist E tgt n (e_to e) <> None).
  { apply IH; [lia|]. right. exists e. auto. }
  destruct (ldist E tgt n (e_to e)) as [d|] eqn:Ed; [|congruence].
  pose proof (fold_ge_cand (ldist E tgt n) u E None e d He Hf Ed) as H.
  intros Hn. rewrite Hn in H. exact H.
Qed.

End LongestPath.

Arguments mkE {T}. Arguments e_from {T}. Arguments e_to {T}. Arguments e_w {T}.
Arguments ldist {T}. Arguments ranked {T}.

(* ---- instance over Q: the placement  pos(u) := D - dist_to_end(u) ------- *)
Local Open Scope Q_scope.

Definition ldistQ := ldist Qle_bool Qplus 0.

Lemma Qle_total a b : a <= b \/ b <= a.
Proof. destruct (Qlt_le_dec a b) as [H|H]; [left; apply Qlt_le_weak; exact H|right; exact H]. Qed.

Definition unw (o : option Q) : Q := match o with Some d => d | None => 0 end.

(* position assigned by the critical-path method: distance from 'start' side,
   D is the total extent (dist of the start node) *)
Definition lp_pos (E : list (edge Q)) (tgt : node) (F : nat) (D : Q) (u : node) : Q :=
  D - unw (ldistQ E tgt F u).

Definition cstr_of_edge (e : edge Q) : cstr := mkC (e_from e) (e_to e) (e_w e) RGe.

Theorem longest_path_feasible (E : list (edge Q)) (tgt : node) (rank : node -> nat) (F : nat) (D : Q) :
  ranked E rank ->
  (forall e, In e E -> (rank (e_from e) < F)%nat) ->
  (forall e, In e E -> e_from e <> tgt) ->
  (forall u, u <> tgt -> (exists e, In e E /\ (e_from e = u \/ e_to e = u)) -> exists e, In e E /\ e_from e = u) ->
  Forall (holds (lp_pos E tgt F D)) (map cstr_of_edge E).
Proof.
  intros HR HF Hne Hout. apply Forall_forall. intros c Hc.
  apply in_map_iff in Hc. destruct Hc as [e [<- He]].
  unfold holds, cstr_of_edge, lp_pos; cbn.
  pose proof (HR e He) as Hr. pose proof (HF e He) as Hf.
  assert (Hto : ldistQ E tgt F (e_to e) <> None).
  { apply (ldist_reach Q Qle Qle_bool Qplus 0 Qle_bool_iff Qle_refl Qle_trans Qle_total E tgt rank HR Hout).
    - lia.
    - right. exists e. auto. }
  destruct (ldistQ E tgt F (e_to e)) as [d|] eqn:Ed; [|congruence].
  pose proof (ldist_edge Q Qle Qle_bool Qplus 0 Qle_bool_iff Qle_refl Qle_trans Qle_total E tgt rank F HR e d He Hf (Hne e He) Ed) as H.
  fold ldistQ in H. destruct (ldistQ E tgt F (e_from e)) as [d'|]; cbn in H; [|contradiction].
  cbn. lra.
Qed.

(* the verified checker therefore accepts the critical-path placement *)
Corollary longest_path_check E tgt rank F D :
  ranked E rank ->
  (forall e, In e E -> (rank (e_from e) < F)%nat) ->
  (forall e, In e E -> e_from e <> tgt) ->
  (forall u, u <> tgt -> (exists e, In e E /\ (e_from e = u \/ e_to e = u)) -> exists e, In e E /\ e_from e = u) ->
  check (map cstr_of_edge E) (lp_pos E tgt F D) = true.
Proof. intros. apply checker_complete. eapply longest_path_feasible; eauto. Qed.

(* ---- instance over Z (scaled integer sizes) ------------------------------ *)
Definition ldistZ := ldist Z.leb Z.add 0%Z.

Lemma Zle_total a b : (a <= b)%Z \/ (b <= a)%Z.
Proof. lia. Qed.

Theorem longest_path_feasible_Z (E : list (edge Z)) (tgt : node) (rank : node -> nat) (F : nat) :
  ranked E rank ->
  (forall e, In e E -> (rank (e_from e) < F)%nat) ->
  (forall e, In e E -> e_from e <> tgt) ->
  (forall u, u <> tgt -> (exists e, In e E /\ (e_from e = u \/ e_to e = u)) -> exists e, In e E /\ e_from e = u) ->
  forall e, In e E -> exists a b, ldistZ E tgt F (e_from e) = Some a /\ ldistZ E tgt F (e_to e) = Some b /\
     (b + e_w e <= a)%Z.
Proof.
  intros HR HF Hne Hout e He.
  assert (Hto : ldistZ E tgt F (e_to e) <> None).
  { apply (ldist_reach Z Z.le Z.leb Z.add 0%Z Z.leb_le Z.le_refl Z.le_trans Zle_total E tgt rank HR Hout).
    - pose proof (HR e He). pose proof (HF e He). lia.
    - right. exists e. auto. }
  destruct (ldistZ E tgt F (e_to e)) as [d|] eqn:Ed; [|congruence].
  pose proof (ldist_edge Z Z.le Z.leb Z.add 0%Z Z.leb_le Z.le_refl Z.le_trans Zle_total E tgt rank F HR e d He (HF e He) (Hne e He) Ed) as H.
  fold ldistZ in H. destruct (ldistZ E tgt F (e_from e)) as [d'|]; cbn in H; [|contradiction].
  exists d', d. auto.
Qed.

(* ---- Graph.add_start_nodes: gnodes without reverse edges hang off 'start',
   gnodes without forward edges lead to 'end' (dummy edges of size 0) ------- *)
Definition has_in (E : list (edge Q)) (n : node) : bool := existsb (fun e => Nat.eqb (e_to e) n) E.
Definition has_out (E : list (edge Q)) (n : node) : bool := existsb (fun e => Nat.eqb (e_from e) n) E.
Definition with_start_end (gnodes : list node) (E : list (edge Q)) (s t : node) : list (edge Q) :=
  E ++ map (fun n => mkE s n 0) (filter (fun n => negb (has_in E n)) gnodes)
    ++ map (fun n => mkE n t 0) (filter (fun n => negb (has_out E n)) gnodes).

(* after add_start_nodes every gnode other than 'end' has a forward edge:
   the hypothesis of longest_path_feasible about out-edges holds *)
Lemma with_start_end_out gnodes E s t u :
  In u gnodes -> exists e, In e (with_start_end gnodes E s t) /\ e_from e = u.
Proof.
  intros Hu. unfold with_start_end. destruct (has_out E u) eqn:Ho.
  - unfold has_out in Ho. apply existsb_exists in Ho. destruct Ho as [e [He Hf]].
    apply Nat.eqb_eq in Hf. exists e. split; [apply in_or_app; left; exact He|exact Hf].
  - exists (mkE u t 0). split; [|reflexivity].
    apply in_or_app; right. apply in_or_app; right.
    apply in_map_iff. exists u. split; [reflexivity|].
    apply filter_In. split; [exact Hu|]. rewrite Ho. reflexivity.
Qed.

(* comparison of an option distance with what the real code stored in gnode.dist *)
Definition odist_eqb (a b : option Q) : bool :=
  match a, b with
  | Some x, Some y => Qeq_bool x y
  | None, None => true
  | _, _ => false
  end.
