(* C06 — the component namer (lcapy/componentnamer.py ComponentNamer.name, NetfileMixin._make_anon_cpt_name)
   over HISTORIES of Circuit.add / Circuit.remove.
     namer_fresh        the generated name is in neither list the namer looks at (pigeonhole: the
                        bounded loop of the model always ends on a free index, so the model's fuel is never
                        what stops it)
     namer_least        it is prefix ++ str(m) for the LEAST m >= 1 that is free
     make_anon_spec     both, for make_anon (taken = element names ++ names handed out before)
     hist_invariant     along every history of add(line)/remove(name), from any state: element names stay
                        pairwise distinct and no generated name is ever handed out twice - also after the
                        component carrying it was removed
     add_anon_appends   a line whose name is W / O / A / P or X? (no namespace) never replaces a component:
                        the element list grows by exactly the new component, at the end
     add_line_appends   the same for Circuit.add(line) itself: if the namer ran, the component either has a dot in its name
                        or was appended under a name that was neither an element name nor generated before
     remove_spec        remove(name) deletes exactly that element and keeps the namer's memory *)
From Coq Require Import List Ascii Bool Arith Lia.
From Coq Require String DecimalString DecimalNat.
From LT Require Import ParserStr ParserModel.
Import ListNotations.
Import String.StringSyntax.
Delimit Scope string_scope with string.

(* ------------------------------------------------------------ str(m) is injective -- *)
Lemma s2l_inj a b : s2l a = s2l b -> a = b.
Proof.
  unfold s2l. intros H. rewrite <- (String.string_of_list_ascii_of_string a), <- (String.string_of_list_ascii_of_string b).
  now rewrite H.
Qed.
Lemma to_uint_nonnil n : Nat.to_uint n <> Decimal.Nil.
Proof.
  intros H. pose proof (DecimalNat.Unsigned.of_to n) as E. rewrite H in E. cbn in E. subst n. vm_compute in H. discriminate.
Qed.
Lemma nat_str_inj n m : nat_str n = nat_str m -> n = m.
Proof.
  unfold nat_str. intros H. apply s2l_inj in H. apply DecimalNat.Unsigned.to_uint_inj.
  pose proof (DecimalString.NilZero.usu _ (to_uint_nonnil n)) as A.
  pose proof (DecimalString.NilZero.usu _ (to_uint_nonnil m)) as B.
  rewrite H in A. rewrite A in B. now injection B.
Qed.
Lemma str_in_iff k l : str_in k l = true <-> In k l.
Proof.
  unfold str_in. rewrite existsb_exists. split.
  - intros [x [Hx E]]. apply str_eqb_true in E. now subst.
  - intros H. exists k. split; [assumption|apply str_eqb_refl].
Qed.
Lemma str_in_false k l : str_in k l = false <-> ~ In k l.
Proof. rewrite <- str_in_iff. destruct (str_in k l); split; congruence. Qed.

(* ---------------------------------------------------------------- the namer loop -- *)
Section Namer.
Variables (prefix : str) (taken : list str).
Definition cand (m : nat) : str := prefix ++ nat_str m.
Lemma cand_inj a b : cand a = cand b -> a = b.
Proof. unfold cand. intros H. apply app_inv_head in H. now apply nat_str_inj. Qed.

Lemma namer_loop_inv : forall fuel m seen,
  NoDup seen -> incl seen taken -> (forall k, m <= k -> ~ In (cand k) seen) ->
  length taken <= length seen + fuel ->
  ~ In (namer_loop fuel m prefix taken) taken.
Proof.
  induction fuel as [|f IH]; intros m seen ND INC FR LEN; cbn [namer_loop]; fold (cand m).
  - intros Hin.
    assert (L : length (cand m :: seen) <= length taken).
    { apply NoDup_incl_length.
      - constructor; [apply FR; lia|assumption].
      - intros x [<-|Hx]; [assumption|now apply INC]. }
    cbn [length] in L. lia.
  - destruct (str_in (cand m) taken) eqn:E.
    + apply str_in_iff in E. apply (IH (S m) (cand m :: seen)).
      * constructor; [apply FR; lia|assumption].
      * intros x [<-|Hx]; [assumption|now apply INC].
      * intros k Hk [Hc|Hc]; [apply cand_inj in Hc; lia|]. apply (FR k); [lia|assumption].
      * cbn [length]. lia.
    + now apply str_in_false in E.
Qed.
(* THEOREM namer_fresh *)
Theorem namer_fresh : ~ In (namer_loop (length taken) 1 prefix taken) taken.
Proof.
  apply (namer_loop_inv (length taken) 1 []); [constructor|intros x []|intros k _ []|cbn; lia].
Qed.
Lemma namer_loop_least : forall fuel m, exists j,
  namer_loop fuel m prefix taken = cand (m + j) /\ forall i, i < j -> In (cand (m + i)) taken.
Proof.
  induction fuel as [|f IH]; intros m; cbn [namer_loop]; fold (cand m).
  - exists 0. rewrite Nat.add_0_r. split; [reflexivity|intros i Hi; lia].
  - destruct (str_in (cand m) taken) eqn:E.
    + destruct (IH (S m)) as [j [Hj Hl]]. exists (S j). split.
      * rewrite Hj. f_equal. lia.
      * intros [|i] Hi; [rewrite Nat.add_0_r; now apply str_in_iff|].
        replace (m + S i) with (S m + i) by lia. apply Hl. lia.
    + exists 0. rewrite Nat.add_0_r. split; [reflexivity|intros i Hi; lia].
Qed.
(* THEOREM namer_least: the result is candidate number m (>= 1), every smaller candidate is taken, m is free *)
Theorem namer_least : exists m, 1 <= m /\
  namer_loop (length taken) 1 prefix taken = cand m
  /\ (forall i, 1 <= i < m -> In (cand i) taken) /\ ~ In (cand m) taken.
Proof.
  destruct (namer_loop_least (length taken) 1) as [j [Hj Hl]]. exists (1 + j). split; [lia|]. split; [assumption|]. split.
  - intros i Hi. replace i with (1 + (i - 1)) by lia. apply Hl. lia.
  - rewrite <- Hj. apply namer_fresh.
Qed.
End Namer.

(* ----------------------------------------------------------------- make_anon -- *)
Definition taken_of (st : cstate) : list str := map fst (elements st) ++ gen_names st.
Definition S_anon := s2l "anon"%string.
(* THEOREM make_anon_spec *)
Theorem make_anon_spec st ty : exists m, 1 <= m /\
  fst (make_anon st ty) = (ty ++ S_anon) ++ nat_str m
  /\ (forall i, 1 <= i < m -> In ((ty ++ S_anon) ++ nat_str i) (taken_of st))
  /\ ~ In (fst (make_anon st ty)) (map fst (elements st))
  /\ ~ In (fst (make_anon st ty)) (gen_names st)
  /\ elements (snd (make_anon st ty)) = elements st
  /\ gen_names (snd (make_anon st ty)) = gen_names st ++ [fst (make_anon st ty)].
Proof.
  unfold make_anon. cbn [fst snd elements gen_names]. fold (taken_of st). fold S_anon.
  destruct (namer_least (ty ++ S_anon) (taken_of st)) as [m [H1 [E [L F]]]]. exists m.
  unfold cand in *. rewrite E.
  split; [assumption|]. split; [reflexivity|]. split; [exact L|].
  split; [intros H; apply F; unfold taken_of; apply in_or_app; now left|].
  split; [intros H; apply F; unfold taken_of; apply in_or_app; now right|].
  split; reflexivity.
Qed.

(* ------------------------------------------------------- add / remove histories -- *)
Inductive hop := HAdd (line : str) | HRemove (name : str).
Inductive herr := HE (e : err) | HUnknownName.
(* Netlist.remove(name): `if name not in self._elements: raise ValueError`; `self._elements.pop(name)`;
   the namer (self.namer.names) is not told *)
Definition remove_elt (st : cstate) (name : str) : option cstate :=
  if str_in name (map fst (elements st))
  then Some {| elements := filter (fun kv => negb (str_eqb name (fst kv))) (elements st); gen_names := gen_names st |}
  else None.
Definition hstep (g : grammar) (st : cstate) (op : hop) : cstate + herr :=
  match op with
  | HAdd l => match add_line g st l with Ok st' => inl st' | Err e => inr (HE e) end
  | HRemove n => match remove_elt st n with Some st' => inl st' | None => inr HUnknownName end
  end.
Fixpoint run_hist (g : grammar) (st : cstate) (ops : list hop) : cstate + herr :=
  match ops with
  | [] => inl st
  | op :: r => match hstep g st op with inl st' => run_hist g st' r | inr e => inr e end
  end.

Definition names_inv (st : cstate) : Prop := NoDup (map fst (elements st)) /\ NoDup (gen_names st).

Lemma assoc_set_keys {A} k (v : A) d :
  map fst (assoc_set k v d) = if str_in k (map fst d) then map fst d else map fst d ++ [k].
Proof.
  induction d as [|[k' v'] r IH]; cbn [assoc_set map fst str_in existsb]; [reflexivity|].
  destruct (str_eqb k k') eqn:E; cbn [orb map fst].
  - apply str_eqb_true in E. now subst.
  - rewrite IH. unfold str_in. destruct (existsb (str_eqb k) (map fst r)); reflexivity.
Qed.
Lemma assoc_set_fresh {A} k (v : A) d : ~ In k (map fst d) -> assoc_set k v d = d ++ [(k, v)].
Proof.
  induction d as [|[k' v'] r IH]; cbn [assoc_set map fst In app]; [reflexivity|]. intros H.
  rewrite str_eqb_neq; [|intros ->; apply H; now left]. f_equal. apply IH. intros Hi. apply H. now right.
Qed.
Lemma NoDup_snoc {A} (l : list A) x : NoDup l -> ~ In x l -> NoDup (l ++ [x]).
Proof.
  intros ND NI. apply NoDup_rev in ND. rewrite <- (rev_involutive (l ++ [x])). apply NoDup_rev.
  rewrite rev_app_distr. cbn. constructor; [rewrite <- in_rev; assumption|assumption].
Qed.
Lemma assoc_set_nodup {A} k (v : A) d : NoDup (map fst d) -> NoDup (map fst (assoc_set k v d)).
Proof.
  intros ND. rewrite assoc_set_keys. destruct (str_in k (map fst d)) eqn:E; [assumption|].
  apply NoDup_snoc; [assumption|now apply str_in_false].
Qed.

(* what parse does to the namer state: nothing, or exactly one make_anon whose result is the
   tail of the component's name *)
Lemma parse_state g st ns s c st' : parse g st ns s = Ok (c, st') ->
  st' = st \/ exists ty q, st' = snd (make_anon st ty) /\ c_name c = q ++ fst (make_anon st ty).
Proof.
  unfold parse. destruct (is_directive g (strip s)).
  - destruct (make_anon st S_XX) as [relname st1] eqn:EM. intros H. right. exists S_XX, ns. rewrite EM. cbn [fst snd].
    destruct (opts_add [] _) as [o|e]; cbn [bind] in H; [|discriminate]. injection H as <- <-. now split.
  - destruct (split_first SEMI (strip s)) as [main rest].
    destruct (split (g_delims g) main) as [[|name fields]|]; try discriminate.
    unfold parse_cpt. destruct (existsb is_nil (init_strs (split_on DOT name))); [discriminate|].
    destruct (match_type g (last_str (split_on DOT name))) as [[ty id]|]; [|discriminate].
    destruct (assoc_get ty (g_dict g)) as [[|r0 rs]|]; try discriminate.
    destruct (select (r0 :: rs) fields r0 None) as [[r kw] leak].
    destruct (is_nil kw && match r_pos r with Some p => p <? length fields | None => false end); [discriminate|].
    destruct (is_nil id && str_in ty anon_types || str_eqb id [QM]) eqn:EA.
    + destruct (make_anon st ty) as [relname1 st1] eqn:EM.
      destruct (process r fields _ ns relname1) as [[n a]|e]; cbn [bind fst snd]; [|discriminate].
      destruct (opts_add [] _) as [o|e]; cbn [bind]; [|discriminate].
      intros H. injection H as <- <-. right. exists ty. eexists. rewrite EM. cbn [fst snd c_name]. split; [reflexivity|].
      rewrite app_assoc. reflexivity.
    + destruct (process r fields _ ns _) as [[n a]|e]; cbn [bind fst snd]; [|discriminate].
      destruct (opts_add [] _) as [o|e]; cbn [bind]; [|discriminate].
      intros H. injection H as <- <-. now left.
Qed.

Lemma add_line_inv g st l st' : names_inv st -> add_line g st l = Ok st' -> names_inv st'.
Proof.
  intros [NE NG]. unfold add_line. set (s := if starts_with S_dots (strip l) then _ else _).
  destruct (starts_with S_include s); [discriminate|].
  destruct (parse g st [] s) as [[c st1]|e] eqn:EP; cbn [bind]; [|discriminate].
  intros H. injection H as <-. unfold names_inv. cbn [elements gen_names].
  apply parse_state in EP as [->|[ty [q [-> _]]]].
  - split; [now apply assoc_set_nodup|assumption].
  - destruct (make_anon_spec st ty) as [m [_ [_ [_ [_ [FG [EE EG]]]]]]]. rewrite EE, EG. split.
    + now apply assoc_set_nodup.
    + now apply NoDup_snoc.
Qed.
Lemma remove_elt_inv st n st' : names_inv st -> remove_elt st n = Some st' -> names_inv st'.
Proof.
  intros [NE NG]. unfold remove_elt. destruct (str_in n (map fst (elements st))); [|discriminate].
  intros H. injection H as <-. split; cbn [elements gen_names]; [|assumption].
  induction (elements st) as [|[k v] r IH]; cbn [filter map fst]; [constructor|].
  cbn [map fst] in NE. inversion NE as [|? ? NI ND]; subst.
  destruct (negb (str_eqb n k)); cbn [map fst]; [|now apply IH].
  constructor; [|now apply IH]. intros Hin. apply NI. clear - Hin.
  induction r as [|[k' v'] r IH]; cbn [filter map fst] in *; [contradiction|].
  destruct (negb (str_eqb n k')); cbn [map fst In] in *; [destruct Hin; [now left|right; now apply IH]|right; now apply IH].
Qed.
(* THEOREM hist_invariant *)
Theorem hist_invariant g : forall ops st st', names_inv st -> run_hist g st ops = inl st' -> names_inv st'.
Proof.
  induction ops as [|op r IH]; intros st st' I; cbn [run_hist].
  - intros H. injection H as <-. assumption.
  - destruct (hstep g st op) as [st1|e] eqn:ES; [|discriminate]. apply IH.
    destruct op as [l|n]; cbn [hstep] in ES.
    + destruct (add_line g st l) as [st2|e] eqn:EA; [|discriminate]. injection ES as <-. eapply add_line_inv; eassumption.
    + destruct (remove_elt st n) as [st2|] eqn:ER; [|discriminate]. injection ES as <-. eapply remove_elt_inv; eassumption.
Qed.
Lemma names_inv_st0 : names_inv st0.
Proof. split; constructor. Qed.

(* the namer never forgets: names handed out stay in its memory along every history *)
Lemma add_line_gen g st l st' : add_line g st l = Ok st' -> exists more, gen_names st' = gen_names st ++ more.
Proof.
  unfold add_line. set (s := if starts_with S_dots (strip l) then _ else _).
  destruct (starts_with S_include s); [discriminate|].
  destruct (parse g st [] s) as [[c st1]|e] eqn:EP; cbn [bind]; [|discriminate].
  intros H. injection H as <-. cbn [gen_names]. apply parse_state in EP as [->|[ty [q [-> _]]]].
  - exists []. now rewrite app_nil_r.
  - unfold make_anon. cbn [snd gen_names]. eexists. reflexivity.
Qed.
(* THEOREM hist_memory *)
Theorem hist_memory g : forall ops st st', run_hist g st ops = inl st' -> exists more, gen_names st' = gen_names st ++ more.
Proof.
  induction ops as [|op r IH]; intros st st'; cbn [run_hist].
  - intros H. injection H as <-. exists []. now rewrite app_nil_r.
  - destruct (hstep g st op) as [st1|e] eqn:ES; [|discriminate]. intros H. apply IH in H as [m2 E2].
    assert (exists m1, gen_names st1 = gen_names st ++ m1) as [m1 E1].
    { destruct op as [l|n]; cbn [hstep] in ES.
      - destruct (add_line g st l) as [st2|e] eqn:EA; [|discriminate]. injection ES as <-. eapply add_line_gen; eassumption.
      - unfold remove_elt in ES. destruct (str_in n (map fst (elements st))); [|discriminate]. injection ES as <-.
        exists []. cbn [gen_names]. now rewrite app_nil_r. }
    exists (m1 ++ m2). now rewrite E2, E1, app_assoc.
Qed.

(* THEOREM add_anon_appends: when the line makes the namer run and the component carries no namespace,
   the new component is appended; nothing is replaced *)
Theorem add_anon_appends g st s c st1 ty :
  parse g st [] s = Ok (c, st1) -> st1 = snd (make_anon st ty) -> c_name c = fst (make_anon st ty) ->
  assoc_set (c_name c) c (elements st1) = elements st ++ [(c_name c, c)].
Proof.
  intros _ -> E. destruct (make_anon_spec st ty) as [m [_ [_ [_ [FE [_ [EE _]]]]]]]. rewrite EE.
  apply assoc_set_fresh. now rewrite E.
Qed.
(* the same at the level of Circuit.add: whenever add(line) makes the namer run, either the resulting component
   carries a namespace (a dot in its name) or it was appended under a name that is new - nothing was replaced *)
Lemma parse_state_name g st s c st' : parse g st [] s = Ok (c, st') ->
  st' = st \/ exists ty, st' = snd (make_anon st ty) /\ (c_name c = fst (make_anon st ty) \/ In DOT (c_name c)).
Proof.
  unfold parse. destruct (is_directive g (strip s)).
  - destruct (make_anon st S_XX) as [relname st1] eqn:EM. intros H. right. exists S_XX. rewrite EM. cbn [fst snd].
    destruct (opts_add [] _) as [o|e]; cbn [bind] in H; [|discriminate]. injection H as <- <-. split; [reflexivity|now left].
  - destruct (split_first SEMI (strip s)) as [main rest].
    destruct (split (g_delims g) main) as [[|name fields]|]; try discriminate.
    unfold parse_cpt. destruct (existsb is_nil (init_strs (split_on DOT name))); [discriminate|].
    destruct (match_type g (last_str (split_on DOT name))) as [[ty id]|]; [|discriminate].
    destruct (assoc_get ty (g_dict g)) as [[|r0 rs]|]; try discriminate.
    destruct (select (r0 :: rs) fields r0 None) as [[r kw] leak].
    destruct (is_nil kw && match r_pos r with Some p => p <? length fields | None => false end); [discriminate|].
    destruct (is_nil id && str_in ty anon_types || str_eqb id [QM]) eqn:EA.
    + destruct (make_anon st ty) as [relname1 st1] eqn:EM.
      destruct (process r fields _ [] relname1) as [[n a]|e]; cbn [bind fst snd]; [|discriminate].
      destruct (opts_add [] _) as [o|e]; cbn [bind]; [|discriminate].
      intros H. injection H as <- <-. right. exists ty. rewrite EM. cbn [fst snd c_name app]. split; [reflexivity|].
      destruct (1 <? length (split_on DOT name)); [right|left; reflexivity].
      apply in_or_app. left. apply in_or_app. right. now left.
    + destruct (process r fields _ [] _) as [[n a]|e]; cbn [bind fst snd]; [|discriminate].
      destruct (opts_add [] _) as [o|e]; cbn [bind]; [|discriminate].
      intros H. injection H as <- <-. now left.
Qed.
(* THEOREM add_line_appends *)
Theorem add_line_appends g st l st' : add_line g st l = Ok st' ->
  exists c, In (c_name c, c) (elements st')
    /\ (gen_names st' = gen_names st \/ In DOT (c_name c)
        \/ (elements st' = elements st ++ [(c_name c, c)] /\ ~ In (c_name c) (map fst (elements st)) /\ ~ In (c_name c) (gen_names st))).
Proof.
  unfold add_line. set (s := if starts_with S_dots (strip l) then _ else _).
  destruct (starts_with S_include s); [discriminate|].
  destruct (parse g st [] s) as [[c st1]|e] eqn:EP; cbn [bind]; [|discriminate].
  intros H. injection H as <-. cbn [elements gen_names]. exists c. split.
  - clear EP. induction (elements st1) as [|[k v] r IH]; cbn [assoc_set]; [now left|].
    destruct (str_eqb (c_name c) k); [now left|right; exact IH].
  - apply parse_state_name in EP as [->|[ty [-> [E|E]]]]; [now left| |right; now left].
    right. right. destruct (make_anon_spec st ty) as [m [_ [_ [_ [FE [FG [EE _]]]]]]]. rewrite EE, E.
    split; [|split; assumption]. apply assoc_set_fresh. assumption.
Qed.
(* THEOREM remove_spec *)
Theorem remove_spec st n st' : remove_elt st n = Some st' ->
  In n (map fst (elements st)) /\ ~ In n (map fst (elements st')) /\ gen_names st' = gen_names st
  /\ forall k v, k <> n -> (In (k, v) (elements st') <-> In (k, v) (elements st)).
Proof.
  unfold remove_elt. destruct (str_in n (map fst (elements st))) eqn:E; [|discriminate]. intros H. injection H as <-.
  cbn [elements gen_names]. split; [now apply str_in_iff|]. split; [|split; [reflexivity|]].
  - intros Hin. apply in_map_iff in Hin as [[k v] [<- Hf]]. apply filter_In in Hf as [_ Hf]. cbn [fst] in Hf.
    now rewrite str_eqb_refl in Hf.
  - intros k v Hk. rewrite filter_In. cbn [fst]. split; [now intros [H _]|]. intros H. split; [assumption|].
    rewrite str_eqb_neq; [reflexivity|congruence].
Qed.

(* ------------------------------------------- helpers for the generated cases_*.v -- *)
Definition obs_hist (g : grammar) (ops : list hop) (exp : list cpt) (printed : list str) (text : str) (gen : list str) : bool :=
  match run_hist g st0 ops with
  | inl st => list_eqb cpt_eqb (map snd (elements st)) exp
              && list_eqb str_eqb (map (fun kv => print_cpt (g_delims g) (snd kv)) (elements st)) printed
              && str_eqb (print_netlist (g_delims g) st) text
              && list_eqb str_eqb (gen_names st) gen
  | inr _ => false
  end.
Definition herr_eqb (a b : herr) : bool :=
  match a, b with HE x, HE y => err_eqb x y | HUnknownName, HUnknownName => true | _, _ => false end.
Definition obs_hist_err (g : grammar) (ops : list hop) (k : nat) (e : herr) : bool :=
  match run_hist g st0 (firstn k ops), run_hist g st0 (firstn (S k) ops) with
  | inl _, inr e' => herr_eqb e e'
  | _, _ => false
  end.
