(* ILTResidue — the substitution ("cover-up") method of Ratfun._find_residues_sub
   (lcapy/ratfun.py), as a model over any field record, and its correctness for
   simple and double poles.   (property C10; general multiplicity is covered per
   case by the verified certificate checker PolyQ.pf_check — "residues_partial")

   Entries: for each pole (index k, value p, multiplicity n): orders n, n-1, .., 1.
     top order (M = O):   expr = B / Π_{j <> i, sel} (x - p_j),  r = expr(p)
     lower orders:        expr = d expr / dx,   r = expr(p) / (M - O)!
   [sel same oi oj] is the translated selection test `F[i] is not F[j] or O[j] > O[i]`.

   residue_sub_simple : for A = (x - p) C, C(p) <> 0, r = (B/C)(p):
                        (x - p) | B - r C          (B/A - r/(x-p) has no pole at p)
   residue_sub_double : for A = (x - p)^2 C, r2 = (B/C)(p), r1 = (B/C)'(p)/1!:
                        (x - p)^2 | B - r2 C - r1 (x - p) C
   residue_k_general  : for A = (x - p)^n C, EVERY n: B = C * Sigma_{k<n} c_k (x-p)^k + (x-p)^n W with
                        c = jet_residues (division of the Taylor-shifted polynomials in ascending
                        powers), and residue_k_general_value: B/A = Sigma c_k/(x-p)^(n-k) + W/C
   with the value-level corollaries.  taylor2_spec is the second-order Taylor
   expansion of a polynomial with an explicit remainder polynomial.  Axiom-free. *)
Require Import LT.FieldSec LT.PolyQ LT.ExpPoly.
Local Open Scope F_scope.

Section Res.
Variable K : fld.
Add Field KFres : (fth K).
Notation poly := (list K).

(* ---- the model ------------------------------------------------------------------ *)
Definition rentry := (nat * K * nat * nat)%type.          (* (pole index, p, O, M) *)
Fixpoint pole_entries (k : nat) (poles : list (K * nat)) : list rentry :=
  match poles with [] => []
  | (p, n) :: r => map (fun m => (k, p, (n - m)%nat, n)) (seq 0 n) ++ pole_entries (S k) r end.
Definition rdiff (f : poly * poly) : poly * poly :=
  (psub (pmul (pderiv (fst f)) (snd f)) (pmul (fst f) (pderiv (snd f))), pmul (snd f) (snd f)).
Definition cover_denom (sel : bool -> nat -> nat -> bool) (i : nat) (ei : rentry) (es : list rentry) : poly :=
  fold_right (fun je acc => match je, ei with (jdx, (kj, pj, oj, _)), (ki, _, oi, _) =>
      if Nat.eqb jdx i then acc else if sel (Nat.eqb ki kj) oi oj then pmul (plin pj) acc else acc end)
    [1] (combine (seq 0 (length es)) es).
Fixpoint residues_go_d (sel : bool -> nat -> nat -> bool) (dv : nat -> nat -> K) (Bn : poly) (all : list rentry) (i : nat) (es : list rentry)
    (expr : poly * poly) : list K :=
  match es with [] => []
  | e :: es' => match e with (k, p, o, M) =>
      let expr' := if Nat.eqb M o then (Bn, cover_denom sel i e all) else rdiff expr in
      (if Nat.eqb M o then rat_eval expr' p else rat_eval expr' p / dv M o) :: residues_go_d sel dv Bn all (S i) es' expr' end
  end.
(* [dv M O] is the translated divisor of the lower-order residues, sym.factorial(M[i] - O[i]) *)
Definition residues_sub_d (sel : bool -> nat -> nat -> bool) (dv : nat -> nat -> K) (poles : list (K * nat)) (Bn : poly) : list K :=
  let es := pole_entries O poles in residues_go_d sel dv Bn es O es ([], [1]).
Definition fact_div (M o : nat) : K := fnat (natfact (M - o)).
Definition residues_go sel := residues_go_d sel fact_div.
Definition residues_sub sel := residues_sub_d sel fact_div.


(* ---- residues of every order: Taylor jets -------------------------------------------------
   For A = (x - p)^n C with C(p) <> 0 the n residues at p are the first n coefficients
   c_0 .. c_{n-1} of the power series of B/C in (x - p)  (c_k = (B/C)^(k)(p)/k!), obtained
   by division in ascending powers of the shifted polynomials; c_k belongs to 1/(x-p)^(n-k). *)
(* P(y + p) as a polynomial in y *)
Fixpoint ptaylor (p : K) (P : poly) : poly :=
  match P with [] => [] | a :: q => padd [a] (pmul [p; 1] (ptaylor p q)) end.
Lemma ptaylor_spec (p : K) (P : poly) (y : K) : peval (ptaylor p P) y = peval P (y + p).
Proof. induction P as [|a q IH]; cbn [ptaylor peval]; [reflexivity|].
  rewrite peval_padd, peval_pmul, IH. cbn [peval]. ring. Qed.

(* division in ascending powers: n steps of  c = R(0)/d(0), R := (R - c d)/y *)
Fixpoint asc_div (n : nat) (R d : poly) : list K * poly :=
  match n with
  | O => ([], R)
  | S m => let c := hd 0 R / hd 0 d in
           let (cs, Rn) := asc_div m (tl (psub R (pscale c d))) d in (c :: cs, Rn)
  end.
Lemma peval_hd_tl (l : poly) (y : K) : peval l y = hd 0 l + y * peval (tl l) y.
Proof. destruct l; cbn; ring. Qed.
Lemma hd_psub (a b : poly) : hd 0 (psub a b) = hd 0 a - hd 0 b.
Proof. unfold psub, popp. destruct a, b; cbn; ring. Qed.
Lemma hd_pscale c (a : poly) : hd 0 (pscale c a) = c * hd 0 a.
Proof. destruct a; cbn; ring. Qed.
Theorem asc_div_spec n : forall (R d : poly), hd 0 d <> 0 ->
  forall y, peval R y = peval d y * peval (fst (asc_div n R d)) y + fpow y n * peval (snd (asc_div n R d)) y.
Proof. induction n as [|n IH]; intros R d Hd y; cbn [asc_div fst snd fpow peval]; [ring|].
  set (c := hd 0 R / hd 0 d).
  specialize (IH (tl (psub R (pscale c d))) d Hd y).
  destruct (asc_div n (tl (psub R (pscale c d))) d) as [cs Rn]. cbn [fst snd peval] in *.
  assert (E : peval (psub R (pscale c d)) y = y * peval (tl (psub R (pscale c d))) y).
  { rewrite (peval_hd_tl (psub R (pscale c d)) y), hd_psub, hd_pscale. unfold c. field_simplify_eq; [ring | exact Hd]. }
  rewrite peval_psub, peval_pscale in E.
  transitivity (c * peval d y + (peval R y - c * peval d y)); [ring|]. rewrite E, IH. ring. Qed.

Lemma peval_at0 (l : poly) : peval l 0 = hd 0 l.
Proof. destruct l; cbn; ring. Qed.
Definition jet_residues (p : K) (n : nat) (Bp C : poly) : list K := fst (asc_div n (ptaylor p Bp) (ptaylor p C)).
Definition jet_rest (p : K) (n : nat) (Bp C : poly) : poly := snd (asc_div n (ptaylor p Bp) (ptaylor p C)).
(* B = C * (c_0 + c_1 (x-p) + .. + c_{n-1} (x-p)^(n-1)) + (x-p)^n W : every n *)
Theorem residue_k_general (Bp C : poly) (p : K) (n : nat) : peval C p <> 0 ->
  forall x, peval Bp x = peval C x * peval (jet_residues p n Bp C) (x - p) + fpow (x - p) n * peval (jet_rest p n Bp C) (x - p).
Proof. intros HC x. unfold jet_residues, jet_rest.
  assert (Hd : hd 0 (ptaylor p C) <> 0).
  { rewrite <- peval_at0, ptaylor_spec. replace (0 + p) with p by ring. exact HC. }
  pose proof (asc_div_spec n (ptaylor p Bp) (ptaylor p C) Hd (x - p)) as E.
  rewrite !ptaylor_spec in E. replace (x - p + p) with x in E by ring. exact E. Qed.
(* the coefficient list as partial-fraction terms c_k/(x-p)^(m-k) *)
Fixpoint jet_pf (p : K) (m : nat) (cs : list K) : list (pfterm K) :=
  match cs with [] => [] | c :: cs' => (c, p, m) :: jet_pf p (pred m) cs' end.
Lemma jet_pf_val (p : K) : forall (cs : list K) (m : nat) (x : K), x - p <> 0 -> (length cs <= m)%nat ->
  peval cs (x - p) / fpow (x - p) m = pf_val (jet_pf p m cs) x.
Proof. induction cs as [|c cs IH]; intros m x Hx Hl; cbn [jet_pf pf_val peval].
  - pose proof (fpow_nz K _ m Hx). field. assumption.
  - cbn [length] in Hl. destruct m as [|m]; [lia|]. cbn [Nat.pred]. rewrite <- (IH m x Hx) by lia.
    pose proof (fpow_nz K _ m Hx). cbn [fpow]. field. split; assumption. Qed.
Lemma asc_div_length n : forall R d : poly, length (fst (asc_div n R d)) = n.
Proof. induction n as [|n IH]; intros R d; cbn [asc_div fst length]; [reflexivity|].
  specialize (IH (tl (psub R (pscale (hd 0 R / hd 0 d) d))) d).
  destruct (asc_div n (tl (psub R (pscale (hd 0 R / hd 0 d) d))) d) as [cs Rn]. cbn [fst length] in *. rewrite IH. reflexivity. Qed.
(* value form: B/((x-p)^n C) = Sigma_k c_k/(x-p)^(n-k) + W/C, for EVERY multiplicity n *)
Theorem residue_k_general_value (Bp C : poly) (p : K) (n : nat) : peval C p <> 0 ->
  forall x, x - p <> 0 -> peval C x <> 0 ->
    peval Bp x / (fpow (x - p) n * peval C x) =
      pf_val (jet_pf p n (jet_residues p n Bp C)) x + peval (jet_rest p n Bp C) (x - p) / peval C x.
Proof. intros HC x Hx HCx. rewrite <- (jet_pf_val p _ n x Hx) by (unfold jet_residues; rewrite asc_div_length; apply Nat.le_refl).
  rewrite (residue_k_general Bp C p n HC x). pose proof (fpow_nz K _ n Hx). field. split; assumption. Qed.
(* the residues of all poles by jets: cofactor C_k = Bn-independent product of the other factors *)
Fixpoint others_prod (k : nat) (i : nat) (poles : list (K * nat)) : poly :=
  match poles with [] => [1]
  | (q, m) :: r => if Nat.eqb i k then others_prod k (S i) r else pmul (plinpow q m) (others_prod k (S i) r) end.
Fixpoint residues_jet_go (all : list (K * nat)) (k : nat) (poles : list (K * nat)) (Bn : poly) : list K :=
  match poles with [] => []
  | (p, n) :: r => jet_residues p n Bn (others_prod k O all) ++ residues_jet_go all (S k) r Bn end.
Definition residues_jet (poles : list (K * nat)) (Bn : poly) : list K := residues_jet_go poles O poles Bn.

(* ---- second-order Taylor expansion with explicit remainder ------------------------- *)
Fixpoint taylor2 (p : K) (N : poly) : poly :=
  match N with [] => [] | a :: q => padd [peval (pderiv q) p] (0 :: taylor2 p q) end.
Lemma taylor2_spec (p : K) (N : poly) (x : K) :
  peval N x = peval N p + (x - p) * peval (pderiv N) p + (x - p) * (x - p) * peval (taylor2 p N) x.
Proof. induction N as [|a q IH]; cbn [taylor2 pderiv peval]; [ring|].
  rewrite !peval_padd. cbn [peval]. rewrite IH at 1. ring. Qed.
Theorem double_root_divides (p : K) (N : poly) : peval N p = 0 -> peval (pderiv N) p = 0 -> pdivides (plinpow p 2) N.
Proof. intros H0 H1. exists (taylor2 p N). intros x. rewrite (taylor2_spec p N x), H0, H1, peval_plinpow. cbn [fpow]. ring. Qed.

(* ---- simple pole --------------------------------------------------------------------- *)
Theorem residue_sub_simple (Bp C : poly) (p : K) : peval C p <> 0 ->
  pdivides (plin p) (psub Bp (pscale (rat_eval (Bp, C) p) C)).
Proof. intros HC. apply root_factor. rewrite peval_psub, peval_pscale. unfold rat_eval. cbn [fst snd]. field. exact HC. Qed.
Corollary residue_sub_simple_value (Bp C : poly) (p : K) : peval C p <> 0 ->
  exists W, forall x, x - p <> 0 -> peval C x <> 0 ->
    peval Bp x / ((x - p) * peval C x) = rat_eval (Bp, C) p / (x - p) + peval W x / peval C x.
Proof. intros HC. destruct (residue_sub_simple Bp C p HC) as [W HW]. exists W. intros x Hx HCx.
  pose proof (HW x) as E. rewrite peval_psub, peval_pscale, peval_plin in E.
  assert (E2 : peval Bp x = rat_eval (Bp, C) p * peval C x + peval W x * (x - p)).
  { transitivity (peval Bp x - rat_eval (Bp, C) p * peval C x + rat_eval (Bp, C) p * peval C x); [ring | rewrite E; ring]. }
  rewrite E2. field. split; assumption. Qed.

(* ---- double pole ------------------------------------------------------------------------ *)
Lemma fnat_fact1 : fnat (K:=K) (natfact 1) = 1.
Proof. cbn. ring. Qed.
Theorem residue_sub_double (Bp C : poly) (p : K) : peval C p <> 0 ->
  let r2 := rat_eval (Bp, C) p in
  let r1 := rat_eval (rdiff (Bp, C)) p / fnat (natfact 1) in
  pdivides (plinpow p 2) (psub (psub Bp (pscale r2 C)) (pscale r1 (pmul (plin p) C))).
Proof. intros HC r2 r1. apply double_root_divides.
  - rewrite !peval_psub, !peval_pscale, peval_pmul, peval_plin. unfold r2, rat_eval. cbn [fst snd]. field. exact HC.
  - unfold psub. rewrite !pderiv_padd.
    assert (Eo : forall (q : poly) (x : K), peval (pderiv (popp q)) x = - peval (pderiv q) x).
    { intros q x. assert (Hq : popp q = pscale (fopp (1 : K)) q) by (unfold popp, pscale; apply map_ext; intros; ring).
      rewrite Hq, pderiv_pscale. ring. }
    rewrite !Eo, !pderiv_pscale, pderiv_pmul, pderiv_plin, peval_plin.
    unfold r1, r2, rdiff, rat_eval. cbn [fst snd]. rewrite fnat_fact1, peval_psub, !peval_pmul.
    field. split; [exact HC | apply one_nz]. Qed.
Corollary residue_sub_double_value (Bp C : poly) (p : K) : peval C p <> 0 ->
  exists W, forall x, x - p <> 0 -> peval C x <> 0 ->
    peval Bp x / (fpow (x - p) 2 * peval C x) =
      rat_eval (Bp, C) p / fpow (x - p) 2 + (rat_eval (rdiff (Bp, C)) p / fnat (natfact 1)) / (x - p) + peval W x / peval C x.
Proof. intros HC. destruct (residue_sub_double Bp C p HC) as [W HW]. exists W. intros x Hx HCx.
  pose proof (HW x) as E. rewrite !peval_psub, !peval_pscale, peval_pmul, peval_plin, peval_plinpow in E.
  set (r2 := rat_eval (Bp, C) p) in *. set (r1 := rat_eval (rdiff (Bp, C)) p / fnat (natfact 1)) in *.
  assert (E2 : peval Bp x = r2 * peval C x + r1 * ((x - p) * peval C x) + peval W x * fpow (x - p) 2).
  { transitivity (peval Bp x - r2 * peval C x - r1 * ((x - p) * peval C x) + r2 * peval C x + r1 * ((x - p) * peval C x)); [ring | rewrite E; ring]. }
  rewrite E2. cbn [fpow]. field. split; assumption. Qed.
End Res.

Arguments residues_go_d {K}. Arguments residues_sub_d {K}. Arguments fact_div {K}. Arguments ptaylor {K}. Arguments asc_div {K}.
Arguments jet_residues {K}. Arguments jet_rest {K}. Arguments jet_pf {K}. Arguments others_prod {K}. Arguments residues_jet {K}.
Arguments pole_entries {K}. Arguments rdiff {K}. Arguments cover_denom {K}. Arguments residues_go {K}. Arguments residues_sub {K}. Arguments taylor2 {K}.
