(* ILTResidue — the substitution ("cover-up") method of Ratfun._find_residues_sub
   (lcapy/ratfun.py), as a model over any field record, and its correctness for
   simple and double poles.   (property C10; general multiplicity is covered per
   case by the verified certificate checker PolyQ.pf_check — "residues_partial")

   Entries: for each pole (index k, value p, multiplicity n): orders n, n-1, .., 1.
     top order (M = O):   expr = B / Π_{j <> i, sel} (x - p_j),  r = expr(p)
     lower orders:        expr = d expr / dx,   r = expr(p) / (M - O)!
   [sel same oi oj] is the translated selection test `F[i] is not F[j] or O[j] > O[i]`.

   residue_sub_simple : for A = (x - p) C, C(p) <> 0, r = (B/C)(p):
                        (x - p) | B - r C          (B/A - r/(x-p) has no pole at p)
   residue_sub_double : for A = (x - p)^2 C, r2 = (B/C)(p), r1 = (B/C)'(p)/1!:
                        (x - p)^2 | B - r2 C - r1 (x - p) C
   with the value-level corollaries.  taylor2_spec is the second-order Taylor
   expansion of a polynomial with an explicit remainder polynomial.  Axiom-free. *)
Require Import LT.FieldSec LT.PolyQ LT.ExpPoly.
Local Open Scope F_scope.

Section Res.
Variable K : fld.
Add Field KFres : (fth K).
Notation poly := (list K).

(* ---- the model ------------------------------------------------------------------ *)
Definition rentry := (nat * K * nat * nat)%type.          (* (pole index, p, O, M) *)
Fixpoint pole_entries (k : nat) (poles : list (K * nat)) : list rentry :=
  match poles with [] => []
  | (p, n) :: r => map (fun m => (k, p, (n - m)%nat, n)) (seq 0 n) ++ pole_entries (S k) r end.
Definition rdiff (f : poly * poly) : poly * poly :=
  (psub (pmul (pderiv (fst f)) (snd f)) (pmul (fst f) (pderiv (snd f))), pmul (snd f) (snd f)).
Definition cover_denom (sel : bool -> nat -> nat -> bool) (i : nat) (ei : rentry) (es : list rentry) : poly :=
  fold_right (fun je acc => match je, ei with (jdx, (kj, pj, oj, _)), (ki, _, oi, _) =>
      if Nat.eqb jdx i then acc else if sel (Nat.eqb ki kj) oi oj then pmul (plin pj) acc else acc end)
    [1] (combine (seq 0 (length es)) es).
Fixpoint residues_go (sel : bool -> nat -> nat -> bool) (Bn : poly) (all : list rentry) (i : nat) (es : list rentry)
    (expr : poly * poly) : list K :=
  match es with [] => []
  | e :: es' => match e with (k, p, o, M) =>
      let expr' := if Nat.eqb M o then (Bn, cover_denom sel i e all) else rdiff expr in
      (if Nat.eqb M o then rat_eval expr' p else rat_eval expr' p / fnat (natfact (M - o))) :: residues_go sel Bn all (S i) es' expr' end
  end.
Definition residues_sub (sel : bool -> nat -> nat -> bool) (poles : list (K * nat)) (Bn : poly) : list K :=
  let es := pole_entries O poles in residues_go sel Bn es O es ([], [1]).

(* ---- second-order Taylor expansion with explicit remainder ------------------------- *)
Fixpoint taylor2 (p : K) (N : poly) : poly :=
  match N with [] => [] | a :: q => padd [peval (pderiv q) p] (0 :: taylor2 p q) end.
Lemma taylor2_spec (p : K) (N : poly) (x : K) :
  peval N x = peval N p + (x - p) * peval (pderiv N) p + (x - p) * (x - p) * peval (taylor2 p N) x.
Proof. induction N as [|a q IH]; cbn [taylor2 pderiv peval]; [ring|].
  rewrite !peval_padd. cbn [peval]. rewrite IH at 1. ring. Qed.
Theorem double_root_divides (p : K) (N : poly) : peval N p = 0 -> peval (pderiv N) p = 0 -> pdivides (plinpow p 2) N.
Proof. intros H0 H1. exists (taylor2 p N). intros x. rewrite (taylor2_spec p N x), H0, H1, peval_plinpow. cbn [fpow]. ring. Qed.

(* ---- simple pole --------------------------------------------------------------------- *)
Theorem residue_sub_simple (Bp C : poly) (p : K) : peval C p <> 0 ->
  pdivides (plin p) (psub Bp (pscale (rat_eval (Bp, C) p) C)).
Proof. intros HC. apply root_factor. rewrite peval_psub, peval_pscale. unfold rat_eval. cbn [fst snd]. field. exact HC. Qed.
Corollary residue_sub_simple_value (Bp C : poly) (p : K) : peval C p <> 0 ->
  exists W, forall x, x - p <> 0 -> peval C x <> 0 ->
    peval Bp x / ((x - p) * peval C x) = rat_eval (Bp, C) p / (x - p) + peval W x / peval C x.
Proof. intros HC. destruct (residue_sub_simple Bp C p HC) as [W HW]. exists W. intros x Hx HCx.
  pose proof (HW x) as E. rewrite peval_psub, peval_pscale, peval_plin in E.
  assert (E2 : peval Bp x = rat_eval (Bp, C) p * peval C x + peval W x * (x - p)).
  { transitivity (peval Bp x - rat_eval (Bp, C) p * peval C x + rat_eval (Bp, C) p * peval C x); [ring | rewrite E; ring]. }
  rewrite E2. field. split; assumption. Qed.

(* ---- double pole ------------------------------------------------------------------------ *)
Lemma fnat_fact1 : fnat (K:=K) (natfact 1) = 1.
Proof. cbn. ring. Qed.
Theorem residue_sub_double (Bp C : poly) (p : K) : peval C p <> 0 ->
  let r2 := rat_eval (Bp, C) p in
  let r1 := rat_eval (rdiff (Bp, C)) p / fnat (natfact 1) in
  pdivides (plinpow p 2) (psub (psub Bp (pscale r2 C)) (pscale r1 (pmul (plin p) C))).
Proof. intros HC r2 r1. apply double_root_divides.
  - rewrite !peval_psub, !peval_pscale, peval_pmul, peval_plin. unfold r2, rat_eval. cbn [fst snd]. field. exact HC.
  - unfold psub. rewrite !pderiv_padd.
    assert (Eo : forall (q : poly) (x : K), peval (pderiv (popp q)) x = - peval (pderiv q) x).
    { intros q x. assert (Hq : popp q = pscale (fopp (1 : K)) q) by (unfold popp, pscale; apply map_ext; intros; ring).
      rewrite Hq, pderiv_pscale. ring. }
    rewrite !Eo, !pderiv_pscale, pderiv_pmul, pderiv_plin, peval_plin.
    unfold r1, r2, rdiff, rat_eval. cbn [fst snd]. rewrite fnat_fact1, peval_psub, !peval_pmul.
    field. split; [exact HC | apply one_nz]. Qed.
Corollary residue_sub_double_value (Bp C : poly) (p : K) : peval C p <> 0 ->
  exists W, forall x, x - p <> 0 -> peval C x <> 0 ->
    peval Bp x / (fpow (x - p) 2 * peval C x) =
      rat_eval (Bp, C) p / fpow (x - p) 2 + (rat_eval (rdiff (Bp, C)) p / fnat (natfact 1)) / (x - p) + peval W x / peval C x.
Proof. intros HC. destruct (residue_sub_double Bp C p HC) as [W HW]. exists W. intros x Hx HCx.
  pose proof (HW x) as E. rewrite !peval_psub, !peval_pscale, peval_pmul, peval_plin, peval_plinpow in E.
  set (r2 := rat_eval (Bp, C) p) in *. set (r1 := rat_eval (rdiff (Bp, C)) p / fnat (natfact 1)) in *.
  assert (E2 : peval Bp x = r2 * peval C x + r1 * ((x - p) * peval C x) + peval W x * fpow (x - p) 2).
  { transitivity (peval Bp x - r2 * peval C x - r1 * ((x - p) * peval C x) + r2 * peval C x + r1 * ((x - p) * peval C x)); [ring | rewrite E; ring]. }
  rewrite E2. cbn [fpow]. field. split; assumption. Qed.
End Res.

Arguments pole_entries {K}. Arguments rdiff {K}. Arguments cover_denom {K}. Arguments residues_go {K}. Arguments residues_sub {K}. Arguments taylor2 {K}.
