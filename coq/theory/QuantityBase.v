(* C18 — quantities, units and domains.  Hand-written, stable part:
   finite types of Lcapy's quantities and domains, unit vectors (exponents of
   V, A, s and the dimensionless tag rad that Lcapy prints), the SI dimension of
   every quantity (the specification), and the record of finite tables that the
   translator tools/tr_quantity.py regenerates from the Lcapy sources. *)
From Coq Require Import ZArith List Bool Lia.
Import ListNotations.
Local Open Scope Z_scope.

(* ---- quantities (lcapy/quantities.py + 'undefined') -------------------- *)
Inductive quantity :=
  Qundef | Qvoltage | Qcurrent | Qadmittance | Qimpedance | Qtransfer
| Qvoltagesquared | Qcurrentsquared | Qadmittancesquared | Qimpedancesquared | Qpower.

Definition all_quantities : list quantity :=
  [Qundef; Qvoltage; Qcurrent; Qadmittance; Qimpedance; Qtransfer;
   Qvoltagesquared; Qcurrentsquared; Qadmittancesquared; Qimpedancesquared; Qpower].

Lemma all_quantities_complete : forall q, In q all_quantities.
Proof. destruct q; simpl; tauto. Qed.

Definition qidx (q : quantity) : positive :=
  match q with
  | Qundef => 1 | Qvoltage => 2 | Qcurrent => 3 | Qadmittance => 4 | Qimpedance => 5 | Qtransfer => 6
  | Qvoltagesquared => 7 | Qcurrentsquared => 8 | Qadmittancesquared => 9 | Qimpedancesquared => 10 | Qpower => 11
  end%positive.
Definition qeqb (a b : quantity) : bool := Pos.eqb (qidx a) (qidx b).
Lemma qeqb_eq : forall a b, qeqb a b = true <-> a = b.
Proof. intros a b; split; [destruct a, b; simpl; intros H; try reflexivity; discriminate H | intros ->; destruct b; reflexivity]. Qed.

(* ---- domains (lcapy/domains.py) -------------------------------------- *)
Inductive domain :=
  Dundefined | Dconstant | Dconstant_time | Dconstant_fr | Dtime | Dlaplace | Dfourier
| Dnorm_fourier | Dangular_fourier | Dnorm_angular_fourier | Dfreq_resp | Dang_freq_resp
| Dphasor | Dphasor_ratio | Dfourier_noise | Dang_fourier_noise
| Ddiscrete_time | Ddiscrete_fourier | DZ | Dsuperposition.

Definition all_domains : list domain :=
  [Dundefined; Dconstant; Dconstant_time; Dconstant_fr; Dtime; Dlaplace; Dfourier;
   Dnorm_fourier; Dangular_fourier; Dnorm_angular_fourier; Dfreq_resp; Dang_freq_resp;
   Dphasor; Dphasor_ratio; Dfourier_noise; Dang_fourier_noise;
   Ddiscrete_time; Ddiscrete_fourier; DZ; Dsuperposition].

Lemma all_domains_complete : forall d, In d all_domains.
Proof. destruct d; simpl; tauto. Qed.

Definition didx (d : domain) : positive :=
  match d with
  | Dundefined => 1 | Dconstant => 2 | Dconstant_time => 3 | Dconstant_fr => 4 | Dtime => 5 | Dlaplace => 6
  | Dfourier => 7 | Dnorm_fourier => 8 | Dangular_fourier => 9 | Dnorm_angular_fourier => 10 | Dfreq_resp => 11
  | Dang_freq_resp => 12 | Dphasor => 13 | Dphasor_ratio => 14 | Dfourier_noise => 15 | Dang_fourier_noise => 16
  | Ddiscrete_time => 17 | Ddiscrete_fourier => 18 | DZ => 19 | Dsuperposition => 20
  end%positive.
Definition deqb (a b : domain) : bool := Pos.eqb (didx a) (didx b).
Lemma deqb_eq : forall a b, deqb a b = true <-> a = b.
Proof. intros a b; split; [destruct a, b; simpl; intros H; try reflexivity; discriminate H | intros ->; destruct b; reflexivity]. Qed.

(* ---- unit vectors ------------------------------------------------------ *)
Record uvec := UV { uV : Z; uA : Z; us : Z; urad : Z }.
Definition uzero := UV 0 0 0 0.
Definition uadd (a b : uvec) := UV (uV a + uV b) (uA a + uA b) (us a + us b) (urad a + urad b).
Definition usub (a b : uvec) := UV (uV a - uV b) (uA a - uA b) (us a - us b) (urad a - urad b).
Definition uneg (a : uvec) := UV (- uV a) (- uA a) (- us a) (- urad a).
Definition uscale (k : Z) (a : uvec) := UV (k * uV a) (k * uA a) (k * us a) (k * urad a).
Definition ueqb (a b : uvec) : bool :=
  Z.eqb (uV a) (uV b) && Z.eqb (uA a) (uA b) && Z.eqb (us a) (us b) && Z.eqb (urad a) (urad b).
(* physical dimension: the rad tag is dimensionless *)
Definition dim (a : uvec) := UV (uV a) (uA a) (us a) 0.
Definition dimeqb (a b : uvec) : bool := ueqb (dim a) (dim b).

Lemma ueqb_eq : forall a b, ueqb a b = true <-> a = b.
Proof.
  intros [a1 a2 a3 a4] [b1 b2 b3 b4]; unfold ueqb; simpl.
  rewrite !andb_true_iff, !Z.eqb_eq. split.
  - intros [[[-> ->] ->] ->]; reflexivity.
  - intros H; inversion H; auto.
Qed.
Lemma uadd_comm : forall a b, uadd a b = uadd b a.
Proof. intros [] []; unfold uadd; simpl; f_equal; lia. Qed.
Lemma uadd_sub : forall a b, usub (uadd a b) b = a.
Proof. intros [] []; unfold uadd, usub; simpl; f_equal; lia. Qed.
Lemma dim_uadd : forall a b, dim (uadd a b) = uadd (dim a) (dim b).
Proof. intros [] []; reflexivity. Qed.
Lemma dim_usub : forall a b, dim (usub a b) = usub (dim a) (dim b).
Proof. intros [] []; reflexivity. Qed.

(* ---- the specification: SI dimension of each quantity ---------------------
   volt, ampere, ohm = V/A, siemens = A/V, watt = V A; a transfer function and an
   expression of undefined quantity are dimensionless. *)
Definition u_volt := UV 1 0 0 0.
Definition u_ampere := UV 0 1 0 0.
Definition u_second := UV 0 0 1 0.
Definition qdim (q : quantity) : uvec :=
  match q with
  | Qundef => uzero
  | Qvoltage => u_volt
  | Qcurrent => u_ampere
  | Qadmittance => usub u_ampere u_volt
  | Qimpedance => usub u_volt u_ampere
  | Qtransfer => uzero
  | Qvoltagesquared => uscale 2 u_volt
  | Qcurrentsquared => uscale 2 u_ampere
  | Qadmittancesquared => uscale 2 (usub u_ampere u_volt)
  | Qimpedancesquared => uscale 2 (usub u_volt u_ampere)
  | Qpower => uadd u_volt u_ampere
  end.

(* signal-like quantities scale with the transform variable when transformed
   (V becomes V/Hz), ratio-like quantities scale in the time domain (an impulse
   response has ohm/s).  k = how many signal / ratio factors the quantity has. *)
Definition sig_order (q : quantity) : Z :=
  match q with Qvoltage | Qcurrent => 1 | Qvoltagesquared | Qcurrentsquared => 2 | _ => 0 end.
Definition ratio_order (q : quantity) : Z :=
  match q with Qadmittance | Qimpedance | Qtransfer => 1 | Qadmittancesquared | Qimpedancesquared => 2 | _ => 0 end.

(* ---- names of attributes / implementations read by the translator --------- *)
Inductive dflagname :=
  F_is_undefined_domain | F_is_constant_domain | F_is_constant_time_domain
| F_is_constant_frequency_response_domain | F_is_time_domain | F_is_laplace_domain | F_is_fourier_domain
| F_is_angular_fourier_domain | F_is_frequency_response_domain | F_is_angular_frequency_response_domain
| F_is_phasor_domain | F_is_phasor_ratio_domain | F_is_transform_domain | F_is_discrete_time_domain
| F_is_superposition_domain.
Inductive qflagname :=
  G_is_undefined | G_is_transfer | G_is_immittance | G_is_ratio | G_is_signal | G_is_squared | G_is_power
| G_is_voltage | G_is_current | G_is_impedance | G_is_admittance | G_is_always_causal.

(* class that defines a method, as found along the MRO *)
Inductive owner :=
  O_Expr | O_ExprDomain | O_TimeDomainExpression | O_DiscreteTimeDomainExpression | O_PhasorExpression
| O_PhasorDomainExpression | O_PhasorRatioDomainExpression | O_FrequencyResponseDomainExpression
| O_AngularFrequencyResponseDomainExpression | O_ConstantTimeDomainExpression
| O_ConstantFrequencyResponseDomainExpression | O_NoiseExpression | O_ImpedanceMixin | O_AdmittanceMixin
| O_none | O_unknown.
Definition oidx (o : owner) : positive :=
  match o with
  | O_Expr => 1 | O_ExprDomain => 2 | O_TimeDomainExpression => 3 | O_DiscreteTimeDomainExpression => 4
  | O_PhasorExpression => 5 | O_PhasorDomainExpression => 6 | O_PhasorRatioDomainExpression => 7
  | O_FrequencyResponseDomainExpression => 8 | O_AngularFrequencyResponseDomainExpression => 9
  | O_ConstantTimeDomainExpression => 10 | O_ConstantFrequencyResponseDomainExpression => 11
  | O_NoiseExpression => 12 | O_ImpedanceMixin => 13 | O_AdmittanceMixin => 14 | O_none => 15 | O_unknown => 16
  end%positive.
Definition oeqb (a b : owner) : bool := Pos.eqb (oidx a) (oidx b).
Lemma oeqb_eq : forall a b, oeqb a b = true <-> a = b.
Proof. intros a b; split; [destruct a, b; simpl; intros H; try reflexivity; discriminate H | intros ->; destruct b; reflexivity]. Qed.

Inductive methname :=
  M_mul | M_rmul | M_truediv | M_rtruediv | M_add | M_radd | M_sub | M_rsub | M_eq | M_ne | M_pow | M_neg
| M_compat_add | M_mul_compatible_domains | M_div_compatible_domains | M_add_compatible_domains
| M_mul_domain | M_div_domain | M_class_by_quantity | M_class_get | M_as_constant | M_change.

Inductive uflag := U_loose_units | U_check_units | U_canonical_units.
Inductive readsite := RS_compat_add | RS_printing | RS_config | RS_other.

(* keys of Expr._mul_mapping/_div_mapping: a quantity name or 'constant' *)
Inductive tq := TConst | TQ (q : quantity).
Definition tqeqb (a b : tq) : bool :=
  match a, b with
  | TConst, TConst => true
  | TQ x, TQ y => qeqb x y
  | _, _ => false
  end.
Lemma tqeqb_eq : forall a b, tqeqb a b = true <-> a = b.
Proof.
  intros [|x] [|y]; simpl; split; try congruence; try tauto.
  - intros H; apply qeqb_eq in H; congruence.
  - intros H; inversion H; apply qeqb_eq; reflexivity.
Qed.
Definition tqdim (a : tq) : uvec := match a with TConst => uzero | TQ q => qdim q end.

(* unary operations that rebuild self.__class__(value) *)
Inductive unop := U_abs | U_conjugate | U_sign | U_simplify | U_expand | U_copy | U_subs | U_limit | U_diff | U_integ.

(* outcome of ExprDomain.as_quantity(name): builds the class of a quantity, returns self, or raises *)
Inductive asres := AsQ (q : quantity) | AsSelf (* dispatches to as_expr() *) | AsError.

(* ---- what the translator extracts from the sources ------------------------- *)
Record tables := {
  mul_tab : list (tq * tq * tq);                 (* Expr._mul_mapping in source order *)
  div_tab : list (tq * tq * tq);                 (* Expr._div_mapping *)
  def_units : domain -> quantity -> uvec;        (* _default_units of exprclasses[d][q] *)
  has_class : domain -> bool;                    (* d is a key of exprclasses *)
  class_quantity : domain -> quantity -> quantity;   (* .quantity of exprclasses[d][q] *)
  class_domain : domain -> quantity -> domain;       (* .domain of exprclasses[d][q] *)
  dom_units : domain -> uvec;                    (* Domain.domain_units *)
  dflag : dflagname -> domain -> bool;           (* attributes of domains[d] *)
  qratio : quantity -> bool;                     (* quantities[q].is_ratio *)
  cdflag : dflagname -> domain -> quantity -> bool;  (* attributes of exprclasses[d][q] *)
  cqflag : qflagname -> domain -> quantity -> bool;
  meth_owner : methname -> domain -> quantity -> owner;
  subclass : domain -> quantity -> domain -> quantity -> bool;   (* exprclasses[d][q] is a proper subclass of exprclasses[d'][q'] *)
  (* does Expr.__mul__ / __truediv__ restore x.units after x = x.as_constant() *)
  mul_keeps_units : bool;
  div_keeps_units : bool;
  (* do the quantity mixins' __rtruediv__ set units = x.units / self.units *)
  rdiv_keeps_units : bool;
  (* is the conversion branch of __compat_add__ guarded by equal-or-undefined quantities *)
  compat_guard : bool;
  (* do __add__/__sub__ give the sum the units of its operands (Expr._sum_units) *)
  add_keeps_units : bool;
  (* does TimeDomainExpression.FT restore the scaled units after result(var)/expand/simplify *)
  ft_keeps_units : bool;
  (* does Expr.magnitude of a real-valued expression rebuild self.__class__ (instead of expr(abs(...))) *)
  mag_real_keeps : bool;
  (* does the operation give its result the units of self (ret.units = self.units ...) instead of the class default *)
  keeps : unop -> bool;
  (* does convolve() take the class of x when self is a transfer function / generic expression *)
  conv_by_operand : bool;
  asq : quantity -> asres;                       (* ExprDomain.as_quantity dispatch *)
  as_expr_cls : domain -> quantity -> option (domain * quantity);   (* class built by as_expr(), None = self *)
  sites : list (domain * domain * uvec);         (* change(..., units_scale=...) call sites *)
  flag_reads : list (uflag * readsite)
}.

(* classes = the keys of exprclasses *)
Definition cls := (domain * quantity)%type.
Definition all_classes (T : tables) : list cls :=
  flat_map (fun d => if has_class T d then map (fun q => (d, q)) all_quantities else []) all_domains.

Lemma all_classes_complete : forall T d q, has_class T d = true -> In (d, q) (all_classes T).
Proof.
  intros T d q H. unfold all_classes. apply in_flat_map. exists d. split.
  - apply all_domains_complete.
  - rewrite H. apply in_map. apply all_quantities_complete.
Qed.

(* generic lifting of an exhaustive boolean check *)
Lemma forallb_In : forall (A : Type) (f : A -> bool) (l : list A),
  forallb f l = true -> forall x, In x l -> f x = true.
Proof. intros A f l H x Hx. rewrite forallb_forall in H. auto. Qed.
