(* C14 - partial ring homomorphisms between characteristic-0 fields ("evaluate
   at s = j omega": defined on the elements regular at the point, preserving
   0, 1, +, *, -, and / on denominators whose image is not 0) and what they do
   to MNA update lists (Circuit.v): residuals commute with the map, the image
   of a solution is a solution of the mapped system; linearity of the
   residuals (superposition, scaling by a source phasor), uniqueness for a
   non-singular system; hence  ac solution = image of the s-domain solution.
   Axiom-free. *)
Require Import LT.FieldSec LT.Circuit.
Local Open Scope Z_scope.

(* ---- partial homomorphism -------------------------------------------------- *)
(* [pD] is the domain of regularity (the local ring at the evaluation point);
   a total field embedding is the special case pD = everything. *)
Record phom (K K' : fld) := PHom {
  ph :> K -> K';
  pD : K -> Prop;
  pD0 : pD f0; pD1 : pD f1;
  pDadd : forall a b, pD a -> pD b -> pD (fadd a b);
  pDmul : forall a b, pD a -> pD b -> pD (fmul a b);
  pDopp : forall a, pD a -> pD (fopp a);
  pDdiv : forall a b, pD a -> pD b -> ph b <> f0 -> pD (fdiv a b);
  ph1 : ph f1 = f1;
  phadd : forall a b, pD a -> pD b -> ph (fadd a b) = fadd (ph a) (ph b);
  phmul : forall a b, pD a -> pD b -> ph (fmul a b) = fmul (ph a) (ph b)
}.
Arguments ph {K K'}. Arguments pD {K K'}.
Arguments pD0 {K K'}. Arguments pD1 {K K'}. Arguments pDadd {K K'}. Arguments pDmul {K K'}.
Arguments pDopp {K K'}. Arguments pDdiv {K K'}. Arguments ph1 {K K'}. Arguments phadd {K K'}. Arguments phmul {K K'}.

Section Hom.
Variables K K' : fld.
Variable h : phom K K'.
Add Field KFh : (fth K).
Add Field KFh' : (fth K').
Local Open Scope F_scope.

Lemma ph0 : h 0 = 0.
Proof.
  assert (E : h 0 + h 0 = h 0 + 0).
  { rewrite <- (phadd h) by apply pD0. replace (0 + 0 : K) with (0 : K) by ring. ring. }
  transitivity ((h 0 + h 0) - h 0); [ring | rewrite E; ring].
Qed.
Lemma phopp a : pD h a -> h (- a) = - h a.
Proof.
  intros Da. assert (E : h (- a) + h a = 0).
  { rewrite <- (phadd h) by (try apply pDopp; assumption). replace (- a + a) with (0 : K) by ring. apply ph0. }
  transitivity ((h (- a) + h a) - h a); [ring | rewrite E; ring].
Qed.
Lemma pDsub a b : pD h a -> pD h b -> pD h (a - b).
Proof. intros Da Db. replace (a - b) with (a + - b) by ring. apply pDadd; [assumption | apply pDopp; assumption]. Qed.
Lemma phsub a b : pD h a -> pD h b -> h (a - b) = h a - h b.
Proof. intros Da Db. replace (a - b) with (a + - b) by ring.
  rewrite (phadd h), phopp by (try apply pDopp; assumption). ring. Qed.
Lemma ph_nz a : h a <> 0 -> a <> 0.
Proof. intros H E. apply H. rewrite E. apply ph0. Qed.
Lemma phdiv a b : pD h a -> pD h b -> h b <> 0 -> h (a / b) = h a / h b.
Proof.
  intros Da Db Hb. pose proof (ph_nz b Hb) as Hb0.
  assert (E : h (a / b) * h b = h a).
  { rewrite <- (phmul h) by (try apply pDdiv; assumption). f_equal. field. exact Hb0. }
  rewrite <- E. field. exact Hb.
Qed.
Lemma ph2 : h (1 + 1) = 1 + 1.
Proof. rewrite (phadd h), (ph1 h) by apply pD1. reflexivity. Qed.
Lemma two_nz' : (1 + 1 : K') <> 0.
Proof. exact (fchar0 K' 2%positive). Qed.
Lemma ph2_nz : h (1 + 1) <> 0.
Proof. rewrite ph2. exact two_nz'. Qed.
Lemma pD2 : pD h (1 + 1).
Proof. apply pDadd; apply pD1. Qed.

(* ---- action on update lists and contexts --------------------------------- *)
Definition upd_map (u : upd K) : upd K' := Upd (um u) (uo u) (ur u) (uc u) (h (uv u)).
Definition sres_map (s : sres K) : sres K' :=
  match s with SOk l => SOk (map upd_map l) | SErr => SErr end.
Definition Dupd (T : list (upd K)) : Prop := Forall (fun u => pD h (uv u)) T.
Definition Dvec (x : Z -> K) : Prop := forall i, pD h (x i).
Definition ctx_map (c : sctx K) : sctx K' :=
  SCtx K' (kind c) (typ c) (p0 c) (p1 c) (p2 c) (p3 c) (c0 c) (c1 c)
       (bown c) (bextra c) (bctrl c) (bL1 c) (bL2 c)
       (has_ic c) (ctrl_is_vsrc c) (has_arg1 c) (tp_has_src c) (fun n => h (par c n)).
Definition Dctx (c : sctx K) : Prop := forall n, pD h (par c n).

Lemma Dupd_app T1 T2 : Dupd T1 -> Dupd T2 -> Dupd (T1 ++ T2).
Proof. intros A B. apply Forall_app. split; assumption. Qed.
Lemma Dupd_app_inv T1 T2 : Dupd (T1 ++ T2) -> Dupd T1 /\ Dupd T2.
Proof. intros A. apply Forall_app in A. exact A. Qed.

Lemma pD_ind a b : pD h (@ind K a b).
Proof. unfold ind. destruct (a =? b)%Z; [apply pD1 | apply pD0]. Qed.
Lemma ph_ind a b : h (@ind K a b) = @ind K' a b.
Proof. unfold ind. destruct (a =? b)%Z; [apply ph1 | apply ph0]. Qed.

Lemma lin_hom T mm r x : Dupd T -> Dvec x ->
  pD h (lin T mm r x) /\ h (lin T mm r x) = lin (map upd_map T) mm r (fun i => h (x i)).
Proof.
  intros DT Dx. induction T as [|u T IH]; cbn [lin map].
  - split; [apply pD0 | apply ph0].
  - inversion DT as [|? ? Du DT']; subst. destruct (IH DT') as [D1 E1].
    assert (Dt : pD h (if mname_eqb (um u) mm then @ind K (ur u) r * uv u * x (uc u) else 0)).
    { destruct (mname_eqb (um u) mm); [|apply pD0]. repeat apply pDmul; auto. apply pD_ind. }
    split; [apply pDadd; assumption|].
    rewrite (phadd h) by assumption. rewrite E1. f_equal.
    cbn [upd_map um ur uc uv]. destruct (mname_eqb (um u) mm); [|apply ph0].
    rewrite !(phmul h), ph_ind; auto; try apply pDmul; auto; apply pD_ind.
Qed.
Lemma vecv_hom T mm r : Dupd T ->
  pD h (vecv T mm r) /\ h (vecv T mm r) = vecv (map upd_map T) mm r.
Proof.
  intros DT. induction T as [|u T IH]; cbn [vecv map].
  - split; [apply pD0 | apply ph0].
  - inversion DT as [|? ? Du DT']; subst. destruct (IH DT') as [D1 E1].
    assert (Dt : pD h (if mname_eqb (um u) mm then @ind K (ur u) r * uv u else 0)).
    { destruct (mname_eqb (um u) mm); [|apply pD0]. apply pDmul; auto. apply pD_ind. }
    split; [apply pDadd; assumption|].
    rewrite (phadd h) by assumption. rewrite E1. f_equal.
    cbn [upd_map um ur uc uv]. destruct (mname_eqb (um u) mm); [|apply ph0].
    rewrite (phmul h), ph_ind; auto. apply pD_ind.
Qed.

(* residuals commute with the homomorphism *)
Theorem node_res_hom T v ib r : Dupd T -> Dvec v -> Dvec ib ->
  h (node_res T v ib r) = node_res (map upd_map T) (fun i => h (v i)) (fun i => h (ib i)) r.
Proof.
  intros DT Dv Di. unfold node_res.
  destruct (lin_hom T MG r v DT Dv) as [D1 E1]. destruct (lin_hom T MB r ib DT Di) as [D2 E2].
  destruct (vecv_hom T MIs r DT) as [D3 E3].
  rewrite phsub, (phadd h), E1, E2, E3; auto. apply pDadd; assumption.
Qed.
Theorem br_res_hom T v ib q : Dupd T -> Dvec v -> Dvec ib ->
  h (br_res T v ib q) = br_res (map upd_map T) (fun i => h (v i)) (fun i => h (ib i)) q.
Proof.
  intros DT Dv Di. unfold br_res.
  destruct (lin_hom T MC q v DT Dv) as [D1 E1]. destruct (lin_hom T MD q ib DT Di) as [D2 E2].
  destruct (vecv_hom T MEs q DT) as [D3 E3].
  rewrite phsub, (phadd h), E1, E2, E3; auto. apply pDadd; assumption.
Qed.

Lemma all_add_map T : all_add (map upd_map T) = all_add T.
Proof. unfold all_add. induction T as [|u T IH]; cbn [map forallb]; [reflexivity | rewrite IH; reflexivity]. Qed.
Lemma no_neg_map T : no_neg (map upd_map T) = no_neg T.
Proof. unfold no_neg. induction T as [|u T IH]; cbn [map forallb]; [reflexivity | rewrite IH; reflexivity]. Qed.
End Hom.
Arguments upd_map {K K'}. Arguments sres_map {K K'}. Arguments Dupd {K K'}. Arguments Dvec {K K'}.
Arguments ctx_map {K K'}. Arguments Dctx {K K'}.

(* ---- solutions, linearity, uniqueness (one field) -------------------------- *)
Section Lin.
Variable K : fld.
Add Field KFl : (fth K).
Local Open Scope F_scope.
Implicit Types (T : list (upd K)) (v ib : Z -> K).

Definition sol T v ib : Prop :=
  (forall r, (0 <= r)%Z -> node_res T v ib r = 0) /\ (forall q, (0 <= q)%Z -> br_res T v ib q = 0).
Definition vplus (x y : Z -> K) : Z -> K := fun i => x i + y i.
Definition vscale (a : K) (x : Z -> K) : Z -> K := fun i => a * x i.
Definition vzero : Z -> K := fun _ => 0.

Lemma lin_plus T mm r x y : lin T mm r (vplus x y) = lin T mm r x + lin T mm r y.
Proof. induction T as [|u T IH]; cbn [lin]; [ring|]. rewrite IH. unfold vplus.
  destruct (mname_eqb (um u) mm); ring. Qed.
Lemma lin_scale T mm r a x : lin T mm r (vscale a x) = a * lin T mm r x.
Proof. induction T as [|u T IH]; cbn [lin]; [ring|]. rewrite IH. unfold vscale.
  destruct (mname_eqb (um u) mm); ring. Qed.
Lemma lin_zero T mm r : lin T mm r vzero = 0.
Proof. induction T as [|u T IH]; cbn [lin]; [ring|]. rewrite IH. unfold vzero.
  destruct (mname_eqb (um u) mm); ring. Qed.

(* two systems with the same matrix part *)
Definition same_matrix T1 T2 : Prop :=
  forall mm r x, is_vec mm = false -> lin T1 mm r x = lin T2 mm r x.

(* homogeneous parts *)
Definition homn T v ib r := lin T MG r v + lin T MB r ib.
Definition homb T v ib q := lin T MC q v + lin T MD q ib.
Lemma sol_iff T v ib : sol T v ib <->
  (forall r, (0 <= r)%Z -> homn T v ib r = vecv T MIs r) /\ (forall q, (0 <= q)%Z -> homb T v ib q = vecv T MEs q).
Proof.
  unfold sol, node_res, br_res, homn, homb. split; intros [A B]; split; intros x Hx.
  - transitivity ((lin T MG x v + lin T MB x ib - vecv T MIs x) + vecv T MIs x); [ring | rewrite A by assumption; ring].
  - transitivity ((lin T MC x v + lin T MD x ib - vecv T MEs x) + vecv T MEs x); [ring | rewrite B by assumption; ring].
  - rewrite A by assumption. ring.
  - rewrite B by assumption. ring.
Qed.

(* superposition: solutions for two source vectors add *)
Theorem superposition T T1 T2 v1 ib1 v2 ib2 :
  same_matrix T T1 -> same_matrix T T2 ->
  (forall mm r, is_vec mm = true -> vecv T mm r = vecv T1 mm r + vecv T2 mm r) ->
  sol T1 v1 ib1 -> sol T2 v2 ib2 -> sol T (vplus v1 v2) (vplus ib1 ib2).
Proof.
  intros M1 M2 Hv S1 S2. apply sol_iff in S1. apply sol_iff in S2. apply sol_iff.
  destruct S1 as [A1 B1], S2 as [A2 B2]. unfold homn, homb in *. split; intros x Hx.
  - rewrite !lin_plus, Hv by reflexivity. rewrite <- A1, <- A2 by assumption.
    rewrite <- !(M1 _ x) by reflexivity. rewrite <- !(M2 _ x) by reflexivity. ring.
  - rewrite !lin_plus, Hv by reflexivity. rewrite <- B1, <- B2 by assumption.
    rewrite <- !(M1 _ x) by reflexivity. rewrite <- !(M2 _ x) by reflexivity. ring.
Qed.
(* scaling: the response to P times a source is P times the response (P = source phasor,
   response to the unit source = transfer function) *)
Theorem sol_scale T T1 (P : K) v1 ib1 :
  same_matrix T T1 -> (forall mm r, is_vec mm = true -> vecv T mm r = P * vecv T1 mm r) ->
  sol T1 v1 ib1 -> sol T (vscale P v1) (vscale P ib1).
Proof.
  intros M1 Hv S1. apply sol_iff in S1. apply sol_iff. destruct S1 as [A1 B1]. unfold homn, homb in *.
  split; intros x Hx.
  - rewrite !lin_scale, Hv by reflexivity. rewrite <- A1 by assumption. rewrite <- !(M1 _ x) by reflexivity. ring.
  - rewrite !lin_scale, Hv by reflexivity. rewrite <- B1 by assumption. rewrite <- !(M1 _ x) by reflexivity. ring.
Qed.

(* n sources of one frequency: P_k = phasor of source k, (T_k, hv_k, hib_k) = the
   system with only source k present at unit value and its solution (the transfer
   functions from source k to every unknown) *)
Record src := Src { s_P : K; s_T : list (upd K); s_v : Z -> K; s_ib : Z -> K }.
Fixpoint wsum (f : src -> Z -> K) (l : list src) : Z -> K :=
  match l with [] => vzero | e :: l' => vplus (vscale (s_P e) (f e)) (wsum f l') end.
Fixpoint wvec (l : list src) (mm : mname) (r : Z) : K :=
  match l with [] => 0 | e :: l' => s_P e * vecv (s_T e) mm r + wvec l' mm r end.
Theorem superposition_sum T (l : list src) :
  (forall e, In e l -> same_matrix T (s_T e) /\ sol (s_T e) (s_v e) (s_ib e)) ->
  (forall mm r, is_vec mm = true -> vecv T mm r = wvec l mm r) ->
  sol T (wsum s_v l) (wsum s_ib l).
Proof.
  intros Hl Hv. apply sol_iff. unfold homn, homb.
  assert (G : forall m1 m2 vm x, is_vec m1 = false -> is_vec m2 = false -> is_vec vm = true ->
     (forall e, In e l -> lin (s_T e) m1 x (s_v e) + lin (s_T e) m2 x (s_ib e) = vecv (s_T e) vm x) ->
     lin T m1 x (wsum s_v l) + lin T m2 x (wsum s_ib l) = wvec l vm x).
  { intros m1 m2 vm x I1 I2 I3. clear Hv. induction l as [|e l IH]; intros He; cbn [wsum wvec].
    - rewrite !lin_zero. ring.
    - rewrite !lin_plus, !lin_scale.
      destruct (Hl e (or_introl eq_refl)) as [Me _].
      rewrite (Me m1 x _ I1), (Me m2 x _ I2).
      rewrite <- (IH (fun e' H' => Hl e' (or_intror H')) (fun e' H' => He e' (or_intror H'))).
      rewrite <- (He e (or_introl eq_refl)). ring. }
  split; intros x Hx; rewrite Hv by reflexivity; apply G; try reflexivity; intros e He;
    destruct (Hl e He) as [_ Se]; apply sol_iff in Se; destruct Se as [A B]; unfold homn, homb in *; auto.
Qed.

(* ---- uniqueness for a non-singular system ---------------------------------- *)
(* "the determinant does not vanish": the homogeneous system has only the zero solution *)
Definition nonsingular T (nn mm : Z) : Prop :=
  forall v ib, (forall r, (0 <= r < nn)%Z -> homn T v ib r = 0) -> (forall q, (0 <= q < mm)%Z -> homb T v ib q = 0) ->
    (forall i, (0 <= i < nn)%Z -> v i = 0) /\ (forall i, (0 <= i < mm)%Z -> ib i = 0).

Theorem sol_unique T nn mm v1 ib1 v2 ib2 :
  nonsingular T nn mm -> sol T v1 ib1 -> sol T v2 ib2 ->
  (forall i, (0 <= i < nn)%Z -> v1 i = v2 i) /\ (forall i, (0 <= i < mm)%Z -> ib1 i = ib2 i).
Proof.
  intros NS S1 S2. apply sol_iff in S1. apply sol_iff in S2. destruct S1 as [A1 B1], S2 as [A2 B2].
  destruct (NS (vplus v1 (vscale (- (1)) v2)) (vplus ib1 (vscale (- (1)) ib2))) as [Hv Hi].
  - intros r Hr. unfold homn in *. rewrite !lin_plus, !lin_scale.
    transitivity ((lin T MG r v1 + lin T MB r ib1) - (lin T MG r v2 + lin T MB r ib2)); [ring|].
    rewrite A1, A2 by lia. ring.
  - intros q Hq. unfold homb in *. rewrite !lin_plus, !lin_scale.
    transitivity ((lin T MC q v1 + lin T MD q ib1) - (lin T MC q v2 + lin T MD q ib2)); [ring|].
    rewrite B1, B2 by lia. ring.
  - split; intros i Hi'; [specialize (Hv i Hi') | specialize (Hi i Hi')]; unfold vplus, vscale in *.
    + transitivity ((v1 i + - (1) * v2 i) + v2 i); [ring | rewrite Hv; ring].
    + transitivity ((ib1 i + - (1) * ib2 i) + ib2 i); [ring | rewrite Hi; ring].
Qed.
End Lin.
Arguments sol {K}. Arguments vplus {K}. Arguments vscale {K}. Arguments vzero {K}. Arguments same_matrix {K}.
Arguments homn {K}. Arguments homb {K}. Arguments nonsingular {K}.
Arguments wsum {K}. Arguments wvec {K}. Arguments s_P {K}. Arguments s_T {K}. Arguments s_v {K}. Arguments s_ib {K}.

(* ---- transport of solutions; ac solution = image of the s-domain solution --- *)
Section Transport.
Variables K K' : fld.
Variable h : phom K K'.

(* the image of a (regular) solution of the s-domain system solves the mapped system *)
Theorem solution_transport (T : list (upd K)) (v ib : Z -> K) :
  Dupd h T -> Dvec h v -> Dvec h ib -> sol T v ib ->
  sol (map (upd_map h) T) (fun i => h (v i)) (fun i => h (ib i)).
Proof.
  intros DT Dv Di [A B]. split; intros x Hx.
  - rewrite <- node_res_hom by assumption. rewrite A by assumption. apply ph0.
  - rewrite <- br_res_hom by assumption. rewrite B by assumption. apply ph0.
Qed.

(* phasor = transfer: if the mapped system (the ac system) is non-singular, ANY
   solution of it - in particular the one the ac analysis reports - is the image
   under "s := j omega" of the s-domain solution *)
Theorem transported_solution_unique (T : list (upd K)) (nn mm : Z) (v ib : Z -> K) (vac ibac : Z -> K') :
  Dupd h T -> Dvec h v -> Dvec h ib -> sol T v ib ->
  nonsingular (map (upd_map h) T) nn mm -> sol (map (upd_map h) T) vac ibac ->
  (forall i, (0 <= i < nn)%Z -> vac i = h (v i)) /\ (forall i, (0 <= i < mm)%Z -> ibac i = h (ib i)).
Proof.
  intros DT Dv Di S NS Sac.
  exact (sol_unique K' _ nn mm _ _ _ _ NS Sac (solution_transport T v ib DT Dv Di S)).
Qed.
End Transport.

(* ---- instances: total embeddings ------------------------------------------- *)
Section Total.
Variables K K' : fld.
Variable f : K -> K'.
Hypothesis f1' : f f1 = f1.
Hypothesis fadd' : forall a b, f (fadd a b) = fadd (f a) (f b).
Hypothesis fmul' : forall a b, f (fmul a b) = fmul (f a) (f b).
Definition total_hom : phom K K' :=
  PHom K K' f (fun _ => True) I I (fun _ _ _ _ => I) (fun _ _ _ _ => I) (fun _ _ => I) (fun _ _ _ _ _ => I)
       f1' (fun a b _ _ => fadd' a b) (fun a b _ _ => fmul' a b).
End Total.
Definition id_hom (K : fld) : phom K K :=
  total_hom K K (fun x => x) eq_refl (fun _ _ => eq_refl) (fun _ _ => eq_refl).

Print Assumptions node_res_hom.
Print Assumptions solution_transport.
Print Assumptions transported_solution_unique.
Print Assumptions superposition_sum.
Print Assumptions sol_unique.

(* ---- tactics: push a homomorphism through a field expression --------------- *)
Ltac hom_D h :=
  repeat first
    [ assumption
    | apply (pD0 h) | apply (pD1 h)
    | match goal with H : Dctx h _ |- pD h (par _ _) => apply H end
    | match goal with H : forall n, pD h (_ n) |- pD h _ => apply H end
    | apply (pDadd h) | apply (pDmul h) | apply (pDopp h) | apply (pDsub _ _ h)
    | (apply (pDdiv h); [ | | first [assumption | apply ph2_nz] ]) ].
Ltac hom_push h :=
  repeat first
    [ rewrite (ph0 _ _ h) | rewrite (ph1 h)
    | rewrite (phopp _ _ h) by hom_D h
    | rewrite (phadd h) by hom_D h
    | rewrite (phsub _ _ h) by hom_D h
    | rewrite (phmul h) by hom_D h
    | rewrite (phdiv _ _ h) by (first [assumption | apply ph2_nz | hom_D h]) ].
