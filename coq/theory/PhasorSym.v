(* PhasorSym - a symbolic angular frequency kept as an indeterminate.

   Quantities of the ac analysis of a circuit whose sources carry a SYMBOLIC angular
   frequency (omega_0, w1, ...) are rational functions of that symbol.  The correspondence
   check compares them with the model at finitely many rational values of the symbol;
   the theorems below say when that decides the identity of the rational functions:

     poly_vanishes_from_points   a polynomial with at most n coefficients that vanishes at n
                                 distinct points vanishes everywhere (root count, by synthetic
                                 division: [squot], [squot_spec])
     poly_eq_from_points         two polynomials agreeing at enough distinct points agree everywhere
     rat_points_determine        two rational functions N1/D1, N2/D2 that agree at more distinct
                                 points (denominators non-zero there) than the cross-multiplied
                                 difference N1 D2 - N2 D1 has coefficients are equal as rational
                                 functions ([req]), hence
     rat_points_determine_eval   take equal values wherever both denominators are non-zero
     sympoints_sound             the boolean guard evaluated in the cases files (distinct points,
                                 more of them than the degree bound) gives the hypotheses above
     length_pmul_le, cross_len_le    the degree bound from the lengths of the four coefficient lists

   Over the abstract field record [fld]; axiom-free. *)
Require Import LT.FieldSec LT.PolyQ.
From Coq Require Import List Lia.
Import ListNotations.
Local Open Scope F_scope.

Section Sym.
Variable K : fld.
Add Field KFsym : (fth K).
Notation poly := (list K).
Implicit Types p q : poly.
Implicit Types x r : K.

(* synthetic division by (x - r), lowest coefficient first *)
Fixpoint squot r p : poly :=
  match p with
  | [] => []
  | a :: p' => match p' with [] => [] | _ => peval p' r :: squot r p' end
  end.

Lemma squot_length r p : length (squot r p) = pred (length p).
Proof. induction p as [|a p IH]; [reflexivity|]. destruct p as [|b p']; [reflexivity|].
  change (squot r (a :: b :: p')) with (peval (b :: p') r :: squot r (b :: p')).
  cbn [length pred] in *. rewrite IH. reflexivity. Qed.

Theorem squot_spec r p x : peval p x = (x - r) * peval (squot r p) x + peval p r.
Proof. induction p as [|a p IH]; [cbn; ring|]. destruct p as [|b p'].
  - cbn. ring.
  - change (squot r (a :: b :: p')) with (peval (b :: p') r :: squot r (b :: p')).
    set (P := b :: p') in *. cbn [peval]. rewrite IH. ring. Qed.

Lemma mul_zero_r (a b : K) : a * b = 0 -> a <> 0 -> b = 0.
Proof. intros H Ha. destruct (fdec K b 0) as [E|E]; [exact E|]. exfalso. exact (mul_nz K a b Ha E H). Qed.

Theorem poly_vanishes_from_points : forall (xs : list K) p,
  NoDup xs -> (length p <= length xs)%nat -> (forall r, In r xs -> peval p r = 0) ->
  forall x, peval p x = 0.
Proof. induction xs as [|r xs IH]; intros p ND Hl Hr x.
  - destruct p; [reflexivity | cbn in Hl; lia].
  - inversion ND as [|? ? Hnin ND']; subst.
    assert (Hq : forall y, peval (squot r p) y = 0).
    { apply (IH (squot r p)).
      - exact ND'.
      - rewrite squot_length. cbn [length] in Hl. lia.
      - intros y Hy. pose proof (squot_spec r p y) as E.
        rewrite (Hr r (or_introl eq_refl)), (Hr y (or_intror Hy)) in E.
        apply (mul_zero_r (y - r)).
        + transitivity ((y - r) * peval (squot r p) y + 0); [ring | symmetry; exact E].
        + intros Z. apply Hnin. assert (y = r) by (transitivity (y - r + r); [ring | rewrite Z; ring]). subst y. exact Hy. }
    rewrite (squot_spec r p x), Hq, (Hr r (or_introl eq_refl)). ring. Qed.

Theorem poly_eq_from_points (xs : list K) p q :
  NoDup xs -> (Nat.max (length p) (length q) <= length xs)%nat ->
  (forall r, In r xs -> peval p r = peval q r) -> forall x, peval p x = peval q x.
Proof. intros ND Hl Hr x.
  assert (E : peval (psub p q) x = 0).
  { apply (poly_vanishes_from_points xs); [exact ND | rewrite length_psub; exact Hl |].
    intros r Hin. rewrite peval_psub, (Hr r Hin). ring. }
  rewrite peval_psub in E. transitivity (peval p x - peval q x + peval q x); [ring | rewrite E; ring]. Qed.

(* the cross-multiplied difference N1 D2 - N2 D1 of two rational functions *)
Definition cross (f g : rat K) : poly := psub (pmul (fst f) (snd g)) (pmul (fst g) (snd f)).

Theorem rat_points_determine (f g : rat K) (xs : list K) :
  NoDup xs -> (length (cross f g) <= length xs)%nat ->
  (forall r, In r xs -> peval (snd f) r <> 0 /\ peval (snd g) r <> 0 /\ rat_eval f r = rat_eval g r) ->
  req f g.
Proof. intros ND Hl Hr x.
  assert (E : peval (cross f g) x = 0).
  { apply (poly_vanishes_from_points xs); [exact ND | exact Hl |].
    intros r Hin. destruct (Hr r Hin) as (Hf & Hg & Ev). unfold cross. rewrite peval_psub, !peval_pmul.
    unfold rat_eval in Ev.
    assert (E1 : peval (fst f) r = peval (fst g) r / peval (snd g) r * peval (snd f) r).
    { rewrite <- Ev. field. exact Hf. }
    rewrite E1. field. exact Hg. }
  unfold cross in E. rewrite peval_psub, !peval_pmul in E.
  transitivity (peval (fst f) x * peval (snd g) x - peval (fst g) x * peval (snd f) x + peval (fst g) x * peval (snd f) x);
    [ring | rewrite E; ring]. Qed.

Corollary rat_points_determine_eval (f g : rat K) (xs : list K) :
  NoDup xs -> (length (cross f g) <= length xs)%nat ->
  (forall r, In r xs -> peval (snd f) r <> 0 /\ peval (snd g) r <> 0 /\ rat_eval f r = rat_eval g r) ->
  forall x, peval (snd f) x <> 0 -> peval (snd g) x <> 0 -> rat_eval f x = rat_eval g x.
Proof. intros ND Hl Hr x Hf Hg. apply req_eval; [apply (rat_points_determine f g xs); assumption | assumption | assumption]. Qed.

(* degree bound from the lengths of the coefficient lists *)
Lemma length_pmul_le p q : (length (pmul p q) <= length p + length q)%nat.
Proof. induction p as [|a p IH]; [cbn; lia|]. cbn [pmul]. rewrite length_padd, length_pscale. cbn [length]. lia. Qed.
Lemma cross_len_le (f g : rat K) :
  (length (cross f g) <= Nat.max (length (fst f) + length (snd g)) (length (fst g) + length (snd f)))%nat.
Proof. unfold cross. rewrite length_psub. pose proof (length_pmul_le (fst f) (snd g)). pose proof (length_pmul_le (fst g) (snd f)). lia. Qed.

(* the guard evaluated in the generated cases files *)
Fixpoint memb x (l : list K) : bool := match l with [] => false | y :: l' => if fdec K x y then true else memb x l' end.
Fixpoint nodupb (l : list K) : bool := match l with [] => true | x :: l' => negb (memb x l') && nodupb l' end.
Lemma memb_In x l : memb x l = false -> ~ In x l.
Proof. induction l as [|y l IH]; cbn; [tauto|]. destruct (fdec K x y); [discriminate|]. intros H [E|Hin]; [congruence | exact (IH H Hin)]. Qed.
Lemma nodupb_NoDup l : nodupb l = true -> NoDup l.
Proof. induction l as [|x l IH]; cbn; [constructor|]. intros H. apply andb_prop in H. destruct H as [H1 H2].
  constructor; [apply memb_In; destruct (memb x l); [discriminate | reflexivity] | exact (IH H2)]. Qed.
Definition sympoints_ok (bound : nat) (xs : list K) : bool := nodupb xs && Nat.ltb bound (length xs).
Theorem sympoints_sound bound xs : sympoints_ok bound xs = true -> NoDup xs /\ (bound < length xs)%nat.
Proof. unfold sympoints_ok. intros H. apply andb_prop in H. destruct H as [H1 H2]. split; [apply nodupb_NoDup; exact H1 | apply PeanoNat.Nat.ltb_lt; exact H2]. Qed.

(* the complete statement used by the check: rational functions given by coefficient lists whose
   lengths add up to at most bound + 1, compared at points that pass the guard *)
Theorem sympoints_decide (f g : rat K) bound xs :
  sympoints_ok bound xs = true ->
  (Nat.max (length (fst f) + length (snd g)) (length (fst g) + length (snd f)) <= S bound)%nat ->
  (forall r, In r xs -> peval (snd f) r <> 0 /\ peval (snd g) r <> 0 /\ rat_eval f r = rat_eval g r) ->
  forall x, peval (snd f) x <> 0 -> peval (snd g) x <> 0 -> rat_eval f x = rat_eval g x.
Proof. intros G Hb Hr. destruct (sympoints_sound _ _ G) as [ND Hlt].
  apply (rat_points_determine_eval f g xs ND); [pose proof (cross_len_le f g); lia | exact Hr]. Qed.
End Sym.
Arguments squot {K}. Arguments cross {K}. Arguments memb {K}. Arguments nodupb {K}. Arguments sympoints_ok {K}.
