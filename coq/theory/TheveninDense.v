(* C04 - finite sums, left inverses, and the dense reading of an MNA update
   list: the certificate that makes "well-posed" checkable per circuit.

   [left_inverse_zero]: if B A = I (n x n, entries as functions of nat) and
   A x = 0 then x = 0 on 0..n-1.
   [lin_dense]: the row functional [lin T mm r] of Circuit.v is the dot product
   of the dense row (entries [dentry]) with the unknowns, provided the updates
   of block mm only touch columns 0..n-1.
   [sys_row]: rows of the block matrix [G B; C D] applied to (v, ib).         *)
Require Import LT.FieldSec LT.Circuit.
From Coq Require Import Arith.
Local Open Scope Z_scope.

Section Dense.
Variable K : fld.
Add Field KFd : (fth K).
Local Open Scope F_scope.

Fixpoint sumn (n : nat) (f : nat -> K) : K := match n with O => 0 | S n' => sumn n' f + f n' end.
Lemma sumn_ext n f g : (forall i, (i < n)%nat -> f i = g i) -> sumn n f = sumn n g.
Proof. induction n as [|n IH]; intros H; cbn [sumn]; [reflexivity|]. rewrite IH, H by (intros; auto with arith). reflexivity. Qed.
Lemma sumn_zero n f : (forall i, (i < n)%nat -> f i = 0) -> sumn n f = 0.
Proof. induction n as [|n IH]; intros H; cbn [sumn]; [reflexivity|]. rewrite IH, H by (intros; auto with arith). ring. Qed.
Lemma sumn_add n f g : sumn n (fun i => f i + g i) = sumn n f + sumn n g.
Proof. induction n as [|n IH]; cbn [sumn]; [ring | rewrite IH; ring]. Qed.
Lemma sumn_scal n c f : sumn n (fun i => c * f i) = c * sumn n f.
Proof. induction n as [|n IH]; cbn [sumn]; [ring | rewrite IH; ring]. Qed.
Lemma sumn_scal_r n c f : sumn n (fun i => f i * c) = sumn n f * c.
Proof. induction n as [|n IH]; cbn [sumn]; [ring | rewrite IH; ring]. Qed.
Lemma sumn_swap n m (f : nat -> nat -> K) :
  sumn n (fun i => sumn m (fun j => f i j)) = sumn m (fun j => sumn n (fun i => f i j)).
Proof. induction n as [|n IH]; cbn [sumn].
  - symmetry. apply sumn_zero. reflexivity.
  - rewrite IH, <- sumn_add. reflexivity. Qed.
Lemma sumn_split a b f : sumn (a + b) f = sumn a f + sumn b (fun j => f (a + j)%nat).
Proof. induction b as [|b IH]; cbn [sumn].
  - rewrite Nat.add_0_r. ring.
  - rewrite Nat.add_succ_r. cbn [sumn]. rewrite IH. ring. Qed.
Definition delta (i j : nat) : K := if Nat.eqb i j then 1 else 0.
Lemma sumn_delta n i x : (i < n)%nat -> sumn n (fun j => delta i j * x j) = x i.
Proof. induction n as [|n IH]; intros H; [lia|]. cbn [sumn]. unfold delta at 2.
  destruct (Nat.eqb_spec i n) as [->|Hn].
  - rewrite sumn_zero; [ring|]. intros j Hj. unfold delta. destruct (Nat.eqb_spec n j); [lia | ring].
  - rewrite IH by lia. ring. Qed.

Theorem left_inverse_zero n (A B : nat -> nat -> K) (x : nat -> K) :
  (forall i j, (i < n)%nat -> (j < n)%nat -> sumn n (fun k => B i k * A k j) = delta i j) ->
  (forall k, (k < n)%nat -> sumn n (fun j => A k j * x j) = 0) ->
  forall i, (i < n)%nat -> x i = 0.
Proof.
  intros HI HA i Hi.
  rewrite <- (sumn_delta n i x Hi).
  rewrite (sumn_ext n _ (fun j => sumn n (fun k => B i k * (A k j * x j)))).
  - rewrite sumn_swap. apply sumn_zero. intros k Hk. rewrite sumn_scal, (HA k Hk). ring.
  - intros j Hj. rewrite <- (HI i j Hi Hj), <- sumn_scal_r. apply sumn_ext. intros k _. ring.
Qed.

(* ---- dense reading of an update list ------------------------------------------ *)
Fixpoint dentry (T : list (upd K)) (mm : mname) (r cc : Z) : K :=
  match T with
  | [] => 0
  | u :: T' => (if mname_eqb (um u) mm && Z.eqb (ur u) r && Z.eqb (uc u) cc then uv u else 0) + dentry T' mm r cc
  end.
Definition cols_ok (T : list (upd K)) (mm : mname) (n : nat) : bool :=
  forallb (fun u => negb (mname_eqb (um u) mm) || ((0 <=? uc u) && (uc u <? Z.of_nat n))) T.

Lemma lin_dense T mm r x n : cols_ok T mm n = true ->
  lin T mm r x = sumn n (fun c => dentry T mm r (Z.of_nat c) * x (Z.of_nat c)).
Proof.
  induction T as [|u T IH]; intros H.
  - cbn [lin dentry]. symmetry. apply sumn_zero. intros. ring.
  - cbn [cols_ok forallb] in H. apply andb_true_iff in H. destruct H as [Hu HT]. fold (cols_ok T mm n) in HT.
    cbn [lin]. rewrite (IH HT).
    rewrite (sumn_ext n (fun c => dentry (u :: T) mm r (Z.of_nat c) * x (Z.of_nat c))
               (fun c => (if mname_eqb (um u) mm && Z.eqb (ur u) r && Z.eqb (uc u) (Z.of_nat c) then uv u else 0) * x (Z.of_nat c)
                         + dentry T mm r (Z.of_nat c) * x (Z.of_nat c)))
      by (intros c _; cbn [dentry]; ring).
    rewrite sumn_add. f_equal.
    destruct (mname_eqb (um u) mm) eqn:EM; cbn [andb].
    + cbn [negb orb] in Hu. apply andb_true_iff in Hu. destruct Hu as [H0 H1].
      apply Z.leb_le in H0. apply Z.ltb_lt in H1.
      set (k := Z.to_nat (uc u)). assert (Ek : uc u = Z.of_nat k) by (unfold k; lia). assert (Hk : (k < n)%nat) by lia.
      rewrite (sumn_ext n _ (fun c => delta k c * ((if Z.eqb (ur u) r then uv u else 0) * x (Z.of_nat c)))).
      * rewrite (sumn_delta n k (fun c => (if Z.eqb (ur u) r then uv u else 0) * x (Z.of_nat c)) Hk). rewrite <- Ek.
        unfold ind. destruct (Z.eqb (ur u) r); ring.
      * intros c _. unfold delta. rewrite Ek.
        destruct (Nat.eqb_spec k c) as [->|Hne].
        -- rewrite Z.eqb_refl, andb_true_r. ring.
        -- destruct (Z.eqb_spec (Z.of_nat k) (Z.of_nat c)); [lia|]. rewrite andb_false_r. ring.
    + symmetry. rewrite sumn_zero; [reflexivity|]. intros. ring.
Qed.
Lemma lin_zero (T : list (upd K)) mm r : lin T mm r (fun _ => 0) = 0.
Proof. induction T as [|u T IH]; cbn [lin]; [reflexivity|]. rewrite IH. destruct (mname_eqb (um u) mm); ring. Qed.

(* the block system [G B; C D] on the unknowns (v_0..v_{nn-1}, ib_0..ib_{mm-1}) *)
Definition sys_entry (T : list (upd K)) (nn : nat) (i j : nat) : K :=
  let r := Z.of_nat (if Nat.ltb i nn then i else i - nn) in
  let c := Z.of_nat (if Nat.ltb j nn then j else j - nn) in
  dentry T (if Nat.ltb i nn then (if Nat.ltb j nn then MG else MB) else (if Nat.ltb j nn then MC else MD)) r c.
Definition sys_x (nn : nat) (v ib : Z -> K) (j : nat) : K :=
  if Nat.ltb j nn then v (Z.of_nat j) else ib (Z.of_nat (j - nn)).
Definition sys_cols_ok (T : list (upd K)) (nn mm : nat) : bool :=
  cols_ok T MG nn && cols_ok T MB mm && cols_ok T MC nn && cols_ok T MD mm.

Lemma sys_row_node T nn mm v ib i : sys_cols_ok T nn mm = true -> (i < nn)%nat ->
  sumn (nn + mm) (fun j => sys_entry T nn i j * sys_x nn v ib j) = lin T MG (Z.of_nat i) v + lin T MB (Z.of_nat i) ib.
Proof.
  intros H Hi. unfold sys_cols_ok in H. repeat (apply andb_true_iff in H; destruct H as [H ?]).
  rewrite sumn_split, (lin_dense T MG (Z.of_nat i) v nn), (lin_dense T MB (Z.of_nat i) ib mm) by assumption.
  f_equal; apply sumn_ext; intros j Hj; unfold sys_entry, sys_x.
  - destruct (Nat.ltb_spec i nn); [|lia]. destruct (Nat.ltb_spec j nn); [|lia]. reflexivity.
  - destruct (Nat.ltb_spec i nn); [|lia]. destruct (Nat.ltb_spec (nn + j) nn); [lia|].
    replace (nn + j - nn)%nat with j by lia. reflexivity.
Qed.
Lemma sys_row_branch T nn mm v ib q : sys_cols_ok T nn mm = true ->
  sumn (nn + mm) (fun j => sys_entry T nn (nn + q) j * sys_x nn v ib j) = lin T MC (Z.of_nat q) v + lin T MD (Z.of_nat q) ib.
Proof.
  intros H. unfold sys_cols_ok in H. repeat (apply andb_true_iff in H; destruct H as [H ?]).
  rewrite sumn_split, (lin_dense T MC (Z.of_nat q) v nn), (lin_dense T MD (Z.of_nat q) ib mm) by assumption.
  f_equal; apply sumn_ext; intros j Hj; unfold sys_entry, sys_x.
  - destruct (Nat.ltb_spec (nn + q) nn); [lia|]. destruct (Nat.ltb_spec j nn); [|lia].
    replace (nn + q - nn)%nat with q by lia. reflexivity.
  - destruct (Nat.ltb_spec (nn + q) nn); [lia|]. destruct (Nat.ltb_spec (nn + j) nn); [lia|].
    replace (nn + q - nn)%nat with q by lia. replace (nn + j - nn)%nat with j by lia. reflexivity.
Qed.

(* B (as a list of rows) is a left inverse of the system matrix *)
Definition bent (B : list (list K)) (i k : nat) : K := nth k (nth i B []) 0.
Definition eqbK (a b : K) : bool := if fdec K a b then true else false.
Lemma eqbK_eq a b : eqbK a b = true -> a = b.
Proof. unfold eqbK. destruct (fdec K a b); [auto | discriminate]. Qed.
Definition is_left_inverse (T : list (upd K)) (nn mm : nat) (B : list (list K)) : bool :=
  let n := (nn + mm)%nat in
  forallb (fun i => forallb (fun j => eqbK (sumn n (fun k => bent B i k * sys_entry T nn k j)) (delta i j)) (seq 0 n)) (seq 0 n).

(* if the certificate checks, the homogeneous system has only the zero solution on the range *)
Theorem certificate_zero T nn mm B v ib :
  sys_cols_ok T nn mm = true -> is_left_inverse T nn mm B = true ->
  (forall r, (r < nn)%nat -> lin T MG (Z.of_nat r) v + lin T MB (Z.of_nat r) ib = 0) ->
  (forall q, (q < mm)%nat -> lin T MC (Z.of_nat q) v + lin T MD (Z.of_nat q) ib = 0) ->
  (forall r, (r < nn)%nat -> v (Z.of_nat r) = 0) /\ (forall q, (q < mm)%nat -> ib (Z.of_nat q) = 0).
Proof.
  intros HC HB Hn Hb.
  assert (X : forall i, (i < nn + mm)%nat -> sys_x nn v ib i = 0).
  { apply (left_inverse_zero (nn + mm) (sys_entry T nn) (bent B)).
    - intros i j Hi Hj. unfold is_left_inverse in HB. rewrite forallb_forall in HB.
      specialize (HB i (proj2 (in_seq _ _ _) (conj (Nat.le_0_l i) Hi))). rewrite forallb_forall in HB.
      specialize (HB j (proj2 (in_seq _ _ _) (conj (Nat.le_0_l j) Hj))). apply eqbK_eq in HB. exact HB.
    - intros k Hk. destruct (Nat.ltb_spec k nn) as [Hlt|Hge].
      + rewrite (sys_row_node T nn mm v ib k HC Hlt). apply Hn. exact Hlt.
      + replace k with (nn + (k - nn))%nat by lia. rewrite (sys_row_branch T nn mm v ib (k - nn) HC). apply Hb. lia. }
  split.
  - intros r Hr. specialize (X r ltac:(lia)). unfold sys_x in X. destruct (Nat.ltb_spec r nn); [exact X | lia].
  - intros q Hq. specialize (X (nn + q)%nat ltac:(lia)). unfold sys_x in X. destruct (Nat.ltb_spec (nn + q) nn); [lia|].
    replace (nn + q - nn)%nat with q in X by lia. exact X.
Qed.
End Dense.
Arguments sumn {K}. Arguments delta {K}. Arguments dentry {K}. Arguments cols_ok {K}. Arguments sys_entry {K}.
Arguments sys_x {K}. Arguments sys_cols_ok {K}. Arguments bent {K}. Arguments is_left_inverse {K}. Arguments eqbK {K}.
