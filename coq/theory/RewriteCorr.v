(* C05: executable instance (Qc) of the rewrite model and the comparison
   functions the generated cases_*.v files call. *)
Require Import LT.FieldSec LT.RewriteModel.
From Coq Require Import Arith.
Local Open Scope nat_scope.

Definition qlt (a b : Qc) : bool := match Qccompare a b with Lt => true | _ => false end.
Notation elemQ := (elem QcF).
Definition optq_eqb (a b : option Qc) : bool :=
  match a, b with Some x, Some y => qc_eqb x y | None, None => true | _, _ => false end.
Fixpoint nats_eqb (a b : list nat) : bool :=
  match a, b with [] , [] => true | x :: a', y :: b' => Nat.eqb x y && nats_eqb a' b' | _, _ => false end.
(* anonymous wires are compared by their nodes only *)
Definition elem_eqb (a b : elemQ) : bool :=
  ety_eqb (etyp a) (etyp b) && nats_eqb (enodes a) (enodes b) &&
  (ety_eqb (etyp a) TW || (name_eqb (ename a) (ename b) && skw_eqb (ekw a) (ekw b) && qc_eqb (eval a) (eval b) && optq_eqb (eic a) (eic b))).
Fixpoint net_eqb (a b : list elemQ) : bool :=
  match a, b with [], [] => true | x :: a', y :: b' => elem_eqb x y && net_eqb a' b' | _, _ => false end.

Definition simplifyQ := @simplify QcF qc_eqb.
(* result code of one simplify case:
   0 agree | 1 netlists differ | 2 model raises, code returned | 3 code raised, model returns
   4 the recorded trace does not fit the model's control flow (orders / stage kinds) *)
Definition simplify_code (vr : variant) (g : sargs) (N : list elemQ) (trace : list stage) (expected : res (list elemQ)) : nat :=
  match simplifyQ vr g N trace, expected with
  | Err, Err => 0
  | Err, Ok _ => 2
  | Ok _, Err => 3
  | Ok x, Ok out =>
      if negb (f_orders (x_flags x) && f_kinds (x_flags x)) then 4
      else if negb (match x_trace x with [] => true | _ => false end) then 4
      else if net_eqb (x_net x) out then 0 else 1
  end.
(* oracle contracts met on this case: (subsets, in_series/in_parallel, no ground inside, chains on node names)
   and the tags of the combine events at which a theorem precondition fails *)
Definition simplify_flags (vr : variant) (g : sargs) (N : list elemQ) (trace : list stage) : bool * bool * bool * bool * list nat :=
  match simplifyQ vr g N trace with
  | Err => (true, true, true, true, [])
  | Ok x => (f_subsets (x_flags x), f_contract (x_flags x), f_ground (x_flags x), f_raw (x_flags x), f_events (x_flags x))
  end.
(* the other rewrites *)
Definition rename_code (f : nat -> nat) (N out : list elemQ) : bool := net_eqb (rename_nodes f N) out.
Fixpoint lookup_nat (m : list (nat * nat)) (n : nat) : nat :=
  match m with [] => n | (a, b) :: m' => if Nat.eqb n a then b else lookup_nat m' n end.
(* the map is injective on the nodes of the netlist and fixes the reference node *)
Definition map_ok (m : list (nat * nat)) (N : list elemQ) : bool :=
  let nodes := nodup Nat.eq_dec (flat_map (@enodes QcF) N) in
  Nat.eqb (lookup_nat m 0) 0 && Nat.eqb (length (nodup Nat.eq_dec (map (lookup_nat m) nodes))) (length nodes).
(* 0: the rewritten netlist is the model's; 5: it is the model's except that the
   inductors' initial-current sources are printed as plain constants (read back
   as DC sources); 1: neither *)
Definition s_model_code (s : Qc) (N out : list elemQ) (d : nat) : nat :=
  if net_eqb (@s_model QcF qc_eqb s s KwS N d) out then 0
  else if net_eqb (@s_model QcF qc_eqb s s KwNone N d) out then 5 else 1.
Definition noisy_kill_code (N out : list elemQ) (d : nat) : bool := net_eqb (renum_wires (kill_noise (noisy N d) 0) 0) (renum_wires out 0).

Definition s_modelQ (s : Qc) := @s_model QcF qc_eqb s s KwS.
Definition switch_closedQ := @switch_closed QcF qlt.
Definition switch_closed_specQ := @switch_closed_spec QcF qlt.
Definition ElemQ (nm : name) (t : ety) (ns : list nat) (kw : skw) (x : Qc) (ic : option Qc) : elemQ := @Elem QcF nm t ns kw x ic.
