(* Independent sources: what value a source of each Lcapy class contributes to
   each sub-analysis (dc, Laplace kinds, one phasor analysis per angular
   frequency).  The descriptors of the concrete classes are GENERATED from
   lcapy/oneport.py (tools/tr_sources.py -> Gen.SourcesGen); this file holds the
   descriptor type, the hand model of the selection per analysis kind (validated
   by correspondence in checks/c01.py) and the specification the generated
   descriptors are compared with (props/C01src.v). *)
Require Import ZArith List Bool.
Require Import LT.FieldSec LT.QcI LT.Circuit.
Local Open Scope F_scope.

Section Sources.
Variable K : fld.

Inductive sdesc :=
| SDc (v : K)            (* constant for all time *)
| SStep (v : K)          (* v u(t) *)
| SLap (v : K)           (* given in the s domain (value at the evaluation point) *)
| SAny (v : K)           (* arbitrary time-domain expression: value not determined here *)
| SPhasor (a w : K).     (* phasor a at angular frequency w *)

Fixpoint fofpos (p : positive) : K :=
  match p with xH => 1 | xO p' => (1 + 1) * fofpos p' | xI p' => 1 + (1 + 1) * fofpos p' end.
Definition fofZ (z : Z) : K := match z with Z0 => 0 | Zpos p => fofpos p | Zneg p => - fofpos p end.

Variable keqb : K -> K -> bool.
(* value contributed to the sub-analysis of kind k (s: the Laplace variable,
   w: the angular frequency of an ac analysis); None = not determined by the descriptor alone *)
Definition value_at (d : sdesc) (k : akind) (s w : K) : option K :=
  match d, k with
  | SDc v, KDc => Some v
  | SDc v, KTime => Some v | SStep v, KTime => Some v     (* resistive time-domain analysis, evaluated at an instant t0 > 0 *)
  | SDc v, KIvp => Some (v / s)
  | SDc v, KS => Some 0 | SDc v, KTransient => Some 0 | SDc v, KAc => Some 0
  | SStep v, KS => Some (v / s) | SStep v, KIvp => Some (v / s)
  | SStep v, KTransient => Some (v / s) | SStep v, KLaplace => Some (v / s)
  | SStep v, KDc => Some 0 | SStep v, KAc => Some 0
  | SLap v, KS => Some v | SLap v, KIvp => Some v | SLap v, KTransient => Some v | SLap v, KLaplace => Some v
  | SPhasor a w', KAc => Some (if keqb w w' then a else 0)
  | SPhasor a w', KDc => Some 0
  | _, _ => None
  end.
Definition src_ok (d : sdesc) (k : akind) (s w expected : K) : bool :=
  match value_at d k s w with Some v => keqb v expected | None => true end.
Definition src_determined (d : sdesc) (k : akind) (s w : K) : bool :=
  match value_at d k s w with Some _ => true | None => false end.
End Sources.
Arguments SDc {K}. Arguments SStep {K}. Arguments SLap {K}. Arguments SAny {K}. Arguments SPhasor {K}.

(* exp(j q pi) for half-integer q, on the Gaussian rationals: the argument j*q*pi
   is represented by the purely imaginary number (0, q) (angles in units of pi) *)
Definition quarter (n : Z) : qci :=
  match (n mod 4)%Z with 0%Z => ci1 | 1%Z => cii | 2%Z => ciopp ci1 | _ => ciopp cii end.
Definition Equarter (x : qci) : qci :=
  let q2 := Qcplus (im x) (im x) in
  if qc_eqb (re x) 0%Qc && Pos.eqb (Qden (this q2)) 1 then quarter (Qnum (this q2)) else ci0.
Lemma Equarter_0 : Equarter ci0 = ci1. Proof. reflexivity. Qed.
Lemma Equarter_half : Equarter (cimul cii (qi 1 2 0 1)) = cii. Proof. reflexivity. Qed.
Lemma Equarter_mhalf : Equarter (cimul cii (qi (-1) 2 0 1)) = ciopp cii. Proof. reflexivity. Qed.
Lemma Equarter_one : Equarter (cimul cii (qi 1 1 0 1)) = ciopp ci1. Proof. reflexivity. Qed.
(* on integer quarter turns E is a homomorphism into the unit group *)
Lemma quarter_add a b : quarter (a + b) = cimul (quarter a) (quarter b).
Proof.
  assert (H : forall x y, (0 <= x < 4)%Z -> (0 <= y < 4)%Z ->
              quarter (x + y) = cimul (quarter x) (quarter y)).
  { intros x y Hx Hy.
    assert (Ex : (x = 0 \/ x = 1 \/ x = 2 \/ x = 3)%Z) by Lia.lia.
    assert (Ey : (y = 0 \/ y = 1 \/ y = 2 \/ y = 3)%Z) by Lia.lia.
    destruct Ex as [->|[->|[->| ->]]]; destruct Ey as [->|[->|[->| ->]]];
      apply qci_eq; vm_compute; reflexivity. }
  assert (Q : forall n, quarter n = quarter (n mod 4)).
  { intro n. unfold quarter. rewrite Z.mod_mod by discriminate. reflexivity. }
  rewrite (Q (a + b)%Z), Z.add_mod by discriminate. rewrite <- Q.
  rewrite (Q a), (Q b). apply H; apply Z.mod_pos_bound; reflexivity.
Qed.
