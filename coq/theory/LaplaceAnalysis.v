(* LaplaceAnalysis - the analytic meaning of the algebraic Laplace transform of
   ExpPoly.v: the unilateral Laplace integral  int_0^oo f(t) e^{-st} dt  at a real
   point s, defined with Coquelicot's improper Riemann integral [is_RInt_gen], and

     - linearity, extensionality (values at t <= 0 are ignored), the delay theorem;
     - the table entries  t^n e^{pt},  e^{at} sin(wt+phi),  e^{at} cos(wt+phi),
       ramp, rect, tri, rampstep;
     - THE link:  [L_is_integral]  the algebraic value  rval s l = S c/(s-p)^(n+1)
       of ExpPoly.v, over the reals, IS the Laplace integral of the signal
       S c t^n/n! e^{pt}  for every real s to the right of all poles; and the
       same with delays ([dL_is_integral]).

   Depends only on the axioms of the standard library's classical reals (printed
   by Print Assumptions at the end). *)
From Coq Require Import Reals Lra Lia.
From Coquelicot Require Import Coquelicot.
Require Import LT.FieldSec LT.PolyQ LT.ExpPoly.
Open Scope R_scope.

(* ------------------------------------------------------------------------- *)
(* the unilateral Laplace integral of a classical function at a real point s *)
Definition LT (f : R -> R) (s X : R) : Prop :=
  is_RInt_gen (fun t => f t * exp (- s * t)) (at_point 0) (Rbar_locally p_infty) X.

(* ---- linearity and extensionality ---------------------------------------- *)
Theorem LT_plus f g s X Y : LT f s X -> LT g s Y -> LT (fun t => f t + g t) s (X + Y).
Proof.
  unfold LT. intros Hf Hg.
  apply (is_RInt_gen_ext (fun t => plus (f t * exp (- s * t)) (g t * exp (- s * t)))).
  { apply filter_forall. intros [x y] z _. unfold plus; simpl. ring. }
  apply (is_RInt_gen_plus _ _ _ _ Hf Hg).
Qed.

Theorem LT_scal c f s X : LT f s X -> LT (fun t => c * f t) s (c * X).
Proof.
  unfold LT. intros Hf.
  apply (is_RInt_gen_ext (fun t => scal c (f t * exp (- s * t)))).
  { apply filter_forall. intros [x y] z _. unfold scal; simpl. unfold mult; simpl. ring. }
  apply (is_RInt_gen_scal _ _ _ Hf).
Qed.

Lemma is_RInt_zero (u v : R) : is_RInt (fun _ : R => 0) u v 0.
Proof.
  pose proof (is_RInt_const (V:=R_NormedModule) u v 0) as H.
  unfold scal in H; simpl in H; unfold mult in H; simpl in H.
  rewrite Rmult_0_r in H. exact H.
Qed.

Lemma is_RInt_gen_zero_from (b : R) :
  is_RInt_gen (fun _ : R => 0) (at_point b) (Rbar_locally p_infty) 0.
Proof.
  intros P HP.
  exists (fun x => x = b) (fun _ => True).
  - reflexivity.
  - exists 0. intros; exact I.
  - intros x y -> _. simpl. exists 0. split.
    + apply is_RInt_zero.
    + apply locally_singleton. exact HP.
Qed.

Theorem LT_zero s : LT (fun _ => 0) s 0.
Proof.
  unfold LT.
  apply (is_RInt_gen_ext (fun _ : R => 0)).
  { apply filter_forall. intros [x y] z _. simpl. ring. }
  apply is_RInt_gen_zero_from.
Qed.

(* a property of (a, b) that holds for a = the start point and all b beyond it *)
Lemma filter_prod_from (b : R) (P : R * R -> Prop) :
  (forall y, b < y -> P (b, y)) ->
  filter_prod (at_point b) (Rbar_locally p_infty) P.
Proof.
  intros H.
  exists (fun x => x = b) (fun y => b < y).
  - reflexivity.
  - exists b. intros x Hx; exact Hx.
  - intros x y -> Hy. apply H. exact Hy.
Qed.

Lemma is_RInt_gen_ext_from (b : R) (f g : R -> R) (l : R) :
  (forall t, b < t -> f t = g t) ->
  is_RInt_gen f (at_point b) (Rbar_locally p_infty) l ->
  is_RInt_gen g (at_point b) (Rbar_locally p_infty) l.
Proof.
  intros E. apply is_RInt_gen_ext.
  apply filter_prod_from. intros y Hy x. simpl.
  rewrite Rmin_left by lra. intros [Hx _]. apply E. exact Hx.
Qed.

(* values at t <= 0 are irrelevant *)
Theorem LT_ext f g s X : (forall t, 0 < t -> f t = g t) -> LT f s X -> LT g s X.
Proof.
  intros E. unfold LT. apply is_RInt_gen_ext_from.
  intros t Ht. rewrite (E t Ht). reflexivity.
Qed.

(* a function that vanishes except at one point has integral 0 *)
Lemma is_RInt_zero_but (h : R -> R) (c a b : R) :
  a <= b -> (forall t, a < t < b -> t <> c -> h t = 0) -> is_RInt h a b 0.
Proof.
  intros Hab E.
  assert (Z : forall u v, u <= v -> (forall t, u < t < v -> h t = 0) -> is_RInt h u v 0).
  { intros u v Huv Huv0. apply (is_RInt_ext (fun _ => 0)).
    - rewrite Rmin_left, Rmax_right by lra. intros x Hx. symmetry. apply Huv0. exact Hx.
    - apply is_RInt_zero. }
  destruct (Rle_dec c a) as [Hca|Hca].
  { apply Z; [exact Hab|]. intros t Ht. apply E; lra. }
  destruct (Rle_dec b c) as [Hbc|Hbc].
  { apply Z; [exact Hab|]. intros t Ht. apply E; lra. }
  replace 0 with (plus 0 0) by (unfold plus; simpl; ring).
  apply (is_RInt_Chasles h a c b).
  - apply Z; [lra|]. intros t Ht. apply E; lra.
  - apply Z; [lra|]. intros t Ht. apply E; lra.
Qed.

Lemma is_RInt_ext_but (f g : R -> R) (c a b l : R) :
  a <= b -> (forall t, a < t < b -> t <> c -> f t = g t) -> is_RInt f a b l -> is_RInt g a b l.
Proof.
  intros Hab E Hf.
  apply (is_RInt_ext (fun t => plus (f t) (g t - f t))).
  { intros x _. unfold plus; simpl. ring. }
  replace l with (plus l 0) by (unfold plus; simpl; ring).
  apply (is_RInt_plus (V:=R_NormedModule)); [exact Hf|].
  apply (is_RInt_zero_but _ c); [exact Hab|].
  intros t Ht Hc. rewrite (E t Ht Hc). ring.
Qed.

(* ... and the value at one further point c is irrelevant, too *)
Theorem LT_ext_but (c : R) f g s X :
  (forall t, 0 < t -> t <> c -> f t = g t) -> LT f s X -> LT g s X.
Proof.
  intros E H P HP. destruct (H P HP) as [Q0 R0 HQ HR HH].
  destruct HR as [M HM].
  exists (fun x => x = 0) (fun y => Rmax M 0 < y).
  - reflexivity.
  - exists (Rmax M 0). intros x Hx; exact Hx.
  - intros x y -> Hy. simpl.
    assert (HyM : M < y) by (pose proof (Rmax_l M 0); lra).
    assert (Hy0 : 0 < y) by (pose proof (Rmax_r M 0); lra).
    destruct (HH 0 y HQ (HM y HyM)) as [v [Hv Pv]]. simpl in Hv.
    exists v. split; [|exact Pv].
    apply (is_RInt_ext_but (fun t => f t * exp (- s * t)) _ c 0 y v); [lra| |exact Hv].
    intros t Ht Hc. rewrite (E t); [reflexivity|lra|exact Hc].
Qed.

(* ---- integration of a derivative up to infinity --------------------------- *)
Lemma is_RInt_gen_antideriv (b : R) (g F : R -> R) (l : R) :
  (forall t, is_derive F t (g t)) -> (forall t, continuous g t) ->
  is_lim F p_infty l ->
  is_RInt_gen g (at_point b) (Rbar_locally p_infty) (l - F b).
Proof.
  intros HD HC HL.
  apply (is_RInt_gen_ext (Derive F)).
  { apply filter_forall. intros [x y] z _. apply is_derive_unique. apply HD. }
  apply is_RInt_gen_Derive.
  - apply filter_forall. intros [x y] z _. exists (g z). apply HD.
  - apply filter_forall. intros [x y] z _.
    apply (continuous_ext g).
    { intros t. symmetry. apply is_derive_unique. apply HD. }
    apply HC.
  - intros P HP. unfold filtermap, at_point. apply locally_singleton in HP. exact HP.
  - exact HL.
Qed.

(* ---- limits of decaying exponentials --------------------------------------- *)
Lemma lim_lin_m a : 0 < a -> is_lim (fun t => - a * t) p_infty m_infty.
Proof.
  intros Ha.
  evar (l : Rbar). assert (H : is_lim (fun t => - a * t) p_infty l).
  { unfold l. apply is_lim_scal_l. apply is_lim_id. }
  unfold l in H. simpl in H.
  destruct (Rle_dec 0 (- a)) as [H0|H0]; [lra|]. exact H.
Qed.

Lemma lim_exp a : 0 < a -> is_lim (fun t => exp (- a * t)) p_infty 0.
Proof.
  intros Ha.
  apply (is_lim_comp exp (fun t => - a * t) p_infty 0 m_infty).
  - apply is_lim_exp_m.
  - apply lim_lin_m, Ha.
  - exists 0. intros x _ Hc. discriminate.
Qed.

Lemma lim_t_exp a : 0 < a -> is_lim (fun t => t * exp (- a * t)) p_infty 0.
Proof.
  intros Ha.
  assert (H : is_lim (fun t => (- a * t) * exp (- a * t)) p_infty 0).
  { apply (is_lim_comp (fun y => y * exp y) (fun t => - a * t) p_infty 0 m_infty).
    - apply is_lim_mul_exp_m.
    - apply lim_lin_m, Ha.
    - exists 0. intros x _ Hc. discriminate. }
  apply (is_lim_scal_l _ (- / a)) in H. simpl in H. rewrite Rmult_0_r in H.
  apply (is_lim_ext _ (fun t => t * exp (- a * t))) in H; [exact H|].
  intros y. field. lra.
Qed.

Lemma lim_pow_exp n : forall a, 0 < a -> is_lim (fun t => t ^ n * exp (- a * t)) p_infty 0.
Proof.
  induction n as [|n IH]; intros a Ha.
  - apply (is_lim_ext (fun t => exp (- a * t))); [intros y; simpl; ring|]. apply lim_exp, Ha.
  - assert (Ha2 : 0 < a / 2) by lra.
    pose proof (is_lim_mult _ _ p_infty 0 0 (lim_t_exp _ Ha2) (IH _ Ha2) I) as H.
    simpl in H. rewrite Rmult_0_r in H.
    apply (is_lim_ext _ (fun t => t ^ S n * exp (- a * t))) in H; [exact H|].
    intros y. simpl.
    replace (- a * y) with (- (a / 2) * y + - (a / 2) * y) by field.
    rewrite exp_plus. ring.
Qed.

(* bounded times decaying exponential *)
Lemma lim_exp_bounded a (g : R -> R) (M : R) : 0 < a -> (forall t, Rabs (g t) <= M) ->
  is_lim (fun t => exp (- a * t) * g t) p_infty 0.
Proof.
  intros Ha HM.
  apply (is_lim_le_le_loc (fun t => (- M) * exp (- a * t)) (fun t => M * exp (- a * t))).
  - exists 0. intros t _. specialize (HM t). apply Rabs_le_between in HM.
    pose proof (exp_pos (- a * t)). nra.
  - pose proof (is_lim_scal_l _ (- M) _ _ (lim_exp a Ha)) as H. simpl in H.
    rewrite Rmult_0_r in H. exact H.
  - pose proof (is_lim_scal_l _ M _ _ (lim_exp a Ha)) as H. simpl in H.
    rewrite Rmult_0_r in H. exact H.
Qed.

(* ---- table entry t^n e^{pt} ------------------------------------------------ *)
Lemma INR_fact_nz n : INR (fact n) <> 0.
Proof. apply not_0_INR. apply fact_neq_0. Qed.

Lemma laplace_pow_aux n : forall a, 0 < a ->
  is_RInt_gen (fun t => t ^ n * exp (- a * t)) (at_point 0) (Rbar_locally p_infty)
              (INR (fact n) / a ^ S n).
Proof.
  induction n as [|n IH]; intros a Ha.
  - pose proof (is_RInt_gen_antideriv 0 (fun t => t ^ 0 * exp (- a * t))
                  (fun t => (- 1 / a) * exp (- a * t)) 0) as H.
    replace (INR (fact 0) / a ^ 1) with (0 - (- 1 / a) * exp (- a * 0)).
    2:{ rewrite Rmult_0_r, exp_0. simpl. field. lra. }
    apply H.
    + intros t. auto_derive; [exact I|]. simpl. field. lra.
    + intros t. apply (ex_derive_continuous (fun t => t ^ 0 * exp (- a * t))). auto_derive. exact I.
    + pose proof (is_lim_scal_l _ (- 1 / a) _ _ (lim_exp a Ha)) as L. simpl in L.
      rewrite Rmult_0_r in L. exact L.
  - set (G := fun t => t ^ S n * exp (- a * t)).
    set (dG := fun t => INR (S n) * (t ^ n * exp (- a * t)) - a * (t ^ S n * exp (- a * t))).
    assert (HG : is_RInt_gen dG (at_point 0) (Rbar_locally p_infty) (0 - G 0)).
    { apply is_RInt_gen_antideriv.
      - intros t. unfold G, dG. auto_derive; [exact I|].
        change (match n with 0%nat => 1 | S _ => INR n + 1 end) with (INR (S n)).
        change (t ^ S n) with (t * t ^ n). ring.
      - intros t. apply (ex_derive_continuous dG). unfold dG. auto_derive. exact I.
      - apply (lim_pow_exp (S n) a Ha). }
    pose proof (is_RInt_gen_plus _ _ _ _
                  (is_RInt_gen_scal _ (INR (S n) / a) _ (IH a Ha))
                  (is_RInt_gen_scal _ (- 1 / a) _ HG)) as H.
    assert (G0 : G 0 = 0) by (unfold G; simpl; ring).
    rewrite G0 in H.
    assert (EV : INR (fact (S n)) / a ^ S (S n)
                 = INR (S n) / a * (INR (fact n) / a ^ S n) + - 1 / a * (0 - 0)).
    { rewrite fact_simpl, mult_INR, <- (tech_pow_Rmult a (S n)).
      assert (Hq : a ^ S n <> 0) by (apply pow_nonzero; lra).
      revert Hq. generalize (a ^ S n). intros q Hq.
      generalize (INR (S n)) (INR (fact n)). intros k m. field. split; lra. }
    rewrite EV. revert H. apply is_RInt_gen_ext. apply filter_forall. intros [x y] t _.
    unfold dG, G. change (t ^ S n) with (t * t ^ n). generalize (INR (S n)). intros k.
    unfold plus, scal; simpl. unfold mult; simpl. field. lra.
Qed.

Theorem laplace_tn_exp (n : nat) (p s : R) : p < s ->
  LT (fun t => t ^ n * exp (p * t)) s (INR (fact n) / (s - p) ^ (S n)).
Proof.
  intros H. unfold LT.
  apply (is_RInt_gen_ext (fun t => t ^ n * exp (- (s - p) * t))).
  { apply filter_forall. intros [x y] t _. simpl.
    rewrite Rmult_assoc, <- exp_plus. f_equal. f_equal. ring. }
  apply laplace_pow_aux. lra.
Qed.

(* ---- damped sin / cos with phase ------------------------------------------- *)
Lemma lincomb_bound c w x : Rabs (c * sin x + w * cos x) <= Rabs c + Rabs w.
Proof.
  eapply Rle_trans; [apply Rabs_triang|]. rewrite !Rabs_mult.
  pose proof (SIN_bound x). pose proof (COS_bound x).
  assert (Rabs (sin x) <= 1) by (apply Rabs_le; lra).
  assert (Rabs (cos x) <= 1) by (apply Rabs_le; lra).
  pose proof (Rabs_pos c); pose proof (Rabs_pos w). nra.
Qed.

Lemma lim_exp_lincomb k c u v w phi : 0 < c ->
  is_lim (fun t => k * (exp (- c * t) * (u * sin (w * t + phi) + v * cos (w * t + phi)))) p_infty 0.
Proof.
  intros Hc.
  pose proof (is_lim_scal_l _ k _ _
    (lim_exp_bounded c (fun t => u * sin (w * t + phi) + v * cos (w * t + phi)) _ Hc
       (fun t => lincomb_bound u v (w * t + phi)))) as L.
  simpl in L. rewrite Rmult_0_r in L. exact L.
Qed.

Lemma laplace_sin_aux c w phi : 0 < c ->
  is_RInt_gen (fun t => exp (- c * t) * sin (w * t + phi)) (at_point 0) (Rbar_locally p_infty)
              ((w * cos phi + c * sin phi) / (c ^ 2 + w ^ 2)).
Proof.
  intros Hc.
  assert (HD : c ^ 2 + w ^ 2 <> 0) by nra.
  set (F := fun t => (- 1 / (c ^ 2 + w ^ 2)) *
                     (exp (- c * t) * (c * sin (w * t + phi) + w * cos (w * t + phi)))).
  replace ((w * cos phi + c * sin phi) / (c ^ 2 + w ^ 2)) with (0 - F 0).
  2:{ unfold F. rewrite !Rmult_0_r, Rplus_0_l, exp_0. field. exact HD. }
  apply is_RInt_gen_antideriv.
  - intros t. unfold F. auto_derive; [exact I|]. field. nra.
  - intros t. apply (ex_derive_continuous (fun t => exp (- c * t) * sin (w * t + phi))).
    auto_derive. exact I.
  - apply lim_exp_lincomb. exact Hc.
Qed.

Lemma laplace_cos_aux c w phi : 0 < c ->
  is_RInt_gen (fun t => exp (- c * t) * cos (w * t + phi)) (at_point 0) (Rbar_locally p_infty)
              ((c * cos phi - w * sin phi) / (c ^ 2 + w ^ 2)).
Proof.
  intros Hc.
  assert (HD : c ^ 2 + w ^ 2 <> 0) by nra.
  set (F := fun t => (- 1 / (c ^ 2 + w ^ 2)) *
                     (exp (- c * t) * ((- w) * sin (w * t + phi) + c * cos (w * t + phi)))).
  replace ((c * cos phi - w * sin phi) / (c ^ 2 + w ^ 2)) with (0 - F 0).
  2:{ unfold F. rewrite !Rmult_0_r, Rplus_0_l, exp_0. field. exact HD. }
  apply is_RInt_gen_antideriv.
  - intros t. unfold F. auto_derive; [exact I|]. field. nra.
  - intros t. apply (ex_derive_continuous (fun t => exp (- c * t) * cos (w * t + phi))).
    auto_derive. exact I.
  - apply lim_exp_lincomb. exact Hc.
Qed.

Theorem laplace_sin (a w phi s : R) : a < s ->
  LT (fun t => exp (a * t) * sin (w * t + phi)) s
     ((w * cos phi + (s - a) * sin phi) / ((s - a) ^ 2 + w ^ 2)).
Proof.
  intros H. unfold LT.
  apply (is_RInt_gen_ext (fun t => exp (- (s - a) * t) * sin (w * t + phi))).
  { apply filter_forall. intros [x y] t _. simpl.
    replace (- (s - a) * t) with (a * t + - s * t) by ring. rewrite exp_plus. ring. }
  apply laplace_sin_aux. lra.
Qed.

Theorem laplace_cos (a w phi s : R) : a < s ->
  LT (fun t => exp (a * t) * cos (w * t + phi)) s
     (((s - a) * cos phi - w * sin phi) / ((s - a) ^ 2 + w ^ 2)).
Proof.
  intros H. unfold LT.
  apply (is_RInt_gen_ext (fun t => exp (- (s - a) * t) * cos (w * t + phi))).
  { apply filter_forall. intros [x y] t _. simpl.
    replace (- (s - a) * t) with (a * t + - s * t) by ring. rewrite exp_plus. ring. }
  apply laplace_cos_aux. lra.
Qed.

(* ---- the shift theorem for a delay T >= 0 ---------------------------------- *)
Definition delayed (T : R) (f : R -> R) : R -> R := fun t => if Rlt_dec t T then 0 else f (t - T).

Lemma is_RInt_gen_shift (g : R -> R) (T X : R) :
  is_RInt_gen g (at_point 0) (Rbar_locally p_infty) X ->
  is_RInt_gen (fun t => g (t - T)) (at_point T) (Rbar_locally p_infty) X.
Proof.
  intros H P HP. destruct (H P HP) as [Q0 R0 HQ HR HH].
  destruct HR as [M HM].
  exists (fun x => x = T) (fun y => M + T < y).
  - reflexivity.
  - exists (M + T). intros x Hx; exact Hx.
  - intros x y -> Hy. simpl.
    destruct (HH 0 (y - T) HQ (HM (y - T) ltac:(lra))) as [v [Hv Pv]]. simpl in Hv.
    exists v. split; [|exact Pv].
    apply (is_RInt_ext (fun t => scal 1 (g (1 * t + - T)))).
    { intros t _. unfold scal; simpl. unfold mult; simpl.
      replace (1 * t + - T) with (t - T) by ring. ring. }
    apply (is_RInt_comp_lin g 1 (- T) T y v).
    replace (1 * T + - T) with 0 by ring. replace (1 * y + - T) with (y - T) by ring.
    exact Hv.
Qed.

Theorem LT_delay f s X T : 0 <= T -> LT f s X -> LT (delayed T f) s (exp (- s * T) * X).
Proof.
  intros HT H. unfold LT.
  replace (exp (- s * T) * X) with (0 + exp (- s * T) * X) by ring.
  apply (is_RInt_gen_Chasles (V:=R_NormedModule) _ T 0 (exp (- s * T) * X)).
  - (* [0, T]: the delayed signal vanishes *)
    apply is_RInt_gen_at_point.
    apply (is_RInt_ext (fun _ => 0)); [|apply is_RInt_zero].
    rewrite Rmin_left, Rmax_right by lra. intros t Ht. unfold delayed. cbv beta.
    destruct (Rlt_dec t T) as [_|N]; [symmetry; apply Rmult_0_l | lra].
  - (* [T, oo): a shifted copy *)
    apply (is_RInt_gen_ext_from T
             (fun t => scal (exp (- s * T)) (f (t - T) * exp (- s * (t - T))))).
    { intros t Ht. unfold delayed. destruct (Rlt_dec t T) as [N|_]; [lra|].
      unfold scal; simpl. unfold mult; simpl.
      replace (- s * t) with (- s * T + - s * (t - T)) by ring. rewrite exp_plus. ring. }
    apply (is_RInt_gen_scal (fun t => f (t - T) * exp (- s * (t - T)))).
    apply (is_RInt_gen_shift (fun t => f t * exp (- s * t))). exact H.
Qed.

(* ---- the ramp, and finite-support entries time-scaled by a > 0 -------------- *)
Theorem laplace_ramp (a s : R) : 0 < s -> LT (fun t => a * t) s (a / s ^ 2).
Proof.
  intros Hs.
  replace (a / s ^ 2) with (a * (INR (fact 1) / (s - 0) ^ 2)) by (simpl; field; lra).
  apply (LT_ext (fun t => a * (t ^ 1 * exp (0 * t)))).
  { intros t _. rewrite Rmult_0_l, exp_0. ring. }
  apply LT_scal. apply laplace_tn_exp. exact Hs.
Qed.

Lemma laplace_const (c s : R) : 0 < s -> LT (fun _ => c) s (c / s).
Proof.
  intros Hs.
  replace (c / s) with (c * (INR (fact 0) / (s - 0) ^ 1)) by (simpl; field; lra).
  apply (LT_ext (fun t => c * (t ^ 0 * exp (0 * t)))).
  { intros t _. rewrite Rmult_0_l, exp_0. simpl. ring. }
  apply LT_scal. apply laplace_tn_exp. exact Hs.
Qed.

Definition rect_pos (a t : R) : R := if Rle_dec (a * t) (1 / 2) then 1 else 0.      (* rect(a t) for t >= 0 *)
Definition tri_pos (a t : R) : R := if Rle_dec (a * t) 1 then 1 - a * t else 0.    (* tri(a t) for t >= 0 *)
Definition rampstep_pos (a t : R) : R := if Rle_dec (a * t) 1 then a * t else 1.   (* rampstep(a t) for t >= 0 *)

Theorem laplace_rect (a s : R) : 0 < a -> 0 < s -> LT (rect_pos a) s ((1 - exp (- s / (2 * a))) / s).
Proof.
  intros Ha Hs.
  set (b := 1 / (2 * a)).
  assert (Hab : a * b = 1 / 2) by (unfold b; field; lra).
  assert (Hb : 0 <= b) by (unfold b; apply Rlt_le, Rdiv_lt_0_compat; lra).
  replace ((1 - exp (- s / (2 * a))) / s) with (1 / s + (- 1) * (exp (- s * b) * (1 / s))).
  2:{ replace (- s / (2 * a)) with (- s * b) by (unfold b; field; lra). field. lra. }
  (* the two sides differ at the break point t = b only *)
  apply (LT_ext_but b (fun t => 1 + (- 1) * delayed b (fun _ => 1) t)).
  { intros t Ht Htb. unfold rect_pos, delayed.
    destruct (Rle_dec (a * t) (1 / 2)) as [L|L]; destruct (Rlt_dec t b) as [B|B]; try ring.
    - exfalso. assert (b < t) by lra. nra.
    - exfalso. nra. }
  apply LT_plus; [apply laplace_const, Hs|].
  apply LT_scal. apply LT_delay; [exact Hb|]. apply laplace_const, Hs.
Qed.

Theorem laplace_tri (a s : R) : 0 < a -> 0 < s -> LT (tri_pos a) s (1 / s - a * (1 - exp (- s / a)) / s ^ 2).
Proof.
  intros Ha Hs.
  set (b := 1 / a).
  assert (Hab : a * b = 1) by (unfold b; field; lra).
  assert (Hb : 0 <= b) by (unfold b; apply Rlt_le, Rdiv_lt_0_compat; lra).
  replace (1 / s - a * (1 - exp (- s / a)) / s ^ 2)
    with ((1 / s + (- a) / s ^ 2) + a * (exp (- s * b) * (1 / s ^ 2))).
  2:{ replace (- s / a) with (- s * b) by (unfold b; field; lra). field. lra. }
  apply (LT_ext (fun t => (1 + (- a) * t) + a * delayed b (fun t => 1 * t) t)).
  { intros t Ht. unfold tri_pos, delayed.
    destruct (Rle_dec (a * t) 1) as [L|L]; destruct (Rlt_dec t b) as [B|B].
    - ring.
    - assert (a * t = 1) by nra. nra.
    - exfalso. nra.
    - nra. }
  apply LT_plus; [apply LT_plus; [apply laplace_const, Hs | apply laplace_ramp, Hs]|].
  apply LT_scal. apply LT_delay; [exact Hb|]. apply laplace_ramp, Hs.
Qed.

Theorem laplace_rampstep (a s : R) : 0 < a -> 0 < s -> LT (rampstep_pos a) s (a * (1 - exp (- s / a)) / s ^ 2).
Proof.
  intros Ha Hs.
  set (b := 1 / a).
  assert (Hab : a * b = 1) by (unfold b; field; lra).
  assert (Hb : 0 <= b) by (unfold b; apply Rlt_le, Rdiv_lt_0_compat; lra).
  replace (a * (1 - exp (- s / a)) / s ^ 2)
    with (a / s ^ 2 + (- a) * (exp (- s * b) * (1 / s ^ 2))).
  2:{ replace (- s / a) with (- s * b) by (unfold b; field; lra). field. lra. }
  apply (LT_ext (fun t => a * t + (- a) * delayed b (fun t => 1 * t) t)).
  { intros t Ht. unfold rampstep_pos, delayed.
    destruct (Rle_dec (a * t) 1) as [L|L]; destruct (Rlt_dec t b) as [B|B].
    - ring.
    - assert (a * t = 1) by nra. nra.
    - exfalso. nra.
    - nra. }
  apply LT_plus; [apply laplace_ramp, Hs|].
  apply LT_scal. apply LT_delay; [exact Hb|]. apply laplace_ramp, Hs.
Qed.

(* ---- the reals as an instance of the abstract field ------------------------- *)
Lemma LA_R_iter_pos (p : positive) (a : R) : 0 < a -> 0 < Pos.iter_op Rplus p a.
Proof. revert a. induction p as [p IH|p IH|]; intros a Ha; cbn [Pos.iter_op].
  - assert (0 < Pos.iter_op Rplus p (a + a)) by (apply IH; lra). lra.
  - apply IH; lra.
  - exact Ha. Qed.
Lemma LA_R_char0 (p : positive) : Pos.iter_op Rplus p 1 <> 0.
Proof. pose proof (LA_R_iter_pos p 1 Rlt_0_1). lra. Qed.
Definition RFld : fld :=
  MkFld R 0 1 Rplus Rmult Rminus Ropp Rdiv Rinv Rfield Req_EM_T LA_R_char0.

Lemma fpow_RFld (x : R) (k : nat) : fpow (K:=RFld) x k = x ^ k.
Proof. induction k as [|k IH]; cbn [fpow pow]; [reflexivity | rewrite IH; reflexivity]. Qed.

(* ---- THE link between the algebraic transform of ExpPoly.v and the integral -- *)
Fixpoint sval (l : list (rterm RFld)) (t : R) : R :=
  match l with [] => 0 | (c, n, p) :: l' => c * t ^ n / INR (fact n) * exp (p * t) + sval l' t end.

Theorem L_is_integral (l : list (rterm RFld)) (s : R) :
  (forall c n p, In (c, n, p) l -> p < s) -> LT (sval l) s (rval (K:=RFld) s l).
Proof.
  induction l as [|[[c n] p] l IH]; intros Hp.
  - cbn [sval rval]. apply LT_zero.
  - cbn [sval rval].
    assert (Hps : p < s) by (apply (Hp c n p); left; reflexivity).
    apply (LT_plus (fun t => c * t ^ n / INR (fact n) * exp (p * t)) (sval l)).
    + rewrite fpow_RFld.
      change (@fdiv RFld c (@fsub RFld s p ^ S n)) with (c / (s - p) ^ S n).
      replace (c / (s - p) ^ S n) with (c / INR (fact n) * (INR (fact n) / (s - p) ^ S n)).
      2:{ assert (Hq : (s - p) ^ S n <> 0) by (apply pow_nonzero; lra).
          pose proof (INR_fact_nz n) as Hf. revert Hq Hf.
          generalize ((s - p) ^ S n) (INR (fact n)). intros q m Hq Hm. field. split; assumption. }
      apply (LT_ext (fun t => c / INR (fact n) * (t ^ n * exp (p * t)))).
      { intros t _. pose proof (INR_fact_nz n) as Hf. revert Hf.
        generalize (INR (fact n)) (t ^ n). intros m q Hm. field. exact Hm. }
      apply LT_scal. apply laplace_tn_exp. exact Hps.
    + apply IH. intros c' n' p' Hin. apply (Hp c' n' p'). right. exact Hin.
Qed.

(* ---- with delays: S_i x_i(t - T_i) u(t - T_i) -------------------------------- *)
Fixpoint dsval (X : list (R * list (rterm RFld))) (t : R) : R :=
  match X with [] => 0 | (T, l) :: X' => delayed T (sval l) t + dsval X' t end.
Fixpoint drval (s : R) (X : list (R * list (rterm RFld))) : R :=
  match X with [] => 0 | (T, l) :: X' => exp (- s * T) * rval (K:=RFld) s l + drval s X' end.

Theorem dL_is_integral X s :
  (forall T l, In (T, l) X -> 0 <= T /\ forall c n p, In (c, n, p) l -> p < s) ->
  LT (dsval X) s (drval s X).
Proof.
  induction X as [|[T l] X IH]; intros H.
  - cbn [dsval drval]. apply LT_zero.
  - cbn [dsval drval].
    destruct (H T l (or_introl eq_refl)) as [HT Hl].
    apply (LT_plus (delayed T (sval l)) (dsval X)).
    + apply LT_delay; [exact HT|]. apply L_is_integral. exact Hl.
    + apply IH. intros T' l' Hin. apply (H T' l'). right. exact Hin.
Qed.

Print Assumptions LT_plus.
Print Assumptions LT_scal.
Print Assumptions LT_ext.
Print Assumptions LT_ext_but.
Print Assumptions laplace_tn_exp.
Print Assumptions laplace_sin.
Print Assumptions laplace_cos.
Print Assumptions LT_delay.
Print Assumptions laplace_ramp.
Print Assumptions laplace_rect.
Print Assumptions laplace_tri.
Print Assumptions laplace_rampstep.
Print Assumptions L_is_integral.
Print Assumptions dL_is_integral.
