(* Abstract commutative field with decidable equality, packaged as a record so
   that hand-written theory files and files regenerated from /repo can share
   the notations, the [field]/[ring]/[nsatz] instances and the helper tactics.
   Everything here is axiom-free. *)
From Coq Require Export Field Ring Nsatz ZArith List Bool Lia.
Export ListNotations.

Set Primitive Projections.
Record fld := MkFld {
  car :> Type;
  f0 : car; f1 : car;
  fadd : car -> car -> car; fmul : car -> car -> car; fsub : car -> car -> car;
  fopp : car -> car; fdiv : car -> car -> car; finv : car -> car;
  fth : field_theory f0 f1 fadd fmul fsub fopp fdiv finv (@eq car);
  fdec : forall x y : car, {x = y} + {x <> y};
  (* characteristic zero: 1 + 1 + ... + 1 (p times) is never 0.  Lcapy's
     coefficient domains (rationals, rational functions over Q, Gaussian
     rationals) all have characteristic 0. *)
  fchar0 : forall p : positive, Pos.iter_op fadd p f1 <> f0
}.
Unset Primitive Projections.
Arguments f0 {_}. Arguments f1 {_}. Arguments fadd {_}. Arguments fmul {_}.
Arguments fsub {_}. Arguments fopp {_}. Arguments fdiv {_}. Arguments finv {_}.

Declare Scope F_scope. Delimit Scope F_scope with F.
Notation "0" := f0 : F_scope. Notation "1" := f1 : F_scope.
Notation "2" := (fadd f1 f1) : F_scope.
Infix "+" := fadd : F_scope. Infix "*" := fmul : F_scope. Infix "-" := fsub : F_scope.
Infix "/" := fdiv : F_scope. Notation "- x" := (fopp x) : F_scope.

Section Inst.
Variable K : fld.
Add Field KF : (fth K).
Local Open Scope F_scope.

Lemma mul_nz (x y : K) : x <> 0 -> y <> 0 -> x * y <> 0.
Proof. intros Hx Hy E. apply Hx. transitivity (x * y / y); [field; exact Hy | rewrite E; field; exact Hy]. Qed.
Lemma opp_nz (x : K) : x <> 0 -> - x <> 0.
Proof. intros Hx E. apply Hx. transitivity (- - x); [ring | rewrite E; ring]. Qed.
Lemma div_nz (x y : K) : x <> 0 -> y <> 0 -> x / y <> 0.
Proof. intros Hx Hy E. apply Hx. transitivity (x / y * y); [field; exact Hy | rewrite E; ring]. Qed.
Lemma one_nz : (1 : K) <> 0.
Proof. exact (F_1_neq_0 (fth K)). Qed.
Lemma mul_nz_l (x y : K) : x * y <> 0 -> x <> 0.
Proof. intros H E. apply H. rewrite E. ring. Qed.
Lemma mul_nz_r (x y : K) : x * y <> 0 -> y <> 0.
Proof. intros H E. apply H. rewrite E. ring. Qed.
Lemma nz_eq (p q : K) : q <> 0 -> p = q -> p <> 0.
Proof. intros H E. rewrite E. exact H. Qed.
Lemma nz_eq_opp (p q : K) : q <> 0 -> p = - q -> p <> 0.
Proof. intros H E. rewrite E. apply opp_nz. exact H. Qed.
Lemma inv_wit (a : K) : a <> 0 -> exists b, a * b = 1.
Proof. intros H. exists (1 / a). field. exact H. Qed.
Lemma mul_eq0 (x y : K) : x * y = 0 -> x = 0 \/ y = 0.
Proof. intros E. destruct (fdec K x 0) as [|Hx]; [left; assumption|].
  destruct (fdec K y 0) as [|Hy]; [right; assumption|]. exfalso; exact (mul_nz _ _ Hx Hy E). Qed.

Global Instance Fops : @Ring_ops K 0 1 fadd fmul fsub fopp (@eq K) := {}.
Ltac unf := cbv [eq_notation add_notation mul_notation sub_notation opp_notation
  zero_notation one_notation equality addition multiplication subtraction opposite Fops zero one] in *.
Global Instance Fring : Ring (Ro:=Fops).
Proof. constructor; try exact eq_equivalence; repeat intro; unf; subst; try reflexivity; try ring. Qed.
Global Instance Fcring : Cring (Rr:=Fring).
Proof. intros x y; unf; ring. Qed.
Global Instance Fid : Integral_domain (Rcr:=Fcring).
Proof. constructor. - intros x y E; unf. exact (mul_eq0 _ _ E). - unf. exact one_nz. Qed.

(* integer constants met by nsatz certificates are non-zero (characteristic 0) *)
Lemma IPR_iter (p : positive) (a : K) : Pos.iter_op fadd p a = IPR (Ro:=Fops) p * a.
Proof.
  revert a. induction p as [p IH|p IH|]; intros a; cbn [Pos.iter_op].
  - rewrite IH. destruct p; cbn [IPR]; unfold R2; unf; ring.
  - rewrite IH. destruct p; cbn [IPR]; unfold R2; unf; ring.
  - cbn [IPR]. unf. ring.
Qed.
Lemma IPR_nz (p : positive) : IPR (Ro:=Fops) p <> 0.
Proof. intros E. apply (fchar0 K p). rewrite IPR_iter, E. ring. Qed.
Lemma IZR1_nz (z : Z) : z <> 0%Z -> IZR1 (Ro:=Fops) z <> 0.
Proof. destruct z as [|p|p]; intros H; cbn [IZR1].
  - congruence. - apply IPR_nz. - apply opp_nz. apply IPR_nz. Qed.
Lemma nsatz_const_nz (z : Z) (fv : list K) : z <> 0%Z -> ~ _==_ (interpret3 (Ro:=Fops) (PEc z) fv) zero.
Proof. intros H. cbn [interpret3]. unf. apply IZR1_nz. exact H. Qed.
End Inst.
(* nsatz, closing the "c <> 0" goal it leaves when its certificate needs an
   integer multiplier c *)
Ltac knsatz := solve [ nsatz; try (apply nsatz_const_nz; discriminate) ].

(* --- helper tactics ------------------------------------------------------ *)
(* [nz]: discharge the non-vanishing side conditions produced by [field] from
   hypotheses of the form [p <> 0] (up to ring equality, sign and products). *)
Ltac nz_close q Hq :=
  first [ apply (nz_eq _ _ q Hq); ring | apply (nz_eq_opp _ _ q Hq); ring ].
Ltac nz_atom :=
  match goal with
  | |- ?p <> _ =>
      first
      [ assumption
      | apply one_nz
      | match goal with H : ?q <> _ |- _ => nz_close q H end
      | match goal with H : fmul ?q _ <> _ |- _ => nz_close q (mul_nz_l _ _ _ H) end
      | match goal with H : fmul _ ?q <> _ |- _ => nz_close q (mul_nz_r _ _ _ H) end
      | match goal with H : ?a <> _ |- _ => nz_close (fmul a a) (mul_nz _ _ _ H H) end
      | match goal with H1 : ?a <> _, H2 : ?b <> _ |- _ => nz_close (fmul a b) (mul_nz _ _ _ H1 H2) end
      | match goal with H1 : ?a <> _, H2 : ?b <> _ |- _ =>
          nz_close (fmul (fmul a a) b) (mul_nz _ _ _ (mul_nz _ _ _ H1 H1) H2) end
      | match goal with H1 : ?a <> _, H2 : ?b <> _, H3 : ?c <> _ |- _ =>
          nz_close (fmul (fmul a b) c) (mul_nz _ _ _ (mul_nz _ _ _ H1 H2) H3) end ]
  end.
(* general case (Rabinowitsch trick): replace every hypothesis a <> 0 by a
   witness b with a * b = 1, then 1 = 0 follows from p = 0 by a Groebner
   certificate whenever p is a product of the a's up to a unit *)
Ltac wit_all :=
  repeat match goal with H : ?a <> _ |- _ =>
     let b := fresh "b" in let Hb := fresh "Hb" in
     destruct (inv_wit _ a H) as [b Hb]; clear H end.
(* try the witness of one non-vanishing hypothesis at a time (backtracking) *)
Ltac wit_one_then tac :=
  match goal with H : ?a <> _ |- _ =>
     let b := fresh "b" in let Hb := fresh "Hb" in
     destruct (inv_wit _ a H) as [b Hb]; tac end.
Ltac subst_zero_vars :=
  repeat match goal with H : ?x = f0 |- _ => is_var x; subst x end.
Ltac nz_rabin :=
  let E := fresh "E" in intro E;
  wit_all;
  exfalso;
  match type of E with @eq (car ?K) _ _ => apply (one_nz K) end; knsatz.
Ltac nz1 :=
  first [ nz_atom
        | apply mul_nz; nz1
        | apply opp_nz; nz1
        | apply div_nz; nz1
        | nz_rabin ].
Ltac nz := repeat match goal with |- _ /\ _ => split end; nz1.
(* an equation of field expressions, side conditions from the context *)
Ltac fsolve := first [ ring | field; nz ].

(* --- executable instance: canonical rationals ---------------------------- *)
From Coq Require Export QArith Qcanon.
Lemma Qc_iter_pos (p : positive) (a : Qc) : (0 < a)%Qc -> (0 < Pos.iter_op Qcplus p a)%Qc.
Proof.
  assert (Hadd : forall x y : Qc, (0 < x)%Qc -> (0 < y)%Qc -> (0 < x + y)%Qc).
  { intros x y Hx Hy. unfold Qclt in *.
    change (this (x + y)%Qc) with (Qred (this x + this y)).
    rewrite Qred_correct.
    apply Qlt_le_trans with (this x + 0)%Q; [rewrite Qplus_0_r; exact Hx|].
    apply (proj2 (Qplus_le_r _ _ _)). apply Qlt_le_weak. exact Hy. }
  revert a. induction p as [p IH|p IH|]; intros a Ha; cbn [Pos.iter_op].
  - apply Hadd; [exact Ha|]. apply IH. apply Hadd; exact Ha.
  - apply IH. apply Hadd; exact Ha.
  - exact Ha.
Qed.
Lemma Qc_char0 (p : positive) : Pos.iter_op Qcplus p 1%Qc <> 0%Qc.
Proof. intros E. pose proof (Qc_iter_pos p 1%Qc eq_refl) as H. rewrite E in H. exact (Qclt_not_eq _ _ H eq_refl). Qed.
Definition QcF : fld :=
  MkFld Qc 0%Qc 1%Qc Qcplus Qcmult Qcminus Qcopp Qcdiv Qcinv Qcft Qc_eq_dec Qc_char0.
Definition qc (n : Z) (d : positive) : Qc := Q2Qc (Qmake n d).
Definition qc_eqb (a b : Qc) : bool := Qeq_bool a b.
Lemma qc_eqb_eq a b : qc_eqb a b = true <-> a = b.
Proof. unfold qc_eqb. split.
  - intros H. apply Qc_is_canon. apply Qeq_bool_iff. exact H.
  - intros ->. apply Qeq_bool_iff. reflexivity. Qed.
Lemma qc_neq (a b : Qc) : qc_eqb a b = false -> a <> b.
Proof. intros H E. apply qc_eqb_eq in E. congruence. Qed.
