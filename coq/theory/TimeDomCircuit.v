(* TimeDomCircuit — the PHYSICAL time-domain semantics of every component kind that
   C02 covers, over the signal algebra of ExpPoly.v, and its transfer to the
   s-domain semantics [drawn_*]/[brel_*] of Circuit.v (which C01 proves the MNA
   stamps realise).                                                   (property C02)

   A time-domain element [tctx] carries
     t_op  n = (a, b)   the parameter n as the operator  a + b·d/dt
                        (R: Y = (1/R, 0); C: Y = (0, C); L: Z = (0, L); K: ZM = (0, M);
                         gains: (g, 0)),
     t_src n            the signal whose image is the s-domain source parameter
                        (V/I sources: the source waveform; C with initial voltage
                         v0: Isc ≙ C·v0·δ(t); L with initial current i0: Voc ≙ -L·i0·δ(t)),
     t_ic1, t_ic2       (K only) the initial currents of the two coupled inductors.
   d/dt is the distributional derivative D of x·u(t), so the laws below are the
   textbook ODEs for t > 0 together with the initial state:
       C:  i = C (D v - v0 δ)         L:  v = L (D i - i0 δ) + Σ M (D i_k - i0_k δ)
   written from circuit theory, not from the stamps.

   [ctx_at s e] is the s-domain context at the point s: operator (a, b) ↦ a + b·s,
   source signal ↦ its image Lval s.

   Main theorems
     drawn_transfer / brel_transfer   Lval s (tdrawn cl e v ib r) = drawn_cl (ctx_at s e) (Lval s∘v) (Lval s∘ib) r
                                      for every supported class, every node/branch index
     (netlist level: props/C02net.v, on top of the regenerated C01 files) *)
Require Import LT.FieldSec LT.PolyQ LT.ExpPoly LT.Circuit LT.TimeDom.
Local Open Scope F_scope.
Local Open Scope Z_scope.

Record tctx (K : fld) := TCtx {
  t_kind : akind; t_typ : ctype;
  tp0 : Z; tp1 : Z; tp2 : Z; tp3 : Z; tc0 : Z; tc1 : Z;
  tbown : Z; tbextra : Z; tbctrl : Z; tbL1 : Z; tbL2 : Z;
  t_has_ic : bool; t_ctrl_is_vsrc : bool; t_has_arg1 : bool;
  t_op : pname -> K * K;
  t_src : pname -> sig K;
  t_ic1 : K; t_ic2 : K
}.
Arguments t_kind {K}. Arguments t_typ {K}. Arguments tp0 {K}. Arguments tp1 {K}. Arguments tp2 {K}. Arguments tp3 {K}.
Arguments tc0 {K}. Arguments tc1 {K}. Arguments tbown {K}. Arguments tbextra {K}. Arguments tbctrl {K}. Arguments tbL1 {K}. Arguments tbL2 {K}.
Arguments t_has_ic {K}. Arguments t_ctrl_is_vsrc {K}. Arguments t_has_arg1 {K}. Arguments t_op {K}. Arguments t_src {K}.
Arguments t_ic1 {K}. Arguments t_ic2 {K}.

Section TC.
Variable K : fld.
Add Field KFtc : (fth K).
Notation sig := (sig K).
Notation tctx := (tctx K).

Definition is_srcp (n : pname) : bool := match n with pIsc | pVoc => true | _ => false end.
(* K: the mutual operator M·d/dt; its d/dt coefficient is the mutual inductance M (parameter pZM2 of the stamp) *)
Definition tM (e : tctx) : K * K := if akind_eqb (t_kind e) KS || akind_eqb (t_kind e) KIvp || akind_eqb (t_kind e) KLaplace || akind_eqb (t_kind e) KTransient then t_op e pZM0 else t_op e pZM1.
Definition ctx_at (s : K) (e : tctx) : sctx K :=
  SCtx K (t_kind e) (t_typ e) (tp0 e) (tp1 e) (tp2 e) (tp3 e) (tc0 e) (tc1 e)
       (tbown e) (tbextra e) (tbctrl e) (tbL1 e) (tbL2 e)
       (t_has_ic e) (t_ctrl_is_vsrc e) (t_has_arg1 e) false
       (fun n => match n with
                 | pZM2 => snd (tM e) | pI01 => t_ic1 e | pI02 => t_ic2 e
                 | _ => if is_srcp n then Lval s (t_src e n) else fadd (fst (t_op e n)) (fmul (snd (t_op e n)) s)
                 end).

(* kinds in which Lcapy solves in the Laplace domain *)
Definition skind (k : akind) : bool :=
  match k with KS | KIvp | KLaplace | KTransient => true | _ => false end.

Definition app_op (ab : K * K) (x : sig) : sig := opD (fst ab) (snd ab) x.
Definition tvv (v : Z -> sig) (n : Z) : sig := if 0 <=? n then v n else szero.
Definition tthru (a b r : Z) (i : sig) : sig := sscale (fsub (ind a r) (ind b r)) i.
Definition tind (a r : Z) (x : sig) : sig := sscale (ind a r) x.
Definition tdV01 (e : tctx) (v : Z -> sig) : sig := ssub (tvv v (tp0 e)) (tvv v (tp1 e)).
Definition tdV23 (e : tctx) (v : Z -> sig) : sig := ssub (tvv v (tp2 e)) (tvv v (tp3 e)).
Definition ivp_ic (e : tctx) : bool := akind_eqb (t_kind e) KIvp && t_has_ic e.

(* R, C, Y: i = Y(d/dt) (v+ - v-) - [initial-condition source];  C: i = C (D v - v0 δ) *)
Definition tdrawn_RC (e : tctx) (v ib : Z -> sig) (r : Z) : sig :=
  tthru (tp0 e) (tp1 e) r (ssub (app_op (t_op e pY) (tdV01 e v)) (if ivp_ic e then t_src e pIsc else szero)).
Definition tbrel_0 (e : tctx) (v ib : Z -> sig) (q : Z) : sig := szero.
(* L: v+ - v- = Z(d/dt) i_L + [Voc],  Voc ≙ -L i0 δ *)
Definition tdrawn_own (e : tctx) (v ib : Z -> sig) (r : Z) : sig := tthru (tp0 e) (tp1 e) r (ib (tbown e)).
Definition tbrel_L (e : tctx) (v ib : Z -> sig) (q : Z) : sig :=
  tind (tbown e) q (ssub (ssub (tdV01 e v) (app_op (t_op e pZ) (ib (tbown e)))) (if ivp_ic e then t_src e pVoc else szero)).
(* V: v+ - v- = vs(t);  AM: 0 V *)
Definition tbrel_V (e : tctx) (v ib : Z -> sig) (q : Z) : sig := tind (tbown e) q (ssub (tdV01 e v) (t_src e pVoc)).
Definition tbrel_AM (e : tctx) (v ib : Z -> sig) (q : Z) : sig := tind (tbown e) q (tdV01 e v).
(* I: injects is(t) into node + *)
Definition tdrawn_I (e : tctx) (v ib : Z -> sig) (r : Z) : sig := tthru (tp0 e) (tp1 e) r (sneg (t_src e pIsc)).
(* VCVS *)
Definition tAc (e : tctx) : K := if t_has_arg1 e then fst (t_op e pArg1) else f0.
Definition tbrel_VCVS (e : tctx) (v ib : Z -> sig) (q : Z) : sig :=
  tind (tbown e) q (ssub (ssub (tdV01 e v) (sscale (fst (t_op e pArg0)) (tdV23 e v)))
                         (sscale (fdiv (tAc e) (fadd f1 f1)) (sadd (tvv v (tp2 e)) (tvv v (tp3 e))))).
(* VCCS: injects G (vc+ - vc-) into node + *)
Definition tdrawn_VCCS (e : tctx) (v ib : Z -> sig) (r : Z) : sig :=
  tthru (tp0 e) (tp1 e) r (sneg (sscale (fst (t_op e pArg0)) (tdV23 e v))).
(* CCCS: draws F i_ctrl at + *)
Definition tdrawn_CCCS (e : tctx) (v ib : Z -> sig) (r : Z) : sig :=
  tthru (tp0 e) (tp1 e) r (sscale (fst (t_op e pArg1)) (ib (tbctrl e))).
(* CCVS: v+ - v- = H i_ctrl (the controlling element must be a voltage source, as for CCCS) *)
Definition tdrawn_CCVS (e : tctx) (v ib : Z -> sig) (r : Z) : sig := tthru (tp0 e) (tp1 e) r (ib (tbown e)).
Definition tbrel_CCVS (e : tctx) (v ib : Z -> sig) (q : Z) : sig :=
  tind (tbown e) q (ssub (tdV01 e v) (sscale (fst (t_op e pArg1)) (ib (tbctrl e)))).
(* K: adds -M (D i_2 - i02 δ) to L1's relation and -M (D i_1 - i01 δ) to L2's  (PHYSICS: the
   flux of the partner's initial current is part of the relation) *)
Definition tbrel_K (e : tctx) (v ib : Z -> sig) (q : Z) : sig :=
  sadd (tind (tbL1 e) q (sneg (ssub (app_op (tM e) (ib (tbL2 e))) (sdelta (fmul (snd (tM e)) (t_ic2 e))))))
       (tind (tbL2 e) q (sneg (ssub (app_op (tM e) (ib (tbL1 e))) (sdelta (fmul (snd (tM e)) (t_ic1 e)))))).
(* ideal transformer *)
Definition tdrawn_TF (e : tctx) (v ib : Z -> sig) (r : Z) : sig :=
  sadd (tthru (tp0 e) (tp1 e) r (ib (tbown e))) (tthru (tp2 e) (tp3 e) r (sneg (sscale (fst (t_op e pAlpha)) (ib (tbown e))))).
Definition tbrel_TF (e : tctx) (v ib : Z -> sig) (q : Z) : sig :=
  tind (tbown e) q (ssub (tdV01 e v) (sscale (fst (t_op e pAlpha)) (tdV23 e v))).
(* gyrator *)
Definition tdrawn_GY (e : tctx) (v ib : Z -> sig) (r : Z) : sig :=
  sadd (tthru (tp0 e) (tp1 e) r (ib (tbown e))) (tthru (tp2 e) (tp3 e) r (ib (tbextra e))).
Definition tbrel_GY (e : tctx) (v ib : Z -> sig) (q : Z) : sig :=
  sadd (tind (tbextra e) q (sadd (tdV01 e v) (sscale (fst (t_op e pArg0)) (ib (tbextra e)))))
       (tind (tbown e) q (ssub (tdV23 e v) (sscale (fst (t_op e pArg0)) (ib (tbown e))))).

(* ---- transfer ------------------------------------------------------------------------------------- *)
Variable s : K.
Variables v ib : Z -> sig.
Hypothesis Hv : forall n, pole_free s (v n).
Hypothesis Hib : forall j, pole_free s (ib j).
Notation Lv := (fun n => Lval s (v n)).
Notation Lib := (fun j => Lval s (ib j)).

Lemma pole_free_szero : pole_free s (szero (K:=K)).
Proof. intros c n p []. Qed.
Lemma pole_free_sscale a x : pole_free s x -> pole_free s (sscale a x).
Proof. intros H c n p Hin. unfold sscale, rscale in Hin. cbn [reg] in Hin. apply in_map_iff in Hin. destruct Hin as [[[c' n'] p'] [E Hin]].
  inversion E; subst. exact (H c' n p Hin). Qed.
Lemma pole_free_ssub x y : pole_free s x -> pole_free s y -> pole_free s (ssub x y).
Proof. intros Hx Hy. unfold ssub, sneg. apply pole_free_sadd; [exact Hx | apply pole_free_sscale; exact Hy]. Qed.
Lemma pole_free_tvv n : pole_free s (tvv v n).
Proof. unfold tvv. destruct (0 <=? n); [apply Hv | apply pole_free_szero]. Qed.
Lemma Lval_tvv n : Lval s (tvv v n) = vv Lv n.
Proof. unfold tvv, vv. destruct (0 <=? n); [reflexivity | apply Lval_szero]. Qed.
Lemma Lval_ssub x y : Lval s (ssub x y) = fsub (Lval s x) (Lval s y).
Proof. unfold ssub, sneg. rewrite Lval_sadd, Lval_sscale. ring. Qed.
Lemma Lval_sneg x : Lval s (sneg x) = fopp (Lval s x).
Proof. unfold sneg. rewrite Lval_sscale. ring. Qed.
Lemma Lval_sdelta a : Lval s (sdelta a) = a.
Proof. unfold Lval, sdelta. cbn [sing reg peval rval]. ring. Qed.
Lemma Lval_app_op ab x : pole_free s x -> Lval s (app_op ab x) = fmul (fadd (fst ab) (fmul (snd ab) s)) (Lval s x).
Proof. intros H. unfold app_op. apply Lval_opD. exact H. Qed.
Lemma Lval_tthru a b r i : Lval s (tthru a b r i) = thru a b r (Lval s i).
Proof. unfold tthru, thru. apply Lval_sscale. Qed.
Lemma Lval_tind a r x : Lval s (tind a r x) = fmul (ind a r) (Lval s x).
Proof. unfold tind. apply Lval_sscale. Qed.
Lemma Lval_tdV01 e : Lval s (tdV01 e v) = dV01 (ctx_at s e) Lv.
Proof. unfold tdV01, dV01. rewrite Lval_ssub, !Lval_tvv. reflexivity. Qed.
Lemma Lval_tdV23 e : Lval s (tdV23 e v) = dV23 (ctx_at s e) Lv.
Proof. unfold tdV23, dV23. rewrite Lval_ssub, !Lval_tvv. reflexivity. Qed.
Lemma pf_tdV01 e : pole_free s (tdV01 e v).
Proof. unfold tdV01. apply pole_free_ssub; apply pole_free_tvv. Qed.
Lemma pf_tdV23 e : pole_free s (tdV23 e v).
Proof. unfold tdV23. apply pole_free_ssub; apply pole_free_tvv. Qed.

Ltac push :=
  repeat first [ rewrite Lval_tthru | rewrite Lval_tind | rewrite Lval_ssub | rewrite Lval_sneg | rewrite Lval_sadd
               | rewrite Lval_sscale | rewrite Lval_sdelta | rewrite Lval_szero | rewrite Lval_tdV01 | rewrite Lval_tdV23
               | rewrite Lval_tvv
               | rewrite Lval_app_op by first [ apply pf_tdV01 | apply pf_tdV23 | apply Hib | apply Hv ] ].

Theorem transfer_RC e r : akind_eqb (t_kind e) KDc = false ->
  Lval s (tdrawn_RC e v ib r) = drawn_RC (ctx_at s e) Lv Lib r.
Proof. intros Hk. unfold tdrawn_RC, drawn_RC, Yeff, ivp_ic. cbn [ctx_at kind typ has_ic par p0 p1 is_srcp]. rewrite Hk, andb_false_r.
  destruct (akind_eqb (t_kind e) KIvp && t_has_ic e); push; reflexivity. Qed.
Theorem transfer_own e r : Lval s (tdrawn_own e v ib r) = drawn_L (ctx_at s e) Lv Lib r.
Proof. unfold tdrawn_own, drawn_L. push. reflexivity. Qed.
Theorem transfer_L e q : akind_eqb (t_kind e) KDc = false ->
  Lval s (tbrel_L e v ib q) = brel_L (ctx_at s e) Lv Lib q.
Proof. intros Hk. unfold tbrel_L, brel_L, ivp_ic. cbn [ctx_at kind has_ic par bown is_srcp]. rewrite Hk.
  destruct (akind_eqb (t_kind e) KIvp && t_has_ic e); push; reflexivity. Qed.
Theorem transfer_V e q : Lval s (tbrel_V e v ib q) = brel_V (ctx_at s e) Lv Lib q.
Proof. unfold tbrel_V, brel_V. push. reflexivity. Qed.
Theorem transfer_AM e q : Lval s (tbrel_AM e v ib q) = brel_AM (ctx_at s e) Lv Lib q.
Proof. unfold tbrel_AM, brel_AM. push. reflexivity. Qed.
Theorem transfer_I e r : Lval s (tdrawn_I e v ib r) = drawn_I (ctx_at s e) Lv Lib r.
Proof. unfold tdrawn_I, drawn_I. push. reflexivity. Qed.
Definition gain_const (e : tctx) (n : pname) : Prop := snd (t_op e n) = f0.
Lemma two_nz : fadd f1 f1 <> (f0 : K).
Proof. exact (fchar0 K 2%positive). Qed.
Theorem transfer_VCVS e q : gain_const e pArg0 -> gain_const e pArg1 ->
  Lval s (tbrel_VCVS e v ib q) = brel_VCVS (ctx_at s e) Lv Lib q.
Proof. unfold gain_const. intros H0 H1. unfold tbrel_VCVS, brel_VCVS, tAc, Ac. cbn [ctx_at par has_arg1 bown p2 p3 is_srcp]. rewrite H0, H1. push.
  pose proof two_nz. destruct (t_has_arg1 e); field; assumption. Qed.
Theorem transfer_VCCS e r : gain_const e pArg0 ->
  Lval s (tdrawn_VCCS e v ib r) = drawn_VCCS (ctx_at s e) Lv Lib r.
Proof. unfold gain_const. intros H0. unfold tdrawn_VCCS, drawn_VCCS. cbn [ctx_at par p0 p1 is_srcp]. rewrite H0. push. unfold thru. ring. Qed.
Theorem transfer_CCCS e r : gain_const e pArg1 ->
  Lval s (tdrawn_CCCS e v ib r) = drawn_CCCS (ctx_at s e) Lv Lib r.
Proof. unfold gain_const. intros H1. unfold tdrawn_CCCS, drawn_CCCS. cbn [ctx_at par p0 p1 bctrl is_srcp]. rewrite H1. push. unfold thru. ring. Qed.
Theorem transfer_CCVS_d e r : Lval s (tdrawn_CCVS e v ib r) = drawn_CCVS (ctx_at s e) Lv Lib r.
Proof. unfold tdrawn_CCVS, drawn_CCVS. cbn [ctx_at p0 p1 bown]. push. reflexivity. Qed.
Theorem transfer_CCVS_b e q : gain_const e pArg1 ->
  Lval s (tbrel_CCVS e v ib q) = brel_CCVS (ctx_at s e) Lv Lib q.
Proof. unfold gain_const. intros H1. unfold tbrel_CCVS, brel_CCVS. cbn [ctx_at par bown bctrl is_srcp]. rewrite H1.
  push; ring. Qed.
(* the stamp carries the flux M·i0k of the partner's initial current in an initial value analysis
   (kind ivp); in the other Laplace-domain kinds Lcapy has no initial conditions, so physics and
   code agree there when the coupled inductors start at zero current *)
Definition k_ic_free (e : tctx) : Prop := t_ic1 e = f0 /\ t_ic2 e = f0.
Definition k_ic_ok (e : tctx) : Prop := akind_eqb (t_kind e) KIvp = true \/ k_ic_free e.
Theorem transfer_K e q : akind_eqb (t_kind e) KDc = false -> k_ic_ok e ->
  Lval s (tbrel_K e v ib q) = brel_K (ctx_at s e) Lv Lib q.
Proof. intros Hk Hic. unfold tbrel_K, brel_K, MI, ZM. cbn [ctx_at kind par bL1 bL2 is_srcp]. rewrite Hk.
  destruct Hic as [Hi|[H1 H2]].
  - unfold tM. destruct (t_kind e); cbn [akind_eqb orb andb] in *; try discriminate; push; ring.
  - rewrite H1, H2. unfold tM. destruct (t_kind e); cbn [akind_eqb orb andb] in *; try discriminate; push; ring. Qed.
Theorem transfer_TF_d e r : gain_const e pAlpha -> Lval s (tdrawn_TF e v ib r) = drawn_TF (ctx_at s e) Lv Lib r.
Proof. unfold gain_const. intros H. unfold tdrawn_TF, drawn_TF. cbn [ctx_at par p0 p1 p2 p3 bown is_srcp]. rewrite H. push. unfold thru. ring. Qed.
Theorem transfer_TF_b e q : gain_const e pAlpha -> Lval s (tbrel_TF e v ib q) = brel_TF (ctx_at s e) Lv Lib q.
Proof. unfold gain_const. intros H. unfold tbrel_TF, brel_TF. cbn [ctx_at par bown is_srcp]. rewrite H. push. ring. Qed.
Theorem transfer_GY_d e r : Lval s (tdrawn_GY e v ib r) = drawn_GY (ctx_at s e) Lv Lib r.
Proof. unfold tdrawn_GY, drawn_GY. push. reflexivity. Qed.
Theorem transfer_GY_b e q : gain_const e pArg0 -> Lval s (tbrel_GY e v ib q) = brel_GY (ctx_at s e) Lv Lib q.
Proof. unfold gain_const. intros H. unfold tbrel_GY, brel_GY. cbn [ctx_at par bown bextra is_srcp]. rewrite H. push. ring. Qed.
Theorem transfer_0 e q : Lval s (tbrel_0 e v ib q) = f0.
Proof. apply Lval_szero. Qed.

End TC.

Arguments ctx_at {K}. Arguments app_op {K}. Arguments tvv {K}. Arguments tthru {K}. Arguments tind {K}. Arguments tdV01 {K}. Arguments tdV23 {K}.
Arguments tdrawn_RC {K}. Arguments tbrel_0 {K}. Arguments tdrawn_own {K}. Arguments tbrel_L {K}. Arguments tbrel_V {K}. Arguments tbrel_AM {K}.
Arguments tdrawn_I {K}. Arguments tbrel_VCVS {K}. Arguments tdrawn_VCCS {K}. Arguments tdrawn_CCCS {K}. Arguments tdrawn_CCVS {K}. Arguments tbrel_CCVS {K}.
Arguments tbrel_K {K}. Arguments tdrawn_TF {K}. Arguments tbrel_TF {K}. Arguments tdrawn_GY {K}. Arguments tbrel_GY {K}.
Arguments gain_const {K}. Arguments k_ic_free {K}. Arguments k_ic_ok {K}. Arguments ivp_ic {K}. Arguments tM {K}.
