(* C17 - time-stepping part: vocabulary for the definitions regenerated from
   lcapy/simulator.py / lcapy/mnacpts.py by tools/tr_numsim.py.  Axiom-free. *)
From Coq Require Import ZArith List Bool.
Import ListNotations.
Require Import LT.FieldSec LT.NumEval.

(* nodes of a two-terminal reactive component and of its Thevenin companion:
   N1 = first node, N2 = second node, N3 = the dummy node between Req and Veq *)
Inductive cnode := N1 | N2 | N3.
Inductive csign := Plus | Minus.
Record companion := MkCompanion { r_from : cnode; r_to : cnode; v_plus : cnode; v_minus : cnode }.

Definition cnode_eqb (a b : cnode) : bool :=
  match a, b with N1, N1 | N2, N2 | N3, N3 => true | _, _ => false end.
Definition companion_ok (c : companion) : bool :=
  cnode_eqb (r_from c) N1 && cnode_eqb (r_to c) N3 && cnode_eqb (v_plus c) N3 && cnode_eqb (v_minus c) N2.

Section Sim.
Variable K : fld.
Add Field KFsim : (fth K).
Local Open Scope F_scope.

Lemma two_nz : (1 + 1 : K) <> 0.
Proof. exact (fchar0 K 2%positive). Qed.
Lemma three_nz : (1 + (1 + 1) : K) <> 0.
Proof. exact (fchar0 K 3%positive). Qed.

(* the branch relation realised by a well-oriented companion: with Ohm's law
   on Req (current i from r_from to r_to) and the source law on Veq, the
   component voltage is v(N1) - v(N2) = Req i + Veq *)
Lemma companion_relation (c : companion) : companion_ok c = true ->
  forall (v : cnode -> K) (i Req Veq : K),
  v (r_from c) - v (r_to c) = Req * i -> v (v_plus c) - v (v_minus c) = Veq ->
  v N1 - v N2 = Req * i + Veq.
Proof.
  destruct c as [a b p m]. unfold companion_ok. cbn [r_from r_to v_plus v_minus].
  destruct a, b, p, m; cbn; try discriminate. intros _ v i Req Veq H1 H2.
  apply (thevenin_branch K (v N1) (v N2) (v N3)); assumption.
Qed.

(* a list of signed conductance entries (row, column, sign): the current that
   row r injects for node voltages v *)
Definition sgn (s : csign) (g : K) : K := match s with Plus => g | Minus => - g end.
Fixpoint row_sum (l : list (cnode * cnode * csign)) (g : K) (v : cnode -> K) (r : cnode) : K :=
  match l with
  | [] => 0
  | (r', c, s) :: t => (if cnode_eqb r r' then sgn s g * v c else 0) + row_sum t g v r
  end.

(* one time step of the loop  source Vs - resistor R - reactive component (companion g, ve) - ground:
   KVL  Vs - v = R i  together with the companion relation  v = i / g + ve.  The step size enters
   only through g and ve, which are recomputed from dt_k at EVERY step. *)
Definition series_step (g ve R Vs : K) : K * K :=
  let i := (Vs - ve) / (R + 1 / g) in (ve + i / g, i).
Lemma series_step_sound (g ve R Vs : K) : g <> 0 -> R + 1 / g <> 0 ->
  let '(v, i) := series_step g ve R Vs in v = i / g + ve /\ Vs - v = R * i.
Proof. intros Hg Hr.
  assert (H : R * g + 1 <> 0).
  { intro E. apply Hr. transitivity ((R * g + 1) / g); [field; assumption | rewrite E; field; assumption]. }
  unfold series_step. split; field; nz. Qed.

(* the whole run over a list of step sizes, from the all-zero state Lcapy starts with *)
Fixpoint series_run (geq : K -> K -> K) (veq : K -> K -> K -> K -> K -> K) (X R Vs : K)
         (dts : list K) (st : K * K) : list (K * K) :=
  match dts with
  | [] => []
  | dt :: r =>
      let st' := series_step (geq X dt) (veq X dt (fst st) 0 (snd st)) R Vs in
      st' :: series_run geq veq X R Vs r st'
  end.
End Sim.
Arguments row_sum {K}.
Arguments series_step {K}.
Arguments series_run {K}.
