(* C17 - time-stepping part: vocabulary for the definitions regenerated from
   lcapy/simulator.py / lcapy/mnacpts.py by tools/tr_numsim.py.  Axiom-free. *)
From Coq Require Import ZArith List Bool.
Import ListNotations.
Require Import LT.FieldSec LT.NumEval.

(* nodes of a two-terminal reactive component and of its Thevenin companion:
   N1 = first node, N2 = second node, N3 = the dummy node between Req and Veq *)
Inductive cnode := N1 | N2 | N3.
Inductive csign := Plus | Minus.
Record companion := MkCompanion { r_from : cnode; r_to : cnode; v_plus : cnode; v_minus : cnode }.

Definition cnode_eqb (a b : cnode) : bool :=
  match a, b with N1, N1 | N2, N2 | N3, N3 => true | _, _ => false end.
Definition companion_ok (c : companion) : bool :=
  cnode_eqb (r_from c) N1 && cnode_eqb (r_to c) N3 && cnode_eqb (v_plus c) N3 && cnode_eqb (v_minus c) N2.

Section Sim.
Variable K : fld.
Add Field KFsim : (fth K).
Local Open Scope F_scope.

Lemma two_nz : (1 + 1 : K) <> 0.
Proof. exact (fchar0 K 2%positive). Qed.
Lemma three_nz : (1 + (1 + 1) : K) <> 0.
Proof. exact (fchar0 K 3%positive). Qed.

(* the branch relation realised by a well-oriented companion: with Ohm's law
   on Req (current i from r_from to r_to) and the source law on Veq, the
   component voltage is v(N1) - v(N2) = Req i + Veq *)
Lemma companion_relation (c : companion) : companion_ok c = true ->
  forall (v : cnode -> K) (i Req Veq : K),
  v (r_from c) - v (r_to c) = Req * i -> v (v_plus c) - v (v_minus c) = Veq ->
  v N1 - v N2 = Req * i + Veq.
Proof.
  destruct c as [a b p m]. unfold companion_ok. cbn [r_from r_to v_plus v_minus].
  destruct a, b, p, m; cbn; try discriminate. intros _ v i Req Veq H1 H2.
  apply (thevenin_branch K (v N1) (v N2) (v N3)); assumption.
Qed.

(* a list of signed conductance entries (row, column, sign): the current that
   row r injects for node voltages v *)
Definition sgn (s : csign) (g : K) : K := match s with Plus => g | Minus => - g end.
Fixpoint row_sum (l : list (cnode * cnode * csign)) (g : K) (v : cnode -> K) (r : cnode) : K :=
  match l with
  | [] => 0
  | (r', c, s) :: t => (if cnode_eqb r r' then sgn s g * v c else 0) + row_sum t g v r
  end.

(* one time step of the loop  source Vs - resistor R - reactive component (companion g, ve) - ground:
   KVL  Vs - v = R i  together with the companion relation  v = i / g + ve.  The step size enters
   only through g and ve, which are recomputed from dt_k at EVERY step. *)
Definition series_step (g ve R Vs : K) : K * K :=
  let i := (Vs - ve) / (R + 1 / g) in (ve + i / g, i).
Lemma series_step_sound (g ve R Vs : K) : g <> 0 -> R + 1 / g <> 0 ->
  let '(v, i) := series_step g ve R Vs in v = i / g + ve /\ Vs - v = R * i.
Proof. intros Hg Hr.
  assert (H : R * g + 1 <> 0).
  { intro E. apply Hr. transitivity ((R * g + 1) / g); [field; assumption | rewrite E; field; assumption]. }
  unfold series_step. split; field; nz. Qed.

(* the whole run over a list of step sizes, from the all-zero state Lcapy starts with *)
Fixpoint series_run (geq : K -> K -> K) (veq : K -> K -> K -> K -> K -> K) (X R Vs : K)
         (dts : list K) (st : K * K) : list (K * K) :=
  match dts with
  | [] => []
  | dt :: r =>
      let st' := series_step (geq X dt) (veq X dt (fst st) 0 (snd st)) R Vs in
      st' :: series_run geq veq X R Vs r st'
  end.

(* ---- the matrix path of Simulator._step for an arbitrary circuit ---------------------------------
   unknowns are indexed by Z (node voltages 0 .. num_nodes-1, then branch currents); index -1 is ground.
   A reactive component contributes its conductance g = geq(dt_k) between its first node i1 and the
   dummy node i3 (entries of the regenerated list stamp_A) and its history source ve = veq(dt_k, state
   at step k-1) to the right-hand side of the branch row m of its companion source. *)
Record rcomp := MkRcomp { rc_g : K; rc_ve : K; rc_i1 : Z; rc_i3 : Z; rc_m : Z }.
Definition nidx (c : rcomp) (n : cnode) : Z := match n with N1 => rc_i1 c | N3 => rc_i3 c | N2 => (-1)%Z end.
Fixpoint stamp_entry (l : list (cnode * cnode * csign)) (c : rcomp) (r q : Z) : K :=
  match l with
  | [] => 0
  | (rn, cn, s) :: t =>
      (if (Z.eqb r (nidx c rn) && Z.eqb q (nidx c cn) && Z.leb 0 r && Z.leb 0 q)%bool then sgn s (rc_g c) else 0)
      + stamp_entry t c r q
  end.
Fixpoint stamped (A : Z -> Z -> K) (l : list (cnode * cnode * csign)) (cs : list rcomp) (r q : Z) : K :=
  match cs with [] => A r q | c :: t => stamp_entry l c r q + stamped A l t r q end.
Fixpoint zstamped (Zv : Z -> K) (cs : list rcomp) (r : Z) : K :=
  match cs with [] => Zv r | c :: t => (if Z.eqb r (rc_m c) then rc_ve c else 0) + zstamped Zv t r end.
Fixpoint lsum (l : list Z) (f : Z -> K) : K := match l with [] => 0 | q :: t => f q + lsum t f end.
Definition rowdot (idx : list Z) (M : Z -> Z -> K) (x : Z -> K) (r : Z) : K := lsum idx (fun q => M r q * x q).

Lemma lsum_add l f h : lsum l (fun q => f q + h q) = lsum l f + lsum l h.
Proof. induction l as [|q t IH]; cbn; [ring | rewrite IH; ring]. Qed.
Lemma lsum_ext l f h : (forall q, f q = h q) -> lsum l f = lsum l h.
Proof. intros E. induction l as [|q t IH]; cbn; [reflexivity | rewrite IH, E; reflexivity]. Qed.
Lemma lsum_single l (q0 : Z) (a : K) (x : Z -> K) : NoDup l ->
  lsum l (fun q => (if Z.eqb q q0 then a else 0) * x q) = if in_dec Z.eq_dec q0 l then a * x q0 else 0.
Proof.
  induction l as [|q t IH]; intros Hnd; cbn [lsum].
  - destruct (in_dec Z.eq_dec q0 []) as [[]|]; reflexivity.
  - inversion Hnd as [|? ? Hni Hnd']; subst. rewrite (IH Hnd').
    destruct (Z.eqb_spec q q0) as [->|Hne].
    + destruct (in_dec Z.eq_dec q0 t) as [Hin|_]; [contradiction|].
      destruct (in_dec Z.eq_dec q0 (q0 :: t)) as [_|Hn]; [ring | exfalso; apply Hn; left; reflexivity].
    + destruct (in_dec Z.eq_dec q0 t) as [Hin|Hn];
        destruct (in_dec Z.eq_dec q0 (q :: t)) as [Hin2|Hn2]; try ring.
      * exfalso; apply Hn2; right; exact Hin.
      * destruct Hin2 as [E|Hin2]; [congruence | contradiction].
Qed.

(* what one stamped component adds to row r of  A x : the current g (x(i1) - x(i3)) leaving node i1 through the
   companion conductance, entering node i3; nothing in any other row - for the conductance-stamp entry list *)
Definition std_stamp : list (cnode * cnode * csign) := [(N1, N3, Minus); (N3, N1, Minus); (N1, N1, Plus); (N3, N3, Plus)].
Theorem stamped_row (idx : list Z) (A : Z -> Z -> K) (c : rcomp) (x : Z -> K) (r : Z) :
  NoDup idx -> In (rc_i1 c) idx -> In (rc_i3 c) idx -> (0 <= rc_i1 c)%Z -> (0 <= rc_i3 c)%Z -> rc_i1 c <> rc_i3 c ->
  rowdot idx (stamped A std_stamp [c]) x r =
  rowdot idx A x r + (if Z.eqb r (rc_i1 c) then rc_g c * (x (rc_i1 c) - x (rc_i3 c))
                      else if Z.eqb r (rc_i3 c) then rc_g c * (x (rc_i3 c) - x (rc_i1 c)) else 0).
Proof.
  intros Hnd H1 H3 P1 P3 Hne. unfold rowdot. cbn [stamped stamp_entry std_stamp nidx sgn].
  set (i1 := rc_i1 c) in *. set (i3 := rc_i3 c) in *. set (g := rc_g c).
  assert (L1 : Z.leb 0 i1 = true) by (apply Z.leb_le; exact P1).
  assert (L3 : Z.leb 0 i3 = true) by (apply Z.leb_le; exact P3).
  rewrite (lsum_ext idx _ (fun q =>
     ((if Z.eqb q i3 then (if Z.eqb r i1 then - g else 0) else 0) * x q +
      ((if Z.eqb q i1 then (if Z.eqb r i3 then - g else 0) else 0) * x q +
       ((if Z.eqb q i1 then (if Z.eqb r i1 then g else 0) else 0) * x q +
        (if Z.eqb q i3 then (if Z.eqb r i3 then g else 0) else 0) * x q))) + A r q * x q)).
  2:{ intros q. destruct (Z.eqb_spec r i1), (Z.eqb_spec r i3), (Z.eqb_spec q i1), (Z.eqb_spec q i3); subst;
      rewrite ?L1, ?L3; cbn [andb]; try congruence; try ring;
      repeat match goal with |- context [Z.leb 0 ?z] => destruct (Z.leb 0 z) end; cbn [andb]; ring. }
  rewrite !lsum_add, !lsum_single by exact Hnd.
  destruct (in_dec Z.eq_dec i1 idx) as [_|N]; [|contradiction].
  destruct (in_dec Z.eq_dec i3 idx) as [_|N]; [|contradiction].
  destruct (Z.eqb_spec r i1), (Z.eqb_spec r i3); subst; try congruence; ring.
Qed.
End Sim.
Arguments row_sum {K}.
Arguments MkRcomp {K}. Arguments lsum {K}. Arguments stamped {K}. Arguments zstamped {K}. Arguments rowdot {K}.
Arguments series_step {K}.
Arguments series_run {K}.
