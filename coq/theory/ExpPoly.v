(* ExpPoly — exponential-polynomial-plus-impulses signal algebra and the
   (unilateral) Laplace transform as a linear map onto partial-fraction normal
   forms.  Reusable: C02, C09, C10.  Axiom-free; works over every field record
   [fld] of FieldSec.v (executable over [QcF] and the Gaussian rationals [QcIF]).

   SIGNALS (for t >= 0).  A signal is a record [Sig sing reg]:
     reg  : list (c, n, p)   regular part    Σ c · tⁿ/n! · e^{p t}
     sing : list K           singular part   Σ_k sing[k] · δ^{(k)}(t)   (dense, index = derivative order)
   DELAYED signals [dsig] are lists of (T, x): Σ x(t - T)·u(t - T), the delay T
   kept symbolically (an element of Qc, never exponentiated).

   IMAGES.  [Img ipoly ipf]: polynomial part (dense, lowest power first, as in
   PolyQ) plus partial-fraction terms (r, p, o) ≙ r/(s - p)^o  (PolyQ.pfterm).
   Delayed images [dimg] are lists of (T, F) ≙ Σ e^{-sT} F(s); their value at a
   point takes an arbitrary "character" E : Qc -> K standing for T |-> e^{-sT}
   (every theorem holds for every E; multiplicativity is assumed only where a
   shift is composed).

   L : sig -> img   is the termwise map  tⁿ/n!·e^{pt} |-> 1/(s-p)^{n+1},
                    δ^{(k)} |-> s^k ;  Linv its inverse on well-formed images.
   Main facts
     Lval_sadd / Lval_sscale / L_sadd     L is linear
     ival_L                               value of the image = Σ c/(s-p)^{n+1} + Σ d_k s^k
     Linv_L, L_Linv                       Linv ∘ L = id, L ∘ Linv = id (all lists, all orders)
     LT_Linv                              ival s F = Lval s (Linv F)   (the inversion theorem)
     L_D                                  L (D x) = s · L x   (distributional derivative)
     L_Dord                               L (x') = s · L x - x(0+)  (ordinary derivative)
     dLval_dLinv, dLval_shift             the same with delays
     sig_t0_at0, ivt_alg, ivt_alg0        initial value:  s·X(s) regular at 1/s = 0 with value x(0+)
     fvt_alg, fvt_alg0                    final value:    s·X(s) regular at s = 0 with value = residue at 0
   The analytic meaning of the table entry (∫₀^∞ tⁿ/n!·e^{pt}e^{-st}dt = 1/(s-p)^{n+1},
   real s > p) is proved in ExpPolyAnalysis.v with Coquelicot. *)
Require Import LT.FieldSec LT.PolyQ.
Local Open Scope F_scope.

Section EP.
Variable K : fld.
Add Field KFep : (fth K).

Definition rterm := (K * nat * K)%type.          (* (c, n, p) *)
Record sig := Sig { sing : list K; reg : list rterm }.
Record img := Img { ipoly : list K; ipf : list (pfterm K) }.

(* ---- values --------------------------------------------------------------- *)
Fixpoint rval (s : K) (l : list rterm) : K :=
  match l with [] => 0 | (c, n, p) :: l' => c / fpow (s - p) (S n) + rval s l' end.
Definition Lval (s : K) (x : sig) : K := peval (sing x) s + rval s (reg x).
Definition ival (s : K) (F : img) : K := peval (ipoly F) s + pf_val (ipf F) s.

Definition rpole_free (s : K) (l : list rterm) := forall c n p, In (c, n, p) l -> s - p <> 0.
Definition pole_free (s : K) (x : sig) := rpole_free s (reg x).
Definition ipole_free (s : K) (ts : list (pfterm K)) := forall r p o, In (r, p, o) ts -> s - p <> 0.

Lemma rval_app s l m : rval s (l ++ m) = rval s l + rval s m.
Proof. induction l as [|[[c n] p] l IH]; cbn [app rval]; [ring | rewrite IH; ring]. Qed.
Lemma pf_val_app (ts us : list (pfterm K)) s : pf_val (ts ++ us) s = pf_val ts s + pf_val us s.
Proof. induction ts as [|[[r p] o] ts IH]; cbn [app pf_val]; [ring | rewrite IH; ring]. Qed.

(* ---- linear structure ------------------------------------------------------ *)
Definition szero : sig := Sig [] [].
Definition sadd (x y : sig) : sig := Sig (padd (sing x) (sing y)) (reg x ++ reg y).
Definition rscale (a : K) (l : list rterm) : list rterm := map (fun t => match t with (c, n, p) => (a * c, n, p) end) l.
Definition sscale (a : K) (x : sig) : sig := Sig (pscale a (sing x)) (rscale a (reg x)).
Fixpoint ssum (l : list sig) : sig := match l with [] => szero | x :: r => sadd x (ssum r) end.

Lemma rval_rscale a s l : rval s (rscale a l) = a * rval s l.
Proof. induction l as [|[[c n] p] l IH]; cbn [rscale map rval]; [ring|]. fold (rscale a l). rewrite IH.
  unfold fdiv. rewrite !(Fdiv_def (fth K)). ring. Qed.
Lemma Lval_szero s : Lval s szero = 0.
Proof. unfold Lval. cbn. ring. Qed.
Theorem Lval_sadd s x y : Lval s (sadd x y) = Lval s x + Lval s y.
Proof. unfold Lval, sadd. cbn [sing reg]. rewrite peval_padd, rval_app. ring. Qed.
Theorem Lval_sscale s a x : Lval s (sscale a x) = a * Lval s x.
Proof. unfold Lval, sscale. cbn [sing reg]. rewrite peval_pscale, rval_rscale. ring. Qed.
Lemma Lval_ssum s l : Lval s (ssum l) = fold_right (fun x acc => Lval s x + acc) 0 l.
Proof. induction l; cbn [ssum fold_right]; [apply Lval_szero | rewrite Lval_sadd, IHl; reflexivity]. Qed.

Lemma pole_free_sadd s x y : pole_free s x -> pole_free s y -> pole_free s (sadd x y).
Proof. unfold pole_free, rpole_free, sadd. cbn [reg]. intros Hx Hy c n p Hin. apply in_app_or in Hin. destruct Hin; eauto. Qed.

(* ---- the transform and its inverse on normal forms --------------------------- *)
Definition Lterm (t : rterm) : pfterm K := match t with (c, n, p) => (c, p, S n) end.
Definition Linvterm (t : pfterm K) : rterm := match t with (r, p, o) => (r, pred o, p) end.
Definition L (x : sig) : img := Img (sing x) (map Lterm (reg x)).
Definition Linv (F : img) : sig := Sig (ipoly F) (map Linvterm (ipf F)).
Definition wf_pf (ts : list (pfterm K)) := forall r p o, In (r, p, o) ts -> (1 <= o)%nat.
Definition wf_img (F : img) := wf_pf (ipf F).

Definition iadd (F G : img) : img := Img (padd (ipoly F) (ipoly G)) (ipf F ++ ipf G).
Theorem L_sadd x y : L (sadd x y) = iadd (L x) (L y).
Proof. unfold L, sadd, iadd. cbn [sing reg ipoly ipf]. rewrite map_app. reflexivity. Qed.

Lemma pf_val_Lterm s l : pf_val (map Lterm l) s = rval s l.
Proof. induction l as [|[[c n] p] l IH]; cbn [map Lterm pf_val rval]; [reflexivity | rewrite IH; reflexivity]. Qed.
Theorem ival_L s x : ival s (L x) = Lval s x.
Proof. unfold ival, L, Lval. cbn [ipoly ipf]. rewrite pf_val_Lterm. reflexivity. Qed.

Theorem Linv_L x : Linv (L x) = x.
Proof. destruct x as [sg rg]. unfold Linv, L. cbn [ipoly ipf sing reg]. f_equal.
  induction rg as [|[[c n] p] rg IH]; cbn [map Lterm Linvterm Nat.pred]; [reflexivity | rewrite IH; reflexivity]. Qed.
Theorem L_Linv F : wf_img F -> L (Linv F) = F.
Proof. destruct F as [q ts]. unfold wf_img, wf_pf, L, Linv. cbn [ipoly ipf sing reg]. intros Hw. f_equal.
  induction ts as [|[[r p] o] ts IH]; cbn [map Lterm Linvterm]; [reflexivity|].
  rewrite IH by (intros r' p' o' Hin; apply (Hw r' p' o'); right; exact Hin).
  assert (Ho : (1 <= o)%nat) by (apply (Hw r p o); left; reflexivity).
  destruct o as [|o]; [lia | reflexivity]. Qed.
(* the inversion theorem on normal forms: every number of poles, every order *)
Theorem LT_Linv s F : wf_img F -> Lval s (Linv F) = ival s F.
Proof. intros Hw. rewrite <- ival_L, (L_Linv F Hw). reflexivity. Qed.

(* ---- derivative ---------------------------------------------------------------- *)
(* value at t = 0+ of the regular part: only the n = 0 terms contribute *)
Fixpoint at0 (l : list rterm) : K :=
  match l with [] => 0 | (c, O, p) :: l' => c + at0 l' | (c, S _, p) :: l' => at0 l' end.
Lemma at0_app l m : at0 (l ++ m) = at0 l + at0 m.
Proof. induction l as [|[[c n] p] l IH]; cbn [app at0]; [ring|]. destruct n; rewrite IH; ring. Qed.
Lemma at0_rscale a l : at0 (rscale a l) = a * at0 l.
Proof. induction l as [|[[c n] p] l IH]; cbn [rscale map at0]; [ring|]. fold (rscale a l). destruct n; rewrite IH; ring. Qed.
Definition Dreg (t : rterm) : list rterm :=
  match t with (c, O, p) => [(c * p, O, p)] | (c, S n, p) => [(c, n, p); (c * p, S n, p)] end.
(* ordinary derivative of the regular part (no impulse at the origin) *)
Definition Dord (l : list rterm) : list rterm := flat_map Dreg l.
(* distributional derivative of the causal signal x(t)u(t) *)
Definition D (x : sig) : sig := Sig (padd (0 :: sing x) [at0 (reg x)]) (Dord (reg x)).

Lemma rval_Dord s l : rpole_free s l -> rval s (Dord l) = s * rval s l - at0 l.
Proof. induction l as [|[[c n] p] l IH]; intros Hp; cbn [Dord flat_map rval at0]; [ring|].
  fold (Dord l). rewrite rval_app, IH by (intros c' n' p' Hin; apply (Hp c' n' p'); right; exact Hin).
  assert (Hn : s - p <> 0) by (apply (Hp c n p); left; reflexivity).
  destruct n as [|n]; cbn [Dreg rval at0 fpow].
  - field. exact Hn.
  - pose proof (fpow_nz K (s - p) n Hn) as Hq. field. split; assumption. Qed.
Theorem L_Dord s x : sing x = [] -> pole_free s x ->
  Lval s (Sig [] (Dord (reg x))) = s * Lval s x - at0 (reg x).
Proof. intros Hs Hp. unfold Lval. cbn [sing reg]. rewrite Hs, (rval_Dord s _ Hp). cbn [peval]. ring. Qed.
Theorem L_D s x : pole_free s x -> Lval s (D x) = s * Lval s x.
Proof. intros Hp. unfold Lval, D. cbn [sing reg]. rewrite peval_padd, (rval_Dord s _ Hp). cbn [peval]. ring. Qed.
Fixpoint Dn (k : nat) (x : sig) : sig := match k with O => x | S k' => D (Dn k' x) end.
Lemma pole_free_Dord s l : rpole_free s l -> rpole_free s (Dord l).
Proof. intros Hp c n p Hin. unfold Dord in Hin. apply in_flat_map in Hin. destruct Hin as [[[c' n'] p'] [Hin Hd]].
  assert (p = p'). { destruct n'; cbn [Dreg In] in Hd; intuition congruence. }
  subst. exact (Hp c' n' p' Hin). Qed.
Theorem L_Dn s k x : pole_free s x -> Lval s (Dn k x) = fpow s k * Lval s x.
Proof. intros Hp. induction k; cbn [Dn fpow]; [ring|]. rewrite L_D, IHk; [ring|].
  clear IHk. induction k; cbn [Dn]; [exact Hp | apply pole_free_Dord; exact IHk]. Qed.

(* ---- delays ------------------------------------------------------------------------ *)
Definition dsig := list (Qc * sig).
Definition dimg := list (Qc * img).
Section Delay.
Variable E : Qc -> K.                (* T |-> e^{-sT} at the evaluation point s *)
Fixpoint dLval (s : K) (X : dsig) : K := match X with [] => 0 | (T, x) :: X' => E T * Lval s x + dLval s X' end.
Fixpoint dival (s : K) (G : dimg) : K := match G with [] => 0 | (T, F) :: G' => E T * ival s F + dival s G' end.
Definition dL (X : dsig) : dimg := map (fun Tx => (fst Tx, L (snd Tx))) X.
Definition dLinv (G : dimg) : dsig := map (fun TF => (fst TF, Linv (snd TF))) G.
Definition wf_dimg (G : dimg) := forall T F, In (T, F) G -> wf_img F.
Lemma dLval_app s X Y : dLval s (X ++ Y) = dLval s X + dLval s Y.
Proof. induction X as [|[T x] X IH]; cbn [app dLval]; [ring | rewrite IH; ring]. Qed.
Theorem dival_dL s X : dival s (dL X) = dLval s X.
Proof. induction X as [|[T x] X IH]; cbn [dL map dival dLval fst snd]; [reflexivity|]. fold (dL X). rewrite IH, ival_L. reflexivity. Qed.
Theorem dLinv_dL X : dLinv (dL X) = X.
Proof. induction X as [|[T x] X IH]; cbn [dL dLinv map fst snd]; [reflexivity|]. fold (dL X). fold (dLinv (dL X)). rewrite IH, Linv_L. reflexivity. Qed.
Theorem dL_dLinv G : wf_dimg G -> dL (dLinv G) = G.
Proof. induction G as [|[T F] G IH]; intros Hw; cbn [dL dLinv map fst snd]; [reflexivity|]. fold (dLinv G). fold (dL (dLinv G)).
  rewrite IH by (intros T' F' Hin; apply (Hw T' F'); right; exact Hin).
  rewrite L_Linv by (apply (Hw T F); left; reflexivity). reflexivity. Qed.
Theorem dLval_dLinv s G : wf_dimg G -> dLval s (dLinv G) = dival s G.
Proof. intros Hw. rewrite <- dival_dL, (dL_dLinv G Hw). reflexivity. Qed.
(* delaying everything by T0 multiplies the image by e^{-s T0} *)
Definition dshift (T0 : Qc) (X : dsig) : dsig := map (fun Tx => ((T0 + fst Tx)%Qc, snd Tx)) X.
Theorem dLval_shift s T0 X : (forall a b, E (a + b)%Qc = E a * E b) -> dLval s (dshift T0 X) = E T0 * dLval s X.
Proof. intros HE. induction X as [|[T x] X IH]; cbn [dshift map dLval fst snd]; [ring|]. fold (dshift T0 X). rewrite IH, HE. ring. Qed.
Definition dscale (a : K) (X : dsig) : dsig := map (fun Tx => (fst Tx, sscale a (snd Tx))) X.
Theorem dLval_dscale s a X : dLval s (dscale a X) = a * dLval s X.
Proof. induction X as [|[T x] X IH]; cbn [dscale map dLval fst snd]; [ring|]. fold (dscale a X). rewrite IH, Lval_sscale. ring. Qed.
End Delay.

(* ---- initial and final value, algebraic form ----------------------------------------
   value of the regular part at t = 0, from the definition c·tⁿ/n!·e^{pt} with e^0 = 1 *)
Fixpoint natfact (n : nat) : nat := match n with O => 1%nat | S m => (S m * natfact m)%nat end.
Fixpoint sig_t0 (l : list rterm) : K :=
  match l with [] => 0 | (c, n, p) :: l' => c * fpow 0 n / fnat (K:=K) (natfact n) * 1 + sig_t0 l' end.
Lemma fnat_S_nz n : fnat (K:=K) (S n) <> 0.
Proof. assert (H : forall m, fnat (K:=K) (S m) = Pos.iter_op fadd (Pos.of_succ_nat m) 1).
  { induction m as [|m IH]; [cbn; ring|].
    change (fnat (K:=K) (S (S m))) with (1 + fnat (K:=K) (S m)). rewrite IH.
    change (Pos.of_succ_nat (S m)) with (Pos.succ (Pos.of_succ_nat m)).
    rewrite Pos.iter_op_succ by (intros; ring). reflexivity. }
  rewrite H. apply fchar0. Qed.
Lemma natfact_pos n : exists m, natfact n = S m.
Proof. induction n as [|n [m Hm]]; [exists O; reflexivity|]. cbn [natfact]. rewrite Hm. exists (m + n * S m)%nat. lia. Qed.
Theorem sig_t0_at0 l : sig_t0 l = at0 l.
Proof. induction l as [|[[c n] p] l IH]; cbn [sig_t0 at0]; [reflexivity|]. rewrite IH.
  destruct (natfact_pos n) as [m Hm]. pose proof (fnat_S_nz m) as Hnz. rewrite Hm.
  destruct n as [|n]; cbn [fpow].
  - cbn [natfact] in Hm. injection Hm as <-. cbn [fnat]. field. intro E. apply (one_nz K). rewrite <- E. ring.
  - field. exact Hnz. Qed.

(* s·X(s) written in u = 1/s:  c·s/(s-p)^{n+1} = c·uⁿ/(1 - p u)^{n+1}; regular at u = 0 *)
Fixpoint sXu (u : K) (l : list rterm) : K :=
  match l with [] => 0 | (c, n, p) :: l' => c * fpow u n / fpow (1 - p * u) (S n) + sXu u l' end.
Lemma fpow_div (a u : K) k : u <> 0 -> fpow (a / u) k = fpow a k / fpow u k.
Proof. intros Hu. induction k; cbn [fpow]; [field; apply one_nz|]. rewrite IHk. pose proof (fpow_nz K u k Hu). field. split; assumption. Qed.
Theorem ivt_alg u l : u <> 0 -> (forall c n p, In (c, n, p) l -> 1 - p * u <> 0) ->
  sXu u l = (1 / u) * rval (1 / u) l.
Proof. intros Hu. induction l as [|[[c n] p] l IH]; intros Hp; cbn [sXu rval]; [ring|].
  rewrite IH by (intros c' n' p' Hin; apply (Hp c' n' p'); right; exact Hin).
  assert (Hn : 1 - p * u <> 0) by (apply (Hp c n p); left; reflexivity).
  assert (E : 1 / u - p = (1 - p * u) / u) by (field; exact Hu).
  rewrite E, (fpow_div _ _ _ Hu). clear E.
  pose proof (fpow_nz K _ (S n) Hn) as H2. pose proof (fpow_nz K _ n Hu) as H3.
  set (A := fpow (1 - p * u) (S n)) in *. cbn [fpow]. set (U := fpow u n) in *.
  field. repeat split; assumption. Qed.
Theorem ivt_alg0 l : sXu 0 l = at0 l.
Proof. induction l as [|[[c n] p] l IH]; cbn [sXu at0]; [reflexivity|]. rewrite IH.
  assert (E1 : 1 - p * 0 = (1 : K)) by ring. rewrite E1, fpow_1.
  destruct n as [|n]; cbn [fpow]; field; apply one_nz. Qed.

(* final value: s·X(s) near s = 0.  Terms with p <> 0 are regular and vanish at
   0; a simple pole at the origin contributes its residue; a repeated pole at the
   origin makes the final value infinite (excluded by [fv_ok]). *)
Fixpoint fv (l : list rterm) : K :=
  match l with [] => 0 | (c, O, p) :: l' => (if feqb p 0 then c else 0) + fv l' | (c, S _, p) :: l' => fv l' end.
Fixpoint fv_ok (l : list rterm) : bool :=
  match l with [] => true | (c, O, p) :: l' => fv_ok l' | (c, S _, p) :: l' => negb (feqb p 0) && fv_ok l' end.
Fixpoint sX (s : K) (l : list rterm) : K :=
  match l with [] => 0
  | (c, n, p) :: l' => (if feqb p 0 then match n with O => c | S m => c / fpow s (S m) end else c * s / fpow (s - p) (S n)) + sX s l' end.
Theorem fvt_alg s l : s <> 0 -> rpole_free s l -> sX s l = s * rval s l.
Proof. intros Hs. induction l as [|[[c n] p] l IH]; intros Hp; cbn [sX rval]; [ring|].
  rewrite IH by (intros c' n' p' Hin; apply (Hp c' n' p'); right; exact Hin).
  assert (Hn : s - p <> 0) by (apply (Hp c n p); left; reflexivity).
  destruct (feqb p 0) eqn:Ep.
  - apply feqb_eq in Ep. subst p. assert (E : s - 0 = s) by ring. rewrite E.
    destruct n as [|n]; cbn [fpow]; [fsolve|]. pose proof (fpow_nz K s n Hs). fsolve.
  - pose proof (fpow_nz K _ n Hn). cbn [fpow]. field. split; assumption. Qed.
Theorem fvt_alg0 l : fv_ok l = true -> sX 0 l = fv l.
Proof. induction l as [|[[c n] p] l IH]; cbn [sX fv fv_ok]; intros Hok; [reflexivity|].
  destruct n as [|n].
  - rewrite (IH Hok). destruct (feqb p 0) eqn:Ep; [reflexivity|]. apply feqb_neq in Ep.
    cbn [fpow]. fsolve.
  - apply andb_true_iff in Hok. destruct Hok as [Hp Hok]. rewrite (IH Hok). apply negb_true_iff in Hp. rewrite Hp.
    apply feqb_neq in Hp. assert (Hn : 0 - p <> 0) by (intro Z; apply Hp; transitivity (- (0 - p)); [ring | rewrite Z; ring]).
    pose proof (fpow_nz K _ n Hn) as Hq. cbn [fpow] in *. field. split; [assumption | apply opp_nz; exact Hp]. Qed.

End EP.

Arguments Sig {K}. Arguments sing {K}. Arguments reg {K}. Arguments Img {K}. Arguments ipoly {K}. Arguments ipf {K}.
Arguments rval {K}. Arguments Lval {K}. Arguments ival {K}. Arguments rpole_free {K}. Arguments pole_free {K}. Arguments ipole_free {K}.
Arguments szero {K}. Arguments sadd {K}. Arguments rscale {K}. Arguments sscale {K}. Arguments ssum {K}.
Arguments Lterm {K}. Arguments Linvterm {K}. Arguments L {K}. Arguments Linv {K}. Arguments wf_pf {K}. Arguments wf_img {K}. Arguments iadd {K}.
Arguments at0 {K}. Arguments Dreg {K}. Arguments Dord {K}. Arguments D {K}. Arguments Dn {K}.
Arguments dLval {K}. Arguments dival {K}. Arguments dL {K}. Arguments dLinv {K}. Arguments wf_dimg {K}. Arguments dshift {K}. Arguments dscale {K}.
Arguments sig_t0 {K}. Arguments sXu {K}. Arguments fv {K}. Arguments fv_ok {K}. Arguments sX {K}.
