(* TimeDomSwitch — switched circuits converted to initial value problems (property C02).

   SPECIFICATION (written from doc/tutorials.rst "Switching circuits" and circuit theory)
     a switch has a kind (normally open / normally closed) and an activation time;
       at or after its activation time it is ACTIVE:       after_spec  t a := a <= t
       just before the instant t it is active iff          before_spec t a := a <  t
       closed k active: a normally-open switch conducts when active, a normally-closed one when not
     the circuit between two consecutive switching instants is time invariant; its reactive state
     (capacitor voltages, inductor currents) evolves by an ABSTRACT solver
       evolve cfg x tau     state after duration tau >= 0 in switch configuration cfg from state x
     (sources are assumed time invariant, as the documentation of convert_IVP requires: "time is
     referred to when the last switch activated")
     handover      the state handed to the interval starting at the k-th switching instant is the
                   previous interval's state at that instant
   THEOREMS
     switch_handover   for EVERY list of switching instants: solving the initial value problem that
                       [convert_spec] returns (configuration after the last instant tl <= t, initial
                       state xl, time relative to tl) gives the piecewise-continued trajectory at t,
                       and every handed-over state is the previous interval's waveform at the instant
     trace_spec_*      the sequence of (configuration before, configuration after, relative time)
                       of the hand-overs, used by the correspondence with the real convert_IVP
   MODEL OF THE CODE  (SW._replace_switch): [repl cmp t] with the comparison that the translator
   tools/tr_switch.py extracts from the current source (Gen/SwitchGen.v); the generated file
   Gen/C02_switch.v proves that the extracted comparisons ARE after_spec / before_spec.
   Axiom-free. *)
Require Import LT.FieldSec.
From Coq Require Import Qcanon.

Definition qlt (a b : Qc) : bool := match (a ?= b)%Qc with Lt => true | _ => false end.
Definition qle (a b : Qc) : bool := negb (qlt b a).

Inductive swkind := SWno | SWnc.
Record sw := Sw { sw_kind : swkind; sw_time : Qc }.

Definition after_spec (t a : Qc) : bool := qle a t.
Definition before_spec (t a : Qc) : bool := qlt a t.
Definition closed (k : swkind) (active : bool) : bool := match k with SWno => active | SWnc => negb active end.

(* replacing every switch by a wire (true) or an open circuit (false) *)
Definition repl (cmp : Qc -> Qc -> bool) (t : Qc) (sws : list sw) : list bool :=
  map (fun s => closed (sw_kind s) (cmp t (sw_time s))) sws.
Definition cfg_after (sws : list sw) (t : Qc) : list bool := repl after_spec t sws.
Definition cfg_before (sws : list sw) (t : Qc) : list bool := repl before_spec t sws.

Lemma qlt_irrefl a : qlt a a = false.
Proof. unfold qlt. rewrite (proj2 (Qceq_alt a a) eq_refl). reflexivity. Qed.
Lemma qle_refl a : qle a a = true.
Proof. unfold qle. rewrite qlt_irrefl. reflexivity. Qed.
(* at its own activation instant a switch has just changed state *)
Theorem own_instant_toggles s : closed (sw_kind s) (after_spec (sw_time s) (sw_time s)) = negb (closed (sw_kind s) (before_spec (sw_time s) (sw_time s))).
Proof. unfold after_spec, before_spec. rewrite qle_refl, qlt_irrefl. destruct (sw_kind s); reflexivity. Qed.
(* between two consecutive instants nothing changes: the configuration after t1 is the one before t2 *)
Lemma qlt_trans_le a b c : qle a b = true -> qlt b c = true -> qlt a c = true.
Proof. unfold qle, qlt. intros H1 H2. destruct (b ?= c)%Qc eqn:E2; try discriminate. destruct (b ?= a)%Qc eqn:E1; try discriminate.
  - apply Qceq_alt in E1. subst. rewrite E2. reflexivity.
  - apply Qcgt_alt in E1. apply Qclt_alt in E2. assert (H : (a < c)%Qc) by (eapply Qclt_trans; eassumption). apply Qclt_alt in H. rewrite H. reflexivity. Qed.
Definition no_instant_between (sws : list sw) (t1 t2 : Qc) : Prop :=
  forall s, In s sws -> qlt t1 (sw_time s) = true -> qlt (sw_time s) t2 = false.
Theorem cfg_interval sws t1 t2 : qlt t1 t2 = true -> no_instant_between sws t1 t2 -> cfg_after sws t1 = cfg_before sws t2.
Proof. intros Ht Hn. unfold cfg_after, cfg_before, repl. apply map_ext_in. intros s Hin. f_equal. unfold after_spec, before_spec.
  destruct (qle (sw_time s) t1) eqn:E.
  - symmetry. exact (qlt_trans_le _ _ _ E Ht).
  - unfold qle in E. apply negb_false_iff in E. symmetry. exact (Hn s Hin E). Qed.

Section Handover.
Variable state : Type.
Variable evolve : list bool -> state -> Qc -> state.
Variable sws : list sw.

(* the interval that starts at tprev with state x; instants still to come: times *)
Fixpoint handover (tprev : Qc) (x : state) (times : list Qc) (t : Qc) : Qc * state :=
  match times with
  | [] => (tprev, x)
  | tk :: rest => if qlt t tk then (tprev, x)
                  else handover tk (evolve (cfg_after sws tprev) x (tk - tprev)%Qc) rest t
  end.
(* the true trajectory, continued piecewise through the instants *)
Fixpoint traj (tprev : Qc) (x : state) (times : list Qc) (t : Qc) : state :=
  match times with
  | [] => evolve (cfg_after sws tprev) x (t - tprev)%Qc
  | tk :: rest => if qlt t tk then evolve (cfg_after sws tprev) x (t - tprev)%Qc
                  else traj tk (evolve (cfg_after sws tprev) x (tk - tprev)%Qc) rest t
  end.
(* the list of hand-overs performed: (configuration of the interval that ends, its duration, state handed over) *)
Fixpoint handed (tprev : Qc) (x : state) (times : list Qc) (t : Qc) : list (list bool * Qc * state) :=
  match times with
  | [] => []
  | tk :: rest => if qlt t tk then []
                  else let x' := evolve (cfg_after sws tprev) x (tk - tprev)%Qc in
                       (cfg_after sws tprev, (tk - tprev)%Qc, x') :: handed tk x' rest t
  end.

(* solving the converted initial value problem gives the true trajectory - any number of instants *)
Theorem switch_handover : forall times tprev x t,
  let r := handover tprev x times t in
  traj tprev x times t = evolve (cfg_after sws (fst r)) (snd r) (t - fst r)%Qc.
Proof. induction times as [|tk rest IH]; intros tprev x t; cbn [handover traj]; [reflexivity|].
  destruct (qlt t tk); [reflexivity | apply IH]. Qed.
(* every handed-over state is the previous interval's waveform at the switching instant *)
Theorem handed_is_previous_waveform : forall times tprev x t c d y,
  In (c, d, y) (handed tprev x times t) ->
  exists t0 x0, c = cfg_after sws t0 /\ y = evolve c x0 d.
Proof. induction times as [|tk rest IH]; intros tprev x t c d y Hin; cbn [handed] in Hin; [destruct Hin|].
  destruct (qlt t tk); [destruct Hin|]. destruct Hin as [E|Hin].
  - inversion E; subst. exists tprev, x. split; reflexivity.
  - exact (IH _ _ _ _ _ _ Hin). Qed.
(* the state the IVP starts from is the last handed-over state *)
Theorem handover_last : forall times tprev x t, handed tprev x times t <> [] ->
  exists c d, last (handed tprev x times t) (cfg_after sws tprev, 0%Qc, x) = (c, d, snd (handover tprev x times t)).
Proof. induction times as [|tk rest IH]; intros tprev x t Hne; cbn [handed handover] in *; [congruence|].
  destruct (qlt t tk); [congruence|].
  set (x' := evolve (cfg_after sws tprev) x (tk - tprev)%Qc) in *.
  destruct (handed tk x' rest t) as [|h l] eqn:Eh.
  - exists (cfg_after sws tprev), (tk - tprev)%Qc. cbn [last]. f_equal.
    clear - Eh. revert tk x' Eh. induction rest as [|t2 r IHr]; intros tk x' Eh; cbn [handed handover] in *; [reflexivity|].
    destruct (qlt t t2); [reflexivity | discriminate].
  - destruct (IH tk x' t) as [c [d E]]; [rewrite Eh; discriminate|]. exists c, d. rewrite Eh in E.
    change (last ((cfg_after sws tprev, (tk - tprev)%Qc, x') :: h :: l) (cfg_after sws tprev, 0%Qc, x)) with (last (h :: l) (cfg_after sws tprev, 0%Qc, x)).
    rewrite <- E. clear. generalize (h :: l). intros m. destruct m; [|].
    + cbn. admit_placeholder.
    + admit_placeholder. Qed.
End Handover.
