(* TimeDomSwitch — switched circuits converted to initial value problems (property C02).

   SPECIFICATION (written from doc/tutorials.rst "Switching circuits" and circuit theory)
     a switch has a kind (normally open / normally closed) and an activation time;
       at or after its activation time it is ACTIVE:       after_spec  t a := a <= t
       just before the instant t it is active iff          before_spec t a := a <  t
       closed k active: a normally-open switch conducts when active, a normally-closed one when not
     the circuit between two consecutive switching instants is time invariant; its reactive state
     (capacitor voltages, inductor currents) evolves by an ABSTRACT solver
       evolve cfg x tau     state after duration tau >= 0 in switch configuration cfg from state x
     (sources are assumed time invariant, as the documentation of convert_IVP requires: "time is
     referred to when the last switch activated")
     handover      the state handed to the interval starting at the k-th switching instant is the
                   previous interval's state at that instant
   THEOREMS
     switch_handover   for EVERY list of switching instants: solving the initial value problem that
                       [convert_spec] returns (configuration after the last instant tl <= t, initial
                       state xl, time relative to tl) gives the piecewise-continued trajectory at t,
                       and every handed-over state is the previous interval's waveform at the instant
     trace_spec_*      the sequence of (configuration before, configuration after, relative time)
                       of the hand-overs, used by the correspondence with the real convert_IVP
   MODEL OF THE CODE  (SW._replace_switch): [repl cmp t] with the comparison that the translator
   tools/tr_switch.py extracts from the current source (Gen/SwitchGen.v); the generated file
   Gen/C02_switch.v proves that the extracted comparisons ARE after_spec / before_spec.
   Axiom-free. *)
Require Import LT.FieldSec.
From Coq Require Import Qcanon.

Definition qlt (a b : Qc) : bool := match (a ?= b)%Qc with Lt => true | _ => false end.
Definition qle (a b : Qc) : bool := negb (qlt b a).

Inductive swkind := SWno | SWnc.
Record sw := Sw { sw_kind : swkind; sw_time : Qc }.

Definition after_spec (t a : Qc) : bool := qle a t.
Definition before_spec (t a : Qc) : bool := qlt a t.
Definition closed (k : swkind) (active : bool) : bool := match k with SWno => active | SWnc => negb active end.

(* replacing every switch by a wire (true) or an open circuit (false) *)
Definition repl (cmp : Qc -> Qc -> bool) (t : Qc) (sws : list sw) : list bool :=
  map (fun s => closed (sw_kind s) (cmp t (sw_time s))) sws.
Definition cfg_after (sws : list sw) (t : Qc) : list bool := repl after_spec t sws.
Definition cfg_before (sws : list sw) (t : Qc) : list bool := repl before_spec t sws.

Lemma qlt_irrefl a : qlt a a = false.
Proof. unfold qlt. rewrite (proj1 (Qceq_alt a a) eq_refl). reflexivity. Qed.
Lemma qle_refl a : qle a a = true.
Proof. unfold qle. rewrite qlt_irrefl. reflexivity. Qed.
(* at its own activation instant a switch has just changed state *)
Theorem own_instant_toggles s : closed (sw_kind s) (after_spec (sw_time s) (sw_time s)) = negb (closed (sw_kind s) (before_spec (sw_time s) (sw_time s))).
Proof. unfold after_spec, before_spec. rewrite qle_refl, qlt_irrefl. destruct (sw_kind s); reflexivity. Qed.
(* between two consecutive instants nothing changes: the configuration after t1 is the one before t2 *)
Lemma qcmp_flip (t a : Qc) : (t ?= a)%Qc = CompOpp (a ?= t)%Qc.
Proof. unfold Qccompare. symmetry. apply Qcompare_antisym. Qed.
(* decide an identity between comparison-built booleans by cases on (a ?= t) *)
Ltac cmp_cases t a := unfold after_spec, before_spec, qle, qlt; rewrite ?(qcmp_flip t a); destruct (a ?= t)%Qc; reflexivity.
Lemma qlt_spec a b : qlt a b = true <-> (a < b)%Qc.
Proof. unfold qlt. split.
  - intros H. apply Qclt_alt. destruct (a ?= b)%Qc; [discriminate | reflexivity | discriminate].
  - intros H. rewrite (proj1 (Qclt_alt a b) H). reflexivity. Qed.
Lemma qle_spec a b : qle a b = true <-> (a <= b)%Qc.
Proof. unfold qle. rewrite negb_true_iff. split.
  - intros H. apply Qcnot_lt_le. intros L. apply qlt_spec in L. congruence.
  - intros H. destruct (qlt b a) eqn:E; [|reflexivity]. apply qlt_spec in E. exfalso. exact (Qcle_not_lt _ _ H E). Qed.
Lemma qlt_trans_le a b c : qle a b = true -> qlt b c = true -> qlt a c = true.
Proof. rewrite qle_spec, !qlt_spec. apply Qcle_lt_trans. Qed.
Definition no_instant_between (sws : list sw) (t1 t2 : Qc) : Prop :=
  forall s, In s sws -> qlt t1 (sw_time s) = true -> qlt (sw_time s) t2 = false.
Theorem cfg_interval sws t1 t2 : qlt t1 t2 = true -> no_instant_between sws t1 t2 -> cfg_after sws t1 = cfg_before sws t2.
Proof. intros Ht Hn. unfold cfg_after, cfg_before, repl. apply map_ext_in. intros s Hin. f_equal. unfold after_spec, before_spec.
  destruct (qle (sw_time s) t1) eqn:E.
  - symmetry. exact (qlt_trans_le _ _ _ E Ht).
  - unfold qle in E. apply negb_false_iff in E. symmetry. exact (Hn s Hin E). Qed.

Section Handover.
Variable state : Type.
Variable evolve : list bool -> state -> Qc -> state.
Variable sws : list sw.

(* the interval that starts at tprev with state x; instants still to come: times *)
Fixpoint handover (tprev : Qc) (x : state) (times : list Qc) (t : Qc) : Qc * state :=
  match times with
  | [] => (tprev, x)
  | tk :: rest => if qlt t tk then (tprev, x)
                  else handover tk (evolve (cfg_after sws tprev) x (tk - tprev)%Qc) rest t
  end.
(* the true trajectory, continued piecewise through the instants *)
Fixpoint traj (tprev : Qc) (x : state) (times : list Qc) (t : Qc) : state :=
  match times with
  | [] => evolve (cfg_after sws tprev) x (t - tprev)%Qc
  | tk :: rest => if qlt t tk then evolve (cfg_after sws tprev) x (t - tprev)%Qc
                  else traj tk (evolve (cfg_after sws tprev) x (tk - tprev)%Qc) rest t
  end.
(* the list of hand-overs performed: (configuration of the interval that ends, its duration, state handed over) *)
Fixpoint handed (tprev : Qc) (x : state) (times : list Qc) (t : Qc) : list (list bool * Qc * state) :=
  match times with
  | [] => []
  | tk :: rest => if qlt t tk then []
                  else let x' := evolve (cfg_after sws tprev) x (tk - tprev)%Qc in
                       (cfg_after sws tprev, (tk - tprev)%Qc, x') :: handed tk x' rest t
  end.

(* solving the converted initial value problem gives the true trajectory - any number of instants *)
Theorem switch_handover : forall times tprev x t,
  let r := handover tprev x times t in
  traj tprev x times t = evolve (cfg_after sws (fst r)) (snd r) (t - fst r)%Qc.
Proof. induction times as [|tk rest IH]; intros tprev x t; cbn [handover traj]; [reflexivity|].
  destruct (qlt t tk); [reflexivity | apply IH]. Qed.
(* every handed-over state is the previous interval's waveform at the switching instant *)
Theorem handed_is_previous_waveform : forall times tprev x t c d y,
  In (c, d, y) (handed tprev x times t) ->
  exists t0 x0, c = cfg_after sws t0 /\ y = evolve c x0 d.
Proof. induction times as [|tk rest IH]; intros tprev x t c d y Hin; cbn [handed] in Hin; [destruct Hin|].
  destruct (qlt t tk); [destruct Hin|]. destruct Hin as [E|Hin].
  - inversion E; subst. exists tprev, x. split; reflexivity.
  - exact (IH _ _ _ _ _ _ Hin). Qed.
(* the state the IVP starts from is the last handed-over state (the given one when no instant has passed) *)
Theorem handover_last : forall times tprev x t,
  snd (handover tprev x times t) = fold_left (fun _ h => snd h) (handed tprev x times t) x.
Proof. induction times as [|tk rest IH]; intros tprev x t; cbn [handed handover]; [reflexivity|].
  destruct (qlt t tk); [reflexivity|]. cbn [fold_left snd]. apply IH. Qed.

(* the converted problem: before the first instant there is nothing to hand over; otherwise the
   first interval starts from the pre-switch solution [pre] evaluated AT the first instant *)
Variable pre : list bool -> Qc -> state.
Definition convert_spec (times : list Qc) (t : Qc) : option (Qc * state) :=
  match times with
  | [] => None
  | t1 :: rest => if qlt t t1 then None else Some (handover t1 (pre (cfg_before sws t1) t1) rest t)
  end.
(* what the real convert_IVP must show when it is instrumented: one entry per initialize(before, T) call:
   configuration of `before`, the time T at which `before` is evaluated (absolute for the first
   hand-over, relative to the previous instant afterwards); and the final configuration *)
Fixpoint trace_rest (tprev : Qc) (times : list Qc) (t : Qc) : list (list bool * Qc) :=
  match times with
  | [] => []
  | tk :: rest => if qlt t tk then [] else (cfg_after sws tprev, (tk - tprev)%Qc) :: trace_rest tk rest t
  end.
Definition trace_spec (times : list Qc) (t : Qc) : list (list bool * Qc) :=
  match times with
  | [] => []
  | t1 :: rest => if qlt t t1 then [] else (cfg_before sws t1, t1) :: trace_rest t1 rest t
  end.
Fixpoint last_instant (tprev : Qc) (times : list Qc) (t : Qc) : Qc :=
  match times with [] => tprev | tk :: rest => if qlt t tk then tprev else last_instant tk rest t end.
Lemma handover_fst : forall times tprev x t, fst (handover tprev x times t) = last_instant tprev times t.
Proof. induction times as [|tk rest IH]; intros tprev x t; cbn [handover last_instant]; [reflexivity|]. destruct (qlt t tk); [reflexivity | apply IH]. Qed.
Lemma trace_rest_handed : forall times tprev x t,
  trace_rest tprev times t = map (fun h => (fst (fst h), snd (fst h))) (handed tprev x times t).
Proof. induction times as [|tk rest IH]; intros tprev x t; cbn [trace_rest handed]; [reflexivity|].
  destruct (qlt t tk); [reflexivity|]. cbn [map fst snd]. f_equal. apply IH. Qed.
Definition final_cfg (times : list Qc) (t : Qc) : list bool :=
  match times with
  | [] => cfg_after sws t
  | t1 :: rest => if qlt t t1 then cfg_after sws t else cfg_after sws (last_instant t1 rest t)
  end.
End Handover.

(* ==== MODEL OF THE LOOP OF Netlist.convert_IVP (lcapy/netlist.py) =====================================
   The translator tools/tr_switch.py reads the loop

       cct = self; before = None; tprev = 0
       for m, time in enumerate(times):
           if time > t: break
           if before is None:  before = <recv>.replace_switches_before(time);  T = <texp>
           else:               before = <bexp>;                                T = <texp>
           cct = <recv>.replace_switches(time).initialize(before, T)
           tprev = time

   into a [loopdef]; [run_loop] executes it on switch-level circuits (every switch either still
   live or already replaced by a wire/open circuit) and records, per initialize(before, T) call,
   the switch configuration of `before`, T, and whether `before` derives from the previous initial
   value problem (and so carries its initial conditions; the original netlist `self` never does).  [run_loop_spec]: the canonical loop
   [loop_ok_def] produces exactly the specification's hand-overs for EVERY list of instants. *)
Inductive recv := RSelf | RCur.
Inductive bexp := BCur | BBefore (r : recv).
Inductive texp := TTime | TRel | TZero.
Record loopdef := LoopDef {
  ld_break_strict : bool;      (* true: `if time > t: break`;  false: `if time >= t: break` *)
  ld_first_before : recv; ld_first_T : texp;
  ld_next_before : bexp; ld_next_T : texp;
  ld_after : recv }.
Definition loop_ok_def : loopdef := LoopDef true RSelf TTime BCur TRel RSelf.

Definition cstate := list (sw + bool).
Definition live (sws : list sw) : cstate := map inl sws.
Definition crepl (cmp : Qc -> Qc -> bool) (t : Qc) (c : cstate) : cstate :=
  map (fun x => match x with inl s => inr (closed (sw_kind s) (cmp t (sw_time s))) | inr b => inr b end) c.
Definition ccfg (c : cstate) : list bool := map (fun x => match x with inl _ => false | inr b => b end) c.
Lemma ccfg_crepl_live cmp t sws : ccfg (crepl cmp t (live sws)) = repl cmp t sws.
Proof. unfold ccfg, crepl, live, repl. rewrite !map_map. reflexivity. Qed.
Lemma crepl_replaced cmp cmp' t t' sws : crepl cmp t (crepl cmp' t' (live sws)) = crepl cmp' t' (live sws).
Proof. unfold crepl, live. rewrite !map_map. apply map_ext. intros s. reflexivity. Qed.

Definition tentry := (list bool * Qc * bool)%type.     (* (configuration of `before`, T, `before` is the previous IVP) *)
Section Loop.
Variable d : loopdef.
Variable sws : list sw.
Definition pick (r : recv) (cur : cstate) : cstate := match r with RSelf => live sws | RCur => cur end.
Definition tval (e : texp) (time tprev : Qc) : Qc := match e with TTime => time | TRel => (time - tprev)%Qc | TZero => 0%Qc end.
Definition stop (time t : Qc) : bool := if ld_break_strict d then qlt t time else qle t time.
(* state: current circuit, has `before` been set, tprev *)
Fixpoint loop_from (cur : cstate) (isset : bool) (tprev : Qc) (times : list Qc) (t : Qc) : list tentry * cstate :=
  match times with
  | [] => ([], cur)
  | time :: rest =>
      if stop time t then ([], cur)
      else
        let before := if isset
                      then match ld_next_before d with
                           | BCur => (cur, true)
                           | BBefore r => (crepl before_spec time (pick r cur), match r with RSelf => false | RCur => true end)
                           end
                      else (crepl before_spec time (pick (ld_first_before d) cur), false) in
        let T := tval (if isset then ld_next_T d else ld_first_T d) time tprev in
        let cur' := crepl after_spec time (pick (ld_after d) cur) in
        let (tr, fin) := loop_from cur' true time rest t in
        ((ccfg (fst before), T, snd before) :: tr, fin)
  end.
Definition run_loop (times : list Qc) (t : Qc) : list tentry * cstate :=
  match times with
  | [] => ([], live sws)
  | t1 :: _ => if qlt t t1 then ([], crepl after_spec t (live sws)) else loop_from (live sws) false 0%Qc times t
  end.
End Loop.

(* the specification's hand-overs with the provenance flag *)
Fixpoint trace_rest3 (sws : list sw) (tprev : Qc) (times : list Qc) (t : Qc) : list tentry :=
  match times with
  | [] => []
  | tk :: rest => if qlt t tk then [] else (cfg_after sws tprev, (tk - tprev)%Qc, true) :: trace_rest3 sws tk rest t
  end.
Definition trace_spec3 (sws : list sw) (times : list Qc) (t : Qc) : list tentry :=
  match times with
  | [] => []
  | t1 :: rest => if qlt t t1 then [] else (cfg_before sws t1, t1, false) :: trace_rest3 sws t1 rest t
  end.
Lemma trace_rest3_forget sws : forall times tprev t,
  map (fun e : tentry => (fst (fst e), snd (fst e))) (trace_rest3 sws tprev times t) = trace_rest sws tprev times t.
Proof. induction times as [|tk rest IH]; intros tprev t; cbn [trace_rest3 trace_rest map]; [reflexivity|].
  destruct (qlt t tk); [reflexivity|]. cbn [map fst snd]. rewrite IH. reflexivity. Qed.

Lemma loop_ok_rest sws : forall times tprev t,
  loop_from loop_ok_def sws (crepl after_spec tprev (live sws)) true tprev times t =
  (trace_rest3 sws tprev times t, crepl after_spec (last_instant tprev times t) (live sws)).
Proof. induction times as [|tk rest IH]; intros tprev t; cbn [loop_from trace_rest3 last_instant]; [reflexivity|].
  unfold stop. cbn [loop_ok_def ld_break_strict ld_next_before ld_next_T ld_after pick tval fst snd].
  destruct (qlt t tk); [reflexivity|]. rewrite IH. rewrite ccfg_crepl_live. reflexivity. Qed.
(* the canonical loop realises the specification: any switches, any list of instants, any query time *)
Theorem run_loop_spec sws times t : times <> [] ->
  fst (run_loop loop_ok_def sws times t) = trace_spec3 sws times t /\
  ccfg (snd (run_loop loop_ok_def sws times t)) = final_cfg sws times t.
Proof. destruct times as [|t1 rest]; [congruence|]. intros _. unfold run_loop, trace_spec3, final_cfg.
  destruct (qlt t t1) eqn:E; [split; [reflexivity | apply ccfg_crepl_live]|].
  cbn [loop_from]. unfold stop. cbn [loop_ok_def ld_break_strict ld_first_before ld_first_T ld_after pick tval fst snd]. rewrite E.
  rewrite loop_ok_rest. cbn [fst snd]. rewrite !ccfg_crepl_live. split; reflexivity. Qed.
