(* C06 — the attribute string (lcapy/opts.py): reading the printed options gives them back.
     osplit_join      Opts.add's splitter inverts the join on ',' for items whose braces balance
     opts_roundtrip   opts_add [] (strip (opts_format o)) = Ok o   (= opts_rt o, the hypothesis
                      of parse_print) for every option list with distinct clean keys other than
                      def, and values that are brace-balanced text or booleans *)
From Coq Require Import List Ascii Bool Arith Lia ZArith.
From Coq Require String.
Import String.StringSyntax.
From LT Require Import ParserStr ParserModel ParserThm ParserRoundTrip.
Import ListNotations.

(* brace level never lets a ',' appear at level 0, and returns to the start level *)
Fixpoint lvl_ok (l : Z) (t : str) : option Z :=
  match t with
  | [] => Some l
  | c :: r => if aeqb c COMMA && (l =? 0)%Z then None
              else lvl_ok (if aeqb c LBR then (l + 1)%Z else if aeqb c RBR then (l - 1)%Z else l) r
  end.
Definition item_ok (t : str) : bool := match lvl_ok 0 t with Some 0%Z => true | _ => false end.

Lemma eat_item t : forall l l' ps cu, lvl_ok l t = Some l' ->
  fold_left ostep t {| o_parts := ps; o_cur := cu; o_lvl := l |} = {| o_parts := ps; o_cur := cu ++ t; o_lvl := l' |}.
Proof.
  induction t as [|c t IH]; intros l l' ps cu H; cbn [lvl_ok] in H.
  - injection H as <-. cbn. now rewrite app_nil_r.
  - cbn [fold_left]. unfold ostep at 2. cbn [o_lvl o_parts o_cur]. destruct (aeqb c COMMA && (l =? 0)%Z); [discriminate|].
    rewrite (IH _ l' ps (cu ++ [c]) H). now rewrite <- app_assoc.
Qed.
Lemma osplit_join_gen items : Forall (fun t => item_ok t = true) items -> items <> [] -> forall ps,
  fold_left ostep (join [COMMA] items ++ [COMMA]) {| o_parts := ps; o_cur := []; o_lvl := 0 |}
  = {| o_parts := ps ++ items; o_cur := []; o_lvl := 0 |}.
Proof.
  induction 1 as [|t r Ht Hr IH]; intros Hne ps; [contradiction|].
  assert (E : lvl_ok 0 t = Some 0%Z). { unfold item_ok in Ht. destruct (lvl_ok 0 t) as [[| |]|]; try discriminate. reflexivity. }
  destruct r as [|t2 r2].
  - cbn [join]. rewrite fold_left_app, (eat_item t 0%Z 0%Z ps [] E). cbn [fold_left app]. unfold ostep. cbn. reflexivity.
  - rewrite join_cons by discriminate. rewrite <- !app_assoc, fold_left_app, (eat_item t 0%Z 0%Z ps [] E).
    cbn [app fold_left]. unfold ostep at 2. cbn [o_lvl o_parts o_cur]. rewrite aeqb_refl. cbn [andb Z.eqb].
    rewrite IH by discriminate. now rewrite <- app_assoc.
Qed.
(* THEOREM osplit_join *)
Theorem osplit_join items : Forall (fun t => item_ok t = true) items -> items <> [] ->
  osplit (join [COMMA] items) = Some items.
Proof. intros H N. unfold osplit. rewrite (osplit_join_gen items H N []). reflexivity. Qed.

Lemma join_hd d (a : ascii) y rest : join d ((a :: y) :: rest) = a :: join d (y :: rest).
Proof. destruct rest; reflexivity. Qed.
Lemma join_comma_sp x r : join [COMMA; SP] (x :: r) = join [COMMA] (x :: map (cons SP) r).
Proof.
  revert x; induction r as [|y r IH]; intros x; [reflexivity|].
  rewrite join_cons by discriminate. cbn [map]. rewrite (join_cons [COMMA]) by discriminate. rewrite IH, join_hd. reflexivity.
Qed.

(* clean keys and values *)
Definition plain_okey (c : ascii) : bool :=
  negb (aeqb c COMMA) && negb (aeqb c EQ) && negb (aeqb c LBR) && negb (aeqb c RBR).
Definition okey_ok (k : str) : bool :=
  negb (is_nil k) && forallb plain_okey k && str_eqb (strip k) k && negb (str_eqb k S_def).
Definition is_boolword (s : str) : bool := str_eqb s S_true || str_eqb s S_True || str_eqb s S_false || str_eqb s S_False.
Definition oval_ok (v : oval) : bool :=
  match v with
  | OStr s => item_ok s && str_eqb (strip s) s && negb (is_boolword s)
  | OBool _ => true
  | OList _ => false
  end.
Definition opt_ok (kv : str * oval) : bool := okey_ok (fst kv) && oval_ok (snd kv).

Lemma lvl_ok_app t u : forall l, lvl_ok l (t ++ u) = match lvl_ok l t with Some l' => lvl_ok l' u | None => None end.
Proof. induction t as [|c t IH]; intros l; cbn [app lvl_ok]; [reflexivity|]. destruct (aeqb c COMMA && (l =? 0)%Z); [reflexivity|]. apply IH. Qed.
Lemma plain_okey_inv c : plain_okey c = true ->
  aeqb c COMMA = false /\ aeqb c EQ = false /\ aeqb c LBR = false /\ aeqb c RBR = false.
Proof.
  unfold plain_okey. intros H. apply andb_true_iff in H as [H H4]. apply andb_true_iff in H as [H H3].
  apply andb_true_iff in H as [H1 H2]. apply negb_true_iff in H1, H2, H3, H4. auto.
Qed.
Lemma lvl_ok_key k : forallb plain_okey k = true -> forall l, lvl_ok l k = Some l.
Proof.
  induction k as [|c k IH]; intros H l; [reflexivity|]. cbn [forallb] in H. apply andb_true_iff in H as [Hc Hk].
  destruct (plain_okey_inv c Hc) as [H1 [H2 [H3 H4]]].
  cbn [lvl_ok]. rewrite H1. cbn [andb]. rewrite H3, H4. now apply IH.
Qed.
Lemma mem_key_eq k : forallb plain_okey k = true -> mem EQ k = false.
Proof.
  induction k as [|c k IH]; intros H; [reflexivity|]. cbn [forallb] in H. apply andb_true_iff in H as [Hc Hk].
  destruct (plain_okey_inv c Hc) as [H1 [H2 [H3 H4]]].
  rewrite mem_cons, (aeqb_sym EQ c), H2. now apply IH.
Qed.
(* for values that are not lists, fmt(key, val) is key or key=val *)
Definition opt_fmt_old (kv : str * oval) : str :=
  match snd kv with
  | OStr [] => fst kv
  | v => fst kv ++ [EQ] ++ oval_str true v
  end.
Lemma opt_fmt_flat k v : oval_ok v = true -> opt_fmt (k, v) = opt_fmt_old (k, v).
Proof. destruct v as [[|c s]|b|l]; try reflexivity. discriminate. Qed.
Lemma item_fmt kv : opt_ok kv = true -> item_ok (opt_fmt kv) = true.
Proof.
  destruct kv as [k v]. unfold opt_ok, okey_ok. cbn [fst snd]. intros H. apply andb_true_iff in H as [Hk Hv].
  repeat (apply andb_true_iff in Hk as [Hk ?]).
  pose proof (lvl_ok_key k H1) as LK. unfold item_ok. rewrite (opt_fmt_flat k v Hv). unfold opt_fmt_old. cbn [fst snd].
  destruct v as [s|b|l]; [| |discriminate].
  - cbn [oval_ok] in Hv. repeat (apply andb_true_iff in Hv as [Hv ?]). unfold item_ok in Hv.
    destruct s as [|c s]; [now rewrite LK|]. cbn [oval_str]. rewrite lvl_ok_app, LK. cbn [app lvl_ok].
    change (aeqb EQ COMMA) with false. change (aeqb EQ LBR) with false. change (aeqb EQ RBR) with false. cbn [andb]. exact Hv.
  - rewrite lvl_ok_app, LK. destruct b; reflexivity.
Qed.

Lemma assoc_set_new {A} (k : str) (v : A) d : str_in k (map fst d) = false -> assoc_set k v d = d ++ [(k, v)].
Proof.
  induction d as [|[k' v'] d IH]; intros H; [reflexivity|]. cbn [map fst str_in existsb] in H.
  apply orb_false_iff in H as [H1 H2]. cbn [assoc_set app]. rewrite H1. now rewrite IH.
Qed.
Lemma oarg_str s : is_boolword s = false -> oarg s = OStr s.
Proof.
  unfold is_boolword, oarg. intros H. apply orb_false_iff in H as [H H4]. apply orb_false_iff in H as [H H3].
  apply orb_false_iff in H as [H1 H2]. now rewrite H1, H2, H3, H4.
Qed.
(* one item read back, also behind a blank *)
Lemma add1_fmt o kv : opt_ok kv = true -> str_in (fst kv) (map fst o) = false ->
  opts_add1 o (opt_fmt kv) = o ++ [kv] /\ opts_add1 o (SP :: opt_fmt kv) = o ++ [kv].
Proof.
  destruct kv as [k v]. unfold opt_ok, okey_ok. cbn [fst snd]. intros H Hnew. apply andb_true_iff in H as [Hk Hv].
  repeat (apply andb_true_iff in Hk as [Hk ?]). apply str_eqb_true in H0. apply negb_true_iff in H. apply negb_true_iff in Hk.
  rewrite !(opt_fmt_flat k v Hv).
  assert (T : strip (opt_fmt_old (k, v)) = opt_fmt_old (k, v) /\
              split_first EQ (opt_fmt_old (k, v)) = (k, match v with OStr [] => None | _ => Some (oval_str true v) end)
              /\ oarg (match (match v with OStr [] => None | _ => Some (oval_str true v) end) with Some r => strip r | None => [] end) = v
              /\ opt_fmt_old (k, v) <> []).
  { unfold opt_fmt_old. cbn [fst snd]. destruct v as [s|b|l]; [| |discriminate].
    - cbn [oval_ok] in Hv. repeat (apply andb_true_iff in Hv as [Hv ?]). apply str_eqb_true in H3. apply negb_true_iff in H2.
      destruct s as [|c s].
      + repeat split; [exact H0|now apply split_first_free, mem_key_eq|destruct k; [discriminate|discriminate]].
      + cbn [oval_str]. repeat split.
        * (* strip (k ++ = ++ s) : edges are those of k and s *)
          apply strip_id. pose proof (strip_trimmed k) as [Tk _]. rewrite H0 in Tk. pose proof (strip_trimmed (c :: s)) as [_ Ts]. rewrite H3 in Ts.
          unfold no_edge_space. split.
          -- destruct k as [|a k']; [discriminate|]. exact Tk.
          -- rewrite !rev_app_distr. cbn [rev app] in *. destruct (rev s ++ [c]) eqn:E; [destruct (rev s); discriminate|]. exact Ts.
        * now apply split_first_app, mem_key_eq.
        * rewrite H3. now apply oarg_str.
        * destruct k; discriminate.
    - repeat split.
      + apply strip_id. pose proof (strip_trimmed k) as [Tk _]. rewrite H0 in Tk. unfold no_edge_space. split.
        * destruct k as [|a k']; [discriminate|]. exact Tk.
        * rewrite !rev_app_distr. destruct b; reflexivity.
      + apply split_first_app. now apply mem_key_eq.
      + destruct b; reflexivity.
      + destruct k; discriminate. }
  destruct T as [T1 [T2 [T3 T4]]].
  assert (G1 : opts_add1 o (opt_fmt_old (k, v)) = o ++ [(k, v)]).
  { assert (N : is_nil (opt_fmt_old (k, v)) = false) by (destruct (opt_fmt_old (k, v)); [contradiction|reflexivity]).
    unfold opts_add1. rewrite T1, N, T2, H0, T3, H. now apply assoc_set_new. }
  split; [exact G1|].
  unfold opts_add1 at 1. unfold strip at 1. cbn [lstrip]. change (is_space SP) with true. cbv iota.
  fold (strip (opt_fmt_old (k, v))). exact G1.
Qed.

Fixpoint keys_distinct (o : opts) : bool :=
  match o with [] => true | kv :: r => negb (str_in (fst kv) (map fst r)) && keys_distinct r end.

Lemma fold_add items : forall (o acc : opts) (first : bool),
  Forall (fun kv => opt_ok kv = true) o -> keys_distinct o = true ->
  (forall kv, In kv o -> str_in (fst kv) (map fst acc) = false) ->
  items = map (fun kv => opt_fmt kv) o ->
  fold_left opts_add1 (map (cons SP) items) acc = acc ++ o.
Proof.
  intros o. revert items. induction o as [|kv o IH]; intros items acc first Hok Hd Hacc ->.
  - cbn. now rewrite app_nil_r.
  - cbn [map fold_left]. inversion Hok as [|? ? Hkv Hrest]; subst.
    cbn [keys_distinct] in Hd. apply andb_true_iff in Hd as [Hd1 Hd2]. apply negb_true_iff in Hd1.
    destruct (add1_fmt acc kv Hkv (Hacc kv (or_introl eq_refl))) as [_ A2]. rewrite A2.
    rewrite (IH (map (fun kv => opt_fmt kv) o) (acc ++ [kv]) first Hrest Hd2); [now rewrite <- app_assoc| |reflexivity].
    intros kv' Hin. rewrite map_app. unfold str_in. rewrite existsb_app. cbn [map existsb]. rewrite orb_false_r.
    apply orb_false_iff. split; [apply Hacc; now right|].
    destruct (str_eqb_spec (fst kv') (fst kv)) as [E|N]; [|reflexivity].
    exfalso. unfold str_in in Hd1. assert (X : existsb (str_eqb (fst kv)) (map fst o) = true).
    { apply existsb_exists. exists (fst kv'). split; [apply in_map; exact Hin|rewrite E; apply str_eqb_refl]. }
    congruence.
Qed.

Local Open Scope string_scope.
Lemma S2_comma_sp : s2l ", " = [COMMA; SP]. Proof. reflexivity. Qed.
Local Close Scope string_scope.
(* THEOREM opts_roundtrip *)
Theorem opts_roundtrip (o : opts) :
  Forall (fun kv => opt_ok kv = true) o -> keys_distinct o = true ->
  str_eqb (strip (opts_format o)) (opts_format o) = true ->
  opts_rt o.
Proof.
  intros Hok Hd Hs. apply str_eqb_true in Hs. unfold opts_rt. rewrite Hs. unfold opts_format.
  destruct o as [|kv o]; [reflexivity|].
  rewrite S2_comma_sp. cbn [map]. rewrite join_comma_sp.
  unfold opts_add. destruct (join [COMMA] (opt_fmt kv :: map (cons SP) (map opt_fmt o))) as [|c0 t0] eqn:EJ.
  - exfalso. inversion Hok as [|? ? Hkv _]; subst. destruct (add1_fmt [] kv Hkv eq_refl) as [A1 _].
    destruct (map (cons SP) (map opt_fmt o)); cbn in EJ.
    + rewrite EJ in A1. discriminate.
    + destruct (opt_fmt kv); discriminate.
  - cbn [is_nil]. rewrite <- EJ. rewrite osplit_join.
    + cbn [fold_left]. inversion Hok as [|? ? Hkv Hrest]; subst.
      cbn [keys_distinct] in Hd. apply andb_true_iff in Hd as [Hd1 Hd2]. apply negb_true_iff in Hd1.
      destruct (add1_fmt [] kv Hkv eq_refl) as [A1 _]. rewrite A1. cbn [app].
      rewrite (fold_add (map opt_fmt o) o [kv] true Hrest Hd2); [reflexivity| |reflexivity].
      intros kv' Hin. cbn [map str_in existsb]. rewrite orb_false_r.
      destruct (str_eqb_spec (fst kv') (fst kv)) as [E|N]; [|reflexivity].
      exfalso. unfold str_in in Hd1. assert (X : existsb (str_eqb (fst kv)) (map fst o) = true).
      { apply existsb_exists. exists (fst kv'). split; [apply in_map; exact Hin|rewrite E; apply str_eqb_refl]. }
      congruence.
    + constructor.
      * inversion Hok; subst. now apply item_fmt.
      * apply Forall_forall. intros x Hx. apply in_map_iff in Hx as [y [<- Hy]]. apply in_map_iff in Hy as [kv' [<- Hkv']].
        rewrite Forall_forall in Hok. specialize (Hok kv' (or_intror Hkv')). pose proof (item_fmt kv' Hok) as I.
        unfold item_ok in *. cbn [lvl_ok]. change (aeqb SP COMMA) with false. change (aeqb SP LBR) with false. change (aeqb SP RBR) with false.
        cbn [andb]. exact I.
    + discriminate.
Qed.
