(* C18 — hand-written decision model (H) of the operator implementations in
   lcapy/expr.py (Expr.__mul__, __truediv__, __rtruediv__, __compat_add__, __add__,
   __sub__, __eq__, __pow__), lcapy/exprmap.py (exprmap), lcapy/exprdomain.py
   (_class_by_quantity, as_constant, change), the per-domain overrides in
   texpr.py / nexpr.py / jfexpr.py / jomegaexpr.py / phasor.py / cexpr.py and the
   quantity mixins' __rtruediv__, parametrised by the tables T that the translator
   regenerates from the sources.  It is tied to the real code on every run by
   evaluating it inside Coq on every operand pair the real classes were run on.

   An operand is (domain, quantity, units, value kind); its class is
   exprclasses[domain][quantity].  Value kinds: VZ = 0, VC = non-zero number,
   VV = depends on the domain variable (for the constant domains: a free symbol). *)
From Coq Require Import ZArith List Bool.
Import ListNotations.
Require Import LT.QuantityBase.
Local Open Scope Z_scope.

Inductive valkind := VZ | VC | VV.
Definition vkeqb (a b : valkind) : bool :=
  match a, b with VZ, VZ | VC, VC | VV, VV => true | _, _ => false end.

Record operand := Op { od : domain; oq : quantity; ou : uvec; ov : valkind }.

(* why an operation is refused *)
Inductive errk :=
  ED     (* "since the domains are incompatible" *)
| EQ     (* "since the units of the result are unsupported" (quantities) *)
| EU     (* "since the units ... are incompatible with ..." *)
| EP     (* "Incompatible phasor angular frequencies" *)
| EV     (* any other ValueError *)
| EX.    (* any other exception *)

Inductive res :=
  RK (d : domain) (q : quantity) (u : uvec)   (* value of class exprclasses[d][q] with units u *)
| RE (e : errk)
| RB (b : bool)
| RU (n : Z).   (* an observed result the harness could not represent; never produced by the model *)

Definition errk_eqb (a b : errk) : bool :=
  match a, b with ED, ED | EQ, EQ | EU, EU | EP, EP | EV, EV | EX, EX => true | _, _ => false end.
Definition res_eqb (a b : res) : bool :=
  match a, b with
  | RK d q u, RK d' q' u' => deqb d d' && qeqb q q' && ueqb u u'
  | RE e, RE e' => errk_eqb e e'
  | RB x, RB y => Bool.eqb x y
  | _, _ => false
  end.

Record flags := Fl { loose : bool; check : bool; canon : bool }.

Section Model.
Variable T : tables.

Definition cd (f : dflagname) (a : operand) : bool := cdflag T f (od a) (oq a).
Definition cq (f : qflagname) (a : operand) : bool := cqflag T f (od a) (oq a).
Definition is_const (a : operand) := cd F_is_constant_domain a.
Definition mown (m : methname) (a : operand) : owner := meth_owner T m (od a) (oq a).

(* the attribute .quantity / .domain of the operand's class *)
Definition aq (a : operand) : quantity := class_quantity T (od a) (oq a).
Definition adom (a : operand) : domain := class_domain T (od a) (oq a).

(* ---- lcapy/exprmap.py: exprmap(quantity, domain) ------------------------ *)
Definition exprmap (q : quantity) (d : domain) : option cls :=
  if negb (has_class T d) then None
  else if qeqb q Qundef then Some (d, Qundef)
  else
    let d1 := if (dflag T F_is_constant_domain d || dflag T F_is_constant_time_domain d) && qratio T q
              then Dconstant_fr else d in
    let d2 := if (dflag T F_is_constant_domain d || dflag T F_is_constant_frequency_response_domain d)
                 && negb (qratio T q)
              then Dconstant_time else d1 in
    Some (d2, q).

(* ---- _class_by_quantity(self, quantity, domain=None) with its overrides ----- *)
Definition class_by_quantity (self : operand) (q : quantity) (dom : option domain) : option cls :=
  let dflt := exprmap q (match dom with Some d => d | None => adom self end) in
  match mown M_class_by_quantity self with
  | O_ExprDomain => dflt
  | O_ConstantTimeDomainExpression =>
      if qeqb q Qundef && (match dom with None => true | _ => false end) then Some (Dconstant_time, Qundef) else dflt
  | O_ConstantFrequencyResponseDomainExpression =>
      if qeqb q Qundef && (match dom with None => true | _ => false end) then Some (Dconstant_fr, Qundef) else dflt
  | O_PhasorDomainExpression =>
      if qeqb q Qundef then
        match dom with Some Dphasor_ratio => Some (Dphasor_ratio, Qundef) | _ => Some (Dphasor, Qundef) end
      else dflt
  | O_PhasorRatioDomainExpression =>
      if qeqb q Qundef then Some (Dphasor_ratio, Qundef) else dflt
  | _ => None
  end.

(* calling a class constructor on a bare sympy value: the undefined domain needs
   a `var` assumption (UndefinedDomainExpression.__init__) *)
Definition construct (c : option cls) (has_var : bool) (u : option uvec) : res :=
  match c with
  | None => RE EX
  | Some (d, q) =>
      if dflag T F_is_undefined_domain d && negb has_var then RE EV
      else RK d q (match u with Some u => u | None => def_units T d q end)
  end.

Definition is_undef_dom (a : operand) := cd F_is_undefined_domain a.

(* expression does not contain the domain variable (Expr.is_unchanging) *)
Definition unchanging (a : operand) : bool :=
  negb (vkeqb (ov a) VV) || is_const a.
(* expression has no free symbols at all (Expr.is_constant) *)
Definition no_symbols (a : operand) : bool := negb (vkeqb (ov a) VV).

(* ExprDomain.as_constant for an immittance: the same quantity in the constant domain *)
Definition as_constant (x : operand) (keep_units : bool) : operand :=
  if cq G_is_immittance x && unchanging x then
    match exprmap (aq x) Dconstant with
    | Some (d, q) => Op d q (if keep_units then ou x else def_units T d q) (ov x)
    | None => x
    end
  else x.

(* quantity algebra tables *)
Fixpoint lookup (tab : list (tq * tq * tq)) (a b : tq) : option tq :=
  match tab with
  | [] => None
  | (x, y, z) :: r =>
      (* a Python dict literal keeps the LAST value of a repeated key *)
      match lookup r a b with
      | Some w => Some w
      | None => if tqeqb x a && tqeqb y b then Some z else None
      end
  end.
Definition tkey (q : quantity) : tq := if qeqb q Qundef then TConst else TQ q.
Definition tval (t : tq) : quantity := match t with TConst => Qundef | TQ q => q end.
Definition mul_lookup (y x : quantity) : option quantity :=
  match lookup (mul_tab T) (tkey y) (tkey x) with
  | Some r => Some (tval r)
  | None => match lookup (mul_tab T) (tkey x) (tkey y) with Some r => Some (tval r) | None => None end
  end.
Definition div_lookup (y x : quantity) : option quantity :=
  match lookup (div_tab T) (tkey y) (tkey x) with Some r => Some (tval r) | None => None end.

(* ---- domain compatibility (Expr and the per-domain overrides) -------------- *)
Definition same_dom (a b : operand) := deqb (adom a) (adom b).

(* PhasorExpression._compatible_phasors with equal angular frequencies *)
Definition compatible_phasors (a b : operand) : bool := same_dom a b.

Definition mul_compatible (a b : operand) : option bool :=
  match mown M_mul_compatible_domains a with
  | O_Expr => Some (same_dom a b || is_const a || is_const b)
  | O_TimeDomainExpression | O_DiscreteTimeDomainExpression => Some (same_dom a b || is_const b)
  | O_PhasorExpression =>
      Some (is_const a || is_const b || compatible_phasors a b
            || (cd F_is_phasor_ratio_domain a && cd F_is_phasor_domain b)
            || (cd F_is_phasor_domain a && cd F_is_phasor_ratio_domain b)
            || (cd F_is_phasor_domain a && cd F_is_angular_fourier_domain b)
            || (cd F_is_phasor_ratio_domain a && cd F_is_angular_fourier_domain b))
  | _ => None
  end.

Definition div_compatible (a b : operand) : option bool :=
  match mown M_div_compatible_domains a with
  | O_Expr => Some (same_dom a b || is_const a || is_const b)
  | O_TimeDomainExpression | O_DiscreteTimeDomainExpression => Some (same_dom a b || is_const b)
  | O_FrequencyResponseDomainExpression =>
      Some (cd F_is_fourier_domain b || same_dom a b || is_const a || is_const b)
  | O_AngularFrequencyResponseDomainExpression =>
      Some (cd F_is_angular_fourier_domain b || same_dom a b || is_const a || is_const b)
  | O_PhasorExpression => Some (is_const a || is_const b || compatible_phasors a b)
  | _ => None
  end.

Definition add_compatible (a b : operand) : option bool :=
  match mown M_add_compatible_domains a with
  | O_Expr => Some (same_dom a b)
  | O_PhasorExpression => Some (compatible_phasors a b)
  | _ => None
  end.

Definition mul_domain (a b : operand) : option domain :=
  match mown M_mul_domain a with
  | O_Expr => Some (adom a)
  | O_PhasorRatioDomainExpression => Some (if cd F_is_phasor_domain b then Dphasor else adom a)
  | _ => None
  end.
Definition div_domain (a b : operand) : option domain :=
  match mown M_div_domain a with
  | O_Expr => Some (adom a)
  | O_PhasorDomainExpression => Some (if cd F_is_phasor_domain b then Dphasor_ratio else adom a)
  | _ => None
  end.

(* the six products of two *generic* expressions that are re-interpreted as
   time-domain expressions (state.f_times_t etc. = 'warn') *)
Definition generic_times_time (a b : operand) : bool :=
  qeqb (oq a) Qundef && qeqb (oq b) Qundef &&
  (let p x y := (deqb (od a) x && deqb (od b) y) || (deqb (od a) y && deqb (od b) x) in
   p Dfourier Dtime || p Dangular_fourier Dtime || p Dlaplace Dtime).

(* ---- Expr.__mul__ ------------------------------------------------------------- *)
Definition mul_model (a b : operand) : res :=
  match mown M_mul a with
  | O_Expr =>
    if generic_times_time a b then RK Dtime Qundef (def_units T Dtime Qundef)
    else
      let x := as_constant b (mul_keeps_units T) in
      match mul_compatible a x with
      | None => RE EX
      | Some false => RE ED
      | Some true =>
          match mul_lookup (aq a) (aq x) with
          | None => RE EQ
          | Some q =>
              match mul_domain a x with
              | None => RE EX
              | Some dom =>
                  let c := if is_const a then class_by_quantity x q None
                           else class_by_quantity a q (Some dom) in
                  construct c (is_undef_dom a) (Some (uadd (ou a) (ou x)))
              end
          end
      end
  | _ => RE EX
  end.

(* ---- Expr.__truediv__ ----------------------------------------------------------- *)
Definition div_model (a b : operand) : res :=
  match mown M_truediv a with
  | O_Expr =>
      let x := as_constant b (div_keeps_units T) in
      match div_compatible a x with
      | None => RE EX
      | Some false => RE ED
      | Some true =>
          match div_lookup (aq a) (aq x) with
          | None => RE EQ
          | Some q =>
              match div_domain a x with
              | None => RE EX
              | Some dom =>
                  let c := if is_const a then class_by_quantity x q None
                           else class_by_quantity a q (Some dom) in
                  construct c (is_undef_dom a) (Some (usub (ou a) (ou x)))
              end
          end
      end
  | _ => RE EX
  end.

(* domain that lcapy.expr.expr() infers from the symbols of a bare sympy value *)
Definition symbol_domain (a : operand) : domain :=
  match ov a with
  | VV =>
      match od a with
      | Dtime => Dtime | Dlaplace => Dlaplace
      | Dfourier | Dfreq_resp | Dfourier_noise => Dfourier
      | Dangular_fourier | Dang_freq_resp | Dphasor | Dphasor_ratio | Dang_fourier_noise => Dangular_fourier
      | Dnorm_fourier => Dnorm_fourier | Dnorm_angular_fourier => Dnorm_angular_fourier
      | Ddiscrete_time => Ddiscrete_time | Ddiscrete_fourier => Ddiscrete_fourier | DZ => DZ
      | _ => Dconstant
      end
  | _ => Dconstant
  end.

(* ImpedanceMixin.__rtruediv__ / AdmittanceMixin.__rtruediv__ when the numerator
   has no free symbols: admittance(x.expr / self.expr) resp. impedance(...) *)
Definition mixin_rtruediv (num : operand) (self : operand) : res :=
  let q := match mown M_rtruediv self with O_ImpedanceMixin => Qadmittance | _ => Qimpedance end in
  (* 0 / e evaluates to 0, which has no symbols *)
  construct (exprmap q (if vkeqb (ov num) VZ then Dconstant else symbol_domain self)) false
            (if rdiv_keeps_units T then Some (usub (ou num) (ou self)) else None).

(* x / self evaluated as Python does it: the reflected method of the right operand
   is tried first when its class is a proper subclass of the left operand's class
   and overrides __rtruediv__ *)
Definition has_mixin_rtruediv (b : operand) : bool :=
  match mown M_rtruediv b with O_ImpedanceMixin | O_AdmittanceMixin => true | _ => false end.
Definition truediv_model (a b : operand) : res :=
  if has_mixin_rtruediv b && subclass T (od b) (oq b) (od a) (oq a)
  then (if no_symbols a then mixin_rtruediv a b else div_model a b)
  else div_model a b.

(* 1 / self  and  self ** -1  (Expr.__pow__: self.__rtruediv__(1)) *)
Definition one : operand := Op Dconstant Qundef uzero VC.
Definition rdiv1_model (self : operand) : res :=
  if has_mixin_rtruediv self then mixin_rtruediv one self else div_model one self.
Definition pow_model (self : operand) (k : Z) : res :=
  if Z.eqb k 2 then mul_model self self
  else if Z.eqb k (-1) then rdiv1_model self
  else RE EX.

(* ---- Expr.__compat_add__ ------------------------------------------------------------ *)
Inductive side := Self | Other.
(* [ueq]: do the canonical units of the two operands compare equal *)
Definition compat_add_b (fl : flags) (a b : operand) (ueq : bool) : errk + side :=
  let zero x := vkeqb (ov x) VZ in
  if check fl && negb ueq && negb (zero a) && negb (zero b)
     && negb (loose fl && (cq G_is_undefined a || cq G_is_undefined b))
  then inl EU
  else if is_const b && qeqb (aq b) Qundef && (loose fl || zero b) then inr Self
  else if is_const b && qeqb (aq b) Qundef && cq G_is_transfer a then inr Self
  else if is_const a && qeqb (aq a) Qundef then inr Other
  else if qeqb (aq a) (aq b) && is_const a then inr Other
  else if qeqb (aq a) (aq b) && is_const b then inr Self
  else
    match add_compatible a b with
    | None => inl EX
    | Some ok =>
      (* the conversion branches ("For phasor comparisons..."), optionally guarded by
         `self.quantity != x.quantity and 'undefined' not in (self.quantity, x.quantity)` *)
      let conv := negb (compat_guard T && negb (qeqb (aq a) (aq b)) && negb (qeqb (aq a) Qundef) && negb (qeqb (aq b) Qundef)) in
      if qeqb (aq a) (aq b) && ok then inr Self
      else if conv && cd F_is_phasor_ratio_domain a && cd F_is_angular_fourier_domain b then inr Self
      else if conv && cd F_is_angular_fourier_domain a && cd F_is_phasor_ratio_domain b then inr Other
      else if conv && cd F_is_angular_frequency_response_domain a && cd F_is_angular_fourier_domain b then inr Self
      else if conv && cd F_is_angular_fourier_domain a && cd F_is_angular_frequency_response_domain b then inr Other
      else if negb ok then inl ED
      else if qeqb (aq a) Qundef && (loose fl || cq G_is_transfer b) then inr Other
      else if qeqb (aq b) Qundef && (loose fl || cq G_is_transfer a) then inr Self
      else inl EQ
    end.

Definition compat_add (fl : flags) (a b : operand) : errk + side := compat_add_b fl a b (ueqb (ou a) (ou b)).

(* Expr.__add__ / __sub__: cls(self.sympy +- x.sympy, **assumptions of self); the units
   are the class default, or (Expr._sum_units) those of the first non-zero operand of
   class cls *)
Definition sum_units (a b w : operand) : option uvec :=
  if add_keeps_units T then
    let sc x := deqb (od x) (od w) && qeqb (oq x) (oq w) && negb (vkeqb (ov x) VZ) in
    if sc a then Some (ou a) else if sc b then Some (ou b) else None
  else None.
Definition add_model_b (fl : flags) (a b : operand) (ueq : bool) : res :=
  match mown M_add a, mown M_compat_add a with
  | O_Expr, O_Expr =>
      match compat_add_b fl a b ueq with
      | inl e => RE e
      | inr s =>
          let w := match s with Self => a | Other => b end in
          construct (Some (od w, oq w)) (is_undef_dom a) (sum_units a b w)
      end
  | _, _ => RE EX
  end.
Definition add_model (fl : flags) (a b : operand) : res := add_model_b fl a b (ueqb (ou a) (ou b)).
(* the class of a result, forgetting its units *)
Definition res_class (r : res) : res := match r with RK d q _ => RK d q uzero | x => x end.
Definition sub_model := add_model.

(* Expr.__eq__: False when __compat_add__ refuses, else equality of the values;
   [same] = whether the two sympy values are equal *)
Definition eq_model_b (fl : flags) (a b : operand) (same ueq : bool) : res :=
  match mown M_eq a, mown M_compat_add a with
  | O_Expr, O_Expr =>
      match compat_add_b fl a b ueq with
      | inl _ => RB false
      | inr _ => RB same
      end
  | _, _ => RE EX
  end.

Definition eq_model (fl : flags) (a b : operand) (same : bool) : res := eq_model_b fl a b same (ueqb (ou a) (ou b)).

(* a == b as Python evaluates it: when the class of b is a proper subclass of the
   class of a, b.__eq__(a) is tried first (rich comparisons give the subclass priority) *)
Definition eq_py_b (fl : flags) (a b : operand) (same ueq : bool) : res :=
  if subclass T (od b) (oq b) (od a) (oq a) then eq_model_b fl b a same ueq else eq_model_b fl a b same ueq.
Definition eq_py (fl : flags) (a b : operand) (same : bool) : res :=
  if subclass T (od b) (oq b) (od a) (oq a) then eq_model fl b a same else eq_model fl a b same.

Definition neg_model (a : operand) : res :=
  match mown M_neg a with
  | O_Expr => construct (Some (od a, oq a)) (is_undef_dom a) None
  | _ => RE EX
  end.

(* ---- ExprDomain.as_quantity and the public conversions that re-apply the quantity
        through it --------------------------------------------------------------------------
   as_quantity(name) dispatches to as_<x>() = self._class_by_quantity(<x>)(self): a new
   object of that quantity in self's domain with the class default units; 'undefined'
   returns self; any other name raises ValueError *)
Definition as_quantity_model (self : operand) (q : quantity) : res :=
  match asq T q with
  | AsQ q' => construct (class_by_quantity self q' None) true None
  | AsSelf => match as_expr_cls T (od self) (oq self) with
              | Some (d, q') => RK d q' (def_units T d q')
              | None => RK (od self) (oq self) (ou self)
              end
  | AsError => RE EV
  end.
Definition generic (d : domain) (v : valkind) : operand := Op d Qundef (def_units T d Qundef) v.
(* .magnitude of a complex-valued expression: Nnew / Dnew is a generic expression (of the
   phasor-ratio domain for a phasor, by _div_domain), then as_quantity(self.quantity) *)
Definition magnitude_model (a : operand) : res :=
  as_quantity_model (generic (if cd F_is_phasor_domain a then Dphasor_ratio else adom a) (ov a)) (aq a).
(* PhasorRatioDomainExpression.laplace() / (s): LaplaceDomainExpression(...).as_quantity(q) *)
Definition pr_laplace_model (a : operand) : res := as_quantity_model (generic Dlaplace (ov a)) (aq a).
(* PhasorDomainExpression.time(): TimeDomainExpression(...).as_quantity(q) *)
Definition phasor_time_model (a : operand) : res := as_quantity_model (generic Dtime (ov a)) (aq a).
(* HT / IHT: self.__class__(result).as_quantity(q) *)
Definition hilbert_model (a : operand) : res :=
  as_quantity_model (Op (od a) (oq a) (def_units T (od a) (oq a)) (ov a)) (aq a).

(* ---- unary operations -------------------------------------------------------------------
   abs(), conjugate(), real, imag, sign, simplify(), expand(), subs(), limit(), copy()
   and -x all rebuild self.__class__(<sympy value>, **assumptions): same class, and the
   DEFAULT units of the class (the operand's own units are not carried over) *)
Definition rebuild_default (a : operand) : res :=
  construct (Some (od a, oq a)) (is_undef_dom a) None.
(* ... unless the method sets ret.units = self.units (keeps T op) *)
Definition rebuild_model (op : unop) (a : operand) : res :=
  construct (Some (od a, oq a)) (is_undef_dom a) (if keeps T op then Some (ou a) else None).
(* the units of the variable object (symbols.py): the domain's units, except that the
   phasor domain (domain_units = 1) uses omega, in rad/s like the phasor-ratio domain *)
Definition var_units (d : domain) : uvec :=
  match d with Dphasor => dom_units T Dphasor_ratio | _ => dom_units T d end.
(* differentiate() / integrate() with respect to the domain variable: rebuild, then the
   units (class default, or those of self) are divided resp. multiplied by the variable's *)
Definition diff_model (a : operand) : res :=
  construct (Some (od a, oq a)) (is_undef_dom a)
            (Some (usub (if keeps T U_diff then ou a else def_units T (od a) (oq a)) (var_units (adom a)))).
Definition integ_model (a : operand) : res :=
  construct (Some (od a, oq a)) (is_undef_dom a)
            (Some (uadd (if keeps T U_integ then ou a else def_units T (od a) (oq a)) (var_units (adom a)))).
(* convolve(): same domain required; class of self - or of x when self is a transfer
   function or a generic expression and x has a quantity (conv_by_operand); units =
   product of the operand units and of the variable's units *)
Definition convolve_model (a b : operand) : res :=
  if negb (same_dom a b) then RE ED
  else
    let w := if conv_by_operand T && (qeqb (aq a) Qtransfer || qeqb (aq a) Qundef) && negb (qeqb (aq b) Qundef) then b else a in
    construct (Some (od w, oq w)) (is_undef_dom a) (Some (uadd (uadd (ou a) (ou b)) (dom_units T (adom a)))).
(* phase: a generic expression (of the phasor-ratio domain for a phasor, of the plain
   constant domain for the constant domains) in rad *)
Definition u_rad := UV 0 0 0 1.
Definition phase_model (a : operand) : res :=
  construct (Some (if cd F_is_phasor_domain a then Dphasor_ratio else if is_const a then Dconstant else adom a, Qundef))
            (is_undef_dom a) (Some u_rad).
(* magnitude of a REAL-valued expression: expr(abs(self.sympy)), a generic expression of
   the domain that expr() infers from the symbols; or, when Expr.magnitude rebuilds its
   own class (mag_real_keeps), the same class *)
Definition magnitude_real_model (a : operand) : res :=
  if mag_real_keeps T then rebuild_default a
  else construct (Some (symbol_domain a, Qundef)) false None.
(* x ** k for a number k other than 2 and -1: self.__class__(result), or the class of
   the exponent (a constant-domain generic expression) when self is of a constant domain *)
Definition pow_general_model (a : operand) : res :=
  if is_const a then RK Dconstant Qundef (def_units T Dconstant Qundef) else rebuild_default a.

(* ---- domain transforms between the time domain and the Laplace / Fourier / angular
        Fourier domains (TimeDomainExpression.LT / FT, LaplaceDomainExpression.ILT,
        FourierDomainExpression / AngularFourierDomainExpression.inverse_fourier) --------
   ExprDomain.change(result, domain, units_scale) builds the class of the same
   quantity in the target domain and sets units = self.units * units_scale; the
   scale is read from the table of call sites.  FT continues with result(var),
   expand and simplify, which rebuild the object: the result carries the default
   units of its class. *)
Fixpoint site_scale (l : list (domain * domain * uvec)) (s t : domain) : option uvec :=
  match l with
  | [] => None
  | (s', t', u) :: r => if deqb s s' && deqb t t' then Some u else site_scale r s t
  end.
Definition is_spectral (d : domain) : bool :=
  match d with Dlaplace | Dfourier | Dangular_fourier => true | _ => false end.
Definition transform_model (a : operand) (tgt : domain) : res :=
  let c := exprmap (aq a) tgt in
  match od a, tgt with
  | Dtime, Dlaplace =>
      match site_scale (sites T) Dtime Dlaplace with
      | Some k => construct c true (Some (uadd (ou a) k))
      | None => RE EX
      end
  | Dtime, Dfourier | Dtime, Dangular_fourier =>
      if ft_keeps_units T then
        match site_scale (sites T) Dtime Dfourier with
        | Some k => construct c true (Some (uadd (ou a) k))
        | None => RE EX
        end
      else construct c true None
  | Dlaplace, Dtime | Dfourier, Dtime | Dangular_fourier, Dtime =>
      match site_scale (sites T) (od a) Dtime with
      | Some k => construct c true (Some (uadd (ou a) k))
      | None => RE EX
      end
  | _, _ => RE EX
  end.
(* there and back again *)
Definition roundtrip_model (a : operand) (via : domain) : res :=
  match transform_model a via with
  | RK d q u => transform_model (Op d q u (ov a)) (od a)
  | r => r
  end.

End Model.
