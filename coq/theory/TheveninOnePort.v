(* C04 - one-port networks built from series / parallel combinations
   (lcapy/oneport.py: Ser, Par and the leaf components R, G, C, L, V, I, Z, Y).

   A one-port is a relation between the voltage u across it (+ to -) and the
   current j it delivers out of its + terminal into whatever is connected.
   Leaves are lines  a u + b j = c  (R: u = -R j;  V: u = V;  I: j = I;
   C with initial voltage v0 in the s-domain: u = v0/s - j/(sC); ...).
   Series: same j, voltages add.  Parallel: same u, currents add.
   [th]/[no] compute the Thevenin pair (Voc, Z) / Norton pair (Isc, Y) with the
   formulas the code uses (sum of Voc and Z in series, sum of Isc and Y in
   parallel, Z = 1/Y, Voc = Isc Z, Isc = Voc Y); [th_sound]/[no_sound]: whenever
   they return a pair, the terminal relation of the whole tree is exactly the
   Thevenin line u = Voc - Z j, resp. the Norton line j = Isc - Y u - for
   trees of any shape and size. *)
Require Import LT.FieldSec.

Section OnePort.
Variable K : fld.
Add Field KFo : (fth K).
Local Open Scope F_scope.

Inductive tree := Leaf (a b c : K) | Ser (l : list tree) | Par (l : list tree).

Fixpoint sem (t : tree) : K -> K -> Prop :=
  match t with
  | Leaf a b c => fun u j => a * u + b * j = c
  | Ser l => (fix ser (l : list tree) : K -> K -> Prop :=
                match l with
                | [] => fun u j => u = 0
                | t :: l' => fun u j => exists u1 u2, sem t u1 j /\ ser l' u2 j /\ u = u1 + u2
                end) l
  | Par l => (fix par (l : list tree) : K -> K -> Prop :=
                match l with
                | [] => fun u j => j = 0
                | t :: l' => fun u j => exists j1 j2, sem t u j1 /\ par l' u j2 /\ j = j1 + j2
                end) l
  end.
Fixpoint sem_ser (l : list tree) : K -> K -> Prop :=
  match l with [] => fun u j => u = 0
  | t :: l' => fun u j => exists u1 u2, sem t u1 j /\ sem_ser l' u2 j /\ u = u1 + u2 end.
Fixpoint sem_par (l : list tree) : K -> K -> Prop :=
  match l with [] => fun u j => j = 0
  | t :: l' => fun u j => exists j1 j2, sem t u j1 /\ sem_par l' u j2 /\ j = j1 + j2 end.
Lemma sem_Ser l : sem (Ser l) = sem_ser l.
Proof. induction l as [|t l IH]; [reflexivity|]. cbn [sem sem_ser] in *. rewrite <- IH. reflexivity. Qed.
Lemma sem_Par l : sem (Par l) = sem_par l.
Proof. induction l as [|t l IH]; [reflexivity|]. cbn [sem sem_par] in *. rewrite <- IH. reflexivity. Qed.

Definition is0 (x : K) : bool := if fdec K x 0 then true else false.
Lemma is0_false x : is0 x = false -> x <> 0.
Proof. unfold is0. destruct (fdec K x 0); [discriminate | auto]. Qed.

(* Thevenin pair -> Norton pair and back (what OnePort.Isc / OnePort.Voc /
   admittance / impedance do: Isc = Voc Y, Y = 1/Z, ...) *)
Definition th2no (r : K * K) : option (K * K) := if is0 (snd r) then None else Some (fst r / snd r, 1 / snd r).
Definition addp (r1 r2 : K * K) : K * K := (fst r1 + fst r2, snd r1 + snd r2).

Fixpoint th (t : tree) : option (K * K) :=
  match t with
  | Leaf a b c => if is0 a then None else Some (c / a, b / a)
  | Ser l => (fix ths (l : list tree) : option (K * K) :=
                match l with [] => Some (0, 0)
                | t :: l' => match th t, ths l' with Some r1, Some r2 => Some (addp r1 r2) | _, _ => None end end) l
  | Par l => match (fix nos (l : list tree) : option (K * K) :=
                match l with [] => Some (0, 0)
                | t :: l' => match no t, nos l' with Some r1, Some r2 => Some (addp r1 r2) | _, _ => None end end) l
             with Some r => th2no r | None => None end
  end
with no (t : tree) : option (K * K) :=
  match t with
  | Leaf a b c => if is0 b then None else Some (c / b, a / b)
  | Par l => (fix nos (l : list tree) : option (K * K) :=
                match l with [] => Some (0, 0)
                | t :: l' => match no t, nos l' with Some r1, Some r2 => Some (addp r1 r2) | _, _ => None end end) l
  | Ser l => match (fix ths (l : list tree) : option (K * K) :=
                match l with [] => Some (0, 0)
                | t :: l' => match th t, ths l' with Some r1, Some r2 => Some (addp r1 r2) | _, _ => None end end) l
             with Some r => th2no r | None => None end
  end.
Fixpoint ths (l : list tree) : option (K * K) :=
  match l with [] => Some (0, 0)
  | t :: l' => match th t, ths l' with Some r1, Some r2 => Some (addp r1 r2) | _, _ => None end end.
Fixpoint nos (l : list tree) : option (K * K) :=
  match l with [] => Some (0, 0)
  | t :: l' => match no t, nos l' with Some r1, Some r2 => Some (addp r1 r2) | _, _ => None end end.
Lemma th_Ser l : th (Ser l) = ths l.
Proof. induction l as [|t l IH]; [reflexivity|]. cbn [th ths] in *. rewrite <- IH. reflexivity. Qed.
Lemma no_Par l : no (Par l) = nos l.
Proof. induction l as [|t l IH]; [reflexivity|]. cbn [no nos] in *. rewrite <- IH. reflexivity. Qed.
Lemma th_Par l : th (Par l) = match nos l with Some r => th2no r | None => None end.
Proof. rewrite <- no_Par. reflexivity. Qed.
Lemma no_Ser l : no (Ser l) = match ths l with Some r => th2no r | None => None end.
Proof. rewrite <- th_Ser. reflexivity. Qed.

Definition th_line (r : K * K) (u j : K) : Prop := u = fst r - snd r * j.
Definition no_line (r : K * K) (u j : K) : Prop := j = fst r - snd r * u.

Lemma th2no_sound r r' : th2no r = Some r' -> forall u j, th_line r u j <-> no_line r' u j.
Proof.
  unfold th2no. destruct (is0 (snd r)) eqn:E; [discriminate|]. apply is0_false in E. intros H. inversion H; subst r'. clear H.
  intros u j. unfold th_line, no_line. cbn [fst snd]. split; intros ->; field; exact E.
Qed.
(* the same conversion read the other way round (Norton pair -> Thevenin pair) *)
Lemma no2th_sound r r' : th2no r = Some r' -> forall u j, no_line r u j <-> th_line r' u j.
Proof.
  unfold th2no. destruct (is0 (snd r)) eqn:E; [discriminate|]. apply is0_false in E. intros H. inversion H; subst r'. clear H.
  intros u j. unfold th_line, no_line. cbn [fst snd]. split; intros ->; field; exact E.
Qed.

(* size-indexed induction: a tree of any depth *)
Fixpoint size (t : tree) : nat :=
  match t with
  | Leaf _ _ _ => 1
  | Ser l => S ((fix sz (l : list tree) : nat := match l with [] => O | t :: l' => (size t + sz l')%nat end) l)
  | Par l => S ((fix sz (l : list tree) : nat := match l with [] => O | t :: l' => (size t + sz l')%nat end) l)
  end.
Fixpoint sizes (l : list tree) : nat := match l with [] => O | t :: l' => (size t + sizes l')%nat end.
Lemma size_Ser l : size (Ser l) = S (sizes l).
Proof. reflexivity. Qed.
Lemma size_Par l : size (Par l) = S (sizes l).
Proof. reflexivity. Qed.

Lemma ser_line l : (forall t, In t l -> forall r, th t = Some r -> forall u j, sem t u j <-> th_line r u j) ->
  forall r, ths l = Some r -> forall u j, sem_ser l u j <-> th_line r u j.
Proof.
  induction l as [|t l IH]; intros H r E u j; cbn [ths sem_ser] in *.
  - inversion E; subst r. unfold th_line; cbn [fst snd]. split; intros ->; ring.
  - destruct (th t) as [r1|] eqn:E1; [|discriminate]. destruct (ths l) as [r2|] eqn:E2; [|discriminate].
    inversion E; subst r. clear E.
    assert (Ht := H t (or_introl eq_refl) r1 E1).
    assert (Hl := IH (fun t' Hi => H t' (or_intror Hi)) r2 eq_refl).
    unfold th_line, addp in *. cbn [fst snd] in *. split.
    + intros [u1 [u2 [A [B C]]]]. apply Ht in A. apply Hl in B. subst. ring.
    + intros ->. exists (fst r1 - snd r1 * j), (fst r2 - snd r2 * j). split; [apply Ht; reflexivity|].
      split; [apply Hl; reflexivity | ring].
Qed.
Lemma par_line l : (forall t, In t l -> forall r, no t = Some r -> forall u j, sem t u j <-> no_line r u j) ->
  forall r, nos l = Some r -> forall u j, sem_par l u j <-> no_line r u j.
Proof.
  induction l as [|t l IH]; intros H r E u j; cbn [nos sem_par] in *.
  - inversion E; subst r. unfold no_line; cbn [fst snd]. split; intros ->; ring.
  - destruct (no t) as [r1|] eqn:E1; [|discriminate]. destruct (nos l) as [r2|] eqn:E2; [|discriminate].
    inversion E; subst r. clear E.
    assert (Ht := H t (or_introl eq_refl) r1 E1).
    assert (Hl := IH (fun t' Hi => H t' (or_intror Hi)) r2 eq_refl).
    unfold no_line, addp in *. cbn [fst snd] in *. split.
    + intros [j1 [j2 [A [B C]]]]. apply Ht in A. apply Hl in B. subst. ring.
    + intros ->. exists (fst r1 - snd r1 * u), (fst r2 - snd r2 * u). split; [apply Ht; reflexivity|].
      split; [apply Hl; reflexivity | ring].
Qed.
Lemma In_sizes t l : In t l -> (size t <= sizes l)%nat.
Proof. induction l as [|x l IH]; intros []; cbn [sizes]; [subst; lia | specialize (IH H); lia]. Qed.

Theorem th_no_sound : forall n t, (size t <= n)%nat ->
  (forall r, th t = Some r -> forall u j, sem t u j <-> th_line r u j) /\
  (forall r, no t = Some r -> forall u j, sem t u j <-> no_line r u j).
Proof.
  induction n as [|n IH]; intros t Hs.
  - destruct t; cbn [size] in Hs; lia.
  - destruct t as [a b c|l|l].
    + split; intros r E u j; cbn [th no sem] in *.
      * destruct (is0 a) eqn:Ea; [discriminate|]. apply is0_false in Ea. inversion E; subst r.
        unfold th_line; cbn [fst snd]. split; intros H.
        -- transitivity ((a * u + b * j - b * j) / a); [field; exact Ea | rewrite H; field; exact Ea].
        -- rewrite H. field. exact Ea.
      * destruct (is0 b) eqn:Eb; [discriminate|]. apply is0_false in Eb. inversion E; subst r.
        unfold no_line; cbn [fst snd]. split; intros H.
        -- transitivity ((a * u + b * j - a * u) / b); [field; exact Eb | rewrite H; field; exact Eb].
        -- rewrite H. field. exact Eb.
    + rewrite size_Ser in Hs.
      assert (HL : forall r, ths l = Some r -> forall u j, sem_ser l u j <-> th_line r u j).
      { apply ser_line. intros t Hi. apply (IH t). pose proof (In_sizes t l Hi). lia. }
      split; intros r E u j; rewrite sem_Ser.
      * rewrite th_Ser in E. apply HL. exact E.
      * rewrite no_Ser in E. destruct (ths l) as [r0|] eqn:E0; [|discriminate].
        rewrite (HL r0 eq_refl). apply th2no_sound. exact E.
    + rewrite size_Par in Hs.
      assert (HL : forall r, nos l = Some r -> forall u j, sem_par l u j <-> no_line r u j).
      { apply par_line. intros t Hi. apply (IH t). pose proof (In_sizes t l Hi). lia. }
      split; intros r E u j; rewrite sem_Par.
      * rewrite th_Par in E. destruct (nos l) as [r0|] eqn:E0; [|discriminate].
        rewrite (HL r0 eq_refl). apply no2th_sound. exact E.
      * rewrite no_Par in E. apply HL. exact E.
Qed.
(* the reported Thevenin pair describes the terminal behaviour of the tree *)
Theorem th_sound t r : th t = Some r -> forall u j, sem t u j <-> th_line r u j.
Proof. apply (proj1 (th_no_sound (size t) t (le_n _))). Qed.
Theorem no_sound t r : no t = Some r -> forall u j, sem t u j <-> no_line r u j.
Proof. apply (proj2 (th_no_sound (size t) t (le_n _))). Qed.

(* Thevenin and Norton models of one tree are equivalent to each other:
   Voc = Isc Zth and Zth Yth = 1 *)
Theorem th_no_consistent t V Zt I Y : th t = Some (V, Zt) -> no t = Some (I, Y) -> Zt * Y = 1 /\ V = I * Zt /\ I = V * Y.
Proof.
  intros Ht Hn. pose proof (th_sound t _ Ht) as A. pose proof (no_sound t _ Hn) as B.
  unfold th_line, no_line in *. cbn [fst snd] in *.
  (* two points of the relation *)
  assert (Q0 : sem t V 0) by (apply A; ring).
  apply B in Q0.
  assert (Q1 : sem t (V - Zt) 1) by (apply A; ring).
  apply B in Q1.
  assert (ZY : Zt * Y = 1).
  { transitivity ((I - Y * (V - Zt)) - (I - Y * V)); [ring | rewrite <- Q1, <- Q0; ring]. }
  assert (E2 : I = V * Y).
  { transitivity (I - (I - Y * V)); [rewrite <- Q0; ring | ring]. }
  split; [exact ZY|]. split; [|exact E2].
  rewrite E2. transitivity (V * (Zt * Y)); [rewrite ZY; ring | ring].
Qed.

(* replacing the tree by its Thevenin or Norton model leaves what ANY load
   (a relation between u and the current j it takes) receives unchanged *)
Theorem oneport_load_invariance t r (Load : K -> K -> Prop) : th t = Some r ->
  forall u j, (sem t u j /\ Load u j) <-> (th_line r u j /\ Load u j).
Proof. intros H u j. rewrite (th_sound t r H). reflexivity. Qed.
Theorem oneport_load_invariance_norton t r (Load : K -> K -> Prop) : no t = Some r ->
  forall u j, (sem t u j /\ Load u j) <-> (no_line r u j /\ Load u j).
Proof. intros H u j. rewrite (no_sound t r H). reflexivity. Qed.
End OnePort.
Arguments Leaf {K}. Arguments Ser {K}. Arguments Par {K}. Arguments sem {K}. Arguments th {K}. Arguments no {K}.
Arguments th_line {K}. Arguments no_line {K}.
