(* TimeDomCorr — executable glue for the C02 correspondence evaluation over the
   Gaussian rationals [QcIF]:
     quant       one observed quantity of a circuit: its s-domain value as
                 Σ_T e^{-sT} B_T(s)/A_T(s) with a partial-fraction certificate
                 (Q, [(r, p, o)]) per delay, and the normal form parsed from the
                 time-domain expression Lcapy returned
     q_model     the model time function = termwise inverse (ExpPoly.Linv) of the
                 certified normal form;  [q_model_sound]: its Laplace image is the
                 s-domain solution at every non-pole s
     claw        the physical laws of one circuit over its list of quantities:
                 capacitor, inductor (with mutual terms), instantaneous linear laws
                 (Ohm, sources, controlled sources, transformer, KCL)
     claw_chk    decidable check on the model signals; [claw_chk_sound]
     case_items  verdict of one circuit: list of failing item codes
                    1000+q  certificate of quantity q rejected by pf_check
                    2000+q  model inverse <> Lcapy's time function (finite maps)
                    3000+q  step / t>=0 bookkeeping differs from the flag model
                    4000+l  law l does not hold for the model inverse
                    5000    Analysis causal flag differs from the model
     sw_items    verdict of one convert_IVP experiment (instrumented run of the real method):
                    6000  final switch configuration differs from the specification
                    6001  the sequence of initialize(before, T) calls (configuration of `before`, T)
                          differs from the specification's hand-overs
                    6002  switching_times() differs from the sorted, duplicate-free activation times
                    6003  replace_switches(t) differs from the model built with the source-extracted comparison
                    6004  replace_switches_before(t) differs from the model built with the source-extracted comparison
                    6005  the initialize(before, T) calls (configuration, T, `before` carries initial conditions)
                          or the final configuration differ from the source-translated loop of convert_IVP
   All evaluation is by vm_compute in the generated cases_k.v. *)
Require Import LT.FieldSec LT.PolyQ LT.QcI LT.ExpPoly LT.ILT LT.ILTCorr LT.TimeDom LT.TimeDomSwitch.
Local Open Scope F_scope.

Notation sigI := (sig KI).
Definition cert := (Qc * (list KI * list KI) * (list KI * list (pfterm KI)))%type.   (* (T, (B, A), (Q, ts)) *)
Record quant := Quant { q_img : list cert; q_obs : obs }.

Definition cert_T (e : cert) : Qc := fst (fst e).
Definition cert_B (e : cert) : list KI := fst (snd (fst e)).
Definition cert_A (e : cert) : list KI := snd (snd (fst e)).
Definition cert_Q (e : cert) : list KI := fst (snd e).
Definition cert_ts (e : cert) : list (pfterm KI) := snd (snd e).
Definition cert_okb (e : cert) : bool :=
  pf_check (cert_B e) (cert_A e) (cert_Q e) (cert_ts e) && orders_posb (cert_ts e) && negb (qc_ltb (cert_T e) 0).
Definition q_model (q : quant) : dsig KI := map (fun e => (cert_T e, Linv (Img (cert_Q e) (cert_ts e)))) (q_img q).
Fixpoint img_sum (E : Qc -> KI) (s : KI) (l : list cert) : KI :=
  match l with [] => 0 | e :: r => E (cert_T e) * (peval (cert_B e) s / peval (cert_A e) s) + img_sum E s r end.

(* the model time function is the inverse transform of the s-domain solution *)
Theorem q_model_sound (q : quant) : forallb cert_okb (q_img q) = true ->
  forall (E : Qc -> KI) (s : KI), (forall e, In e (q_img q) -> peval (cert_A e) s <> (0 : KI)) ->
  dLval E s (q_model q) = img_sum E s (q_img q).
Proof. unfold q_model. induction (q_img q) as [|e l IH]; intros Hc E s HA; cbn [map dLval img_sum]; [reflexivity|].
  cbn [forallb] in Hc. apply andb_true_iff in Hc. destruct Hc as [He Hc].
  rewrite IH by (try assumption; intros e' Hin; apply HA; right; exact Hin).
  unfold cert_okb in He. apply andb_true_iff in He. destruct He as [He _]. apply andb_true_iff in He. destruct He as [Hpf Hw].
  rewrite (LT_Linv KI s (Img (cert_Q e) (cert_ts e))) by (apply orders_posb_sound; exact Hw).
  unfold ival. cbn [ipoly ipf]. rewrite <- (pf_check_sound KI _ _ _ _ Hpf s (HA e (or_introl eq_refl))). reflexivity. Qed.

(* ---- comparison with the observed time function ---------------------------------------------- *)
Definition as_mres (X : dsig KI) : mres KI := MRes X szero false.
Definition q_same (q : quant) : bool :=
  let m := as_mres (q_model q) in
  reg_eq (flat_reg m) (o_reg (q_obs q)) && sing_eq (flat_sing m) (o_sing (q_obs q)).

(* flag model.  mode of the analysis group that produced the quantity:
     FCausal   causal sources, zero initial state: every regular term carries its step, no condition
     FCond     initial value problem / causality unknown: delay-free regular terms are only claimed
               for t >= 0 (Piecewise condition) and carry NO step (nothing is claimed for t < 0, in
               particular not 0), delayed terms carry their step
     FMixed    superposition of a steady-state (dc / ac, valid for all t) part and a causal transient:
               no condition; terms without step are the steady state                                   *)
Inductive fmode := FCausal | FCond | FMixed.
Definition has_plain_reg (o : obs) : bool := existsb (fun e => match e with (_, _, _, _, step) => negb step end) (o_reg o).
Definition flags_ok (m : fmode) (o : obs) : bool :=
  match m with
  | FCausal => negb (o_cond o) && forallb (fun e => match e with (_, _, _, _, step) => step end) (o_reg o)
  | FCond => Bool.eqb (o_cond o) (has_plain_reg o) && steps_ok (o_cond o) (o_reg o)
             && forallb (fun e => match e with (T, _, _, _, step) => negb (qc_eqb T 0) || negb step end) (o_reg o)
  | FMixed => negb (o_cond o) && forallb (fun e => match e with (T, _, _, _, step) => step || qc_eqb T 0 end) (o_reg o)
  end.
(* value claimed for t < 0: None = not claimed (condition t >= 0) *)
Definition neg_part (o : obs) : option (list (rterm KI)) :=
  if o_cond o then None
  else Some (fold_right (fun (e : oreg) acc => match e with (T, n, p, c, step) => if step then acc else ((c, n, p) : rterm KI) :: acc end) [] (o_reg o)).
(* FCausal ==> the response is zero for t < 0 *)
Theorem flags_causal_zero o : flags_ok FCausal o = true -> neg_part o = Some [].
Proof. unfold flags_ok, neg_part. intros H. apply andb_true_iff in H. destruct H as [Hc Hs]. apply negb_true_iff in Hc. rewrite Hc.
  f_equal. induction (o_reg o) as [|[[[[T n] p] c] step] l IH]; [reflexivity|]. cbn [forallb] in Hs. apply andb_true_iff in Hs. destruct Hs as [H1 H2].
  cbn [fold_right]. rewrite H1. exact (IH H2). Qed.

(* Analysis.__init__ (lcapy/analysis.py): causal = every independent source causal, and zeroic *)
Definition analysis_causal (src_causal : list bool) (zeroic : list bool) : bool := forallb (fun b => b) src_causal && forallb (fun b => b) zeroic.

(* ---- delayed signals: component with delay T ----------------------------------------------------- *)
Fixpoint comp (T : Qc) (X : dsig KI) : sigI :=
  match X with [] => szero | (T', x) :: r => if qc_eqb T T' then sadd x (comp T r) else comp T r end.
Definition delays (X : dsig KI) : list Qc := map fst X.

(* ---- laws ---------------------------------------------------------------------------------------------- *)
Inductive claw :=
| LawC (Cv v0 : KI) (jv ji : nat)                                  (* i = C (D v - v0 δ) *)
| LawL (Lv i0 : KI) (jv ji : nat) (ms : list (KI * KI * nat))      (* v = L (D i - i0 δ) + Σ M (D i_k - i0k δ) *)
| LawLin (ts : list (KI * nat)) (w : dsig KI).                     (* Σ a_k x_k = w   (instantaneous) *)

Definition qsig (qs : list (dsig KI)) (T : Qc) (j : nat) : sigI := comp T (nth j qs []).
Definition delta0 (T : Qc) (a : KI) : sigI := if qc_eqb T 0 then sdelta a else szero.
Fixpoint mut_terms (ms : list (KI * KI * nat)) : list (lterm KI) :=
  match ms with [] => [] | (M, _, jk) :: r => (0, - M, jk) :: mut_terms r end.
Fixpoint mut_ic' (ms : list (KI * KI * nat)) : KI := match ms with [] => 0 | (M, i0k, _) :: r => M * i0k + mut_ic' r end.
Definition claw_terms (l : claw) : list (lterm KI) :=
  match l with
  | LawC Cv v0 jv ji => [(1, 0, ji); (0, - Cv, jv)]
  | LawL Lv i0 jv ji ms => (1, 0, jv) :: (0, - Lv, ji) :: mut_terms ms
  | LawLin ts _ => lin_terms ts
  end.
Definition claw_rhs (l : claw) (T : Qc) : sigI :=
  match l with
  | LawC Cv v0 _ _ => delta0 T (- (Cv * v0))
  | LawL Lv i0 _ _ ms => delta0 T (- (Lv * i0 + mut_ic' ms))
  | LawLin _ w => comp T w
  end.
Definition claw_delays (l : claw) (qs : list (dsig KI)) : list Qc :=
  (0%Qc :: flat_map (fun t => match t with (_, _, j) => delays (nth j qs []) end) (claw_terms l))
  ++ match l with LawLin _ w => delays w | _ => [] end.
Definition claw_holds (l : claw) (qs : list (dsig KI)) : Prop :=
  forall T, In T (claw_delays l qs) -> law_holds (claw_terms l) (claw_rhs l T) (qsig qs T).
Definition claw_chk (l : claw) (qs : list (dsig KI)) : bool :=
  forallb (fun T => law_chk (claw_terms l) (claw_rhs l T) (qsig qs T)) (claw_delays l qs).
Theorem claw_chk_sound l qs : claw_chk l qs = true -> claw_holds l qs.
Proof. unfold claw_chk, claw_holds. rewrite forallb_forall. intros H T Hin. apply law_chk_sound. exact (H T Hin). Qed.

(* the delay-free component of a checked capacitor law IS the law_C of TimeDom.v, so that
   time_law_C / continuity_C apply to the model signals of the case *)
Theorem claw_C_law Cv v0 jv ji qs : claw_holds (LawC Cv v0 jv ji) qs ->
  law_C Cv v0 (qsig qs 0%Qc ji) (qsig qs 0%Qc jv).
Proof. intros H. specialize (H 0%Qc (or_introl eq_refl)). unfold law_holds in H. cbn [claw_terms claw_rhs lcomb] in H.
  unfold delta0 in H. replace (qc_eqb 0 0) with true in H by (symmetry; apply qc_eqb_eq; reflexivity). exact H. Qed.

(* ---- verdict of one circuit ----------------------------------------------------------------------------- *)
Fixpoint idx_fail {A} (f : A -> bool) (base : nat) (i : nat) (l : list A) : list nat :=
  match l with [] => [] | a :: r => (if f a then [] else [(base + i)%nat]) ++ idx_fail f base (S i) r end.
Definition case_items (qs : list (quant * fmode)) (laws : list claw)
    (src_causal zeroic : list bool) (lcapy_causal : bool) : list nat :=
  let ms := map (fun qm => q_model (fst qm)) qs in
  idx_fail (fun qm => forallb cert_okb (q_img (fst qm))) 1000 0 qs ++
  idx_fail (fun qm => q_same (fst qm)) 2000 0 qs ++
  idx_fail (fun qm => flags_ok (snd qm) (q_obs (fst qm))) 3000 0 qs ++
  idx_fail (fun l => claw_chk l ms) 4000 0 laws ++
  (if Bool.eqb (analysis_causal src_causal zeroic) lcapy_causal then [] else [5000%nat]).
Definition fail_cases (cases : list (nat * list nat)) : list (nat * list nat) :=
  filter (fun c => match snd c with [] => false | _ => true end) cases.

(* typed constructors for the generated case files *)
Definition mkcert (T : Qc) (Bp Ap Q : list KI) (ts : list (KI * KI * nat)) : cert := (T, (Bp, Ap), (Q, ts)).
Definition mkd (T : Qc) (sg : list KI) (rg : list (KI * nat * KI)) : Qc * sigI := (T, Sig sg rg).

(* ---- switched circuits -------------------------------------------------------------------------------------- *)
Fixpoint qinsert (x : Qc) (l : list Qc) : list Qc :=
  match l with [] => [x] | y :: r => if qlt x y then x :: l else if qc_eqb x y then l else y :: qinsert x r end.
(* Netlist.switching_times: sorted list of the distinct activation times *)
Definition switching_times (sws : list sw) : list Qc := fold_right (fun s acc => qinsert (sw_time s) acc) [] sws.
Fixpoint bools_eqb (a b : list bool) : bool :=
  match a, b with [], [] => true | x :: a', y :: b' => Bool.eqb x y && bools_eqb a' b' | _, _ => false end.
Fixpoint qlist_eqb' (a b : list Qc) : bool :=
  match a, b with [], [] => true | x :: a', y :: b' => qc_eqb x y && qlist_eqb' a' b' | _, _ => false end.
Fixpoint trace_eqb (a b : list (list bool * Qc)) : bool :=
  match a, b with
  | [], [] => true
  | (c, T) :: a', (c', T') :: b' => bools_eqb c c' && qc_eqb T T' && trace_eqb a' b'
  | _, _ => false end.
Definition sw_items (before_cmp after_cmp : Qc -> Qc -> bool) (closed_m : swkind -> bool -> bool)
    (sws : list sw) (t : Qc) (obs_times : list Qc) (obs_final : list bool) (obs_trace : list (list bool * Qc))
    (obs_after obs_before : list bool) : list nat :=
  let times := switching_times sws in
  let code_repl cmp := map (fun s => closed_m (sw_kind s) (cmp t (sw_time s))) sws in
  (if bools_eqb (final_cfg sws times t) obs_final then [] else [6000%nat]) ++
  (if trace_eqb (trace_spec sws times t) obs_trace then [] else [6001%nat]) ++
  (if qlist_eqb' times obs_times then [] else [6002%nat]) ++
  (if bools_eqb (code_repl after_cmp) obs_after then [] else [6003%nat]) ++
  (if bools_eqb (code_repl before_cmp) obs_before then [] else [6004%nat]).

(* the source-translated loop of convert_IVP (TimeDomSwitch.run_loop on Gen.SwitchGen.loop_gen) against the instrumented run *)
Fixpoint trace3_eqb (a b : list tentry) : bool :=
  match a, b with
  | [], [] => true
  | (c, T, f) :: a', (c', T', f') :: b' => bools_eqb c c' && qc_eqb T T' && Bool.eqb f f' && trace3_eqb a' b'
  | _, _ => false end.
Definition sw_loop_items (ld : loopdef) (sws : list sw) (t : Qc) (obs_final : list bool) (obs_trace : list tentry) : list nat :=
  let r := run_loop ld sws (switching_times sws) t in
  if trace3_eqb (fst r) obs_trace && bools_eqb (ccfg (snd r)) obs_final then [] else [6005%nat].
