(* C06 — fast transport of text into the generated correspondence files.
   Type-checking a Coq string literal costs ~10 term nodes per character, which
   made the cases_k.v files the bottleneck of the check.  Text is therefore
   written as a list of primitive 63-bit integers, 7 bytes each with the byte
   count in bits 56.., and decoded here.  Used ONLY by cases_k.v (data
   transport for the correspondence evaluation); no theorem depends on it. *)
From Coq Require Import List Ascii ZArith Uint63.
From LT Require Import ParserStr.
Import ListNotations.
Local Open Scope uint63_scope.
Definition byte_at (x : int) (k : nat) : ascii :=
  ascii_of_N (Z.to_N (to_Z ((x >> (of_Z (Z.of_nat (8 * k)))) land 255))).
Definition dec1 (x : int) : str := map (byte_at x) (seq 0 (Z.to_nat (to_Z (x >> 56)))).
Definition u (l : list int) : str := flat_map dec1 l.
Example u_test : u [(3 << 56) lor (49 << 8) lor 82 lor (32 << 16)] = [ch 82; ch 49; ch 32].
Proof. vm_compute. reflexivity. Qed.

(* which accepted one-line inputs fall inside the hypotheses of parse_print (reported in the
   evidence; the oracle decides about the others) *)
From Coq Require Import Bool.
From LT Require Import ParserModel ParserThm ParserRoundTrip.
Local Open Scope bool_scope.
Fixpoint find_idx (cls : str) (rules : list rule) (i : nat) : option (nat * rule) :=
  match rules with
  | [] => None
  | r :: rest => if str_eqb (r_class r) cls then Some (i, r) else find_idx cls rest (S i)
  end.
Fixpoint find_rule (cls : str) (d : list (str * list rule)) : option (list rule * nat * rule) :=
  match d with
  | [] => None
  | (_, rules) :: rest => match find_idx cls rules 0 with
                          | Some (i, r) => Some (rules, i, r)
                          | None => find_rule cls rest
                          end
  end.
Definition opts_rt_b (o : opts) : bool :=
  match opts_add [] (strip (opts_format o)) with Ok o' => opts_eqb o' o | Err _ => false end.
(* Some true: inside the theorem's domain; Some false: outside; None: the model rejects the line *)
Definition wf_of_line (g : grammar) (line : str) : option bool :=
  match parse g st0 [] (strip line) with
  | Ok (c, _) => match find_rule (c_class c) (g_dict g) with
                 | Some (rules, i, r) => Some ((wf_cpt g rules i r c || wf_anon g rules i r c) && opts_rt_b (c_opts c))
                 | None => Some false
                 end
  | Err _ => None
  end.
Definition outside (g : grammar) (l : list (N * str)) : list N :=
  map fst (filter (fun p => match wf_of_line g (snd p) with Some true => false | _ => true end) l).
