(* C05: executable instance of the rewrite model over the Gaussian rationals Qc[i]
   (LT.QcI), used for ac_model(omega) = s_model(j omega): impedances are evaluated at
   j omega, the sources stay Laplace transforms in s. *)
Require Import LT.FieldSec LT.QcI LT.RewriteModel.
From Coq Require Import Arith.
Local Open Scope nat_scope.

Notation elemI := (elem QcIF).
Definition ElemI (nm : name) (t : ety) (ns : list nat) (kw : skw) (x : qci) (ic : option qci) : elemI := @Elem QcIF nm t ns kw x ic.
Definition optqi_eqb (a b : option qci) : bool :=
  match a, b with Some x, Some y => qci_eqb x y | None, None => true | _, _ => false end.
Fixpoint natsI_eqb (a b : list nat) : bool :=
  match a, b with [] , [] => true | x :: a', y :: b' => Nat.eqb x y && natsI_eqb a' b' | _, _ => false end.
Definition elemI_eqb (a b : elemI) : bool :=
  ety_eqb (etyp a) (etyp b) && natsI_eqb (enodes a) (enodes b) &&
  (ety_eqb (etyp a) TW || (name_eqb (ename a) (ename b) && skw_eqb (ekw a) (ekw b) && qci_eqb (eval a) (eval b) && optqi_eqb (eic a) (eic b))).
Fixpoint netI_eqb (a b : list elemI) : bool :=
  match a, b with [], [] => true | x :: a', y :: b' => elemI_eqb x y && netI_eqb a' b' | _, _ => false end.
(* jw: the value j omega; sl: the (real) point at which the s-domain source values were evaluated *)
Definition ac_model_code (jw sl : qci) (N out : list elemI) (d : nat) : nat :=
  if netI_eqb (@s_model QcIF qci_eqb jw sl KwS N d) out then 0
  else if netI_eqb (@s_model QcIF qci_eqb jw sl KwNone N d) out then 5 else 1.
