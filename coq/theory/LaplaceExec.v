(* LaplaceExec — executable instance of the C09 model over the Gaussian rationals, used only by the
   correspondence evaluation (cases_k.v, vm_compute).

   exp / sin / cos cannot be rational-valued functions on all of Q; the evaluation uses CHARACTERS on the
   lattice (1/D)Z (D chosen per case by the harness so that every argument that occurs lies on it):
       xex D q       = 2^(q D)                 (a group homomorphism (1/D)Z -> Q*, standing for e^q: e^{1/D} is
                                               transcendental, so an identity between the two sides that holds
                                               for the true exponential holds for every such homomorphism)
       (cos, sin) q  = ((3 + 4i)/5)^(q D)      (a point of infinite order on the rational unit circle)
       pi            = the marker XPI = 2^40; arguments are reduced modulo XPI/2 by quarter turns, so that
                       sin(x + pi/2) = cos x, cos(x + pi/2) = - sin x hold exactly
   Off-lattice arguments give the poison value [xpoison] (never equal to a legitimate result; the harness
   then repeats the case on a finer lattice).  The same definitions are mirrored in checks/c09.py, which
   evaluates what Lcapy returned with them.  Nothing here is used by a theorem. *)
Require Import LT.FieldSec LT.QcI LT.PolyQ LT.ExpPoly LT.LaplaceSig LT.LaplaceModel.
From Coq Require Import QArith Qcanon Qround.

Definition qI (a : Qc) : qci := QI a 0.
Definition xpoison : qci := QI (qc 1000003 7) (qc 999983 11).

Definition zpowQ (x : Qc) (z : Z) : Qc :=
  match z with
  | Z0 => 1%Qc
  | Zpos p => Pos.iter_op Qcmult p x
  | Zneg p => Qcinv (Pos.iter_op Qcmult p x)
  end.
Definition zpowI (x : qci) (z : Z) : qci :=          (* |x| = 1: inverse = conjugate *)
  match z with
  | Z0 => ci1
  | Zpos p => Pos.iter_op cimul p x
  | Zneg p => Pos.iter_op cimul p (ciconj x)
  end.
Definition on_lattice (D : positive) (q : Qc) : option Z :=
  let r := (q * qc (Zpos D) 1)%Qc in
  if Pos.eqb (Qden (this r)) 1 then Some (Qnum (this r)) else None.

Definition XPI : Qc := qc 1099511627776 1.
Definition rot0 : qci := QI (qc 3 5) (qc 4 5).
(* (cos q, sin q) as one unit complex number *)
Definition xcis (D : positive) (q : Qc) : option qci :=
  let h := (XPI / qc 2 1)%Qc in
  let k := Qfloor (this (q / h + qc 1 2)%Qc) in
  let r := (q - qc k 1 * h)%Qc in
  match on_lattice D r with
  | Some n =>
      let b := zpowI rot0 n in
      Some (match (k mod 4)%Z with
            | 0%Z => b
            | 1%Z => cimul cii b
            | 2%Z => ciopp b
            | _ => ciopp (cimul cii b)
            end)
  | None => None
  end.
Definition xexr (D : positive) (q : Qc) : option Qc :=
  match on_lattice D q with Some n => Some (zpowQ (qc 2 1) n) | None => None end.
Definition xex (D : positive) (z : qci) : qci :=
  match xexr D (re z), xcis D (im z) with
  | Some a, Some b => cimul (qI a) b
  | _, _ => xpoison
  end.
Definition is_real (z : qci) : bool := qc_eqb (im z) 0.
Definition xcs (D : positive) (z : qci) : qci :=
  if is_real z then match xcis D (re z) with Some b => qI (re b) | None => xpoison end else xpoison.
Definition xsn (D : positive) (z : qci) : qci :=
  if is_real z then match xcis D (re z) with Some b => qI (im b) | None => xpoison end else xpoison.
Definition xneg (z : qci) : bool := match (re z ?= 0)%Qc with Lt => true | _ => false end.
Definition xabs (z : qci) : qci := if xneg z then ciopp z else z.
Definition xpi : qci := qI XPI.
(* transform of the named function number v, and its initial values: fixed rational functions / numbers *)
Definition xFn (v : nat) (z : qci) : qci :=
  cidiv (ciadd z (qI (qc (Z.of_nat v + 2) 1))) (ciadd (cimul z z) (qI (qc (2 * Z.of_nat v + 5) 1))).
Definition xIc (v m : nat) : qci := qI (qc (7 + 3 * Z.of_nat v + Z.of_nat m) 5).
(* value v(x) of the named function at an instant x (v(0) is the same atom as the initial value) *)
Definition xFv (v : nat) (z : qci) : qci :=
  if qci_eqb z ci0 then xIc v 0
  else cidiv (ciadd (cimul z z) (qI (qc (Z.of_nat v + 3) 1))) (ciadd z (qI (qc (Z.of_nat v + 5) 1))).

Definition xenv (D : positive) : lenv QcIF := LEnv QcIF (xex D) (xsn D) (xcs D) xabs xpi is_real xneg xFn xIc xFv.
Definition xorc (D : positive) (N : nf QcIF) : option (qci -> qci) := Some (fun s => nf_val QcIF (xex D) s N).

Definition ev_code (e : ev) : nat :=
  match e with EvTerm => 0 | EvSinCosOk => 1 | EvSinCosFail => 2 | EvFunctionVal => 3 | EvFunctionNone => 4
             | EvFunc => 5 | EvIntegral => 6 | EvDerivUndef => 7 | EvInt0 => 8 | EvInt0minus => 9 | EvError => 10 end.
Fixpoint nats_eqb (a b : list nat) : bool :=
  match a, b with [] , [] => true | x :: a', y :: b' => Nat.eqb x y && nats_eqb a' b' | _, _ => false end.

(* one correspondence case.  want = what Lcapy returned at s0.
     5 = Lcapy differs from the SPECIFICATION (the model run with the hand-written specification forms): a failing input
     1 = Lcapy agrees with the specification but differs from the model with the translated forms
     2 = values agree, dispatch events differ     3 = the model has no value where Lcapy returned one     0 = agrees *)
Definition xspec (D : positive) : forms QcIF := spec_forms QcIF (xex D) (xsn D) (xcs D) xneg xFn xIc.
(* the order in which the terms of a sum are visited is SymPy's as_ordered_terms (it depends on symbolic coefficients):
   the dispatch events are compared as a multiset of per-term groups (a group starts at every EvTerm = 0) *)
Fixpoint ev_groups (l cur : list nat) (acc : list (list nat)) : list (list nat) :=
  match l with
  | [] => rev cur :: acc
  | x :: l' => if Nat.eqb x 0 then ev_groups l' [0%nat] (rev cur :: acc) else ev_groups l' (x :: cur) acc
  end.
Fixpoint remove1 (g : list nat) (L : list (list nat)) : option (list (list nat)) :=
  match L with
  | [] => None
  | h :: L' => if nats_eqb g h then Some L' else match remove1 g L' with Some R => Some (h :: R) | None => None end
  end.
Fixpoint perm_eqb (A B : list (list nat)) : bool :=
  match A with
  | [] => match B with [] => true | _ => false end
  | g :: A' => match remove1 g B with Some B' => perm_eqb A' B' | None => false end
  end.
Definition events_eqb (a b : list nat) : bool := perm_eqb (ev_groups a [] []) (ev_groups b [] []).
(* the lower limit 0 or 0- only matters when an impulse sits at the origin: otherwise integrate_0 and integrate_0minus
   are the same branch for the comparison of dispatch events *)
Definition relax (strict : bool) (l : list nat) : list nat :=
  if strict then l else map (fun c => if Nat.eqb c 9 then 8%nat else c) l.
Definition run_case (F : forms QcIF) (D : positive) (zic : bool) (e : tx QcIF) (s0 : qci)
                    (want : qci) (evs : list nat) (check_events strict : bool) : nat :=
  let spec_bad := match doit QcIF (xex D) cii is_real xneg xFv (xspec D) (xorc D) zic e with
                  | (Some Y, _) => negb (qci_eqb (Y s0) want)
                  | (None, _) => false
                  end in
  if spec_bad then 5%nat else
  match doit QcIF (xex D) cii is_real xneg xFv F (xorc D) zic e with
  | (Some X, mevs) =>
      if qci_eqb (X s0) want then
        (if check_events then (if events_eqb (relax strict (map ev_code mevs)) (relax strict evs) then 0 else 2) else 0)%nat
      else 1%nat
  | (None, _) => 3%nat
  end.
Definition model_value (F : forms QcIF) (D : positive) (zic : bool) (e : tx QcIF) (s0 : qci) : option qci :=
  match doit QcIF (xex D) cii is_real xneg xFv F (xorc D) zic e with (Some X, _) => Some (X s0) | (None, _) => None end.
Definition model_events (F : forms QcIF) (D : positive) (zic : bool) (e : tx QcIF) : list nat :=
  map ev_code (snd (doit QcIF (xex D) cii is_real xneg xFv F (xorc D) zic e)).
