(* C20 - schematic layout.  Part 4: components with any number of pins.
   The constraints the placer-base model builds for ONE component along one
   axis (links between pins of equal value, and a chain of edges between the
   pins sorted by value) are equivalent to the "all pairs" statement used by
   the validation oracle:
     for every two pins i, j of the component
        val_i == val_j  ->  pos(n_i) == pos(n_j)
        val_i <  val_j  ->  pos(n_j) - pos(n_i) >= (val_j - val_i) * size   (== when not stretchy)
   for lists of pins of any length. *)
From Coq Require Import QArith List Bool Arith Lia Lqa.
Require Import LT.Layout LT.LayoutPlace.
Import ListNotations.
Local Open Scope Q_scope.

Definition relR (st : bool) (d x : Q) : Prop := if st then d <= x else x == d.

Lemma relR_add st d1 d2 x1 x2 : relR st d1 x1 -> relR st d2 x2 -> relR st (d1 + d2) (x1 + x2).
Proof. unfold relR. destruct st; intros H1 H2; [lra|rewrite H1, H2; reflexivity]. Qed.
Lemma relR_ext st d d' x x' : d == d' -> x == x' -> relR st d x -> relR st d' x'.
Proof. unfold relR. destruct st; intros E1 E2 H; rewrite <- E1, <- E2; exact H. Qed.
Lemma relR_zero st : relR st 0 0.
Proof. unfold relR. destruct st; [lra|reflexivity]. Qed.

(* ---- the sort ---------------------------------------------------------------- *)
Lemma insert_desc_in p l q : In q (insert_desc p l) <-> q = p \/ In q l.
Proof.
  induction l as [|x r IH]; cbn.
  - intuition.
  - destruct (Qle_bool (fst x) (fst p)); cbn; [intuition|].
    rewrite IH. intuition.
Qed.
Lemma sort_desc_in l q : In q (sort_desc l) <-> In q l.
Proof.
  induction l as [|x r IH]; cbn; [tauto|].
  rewrite insert_desc_in, IH. intuition.
Qed.

(* descending: every later element has a value <= every earlier one *)
Fixpoint sorted_desc (l : list (Q * node)) : Prop :=
  match l with
  | [] => True
  | p :: r => (forall q, In q r -> fst q <= fst p) /\ sorted_desc r
  end.

Lemma insert_desc_sorted p l : sorted_desc l -> sorted_desc (insert_desc p l).
Proof.
  induction l as [|x r IH]; intros H; cbn.
  - split; [intros q []|exact I].
  - destruct (Qle_bool (fst x) (fst p)) eqn:E.
    + apply Qle_bool_iff in E. cbn. split; [|exact H].
      intros q [<-|Hq]; [exact E|].
      destruct H as [Hx _]. specialize (Hx q Hq). lra.
    + assert (Hlt : fst p < fst x).
      { destruct (Qlt_le_dec (fst p) (fst x)) as [L|L]; [exact L|]. apply Qle_bool_iff in L. congruence. }
      destruct H as [Hx Hr]. cbn. split; [|apply IH; exact Hr].
      intros q Hq. apply insert_desc_in in Hq. destruct Hq as [->|Hq]; [lra|auto].
Qed.
Lemma sort_desc_sorted l : sorted_desc (sort_desc l).
Proof. induction l as [|x r IH]; cbn; [exact I|apply insert_desc_sorted; exact IH]. Qed.

Section OneAxis.
Variable pos : node -> Q.

(* ---- links: every two pins of equal value are linked --------------------- *)
Lemma links_from_spec n1 v1 ns vs :
  Forall (holds pos) (map cstr_of_link (links_from n1 v1 ns vs)) ->
  forall v n, In (v, n) (combine vs ns) -> v == v1 -> pos n - pos n1 == 0.
Proof.
  revert vs. induction ns as [|n2 ns IH]; intros vs H v n Hin Hv.
  - destruct vs; destruct Hin.
  - destruct vs as [|v2 vs]; [destruct Hin|].
    cbn [links_from] in H. rewrite map_app in H. apply Forall_app in H. destruct H as [H1 H2].
    cbn [combine] in Hin. destruct Hin as [E|Hin].
    + inversion E; subst v2 n2. clear E.
      assert (Eb : Qeq_bool v v1 = true) by (apply Qeq_bool_iff; exact Hv).
      rewrite Eb in H1. cbn in H1. inversion H1 as [|? ? Hh _]; subst.
      unfold holds, cstr_of_link in Hh; cbn in Hh. exact Hh.
    + eapply IH; eauto.
Qed.

Lemma links_spec ns vs :
  Forall (holds pos) (map cstr_of_link (links ns vs)) ->
  forall v1 n1 v2 n2, In (v1, n1) (combine vs ns) -> In (v2, n2) (combine vs ns) -> v1 == v2 ->
  pos n1 == pos n2.
Proof.
  revert vs. induction ns as [|n ns IH]; intros vs H v1 n1 v2 n2 H1 H2 E.
  - destruct vs; destruct H1.
  - destruct vs as [|v vs]; [destruct H1|].
    cbn [links] in H. rewrite map_app in H. apply Forall_app in H. destruct H as [Ha Hb].
    cbn [combine] in H1, H2. destruct H1 as [E1|H1]; destruct H2 as [E2|H2].
    + inversion E1; inversion E2; subst. reflexivity.
    + inversion E1; subst v n. clear E1.
      pose proof (links_from_spec n1 v1 ns vs Ha v2 n2 H2 (Qeq_sym _ _ E)) as L. lra.
    + inversion E2; subst v n. clear E2.
      pose proof (links_from_spec n2 v2 ns vs Ha v1 n1 H1 E) as L. lra.
    + eapply IH; eauto.
Qed.

(* ---- the chain of edges along the sorted list -------------------------------- *)
Variable s : Q.
Variable st : bool.
Hypothesis s_pos : 0 < s.

(* equal-valued pins have equal positions (provided by the links) *)
Variable l : list (Q * node).
Hypothesis eq_linked : forall p q, In p l -> In q l -> fst p == fst q -> pos (snd p) == pos (snd q).

Lemma graph_add_holds n1 n2 v1 v2 :
  v2 <= v1 ->
  (v1 == v2 -> pos n1 == pos n2) ->
  Forall (holds pos) (map cstr_of_gedge (graph_add n1 n2 ((v2 - v1) * s) st)) ->
  relR st ((v1 - v2) * s) (pos n1 - pos n2).
Proof.
  intros Hle Heq H. unfold graph_add in H.
  destruct (Qeq_bool ((v2 - v1) * s) 0) eqn:E0.
  - apply Qeq_bool_iff in E0.
    assert (Ev : v1 == v2) by nra.
    specialize (Heq Ev). eapply relR_ext; [| |apply relR_zero]; [rewrite Ev; ring|lra].
  - assert (Hne : ~ (v2 - v1) * s == 0) by (intros K; apply Qeq_bool_iff in K; congruence).
    assert (Hneg : (v2 - v1) * s < 0).
    { assert ((v2 - v1) * s <= 0) by nra. apply Qle_lteq in H0. destruct H0; [assumption|contradiction]. }
    destruct (Qle_bool 0 ((v2 - v1) * s)) eqn:E1; [apply Qle_bool_iff in E1; lra|].
    cbn in H. inversion H as [|? ? Hh _]; subst. apply holds_gedge in Hh. cbn in Hh.
    unfold relR. unfold rel_holds in Hh. destruct st; [lra|rewrite Hh; ring].
Qed.

Lemma chain sl : (forall p, In p sl -> In p l) -> sorted_desc sl ->
  Forall (holds pos) (map cstr_of_gedge (place_sorted sl s st)) ->
  forall a p b, sl = a ++ p :: b -> forall q, In q b ->
  relR st ((fst p - fst q) * s) (pos (snd p) - pos (snd q)).
Proof.
  induction sl as [|p1 r IH]; intros Hsub Hs H a p b E q Hq.
  - destruct a; discriminate.
  - destruct r as [|p2 r'].
    + destruct a as [|x a]; cbn in E; inversion E; subst.
      * destruct Hq.
      * destruct a; discriminate.
    + cbn [place_sorted] in H. rewrite map_app in H. apply Forall_app in H. destruct H as [Hadj Hrest].
      destruct Hs as [Hp1 Hr].
      assert (Hsub' : forall x, In x (p2 :: r') -> In x l) by (intros x Hx; apply Hsub; right; exact Hx).
      assert (Adj : relR st ((fst p1 - fst p2) * s) (pos (snd p1) - pos (snd p2))).
      { apply (graph_add_holds (snd p1) (snd p2) (fst p1) (fst p2)).
        - apply Hp1. left; reflexivity.
        - intros Ev. apply eq_linked; [apply Hsub; left; reflexivity|apply Hsub; right; left; reflexivity|exact Ev].
        - exact Hadj. }
      destruct a as [|x a].
      * cbn in E. inversion E; subst p b. clear E.
        destruct Hq as [<-|Hq]; [exact Adj|].
        pose proof (IH Hsub' Hr Hrest [] p2 r' eq_refl q Hq) as R.
        eapply relR_ext; [| |apply (relR_add _ _ _ _ _ Adj R)]; ring.
      * cbn in E. inversion E; subst x.
        apply (IH Hsub' Hr Hrest a p b H1 q Hq).
Qed.

End OneAxis.

Lemma sorted_after a p b : sorted_desc (a ++ p :: b) -> forall q, In q b -> fst q <= fst p.
Proof.
  induction a as [|x a IH]; cbn; intros H q Hq.
  - destruct H as [H _]. apply H. exact Hq.
  - destruct H as [_ H]. apply IH; assumption.
Qed.

(* soundness: the constraints the placer model emits for one component on one
   axis imply the all-pairs statement *)
Theorem place_all_pairs ns vs s st pos : 0 < s ->
  Forall (holds pos) (map cstr_of_link (links ns vs) ++ map cstr_of_gedge (place ns vs s st)) ->
  forall v1 n1 v2 n2, In (v1, n1) (combine vs ns) -> In (v2, n2) (combine vs ns) ->
    (v1 == v2 -> pos n1 == pos n2) /\
    (v1 < v2 -> relR st ((v2 - v1) * s) (pos n2 - pos n1)).
Proof.
  intros Hs H v1 n1 v2 n2 H1 H2. apply Forall_app in H. destruct H as [HL HE].
  pose proof (links_spec pos ns vs HL) as LS.
  split; [intros E; eapply LS; eauto|].
  intros Hlt.
  unfold place in HE. rewrite (eff_size_pos_eq s Hs) in HE.
  remember (combine vs ns) as l eqn:El.
  remember (sort_desc l) as sl eqn:Esl.
  assert (Hsorted : sorted_desc sl) by (subst sl; apply sort_desc_sorted).
  assert (Hsub : forall p, In p sl -> In p l) by (intros p Hp; subst sl; apply sort_desc_in; exact Hp).
  assert (Hq : In (v2, n2) sl) by (subst sl; apply sort_desc_in; exact H2).
  assert (Hp : In (v1, n1) sl) by (subst sl; apply sort_desc_in; exact H1).
  assert (EL : forall p q, In p l -> In q l -> fst p == fst q -> pos (snd p) == pos (snd q)).
  { intros [pv pn] [qv qn] Hp' Hq' E. cbn in *. eapply LS; eauto. }
  destruct (in_split _ _ Hq) as [a [b Eab]].
  rewrite Eab in Hp. apply in_app_or in Hp. destruct Hp as [Hp|[Hp|Hp]].
  - exfalso. destruct (in_split _ _ Hp) as [a1 [a2 Ea]].
    rewrite Eab, Ea, <- app_assoc in Hsorted. cbn in Hsorted.
    pose proof (sorted_after a1 (v1, n1) (a2 ++ (v2, n2) :: b) Hsorted (v2, n2)) as K.
    cbn in K. assert (v2 <= v1) by (apply K; apply in_or_app; right; left; reflexivity). lra.
  - inversion Hp; subst. lra.
  - pose proof (chain pos s st Hs l EL sl Hsub Hsorted HE a (v2, n2) b Eab (v1, n1) Hp) as R.
    exact R.
Qed.

(* completeness: every constraint the placer model emits is an instance of the
   all-pairs statement, so a placement satisfying the all-pairs statement
   satisfies the model's constraints *)
Definition all_pairs (pos : node -> Q) (l : list (Q * node)) (s : Q) (st : bool) : Prop :=
  forall v1 n1 v2 n2, In (v1, n1) l -> In (v2, n2) l ->
    (v1 == v2 -> pos n1 == pos n2) /\ (v1 < v2 -> relR st ((v2 - v1) * s) (pos n2 - pos n1)).

Lemma links_from_complete pos n1 v1 ns vs :
  (forall v n, In (v, n) (combine vs ns) -> v == v1 -> pos n == pos n1) ->
  Forall (holds pos) (map cstr_of_link (links_from n1 v1 ns vs)).
Proof.
  revert vs. induction ns as [|n2 ns IH]; intros vs H; [destruct vs; constructor|].
  destruct vs as [|v2 vs]; [constructor|].
  cbn [links_from]. rewrite map_app. apply Forall_app. split.
  - destruct (Qeq_bool v2 v1) eqn:E; [|constructor].
    apply Qeq_bool_iff in E. constructor; [|constructor].
    unfold holds, cstr_of_link; cbn. rewrite (H v2 n2 (or_introl eq_refl) E). ring.
  - apply IH. intros v n Hin. apply H. right; exact Hin.
Qed.

Lemma links_complete pos ns vs s st : all_pairs pos (combine vs ns) s st ->
  Forall (holds pos) (map cstr_of_link (links ns vs)).
Proof.
  revert vs. induction ns as [|n ns IH]; intros vs H; [destruct vs; constructor|].
  destruct vs as [|v vs]; [constructor|].
  cbn [links]. rewrite map_app. apply Forall_app. split.
  - apply links_from_complete. intros v' n' Hin E.
    destruct (H v' n' v n (or_intror Hin) (or_introl eq_refl)) as [K _]. auto.
  - apply IH. intros v1 n1 v2 n2 H1 H2. apply H; right; assumption.
Qed.

Lemma place_sorted_complete pos l sl s st : 0 < s -> all_pairs pos l s st ->
  (forall p, In p sl -> In p l) -> sorted_desc sl ->
  Forall (holds pos) (map cstr_of_gedge (place_sorted sl s st)).
Proof.
  intros Hs HA. induction sl as [|p1 r IH]; intros Hsub Hsorted; [constructor|].
  destruct r as [|p2 r']; [constructor|].
  cbn [place_sorted]. rewrite map_app. apply Forall_app. split.
  - destruct p1 as [v1 n1], p2 as [v2 n2]. cbn [fst snd].
    destruct Hsorted as [Hle _]. specialize (Hle (v2, n2) (or_introl eq_refl)). cbn in Hle.
    destruct (HA v2 n2 v1 n1 (Hsub _ (or_intror (or_introl eq_refl))) (Hsub _ (or_introl eq_refl))) as [_ K].
    unfold graph_add.
    destruct (Qeq_bool ((v2 - v1) * s) 0) eqn:E0; [constructor|].
    assert (Hne : ~ (v2 - v1) * s == 0) by (intros Z; apply Qeq_bool_iff in Z; congruence).
    assert (Hlt : v2 < v1).
    { apply Qle_lteq in Hle. destruct Hle as [L|L]; [exact L|]. exfalso. apply Hne. rewrite L. ring. }
    assert (Hneg : (v2 - v1) * s < 0) by nra.
    destruct (Qle_bool 0 ((v2 - v1) * s)) eqn:E1; [apply Qle_bool_iff in E1; lra|].
    cbn. constructor; [|constructor]. apply holds_gedge. cbn.
    specialize (K Hlt). unfold relR in K. unfold rel_holds. destruct st; [lra|rewrite K; ring].
  - apply IH; [intros p Hp; apply Hsub; right; exact Hp|destruct Hsorted; assumption].
Qed.

Theorem place_all_pairs_complete ns vs s st pos : 0 < s ->
  all_pairs pos (combine vs ns) s st ->
  Forall (holds pos) (map cstr_of_link (links ns vs) ++ map cstr_of_gedge (place ns vs s st)).
Proof.
  intros Hs HA. apply Forall_app. split; [eapply links_complete; eauto|].
  unfold place. rewrite (eff_size_pos_eq s Hs).
  apply (place_sorted_complete pos (combine vs ns)); auto.
  - intros p Hp. apply sort_desc_in. exact Hp.
  - apply sort_desc_sorted.
Qed.

(* the two directions together: for one component (any number of pins) on one
   axis, the model's constraint set is equivalent to the all-pairs statement *)
Theorem place_iff_all_pairs ns vs s st pos : 0 < s ->
  (Forall (holds pos) (map cstr_of_link (links ns vs) ++ map cstr_of_gedge (place ns vs s st))
   <-> all_pairs pos (combine vs ns) s st).
Proof.
  intros Hs. split.
  - intros H v1 n1 v2 n2 H1 H2. eapply place_all_pairs; eauto.
  - apply place_all_pairs_complete; exact Hs.
Qed.
