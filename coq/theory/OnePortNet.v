(* C07 - the netlist a one-port tree is converted to (Ser._net_make,
   Par._net_make, NetlistMaker.__call__ of lcapy) and its physical semantics.

   Netlists of two-terminal elements: wires and components.  A state is a node
   potential  v : nat -> K  and one through-current per element (from its first
   to its second node).  [laws]: every element obeys its law (wire: equal
   potentials; component: its terminal relation).  [flow N cs m]: the current
   that leaves node m through the elements - Kirchhoff's current law at an
   internal node is  flow = 0.

   Theorem [emit_good] (induction on the tree, over the node threading of the
   emitters): restricted to its two terminals, the emitted netlist behaves
   exactly as the series/parallel specification [sem] of the tree:
   soundness (every solution of the netlist satisfies sem) and completeness
   (every point of sem extends to a solution of the netlist).               *)
Require Import LT.FieldSec LT.OnePort.
From Coq Require Import List Arith Lia Bool.
Import ListNotations.
Local Open Scope F_scope.

Section Net.
Variable K : fld.
Add Field KFnet : (fth K).
Variable L : Type.

Inductive elt := EW (a b : nat) | EC (l : L) (a b : nat).
Definition emitter := nat -> nat -> nat -> list elt * nat.   (* n1 n2 next-free-node -> lines, next-free-node *)

(* ---- Ser._net_make ---- *)
Fixpoint ser_emit (es : list emitter) (a b n : nat) : list elt * nat :=
  match es with
  | [] => ([], n)
  | e :: r =>
      match r with
      | [] => e a b n
      | _ :: _ => let n3 := n in
                  let '(l1, n') := e a n3 (S n) in
                  let n1 := n' in
                  let '(l2, n'') := ser_emit r n1 b (S n') in
                  (l1 ++ EW n3 n1 :: l2, n'')
      end
  end.
(* ---- the chain of branches drawn above (or below) the centre of a Par ---- *)
Fixpoint rails (es : list emitter) (na nb n : nat) : list elt * nat :=
  match es with
  | [] => ([], n)
  | e :: r => let nc := n in let nd := S n in
              let '(l1, n') := e nc nd (S (S n)) in
              let '(l2, n'') := rails r nc nd n' in
              (EW na nc :: EW nb nd :: l1 ++ l2, n'')
  end.
Definition nop : emitter := fun _ _ n => ([], n).
(* three groups of branches between two fresh nodes n3, n4 that are wired to the terminals *)
Definition par3 (ec eu ed : emitter) : emitter := fun a b n =>
  let n3 := n in let n4 := S n in
  let '(lc, c1) := ec n3 n4 (S (S n)) in
  let '(lu, c2) := eu n3 n4 c1 in
  let '(ld, c3) := ed n3 n4 c2 in
  (lc ++ EW a n3 :: lu ++ ld ++ [EW n4 b], c3).
(* ---- Par._net_make: centre branch (odd count), branches above, branches below ---- *)
Definition par_emit (es : list emitter) : emitter :=
  let N := length es in
  par3 (if Nat.odd N then nth (N / 2) es nop else nop)
       (rails (rev (firstn (N / 2) es)))
       (rails (skipn ((N + 1) / 2) es)).
Section EmitG.
Variable lfe : L -> emitter.
Fixpoint emitG (t : tree L) : emitter :=
  match t with
  | Leaf l => lfe l
  | Ser ts => ser_emit (map emitG ts)
  | Par ts => par_emit (map emitG ts)
  end.
End EmitG.

(* ---- semantics ------------------------------------------------------------ *)
Definition indn (a m : nat) : K := if Nat.eqb a m then 1 else 0.
(* a current i from node a to node b, seen at node m *)
Definition thrun (a b m : nat) (i : K) : K := (indn a m - indn b m) * i.
Definition ea (e : elt) : nat := match e with EW a _ => a | EC _ a _ => a end.
Definition eb (e : elt) : nat := match e with EW _ b => b | EC _ _ b => b end.
Fixpoint flow (N : list elt) (cs : list K) (m : nat) : K :=
  match N, cs with
  | e :: N', c :: cs' => thrun (ea e) (eb e) m c + flow N' cs' m
  | _, _ => 0
  end.
(* lrel l dv c : voltage drop dv from the first to the second node, current c through the component *)
Variable lrel : L -> K -> K -> Prop.
Definition law (v : nat -> K) (e : elt) (c : K) : Prop :=
  match e with EW a b => v a = v b | EC l a b => lrel l (v a - v b) c end.
Fixpoint laws (v : nat -> K) (N : list elt) (cs : list K) : Prop :=
  match N, cs with
  | e :: N', c :: cs' => law v e c /\ laws v N' cs'
  | [], [] => True
  | _, _ => False
  end.

Lemma thrun_same a m i : thrun a a m i = 0.
Proof. unfold thrun. ring. Qed.
Lemma thrun_out a b m i : m <> a -> m <> b -> thrun a b m i = 0.
Proof. intros Ha Hb. unfold thrun, indn. destruct (Nat.eqb_spec a m); [congruence|]. destruct (Nat.eqb_spec b m); [congruence|]. ring. Qed.
Lemma thrun_a a b i : a <> b -> thrun a b a i = i.
Proof. intros H. unfold thrun, indn. rewrite Nat.eqb_refl. destruct (Nat.eqb_spec b a); [congruence|]. ring. Qed.
Lemma thrun_b a b i : a <> b -> thrun a b b i = - i.
Proof. intros H. unfold thrun, indn. rewrite Nat.eqb_refl. destruct (Nat.eqb_spec a b); [congruence|]. ring. Qed.
Lemma thrun_0 a b m : thrun a b m 0 = 0.
Proof. unfold thrun. ring. Qed.

Lemma laws_length v N : forall cs, laws v N cs -> length cs = length N.
Proof. induction N as [|e N IH]; intros [|c cs]; cbn [laws length]; try tauto. intros [_ H]. f_equal. apply IH. exact H. Qed.
Lemma flow_app N1 : forall cs1 N2 cs2 m, length cs1 = length N1 ->
  flow (N1 ++ N2) (cs1 ++ cs2) m = flow N1 cs1 m + flow N2 cs2 m.
Proof.
  induction N1 as [|e N1 IH]; intros [|c cs1] N2 cs2 m H; cbn [length] in H; try discriminate; cbn [app flow].
  - ring.
  - rewrite IH by (injection H; trivial). ring.
Qed.
Lemma laws_app v N1 : forall cs1 N2 cs2, laws v N1 cs1 -> laws v N2 cs2 -> laws v (N1 ++ N2) (cs1 ++ cs2).
Proof. induction N1 as [|e N1 IH]; intros [|c cs1] N2 cs2 H1 H2; cbn [laws app] in *; try tauto. destruct H1 as [A B]. split; [exact A | apply IH; assumption]. Qed.
Lemma laws_split v N1 : forall N2 cs, laws v (N1 ++ N2) cs ->
  exists cs1 cs2, cs = cs1 ++ cs2 /\ laws v N1 cs1 /\ laws v N2 cs2.
Proof.
  induction N1 as [|e N1 IH]; intros N2 cs H; cbn [app] in H.
  - exists [], cs. split; [reflexivity|]. split; [exact I | exact H].
  - destruct cs as [|c cs]; cbn [laws] in H; [contradiction|]. destruct H as [A B].
    destruct (IH N2 cs B) as [cs1 [cs2 [E [H1 H2]]]]. exists (c :: cs1), cs2. subst cs. repeat split; assumption.
Qed.

(* ---- what it means for an emitter to realise a one-port relation -----------
   sm V I : V = potential of the first terminal minus that of the second,
            I = current flowing OUT of the first terminal into the outside world
            (so the current through the network from a to b is - I).           *)
Definition outside (n n' m : nat) : Prop := (m < n)%nat \/ (n' <= m)%nat.
(* node x is one of the terminals or one of the fresh nodes *)
Definition node_ok (a b n n' x : nat) : Prop := x = a \/ x = b \/ (n <= x < n')%nat.
Record good (sm : K -> K -> Prop) (e : emitter) : Prop := Good {
  g_mono : forall a b n, (n <= snd (e a b n))%nat;
  (* the lines mention only the two terminals and the fresh nodes *)
  g_nodes : forall a b n x, In x (fst (e a b n)) ->
              node_ok a b n (snd (e a b n)) (ea x) /\ node_ok a b n (snd (e a b n)) (eb x);
  (* every solution of the lines (KCL at the fresh nodes) is a point of the relation *)
  g_sound : forall a b n v cs, (a < n)%nat -> (b < n)%nat -> laws v (fst (e a b n)) cs ->
              (forall m, (n <= m < snd (e a b n))%nat -> flow (fst (e a b n)) cs m = 0) ->
              exists i, sm (v a - v b) (- i) /\ forall m, outside n (snd (e a b n)) m -> flow (fst (e a b n)) cs m = thrun a b m i;
  (* every point of the relation extends to a solution of the lines *)
  g_complete : forall a b n v i, (a < n)%nat -> (b < n)%nat -> sm (v a - v b) (- i) ->
              exists v' cs, (forall m, outside n (snd (e a b n)) m -> v' m = v m) /\ laws v' (fst (e a b n)) cs /\
                (forall m, (n <= m < snd (e a b n))%nat -> flow (fst (e a b n)) cs m = 0) /\
                (forall m, outside n (snd (e a b n)) m -> flow (fst (e a b n)) cs m = thrun a b m i)
}.

Lemma flow_untouched N : forall cs m, (forall x, In x N -> ea x <> m /\ eb x <> m) -> flow N cs m = 0.
Proof.
  induction N as [|e N IH]; intros [|c cs] m H; cbn [flow]; try reflexivity.
  destruct (H e (or_introl eq_refl)) as [Ha Hb]. rewrite thrun_out by congruence.
  rewrite IH; [ring|]. intros x Hx. apply H. right. exact Hx.
Qed.
Lemma laws_local N : forall v v' cs, (forall x, In x N -> v (ea x) = v' (ea x) /\ v (eb x) = v' (eb x)) -> laws v N cs -> laws v' N cs.
Proof.
  induction N as [|e N IH]; intros v v' [|c cs] H; cbn [laws]; try tauto. intros [A B]. split.
  - destruct (H e (or_introl eq_refl)) as [Ea Eb]. destruct e as [x y|l x y]; cbn [law ea eb] in *; rewrite <- Ea, <- Eb; exact A.
  - apply (IH v v' cs); [|exact B]. intros x Hx. apply H. right. exact Hx.
Qed.
Lemma g_touch sm e : good sm e -> forall a b n cs m, m <> a -> m <> b -> outside n (snd (e a b n)) m -> flow (fst (e a b n)) cs m = 0.
Proof.
  intros G a b n cs m Ha Hb Ho. apply flow_untouched. intros x Hx. destruct (g_nodes _ _ G a b n x Hx) as [[A|[A|A]] [B|[B|B]]];
    unfold outside in Ho; split; lia.
Qed.
Lemma g_local sm e : good sm e -> forall a b n v v' cs, (a < n)%nat -> (b < n)%nat ->
  (forall m, (m < snd (e a b n))%nat -> v m = v' m) -> laws v (fst (e a b n)) cs -> laws v' (fst (e a b n)) cs.
Proof.
  intros G a b n v v' cs Ha Hb E. apply laws_local. intros x Hx. pose proof (g_mono _ _ G a b n) as M.
  destruct (g_nodes _ _ G a b n x Hx) as [A B]. unfold node_ok in *. split; apply E; lia.
Qed.

Lemma good_ext (s s' : K -> K -> Prop) e : (forall V I, s V I <-> s' V I) -> good s e -> good s' e.
Proof.
  intros E [M T S C]. constructor; try assumption.
  - intros a b n v cs Ha Hb Hl Hk. destruct (S a b n v cs Ha Hb Hl Hk) as [i [Hs Hf]]. exists i. split; [apply E; exact Hs | exact Hf].
  - intros a b n v i Ha Hb Hs. apply E in Hs. exact (C a b n v i Ha Hb Hs).
Qed.

Definition upd (v : nat -> K) (k : nat) (x : K) : nat -> K := fun m => if Nat.eqb m k then x else v m.
Lemma upd_same v k x : upd v k x k = x. Proof. unfold upd. rewrite Nat.eqb_refl. reflexivity. Qed.
Lemma upd_other v k x m : m <> k -> upd v k x m = v m.
Proof. intros H. unfold upd. destruct (Nat.eqb_spec m k); [congruence | reflexivity]. Qed.

(* ---- a single component (Network._net_make) ---- *)
Definition leaf_emit (l : L) : emitter := fun a b n => ([EC l a b], n).
Hypothesis lrel_ext : forall l dv c c', c = c' -> lrel l dv c -> lrel l dv c'.
Lemma good_leaf (l : L) : good (fun V I => lrel l V (- I)) (leaf_emit l).
Proof.
  constructor; unfold leaf_emit; cbn [fst snd].
  - intros; lia.
  - intros a b n x [E|[]]. subst x. cbn [ea eb]. unfold node_ok. tauto.
  - intros a b n v [|c [|c2 cs]] Ha Hb; cbn [laws law]; try tauto. intros [H _] _. exists c. split.
    + apply (lrel_ext l _ c); [ring | exact H].
    + intros m _. cbn [flow ea eb]. ring.
  - intros a b n v i Ha Hb H. exists v, [i]. repeat split; cbn [laws law flow ea eb].
    + apply (lrel_ext l _ (- - i)); [ring | exact H].
    + intros m Hm. lia.
    + intros m _. ring.
Qed.

(* ---- nothing between the terminals: an open circuit ---- *)
Lemma good_nop : good (fun V I => I = 0) nop.
Proof.
  constructor; unfold nop; cbn [fst snd].
  - intros; lia.
  - intros a b n x [].
  - intros a b n v [|c cs] Ha Hb; cbn [laws]; try tauto. intros _ _. exists 0. split; [ring|]. intros m _. rewrite thrun_0. reflexivity.
  - intros a b n v i Ha Hb H. assert (i = 0) by (transitivity (- - i); [ring | rewrite H; ring]). subst i.
    exists v, []. repeat split; intros; cbn [flow]; rewrite ?thrun_0; reflexivity.
Qed.

Lemma good_eq sm (e e' : emitter) : (forall a b n, e a b n = e' a b n) -> good sm e -> good sm e'.
Proof.
  intros E [M T S C]. constructor; intros a b n; rewrite <- (E a b n); [apply M | apply T | apply S | apply C].
Qed.

(* ---- two networks in series: e1 between a and a fresh node, a wire to a second fresh node, er on to b ---- *)
Definition ser2 (e1 er : emitter) : emitter := fun a b n =>
  let '(l1, n') := e1 a n (S n) in
  let '(l2, n'') := er n' b (S n') in
  (l1 ++ EW n n' :: l2, n'').

Lemma good_ser2 s1 sr e1 er : good s1 e1 -> good sr er ->
  good (fun V I => exists v1 v2, s1 v1 I /\ sr v2 I /\ V = v1 + v2) (ser2 e1 er).
Proof.
  intros G1 G2. constructor; intros a b n; unfold ser2;
    pose proof (g_mono _ _ G1 a n (S n)) as M1; pose proof (g_nodes _ _ G1 a n (S n)) as N1;
    pose proof (g_touch _ _ G1 a n (S n)) as T1;
    destruct (e1 a n (S n)) as [l1 n'] eqn:E1;
    pose proof (g_mono _ _ G2 n' b (S n')) as M2; pose proof (g_nodes _ _ G2 n' b (S n')) as N2;
    pose proof (g_touch _ _ G2 n' b (S n')) as T2;
    destruct (er n' b (S n')) as [l2 n''] eqn:E2; cbn [fst snd] in *.
  - lia.
  - intros x Hx. apply in_app_or in Hx. destruct Hx as [Hx|[Hx|Hx]].
    + destruct (N1 x Hx) as [A B]. unfold node_ok in *. split; lia.
    + subst x. cbn [ea eb]. unfold node_ok. split; lia.
    + destruct (N2 x Hx) as [A B]. unfold node_ok in *. split; lia.
  - intros v cs Ha Hb Hl Hk.
    destruct (laws_split v l1 _ cs Hl) as [cs1 [cs' [Ec [L1 L2']]]]. destruct cs' as [|cw cs2]; cbn [laws] in L2'; [contradiction|].
    destruct L2' as [Lw L2]. cbn [law] in Lw. subst cs.
    assert (Len1 := laws_length v l1 cs1 L1).
    assert (FL : forall m, flow (l1 ++ EW n n' :: l2) (cs1 ++ cw :: cs2) m = flow l1 cs1 m + thrun n n' m cw + flow l2 cs2 m).
    { intros m. rewrite flow_app by exact Len1. cbn [flow ea eb]. ring. }
    (* the first network *)
    pose proof (g_sound _ _ G1 a n (S n) v cs1) as S1. rewrite E1 in S1. cbn [fst snd] in S1.
    destruct S1 as [i1 [Hs1 F1]]; [lia | lia | exact L1 | |].
    { intros m Hm. pose proof (Hk m ltac:(lia)) as Hm0. rewrite FL in Hm0.
      rewrite (thrun_out n n' m) in Hm0 by lia. rewrite (T2 cs2 m) in Hm0 by (unfold outside; lia).
      transitivity (flow l1 cs1 m + 0 + 0); [ring | exact Hm0]. }
    (* the second network *)
    pose proof (g_sound _ _ G2 n' b (S n') v cs2) as S2. rewrite E2 in S2. cbn [fst snd] in S2.
    destruct S2 as [i2 [Hs2 F2]]; [lia | lia | exact L2 | |].
    { intros m Hm. pose proof (Hk m ltac:(lia)) as Hm0. rewrite FL in Hm0.
      rewrite (thrun_out n n' m) in Hm0 by lia. rewrite (T1 cs1 m) in Hm0 by (unfold outside; lia).
      transitivity (0 + 0 + flow l2 cs2 m); [ring | exact Hm0]. }
    (* KCL at the two joining nodes *)
    assert (K3 : cw = i1).
    { pose proof (Hk n ltac:(lia)) as H0. rewrite FL in H0. rewrite (F1 n) in H0 by (unfold outside; lia).
      rewrite (thrun_b a n) in H0 by lia. rewrite (thrun_a n n') in H0 by lia. rewrite (T2 cs2 n) in H0 by (unfold outside; lia).
      transitivity (- i1 + cw + 0 + i1); [ring | rewrite H0; ring]. }
    assert (K1 : i2 = cw).
    { pose proof (Hk n' ltac:(lia)) as H0. rewrite FL in H0. rewrite (T1 cs1 n') in H0 by (unfold outside; lia).
      rewrite (thrun_b n n') in H0 by lia. rewrite (F2 n') in H0 by (unfold outside; lia). rewrite (thrun_a n' b) in H0 by lia.
      transitivity (0 + - cw + i2 + cw); [ring | rewrite H0; ring]. }
    subst cw. subst i2. exists i1. split.
    + exists (v a - v n), (v n' - v b). split; [exact Hs1|]. split; [exact Hs2|]. rewrite Lw. ring.
    + intros m Ho. rewrite FL. rewrite (thrun_out n n' m) by (unfold outside in Ho; lia).
      rewrite (F1 m) by (unfold outside in *; lia). rewrite (F2 m) by (unfold outside in *; lia).
      unfold thrun, indn. destruct (Nat.eqb_spec n m); [unfold outside in Ho; lia|]. destruct (Nat.eqb_spec n' m); [unfold outside in Ho; lia|]. ring.
  - intros v i Ha Hb [v1 [v2 [Hs1 [Hs2 EV]]]].
    set (x := v a - v1).
    set (v0 := upd (upd v n x) n' x).
    assert (V0a : v0 a = v a) by (unfold v0; rewrite !upd_other by lia; reflexivity).
    assert (V0b : v0 b = v b) by (unfold v0; rewrite !upd_other by lia; reflexivity).
    assert (V0n : v0 n = x) by (unfold v0; rewrite upd_other by lia; apply upd_same).
    assert (V0n' : v0 n' = x) by (unfold v0; apply upd_same).
    pose proof (g_complete _ _ G1 a n (S n) v0 i) as C1. rewrite E1 in C1. cbn [fst snd] in C1.
    destruct C1 as [va [cs1 [Ag1 [L1 [Kc1 F1]]]]]; [lia | lia | |].
    { rewrite V0a, V0n. unfold x. replace (v a - (v a - v1)) with v1 by ring. exact Hs1. }
    pose proof (g_complete _ _ G2 n' b (S n') va i) as C2. rewrite E2 in C2. cbn [fst snd] in C2.
    destruct C2 as [vb [cs2 [Ag2 [L2 [Kc2 F2]]]]]; [lia | lia | |].
    { rewrite (Ag1 n') by (unfold outside; lia). rewrite (Ag1 b) by (unfold outside; lia). rewrite V0n', V0b.
      unfold x. replace (v a - v1 - v b) with v2; [exact Hs2|]. transitivity (v a - v b - v1); [rewrite EV; ring | ring]. }
    assert (Len1 := laws_length va l1 cs1 L1).
    assert (FL : forall m, flow (l1 ++ EW n n' :: l2) (cs1 ++ i :: cs2) m = flow l1 cs1 m + thrun n n' m i + flow l2 cs2 m).
    { intros m. rewrite flow_app by exact Len1. cbn [flow ea eb]. ring. }
    exists vb, (cs1 ++ i :: cs2). split; [|split; [|split]].
    + intros m Ho. rewrite (Ag2 m) by (unfold outside in *; lia). rewrite (Ag1 m) by (unfold outside in *; lia).
      unfold v0. rewrite !upd_other by (unfold outside in Ho; lia). reflexivity.
    + apply laws_app.
      * pose proof (g_local _ _ G1 a n (S n) va vb cs1) as Lc. rewrite E1 in Lc. cbn [fst snd] in Lc. apply Lc; [lia | lia | | exact L1].
        intros m Hm. symmetry. apply Ag2. unfold outside. lia.
      * cbn [laws law]. split; [|exact L2].
        rewrite (Ag2 n) by (unfold outside; lia). rewrite (Ag2 n') by (unfold outside; lia).
        rewrite (Ag1 n) by (unfold outside; lia). rewrite (Ag1 n') by (unfold outside; lia). rewrite V0n, V0n'. reflexivity.
    + intros m Hm. rewrite FL.
      destruct (Nat.eq_dec m n) as [->|Hn].
      { rewrite (F1 n) by (unfold outside; lia). rewrite (thrun_b a n) by lia. rewrite (thrun_a n n') by lia.
        rewrite (T2 cs2 n) by (unfold outside; lia). ring. }
      destruct (Nat.eq_dec m n') as [->|Hn'].
      { rewrite (T1 cs1 n') by (unfold outside; lia). rewrite (thrun_b n n') by lia.
        rewrite (F2 n') by (unfold outside; lia). rewrite (thrun_a n' b) by lia. ring. }
      rewrite (thrun_out n n' m) by lia.
      destruct (Nat.lt_ge_cases m n') as [Hlt|Hge].
      { rewrite (Kc1 m) by lia. rewrite (T2 cs2 m) by (unfold outside; lia). ring. }
      { rewrite (T1 cs1 m) by (unfold outside; lia). rewrite (Kc2 m) by lia. ring. }
    + intros m Ho. rewrite FL. rewrite (thrun_out n n' m) by (unfold outside in Ho; lia).
      rewrite (F1 m) by (unfold outside in *; lia). rewrite (F2 m) by (unfold outside in *; lia).
      unfold thrun, indn. destruct (Nat.eqb_spec n m); [unfold outside in Ho; lia|]. destruct (Nat.eqb_spec n' m); [unfold outside in Ho; lia|]. ring.
Qed.

(* ---- one branch of a Par above/below the centre: wires to two fresh nodes, the branch, the rest ---- *)
Definition rail2 (e1 er : emitter) : emitter := fun na nb n =>
  let '(l1, n') := e1 n (S n) (S (S n)) in
  let '(l2, n'') := er n (S n) n' in
  (EW na n :: EW nb (S n) :: l1 ++ l2, n'').

Lemma good_rail2 s1 sr e1 er : good s1 e1 -> good sr er ->
  good (fun V I => exists i1 i2, s1 V i1 /\ sr V i2 /\ I = i1 + i2) (rail2 e1 er).
Proof.
  intros G1 G2. constructor; intros a b n; unfold rail2;
    pose proof (g_mono _ _ G1 n (S n) (S (S n))) as M1; pose proof (g_nodes _ _ G1 n (S n) (S (S n))) as N1;
    pose proof (g_touch _ _ G1 n (S n) (S (S n))) as T1;
    destruct (e1 n (S n) (S (S n))) as [l1 n'] eqn:E1;
    pose proof (g_mono _ _ G2 n (S n) n') as M2; pose proof (g_nodes _ _ G2 n (S n) n') as N2;
    pose proof (g_touch _ _ G2 n (S n) n') as T2;
    destruct (er n (S n) n') as [l2 n''] eqn:E2; cbn [fst snd] in *.
  - lia.
  - intros x [Hx|[Hx|Hx]]; [subst x; cbn [ea eb]; unfold node_ok; split; lia | subst x; cbn [ea eb]; unfold node_ok; split; lia |].
    apply in_app_or in Hx. destruct Hx as [Hx|Hx].
    + destruct (N1 x Hx) as [A B]. unfold node_ok in *. split; lia.
    + destruct (N2 x Hx) as [A B]. unfold node_ok in *. split; lia.
  - intros v cs Ha Hb Hl Hk.
    destruct cs as [|cw1 [|cw2 cs]]; cbn [laws] in Hl; try contradiction; [destruct Hl as [_ []]|].
    destruct Hl as [Lw1 [Lw2 Hl]]. cbn [law] in Lw1, Lw2.
    destruct (laws_split v l1 _ cs Hl) as [cs1 [cs2 [Ec [L1 L2]]]]. subst cs.
    assert (Len1 := laws_length v l1 cs1 L1).
    assert (FL : forall m, flow (EW a n :: EW b (S n) :: l1 ++ l2) (cw1 :: cw2 :: cs1 ++ cs2) m =
                           thrun a n m cw1 + thrun b (S n) m cw2 + flow l1 cs1 m + flow l2 cs2 m).
    { intros m. cbn [flow ea eb]. rewrite flow_app by exact Len1. ring. }
    pose proof (g_sound _ _ G1 n (S n) (S (S n)) v cs1) as S1. rewrite E1 in S1. cbn [fst snd] in S1.
    destruct S1 as [i1 [Hs1 F1]]; [lia | lia | exact L1 | |].
    { intros m Hm. pose proof (Hk m ltac:(lia)) as H0. rewrite FL in H0.
      rewrite (thrun_out a n m), (thrun_out b (S n) m) in H0 by lia. rewrite (T2 cs2 m) in H0 by (unfold outside; lia).
      transitivity (0 + 0 + flow l1 cs1 m + 0); [ring | exact H0]. }
    pose proof (g_sound _ _ G2 n (S n) n' v cs2) as S2. rewrite E2 in S2. cbn [fst snd] in S2.
    destruct S2 as [i2 [Hs2 F2]]; [lia | lia | exact L2 | |].
    { intros m Hm. pose proof (Hk m ltac:(lia)) as H0. rewrite FL in H0.
      rewrite (thrun_out a n m), (thrun_out b (S n) m) in H0 by lia. rewrite (T1 cs1 m) in H0 by (unfold outside; lia).
      transitivity (0 + 0 + 0 + flow l2 cs2 m); [ring | exact H0]. }
    assert (K1 : cw1 = i1 + i2).
    { pose proof (Hk n ltac:(lia)) as H0. rewrite FL in H0.
      rewrite (thrun_b a n), (thrun_out b (S n) n) in H0 by lia.
      rewrite (F1 n), (F2 n) in H0 by (unfold outside; lia). rewrite !(thrun_a n (S n)) in H0 by lia.
      transitivity (i1 + i2 - (- cw1 + 0 + i1 + i2)); [ring | rewrite H0; ring]. }
    assert (K2 : cw2 = - (i1 + i2)).
    { pose proof (Hk (S n) ltac:(lia)) as H0. rewrite FL in H0.
      rewrite (thrun_out a n (S n)), (thrun_b b (S n)) in H0 by lia.
      rewrite (F1 (S n)), (F2 (S n)) in H0 by (unfold outside; lia). rewrite !(thrun_b n (S n)) in H0 by lia.
      transitivity (- (i1 + i2) - (0 + - cw2 + - i1 + - i2)); [ring | rewrite H0; ring]. }
    exists (i1 + i2). split.
    + exists (- i1), (- i2). rewrite Lw1, Lw2. split; [exact Hs1|]. split; [exact Hs2 | ring].
    + intros m Ho. rewrite FL. rewrite (F1 m), (F2 m) by (unfold outside in *; lia). rewrite K1, K2.
      unfold thrun, indn. unfold outside in Ho.
      destruct (Nat.eqb_spec n m); [lia|]. destruct (Nat.eqb_spec (S n) m); [lia|]. ring.
  - intros v i Ha Hb [j1 [j2 [Hs1 [Hs2 EI]]]].
    set (v0 := upd (upd v n (v a)) (S n) (v b)).
    assert (V0n : v0 n = v a) by (unfold v0; rewrite upd_other by lia; apply upd_same).
    assert (V0s : v0 (S n) = v b) by (unfold v0; apply upd_same).
    pose proof (g_complete _ _ G1 n (S n) (S (S n)) v0 (- j1)) as C1. rewrite E1 in C1. cbn [fst snd] in C1.
    destruct C1 as [va [cs1 [Ag1 [L1 [Kc1 F1]]]]]; [lia | lia | |].
    { rewrite V0n, V0s. replace (- - j1) with j1 by ring. exact Hs1. }
    pose proof (g_complete _ _ G2 n (S n) n' va (- j2)) as C2. rewrite E2 in C2. cbn [fst snd] in C2.
    destruct C2 as [vb [cs2 [Ag2 [L2 [Kc2 F2]]]]]; [lia | lia | |].
    { rewrite (Ag1 n), (Ag1 (S n)) by (unfold outside; lia). rewrite V0n, V0s. replace (- - j2) with j2 by ring. exact Hs2. }
    assert (Ei : i = - j1 + - j2) by (transitivity (- - i); [ring | rewrite EI; ring]).
    assert (Len1 := laws_length va l1 cs1 L1).
    assert (FL : forall m, flow (EW a n :: EW b (S n) :: l1 ++ l2) (i :: - i :: cs1 ++ cs2) m =
                           thrun a n m i + thrun b (S n) m (- i) + flow l1 cs1 m + flow l2 cs2 m).
    { intros m. cbn [flow ea eb]. rewrite flow_app by exact Len1. ring. }
    exists vb, (i :: - i :: cs1 ++ cs2). split; [|split; [|split]].
    + intros m Ho. rewrite (Ag2 m) by (unfold outside in *; lia). rewrite (Ag1 m) by (unfold outside in *; lia).
      unfold v0. rewrite !upd_other by (unfold outside in Ho; lia). reflexivity.
    + cbn [laws law].
      assert (Vn : vb n = v a) by (rewrite (Ag2 n), (Ag1 n) by (unfold outside; lia); exact V0n).
      assert (Vs : vb (S n) = v b) by (rewrite (Ag2 (S n)), (Ag1 (S n)) by (unfold outside; lia); exact V0s).
      assert (Va : vb a = v a).
      { rewrite (Ag2 a), (Ag1 a) by (unfold outside; lia). unfold v0. rewrite !upd_other by lia. reflexivity. }
      assert (Vb : vb b = v b).
      { rewrite (Ag2 b), (Ag1 b) by (unfold outside; lia). unfold v0. rewrite !upd_other by lia. reflexivity. }
      split; [rewrite Va, Vn; reflexivity|]. split; [rewrite Vb, Vs; reflexivity|].
      apply laws_app; [|exact L2].
      pose proof (g_local _ _ G1 n (S n) (S (S n)) va vb cs1) as Lc. rewrite E1 in Lc. cbn [fst snd] in Lc. apply Lc; [lia | lia | | exact L1].
      intros m Hm. symmetry. apply Ag2. unfold outside. lia.
    + intros m Hm. rewrite FL.
      destruct (Nat.eq_dec m n) as [->|Hn].
      { rewrite (thrun_b a n), (thrun_out b (S n) n) by lia. rewrite (F1 n), (F2 n) by (unfold outside; lia).
        rewrite !(thrun_a n (S n)) by lia. rewrite Ei. ring. }
      destruct (Nat.eq_dec m (S n)) as [->|Hs].
      { rewrite (thrun_out a n (S n)), (thrun_b b (S n)) by lia. rewrite (F1 (S n)), (F2 (S n)) by (unfold outside; lia).
        rewrite !(thrun_b n (S n)) by lia. rewrite Ei. ring. }
      rewrite (thrun_out a n m), (thrun_out b (S n) m) by lia.
      destruct (Nat.lt_ge_cases m n') as [Hlt|Hge].
      { rewrite (Kc1 m) by lia. rewrite (T2 cs2 m) by (unfold outside; lia). ring. }
      { rewrite (T1 cs1 m) by (unfold outside; lia). rewrite (Kc2 m) by lia. ring. }
    + intros m Ho. rewrite FL. rewrite (F1 m), (F2 m) by (unfold outside in *; lia).
      unfold thrun, indn. unfold outside in Ho.
      destruct (Nat.eqb_spec n m); [lia|]. destruct (Nat.eqb_spec (S n) m); [lia|]. ring.
Qed.

(* ---- Par: three groups between the fresh nodes n, S n; wires a - n and S n - b ---- *)
Lemma good_par3 sc su sd ec eu ed : good sc ec -> good su eu -> good sd ed ->
  good (fun V I => exists jc ju jd, sc V jc /\ su V ju /\ sd V jd /\ I = jc + ju + jd) (par3 ec eu ed).
Proof.
  intros Gc Gu Gd. constructor; intros a b n; unfold par3;
    pose proof (g_mono _ _ Gc n (S n) (S (S n))) as Mc; pose proof (g_nodes _ _ Gc n (S n) (S (S n))) as Nc;
    pose proof (g_touch _ _ Gc n (S n) (S (S n))) as Tc;
    destruct (ec n (S n) (S (S n))) as [lc c1] eqn:Ec;
    pose proof (g_mono _ _ Gu n (S n) c1) as Mu; pose proof (g_nodes _ _ Gu n (S n) c1) as Nu;
    pose proof (g_touch _ _ Gu n (S n) c1) as Tu;
    destruct (eu n (S n) c1) as [lu c2] eqn:Eu;
    pose proof (g_mono _ _ Gd n (S n) c2) as Md; pose proof (g_nodes _ _ Gd n (S n) c2) as Nd;
    pose proof (g_touch _ _ Gd n (S n) c2) as Td;
    destruct (ed n (S n) c2) as [ld c3] eqn:Ed; cbn [fst snd] in *.
  - lia.
  - intros x Hx. apply in_app_or in Hx. destruct Hx as [Hx|[Hx|Hx]].
    + destruct (Nc x Hx) as [A B]. unfold node_ok in *. split; lia.
    + subst x. cbn [ea eb]. unfold node_ok. split; lia.
    + apply in_app_or in Hx. destruct Hx as [Hx|Hx]; [destruct (Nu x Hx) as [A B]; unfold node_ok in *; split; lia|].
      apply in_app_or in Hx. destruct Hx as [Hx|[Hx|[]]]; [destruct (Nd x Hx) as [A B]; unfold node_ok in *; split; lia|].
      subst x. cbn [ea eb]. unfold node_ok. split; lia.
  - intros v cs Ha Hb Hl Hk.
    destruct (laws_split v lc _ cs Hl) as [csc [cs' [E0 [Lc L']]]]. destruct cs' as [|cwa cs']; cbn [laws] in L'; [contradiction|].
    destruct L' as [Lwa L']. destruct (laws_split v lu _ cs' L') as [csu [cs'' [E1 [Lu L'']]]].
    destruct (laws_split v ld _ cs'' L'') as [csd [csw [E2 [Ld Lw]]]].
    destruct csw as [|cwb [|? ?]]; cbn [laws] in Lw; try contradiction; [|destruct Lw as [_ []]]. destruct Lw as [Lwb _].
    cbn [law] in Lwa, Lwb. subst cs cs' cs''.
    assert (Lenc := laws_length v lc csc Lc). assert (Lenu := laws_length v lu csu Lu). assert (Lend := laws_length v ld csd Ld).
    assert (FL : forall m, flow (lc ++ EW a n :: lu ++ ld ++ [EW (S n) b]) (csc ++ cwa :: csu ++ csd ++ [cwb]) m =
                           flow lc csc m + thrun a n m cwa + flow lu csu m + flow ld csd m + thrun (S n) b m cwb).
    { intros m. rewrite flow_app by exact Lenc. cbn [flow ea eb]. rewrite flow_app by exact Lenu. rewrite flow_app by exact Lend.
      cbn [flow ea eb]. ring. }
    pose proof (g_sound _ _ Gc n (S n) (S (S n)) v csc) as Sc. rewrite Ec in Sc. cbn [fst snd] in Sc.
    destruct Sc as [ic [Hsc Fc]]; [lia | lia | exact Lc | |].
    { intros m Hm. pose proof (Hk m ltac:(lia)) as H0. rewrite FL in H0.
      rewrite (thrun_out a n m), (thrun_out (S n) b m) in H0 by lia.
      rewrite (Tu csu m), (Td csd m) in H0 by (unfold outside; lia).
      transitivity (flow lc csc m + 0 + 0 + 0 + 0); [ring | exact H0]. }
    pose proof (g_sound _ _ Gu n (S n) c1 v csu) as Su. rewrite Eu in Su. cbn [fst snd] in Su.
    destruct Su as [iu [Hsu Fu]]; [lia | lia | exact Lu | |].
    { intros m Hm. pose proof (Hk m ltac:(lia)) as H0. rewrite FL in H0.
      rewrite (thrun_out a n m), (thrun_out (S n) b m) in H0 by lia.
      rewrite (Tc csc m), (Td csd m) in H0 by (unfold outside; lia).
      transitivity (0 + 0 + flow lu csu m + 0 + 0); [ring | exact H0]. }
    pose proof (g_sound _ _ Gd n (S n) c2 v csd) as Sd. rewrite Ed in Sd. cbn [fst snd] in Sd.
    destruct Sd as [id [Hsd Fd]]; [lia | lia | exact Ld | |].
    { intros m Hm. pose proof (Hk m ltac:(lia)) as H0. rewrite FL in H0.
      rewrite (thrun_out a n m), (thrun_out (S n) b m) in H0 by lia.
      rewrite (Tc csc m), (Tu csu m) in H0 by (unfold outside; lia).
      transitivity (0 + 0 + 0 + flow ld csd m + 0); [ring | exact H0]. }
    assert (K1 : cwa = ic + iu + id).
    { pose proof (Hk n ltac:(lia)) as H0. rewrite FL in H0.
      rewrite (thrun_b a n), (thrun_out (S n) b n) in H0 by lia.
      rewrite (Fc n), (Fu n), (Fd n) in H0 by (unfold outside; lia). rewrite !(thrun_a n (S n)) in H0 by lia.
      transitivity (ic + iu + id - (ic + - cwa + iu + id + 0)); [ring | rewrite H0; ring]. }
    assert (K2 : cwb = ic + iu + id).
    { pose proof (Hk (S n) ltac:(lia)) as H0. rewrite FL in H0.
      rewrite (thrun_out a n (S n)), (thrun_a (S n) b) in H0 by lia.
      rewrite (Fc (S n)), (Fu (S n)), (Fd (S n)) in H0 by (unfold outside; lia). rewrite !(thrun_b n (S n)) in H0 by lia.
      transitivity (- ic + 0 + - iu + - id + cwb + (ic + iu + id)); [ring | rewrite H0; ring]. }
    exists (ic + iu + id). split.
    + exists (- ic), (- iu), (- id). rewrite Lwa, <- Lwb. split; [exact Hsc|]. split; [exact Hsu|]. split; [exact Hsd | ring].
    + intros m Ho. rewrite FL. rewrite (Fc m), (Fu m), (Fd m) by (unfold outside in *; lia). rewrite K1, K2.
      unfold thrun, indn. unfold outside in Ho.
      destruct (Nat.eqb_spec n m); [lia|]. destruct (Nat.eqb_spec (S n) m); [lia|]. ring.
  - intros v i Ha Hb [jc [ju [jd [Hsc [Hsu [Hsd EI]]]]]].
    set (v0 := upd (upd v n (v a)) (S n) (v b)).
    assert (V0n : v0 n = v a) by (unfold v0; rewrite upd_other by lia; apply upd_same).
    assert (V0s : v0 (S n) = v b) by (unfold v0; apply upd_same).
    pose proof (g_complete _ _ Gc n (S n) (S (S n)) v0 (- jc)) as Cc. rewrite Ec in Cc. cbn [fst snd] in Cc.
    destruct Cc as [va [csc [Ag1 [Lc [Kcc Fc]]]]]; [lia | lia | |].
    { rewrite V0n, V0s. replace (- - jc) with jc by ring. exact Hsc. }
    pose proof (g_complete _ _ Gu n (S n) c1 va (- ju)) as Cu. rewrite Eu in Cu. cbn [fst snd] in Cu.
    destruct Cu as [vb [csu [Ag2 [Lu [Kcu Fu]]]]]; [lia | lia | |].
    { rewrite (Ag1 n), (Ag1 (S n)) by (unfold outside; lia). rewrite V0n, V0s. replace (- - ju) with ju by ring. exact Hsu. }
    pose proof (g_complete _ _ Gd n (S n) c2 vb (- jd)) as Cd. rewrite Ed in Cd. cbn [fst snd] in Cd.
    destruct Cd as [vc [csd [Ag3 [Ld [Kcd Fd]]]]]; [lia | lia | |].
    { rewrite (Ag2 n), (Ag2 (S n)) by (unfold outside; lia). rewrite (Ag1 n), (Ag1 (S n)) by (unfold outside; lia).
      rewrite V0n, V0s. replace (- - jd) with jd by ring. exact Hsd. }
    assert (Ei : i = - jc + - ju + - jd) by (transitivity (- - i); [ring | rewrite EI; ring]).
    assert (Lenc := laws_length va lc csc Lc). assert (Lenu := laws_length vb lu csu Lu). assert (Lend := laws_length vc ld csd Ld).
    assert (FL : forall m, flow (lc ++ EW a n :: lu ++ ld ++ [EW (S n) b]) (csc ++ i :: csu ++ csd ++ [i]) m =
                           flow lc csc m + thrun a n m i + flow lu csu m + flow ld csd m + thrun (S n) b m i).
    { intros m. rewrite flow_app by exact Lenc. cbn [flow ea eb]. rewrite flow_app by exact Lenu. rewrite flow_app by exact Lend.
      cbn [flow ea eb]. ring. }
    assert (VC : forall m, (m < S (S n))%nat \/ (c3 <= m)%nat -> vc m = v0 m).
    { intros m Hm. rewrite (Ag3 m), (Ag2 m), (Ag1 m) by (unfold outside; lia). reflexivity. }
    exists vc, (csc ++ i :: csu ++ csd ++ [i]). split; [|split; [|split]].
    + intros m Ho. rewrite VC by (unfold outside in Ho; lia). unfold v0. rewrite !upd_other by (unfold outside in Ho; lia). reflexivity.
    + assert (Va : vc a = v a) by (rewrite VC by lia; unfold v0; rewrite !upd_other by lia; reflexivity).
      assert (Vb : vc b = v b) by (rewrite VC by lia; unfold v0; rewrite !upd_other by lia; reflexivity).
      assert (Vn : vc n = v a) by (rewrite VC by lia; exact V0n).
      assert (Vs : vc (S n) = v b) by (rewrite VC by lia; exact V0s).
      apply laws_app.
      { pose proof (g_local _ _ Gc n (S n) (S (S n)) va vc csc) as Lcl. rewrite Ec in Lcl. cbn [fst snd] in Lcl. apply Lcl; [lia | lia | | exact Lc].
        intros m Hm. rewrite (Ag3 m), (Ag2 m) by (unfold outside; lia). reflexivity. }
      cbn [laws law]. split; [rewrite Va, Vn; reflexivity|].
      apply laws_app.
      { pose proof (g_local _ _ Gu n (S n) c1 vb vc csu) as Lcl. rewrite Eu in Lcl. cbn [fst snd] in Lcl. apply Lcl; [lia | lia | | exact Lu].
        intros m Hm. rewrite (Ag3 m) by (unfold outside; lia). reflexivity. }
      apply laws_app; [exact Ld|]. cbn [laws law]. split; [rewrite Vs, Vb; reflexivity | exact I].
    + intros m Hm. rewrite FL.
      destruct (Nat.eq_dec m n) as [->|Hn].
      { rewrite (thrun_b a n), (thrun_out (S n) b n) by lia. rewrite (Fc n), (Fu n), (Fd n) by (unfold outside; lia).
        rewrite !(thrun_a n (S n)) by lia. rewrite Ei. ring. }
      destruct (Nat.eq_dec m (S n)) as [->|Hs].
      { rewrite (thrun_out a n (S n)), (thrun_a (S n) b) by lia. rewrite (Fc (S n)), (Fu (S n)), (Fd (S n)) by (unfold outside; lia).
        rewrite !(thrun_b n (S n)) by lia. rewrite Ei. ring. }
      rewrite (thrun_out a n m), (thrun_out (S n) b m) by lia.
      destruct (Nat.lt_ge_cases m c1) as [H1|H1].
      { rewrite (Kcc m) by lia. rewrite (Tu csu m), (Td csd m) by (unfold outside; lia). ring. }
      destruct (Nat.lt_ge_cases m c2) as [H2|H2].
      { rewrite (Kcu m) by lia. rewrite (Tc csc m), (Td csd m) by (unfold outside; lia). ring. }
      { rewrite (Kcd m) by lia. rewrite (Tc csc m), (Tu csu m) by (unfold outside; lia). ring. }
    + intros m Ho. rewrite FL. rewrite (Fc m), (Fu m), (Fd m) by (unfold outside in *; lia).
      unfold thrun, indn. unfold outside in Ho.
      destruct (Nat.eqb_spec n m); [lia|]. destruct (Nat.eqb_spec (S n) m); [lia|]. ring.
Qed.

(* ---- lists of relations ---------------------------------------------------- *)
Fixpoint sers (rs : list (K -> K -> Prop)) (V I : K) : Prop :=
  match rs with [] => V = 0 | r :: rest => exists v1 v2, r v1 I /\ sers rest v2 I /\ V = v1 + v2 end.
Fixpoint pars (rs : list (K -> K -> Prop)) (V I : K) : Prop :=
  match rs with [] => I = 0 | r :: rest => exists i1 i2, r V i1 /\ pars rest V i2 /\ I = i1 + i2 end.
Definition rel_ok (r : K -> K -> Prop) : Prop := forall V V' I I', V = V' -> I = I' -> r V I -> r V' I'.

Lemma pars_app l1 : forall l2 V I, pars (l1 ++ l2) V I <-> exists i1 i2, pars l1 V i1 /\ pars l2 V i2 /\ I = i1 + i2.
Proof.
  induction l1 as [|r l1 IH]; intros l2 V I; cbn [app pars].
  - split.
    + intros H. exists 0, I. repeat split; [exact H | ring].
    + intros [i1 [i2 [E1 [H E]]]]. subst i1. replace I with i2; [exact H|]. rewrite E. ring.
  - split.
    + intros [j1 [j2 [Hr [Hp E]]]]. apply IH in Hp. destruct Hp as [i1 [i2 [H1 [H2 E2]]]].
      exists (j1 + i1), i2. split; [exists j1, i1; repeat split; assumption|]. split; [exact H2|]. rewrite E, E2. ring.
    + intros [i1 [i2 [[j1 [j2 [Hr [Hp E1]]]] [H2 E]]]]. exists j1, (j2 + i2). split; [exact Hr|]. split.
      * apply IH. exists j2, i2. repeat split; assumption.
      * rewrite E, E1. ring.
Qed.
Lemma pars_rev l : forall V I, pars (rev l) V I <-> pars l V I.
Proof.
  induction l as [|r l IH]; intros V I; cbn [rev]; [tauto|]. rewrite pars_app. cbn [pars]. split.
  - intros [i1 [i2 [H1 [[j1 [j2 [Hr [E0 E2]]]] E]]]]. apply IH in H1. exists j1, i1. split; [exact Hr|]. split; [exact H1|].
    rewrite E, E2, E0. ring.
  - intros [j1 [j2 [Hr [Hp E]]]]. exists j2, j1. split; [apply IH; exact Hp|]. split; [|rewrite E; ring].
    exists j1, 0. repeat split; [exact Hr | ring].
Qed.

Lemma half_odd N : Nat.odd N = true -> ((N + 1) / 2 = S (N / 2) /\ N / 2 < N)%nat.
Proof. intros H. apply Nat.odd_spec in H. destruct H as [m Hm]. subst N.
  replace (2 * m + 1 + 1)%nat with ((m + 1) * 2 + 0)%nat by lia. replace (2 * m + 1)%nat with (m * 2 + 1)%nat by lia.
  rewrite !Nat.div_add_l by lia. cbn. lia. Qed.
Lemma half_even N : Nat.odd N = false -> ((N + 1) / 2 = N / 2)%nat.
Proof. intros H. assert (E : Nat.even N = true) by (rewrite <- Nat.negb_odd, H; reflexivity). apply Nat.even_spec in E. destruct E as [m Hm]. subst N.
  replace (2 * m + 1)%nat with (m * 2 + 1)%nat by lia. replace (2 * m)%nat with (m * 2 + 0)%nat by lia. rewrite !Nat.div_add_l by lia. reflexivity. Qed.

Lemma skipn_nth {A} (d : A) : forall (l : list A) k, (k < length l)%nat -> skipn k l = nth k l d :: skipn (S k) l.
Proof. induction l as [|x l IH]; intros k H; cbn [length] in H; [lia|]. destruct k; [reflexivity|]. cbn [skipn nth]. apply IH. lia. Qed.

(* the arrangement of Par._net_make (centre, reversed first half, second half) is the parallel combination *)
Lemma pars_arrange (rs : list (K -> K -> Prop)) V I :
  let N := length rs in
  (exists jc ju jd, (if Nat.odd N then nth (N / 2) rs (fun _ I => I = 0) else (fun _ I => I = 0)) V jc /\
                    pars (rev (firstn (N / 2) rs)) V ju /\ pars (skipn ((N + 1) / 2) rs) V jd /\ I = jc + ju + jd)
  <-> pars rs V I.
Proof.
  intros N.
  assert (E0 : pars rs V I <-> pars (firstn (N / 2) rs ++ skipn (N / 2) rs) V I) by (rewrite firstn_skipn; reflexivity).
  rewrite E0, pars_app.
  destruct (Nat.odd N) eqn:Eo.
  - destruct (half_odd N Eo) as [E1 E2]. rewrite E1. rewrite (skipn_nth (fun _ I => I = 0) rs (N / 2)) by exact E2. cbn [pars]. split.
    + intros [jc [ju [jd [Hc [Hu [Hd E]]]]]]. apply (proj1 (pars_rev _ _ _)) in Hu. exists ju, (jc + jd). split; [exact Hu|]. split; [|rewrite E; ring].
      exists jc, jd. repeat split; assumption.
    + intros [i1 [i2 [Hu [[jc [jd [Hc [Hd E2']]]] E]]]]. exists jc, i1, jd. split; [exact Hc|]. split; [apply pars_rev; exact Hu|].
      split; [exact Hd|]. rewrite E, E2'. ring.
  - rewrite (half_even N Eo). split.
    + intros [jc [ju [jd [Hc [Hu [Hd E]]]]]]. apply (proj1 (pars_rev _ _ _)) in Hu. exists ju, jd. split; [exact Hu|]. split; [exact Hd|]. rewrite E, Hc. ring.
    + intros [i1 [i2 [Hu [Hd E]]]]. exists 0, i1, i2. split; [reflexivity|]. split; [apply pars_rev; exact Hu|]. split; [exact Hd|]. rewrite E. ring.
Qed.

Lemma Forall2_firstn {A B} (P : A -> B -> Prop) : forall k l1 l2, Forall2 P l1 l2 -> Forall2 P (firstn k l1) (firstn k l2).
Proof. induction k; intros l1 l2 H; cbn [firstn]; [constructor|]. destruct H; constructor; [assumption | apply IHk; assumption]. Qed.
Lemma Forall2_skipn {A B} (P : A -> B -> Prop) : forall k l1 l2, Forall2 P l1 l2 -> Forall2 P (skipn k l1) (skipn k l2).
Proof. induction k; intros l1 l2 H; cbn [skipn]; [exact H|]. destruct H; [constructor | apply IHk; assumption]. Qed.
Lemma Forall2_rev' {A B} (P : A -> B -> Prop) : forall l1 l2, Forall2 P l1 l2 -> Forall2 P (rev l1) (rev l2).
Proof. induction 1; cbn [rev]; [constructor|]. apply Forall2_app; [assumption | constructor; [assumption | constructor]]. Qed.
Lemma Forall2_nth' {A B} (P : A -> B -> Prop) (da : A) (db : B) : P da db ->
  forall k l1 l2, Forall2 P l1 l2 -> P (nth k l1 da) (nth k l2 db).
Proof. intros Hd k. induction k; intros l1 l2 H; destruct H; cbn [nth]; try assumption. apply IHk. assumption. Qed.
Lemma Forall2_length' {A B} (P : A -> B -> Prop) l1 l2 : Forall2 P l1 l2 -> length l1 = length l2.
Proof. induction 1; cbn [length]; congruence. Qed.

(* ---- Ser._net_make, rails, Par._net_make ----------------------------------- *)
Lemma good_ser_list rs es : Forall2 good rs es -> es <> [] -> Forall rel_ok rs -> good (sers rs) (ser_emit es).
Proof.
  induction 1 as [|r e rs es G Hr IH]; intros Hne Hok; [congruence|]. inversion Hok as [|? ? Ok1 Ok2]; subst.
  destruct es as [|e2 es'].
  - inversion Hr; subst. apply (good_ext r).
    + intros V I. cbn [sers]. split.
      * intros H. exists V, 0. repeat split; [exact H | ring].
      * intros [v1 [v2 [H [E0 E]]]]. apply (Ok1 v1 V I I); [rewrite E, E0; ring | reflexivity | exact H].
    + apply (good_eq r e); [reflexivity | exact G].
  - apply (good_eq _ (ser2 e (ser_emit (e2 :: es')))); [reflexivity|]. cbn [sers]. apply good_ser2; [exact G|]. apply IH; [congruence | exact Ok2].
Qed.
Lemma good_rails rs es : Forall2 good rs es -> good (pars rs) (rails es).
Proof.
  induction 1 as [|r e rs es G Hr IH].
  - apply (good_eq _ nop); [reflexivity | exact good_nop].
  - apply (good_eq _ (rail2 e (rails es))); [reflexivity|]. cbn [pars]. apply good_rail2; assumption.
Qed.
Lemma good_par_list rs es : Forall2 good rs es -> good (pars rs) (par_emit es).
Proof.
  intros H. unfold par_emit. rewrite <- (Forall2_length' _ _ _ H). apply (good_ext _ _ _ (pars_arrange rs)). apply good_par3.
  - destruct (Nat.odd (length rs)); [|exact good_nop]. apply (Forall2_nth' good); [exact good_nop | exact H].
  - apply good_rails. apply Forall2_rev'. apply Forall2_firstn. exact H.
  - apply good_rails. apply Forall2_skipn. exact H.
Qed.

(* ---- trees -------------------------------------------------------------------- *)
Variable ld : L -> ldata K.
Variable lfe : L -> emitter.
Variable okl : L -> Prop.
Hypothesis leaf_good : forall l, okl l -> good (lsem (ld l)) (lfe l).
(* Ser(...) is never built without arguments (the constructor demands two); leaves may carry a side condition *)
Fixpoint wf_tree (t : tree L) : Prop :=
  match t with
  | Leaf l => okl l
  | Ser ts => ts <> [] /\ allp wf_tree ts
  | Par ts => allp wf_tree ts
  end.
Lemma ser_sem_sers (f : tree L -> K -> K -> Prop) ts V I : ser_sem f ts V I <-> sers (map f ts) V I.
Proof. revert V. induction ts as [|t r IH]; intros V; cbn [ser_sem sers map]; [tauto|].
  split; intros [v1 [v2 [A [B C]]]]; exists v1, v2; (split; [exact A|]); (split; [apply IH; exact B | exact C]). Qed.
Lemma par_sem_pars (f : tree L -> K -> K -> Prop) ts V I : par_sem f ts V I <-> pars (map f ts) V I.
Proof. revert I. induction ts as [|t r IH]; intros I; cbn [par_sem pars map]; [tauto|].
  split; intros [v1 [v2 [A [B C]]]]; exists v1, v2; (split; [exact A|]); (split; [apply IH; exact B | exact C]). Qed.
Lemma lsem_ok d : rel_ok (lsem d).
Proof. intros V V' I I' -> ->. tauto. Qed.
Lemma sem_ok (t : tree L) : rel_ok (sem ld t).
Proof. intros V V' I I' -> ->. tauto. Qed.

Theorem emit_good (t : tree L) : wf_tree t -> good (sem ld t) (emitG lfe t).
Proof.
  induction t as [l|ts IH|ts IH] using tree_ind'; cbn [wf_tree emitG sem].
  - apply leaf_good.
  - intros [Hne Hw]. apply (good_ext (sers (map (sem ld) ts))); [intros V I; symmetry; apply ser_sem_sers|].
    apply good_ser_list.
    + clear Hne. induction IH as [|t r H _ IHr]; cbn [map allp] in *; constructor; [apply H; tauto | apply IHr; tauto].
    + destruct ts; cbn [map]; congruence.
    + clear. induction ts; cbn [map]; constructor; [apply sem_ok | assumption].
  - intros Hw. apply (good_ext (pars (map (sem ld) ts))); [intros V I; symmetry; apply par_sem_pars|].
    apply good_par_list. induction IH as [|t r H _ IHr]; cbn [map allp] in *; constructor; [apply H; tauto | apply IHr; tauto].
Qed.

(* ---- NetlistMaker.__call__: nodes 0 and 1 are taken first, the network goes between 1 (+) and 0 (-) ---- *)
Definition netlist_of (t : tree L) : list elt := fst (emitG lfe t 1%nat 0%nat 2%nat).
(* the netlist terminated by the outside world: potentials v, one current per line; Kirchhoff's current
   law at every node but the terminals; the current I leaves through terminal 1; V across the terminals *)
Definition port_rel (N : list elt) (V I : K) : Prop :=
  exists v cs, laws v N cs /\ (forall m, (2 <= m)%nat -> flow N cs m = 0) /\ flow N cs 1%nat = - I /\ v 1%nat - v 0%nat = V.

(* C07: the netlist of a one-port tree, seen from its two terminals, is the tree's terminal relation *)
Theorem netlist_of_tree_sem (t : tree L) : wf_tree t -> forall V I, port_rel (netlist_of t) V I <-> sem ld t V I.
Proof.
  intros W V I. pose proof (emit_good t W) as G. unfold port_rel, netlist_of.
  pose proof (g_touch _ _ G 1%nat 0%nat 2%nat) as T. split.
  - intros [v [cs [Hl [Hk [H1 HV]]]]].
    destruct (g_sound _ _ G 1%nat 0%nat 2%nat v cs) as [i [Hs F]]; [lia | lia | exact Hl | intros m Hm; apply Hk; lia |].
    pose proof (F 1%nat ltac:(unfold outside; lia)) as F1. rewrite (thrun_a 1 0) in F1 by lia.
    apply (sem_ok t (v 1%nat - v 0%nat) V (- i) I); [exact HV | | exact Hs]. rewrite <- F1, H1. ring.
  - intros Hs. set (v := fun m : nat => if Nat.eqb m 1 then V else 0).
    destruct (g_complete _ _ G 1%nat 0%nat 2%nat v (- I)) as [v' [cs [Ag [Hl [Hk F]]]]]; [lia | lia | |].
    { apply (sem_ok t V (v 1%nat - v 0%nat) I (- - I)); [unfold v; cbn; ring | ring | exact Hs]. }
    exists v', cs. split; [exact Hl|]. split; [|split].
    + intros m Hm. destruct (Nat.lt_ge_cases m (snd (emitG lfe t 1%nat 0%nat 2%nat))) as [Hlt|Hge]; [apply Hk; lia|].
      apply T; [lia | lia | unfold outside; lia].
    + rewrite (F 1%nat) by (unfold outside; lia). rewrite (thrun_a 1 0) by lia. reflexivity.
    + rewrite (Ag 1%nat), (Ag 0%nat) by (unfold outside; lia). unfold v. cbn. ring.
Qed.
End Net.

Arguments EW {L}. Arguments EC {L}.
Arguments ser_emit {L}. Arguments rails {L}. Arguments nop {L}. Arguments par3 {L}. Arguments par_emit {L}. Arguments emitG {L}.
Arguments leaf_emit {L}. Arguments ea {L}. Arguments eb {L}.
Arguments flow {K L}. Arguments law {K L}. Arguments laws {K L}. Arguments good {K L}. Arguments port_rel {K L}.
Arguments netlist_of {L}. Arguments wf_tree {L}. Arguments indn {K}. Arguments thrun {K}.
