(* SynthNet — one-port R/G/L/C network trees (C19), their driving-point
   impedance at a point x of an arbitrary field, the obvious non-degeneracy
   side condition [Zwf], the model of oneport.series / oneport.parallel
   (None arguments are dropped, a single survivor is returned as is, otherwise
   a Ser / Par of the survivors WITHOUT flattening), and the impedance as a
   rational function [Zrat] (model of net.Z(s)).  Axiom-free. *)
Require Import LT.FieldSec LT.PolyQ.
Local Open Scope F_scope.

Inductive kind := kR | kG | kL | kC.
Definition kind_eqb (a b : kind) : bool :=
  match a, b with kR, kR | kG, kG | kL, kL | kC, kC => true | _, _ => false end.

Section Net.
Variable K : fld.
Add Field KFnet : (fth K).
Notation poly := (list K).

Inductive net := Leaf (k : kind) (v : K) | Ser (l : list net) | Par (l : list net).

(* impedance at x:  R -> v, G -> 1/v, L -> x v, C -> 1/(x v);
   series: sum;  parallel: reciprocal of the sum of reciprocals *)
Fixpoint Zev (n : net) (x : K) : K :=
  match n with
  | Leaf kR v => v
  | Leaf kG v => 1 / v
  | Leaf kL v => x * v
  | Leaf kC v => 1 / (x * v)
  | Ser l => (fix go (l : list net) : K := match l with [] => 0 | a :: t => Zev a x + go t end) l
  | Par l => 1 / (fix go (l : list net) : K := match l with [] => 0 | a :: t => 1 / Zev a x + go t end) l
  end.
Definition zsum (l : list net) (x : K) : K := fold_right (fun a acc => Zev a x + acc) 0 l.
Definition ysum (l : list net) (x : K) : K := fold_right (fun a acc => 1 / Zev a x + acc) 0 l.
Lemma Zev_Ser l x : Zev (Ser l) x = zsum l x.
Proof. reflexivity. Qed.
Lemma Zev_Par l x : Zev (Par l) x = 1 / ysum l x.
Proof. reflexivity. Qed.

(* every division performed by [Zev] is by a non-zero value *)
Fixpoint Zwf (n : net) (x : K) : Prop :=
  match n with
  | Leaf kR v => True
  | Leaf kG v => v <> 0
  | Leaf kL v => True
  | Leaf kC v => x * v <> 0
  | Ser l => (fix go (l : list net) : Prop := match l with [] => True | a :: t => Zwf a x /\ go t end) l
  | Par l => (fix go (l : list net) : Prop := match l with [] => True | a :: t => (Zwf a x /\ Zev a x <> 0) /\ go t end) l
             /\ ysum l x <> 0
  end.
Lemma Zwf_Ser2 a b x : Zwf (Ser [a; b]) x <-> Zwf a x /\ Zwf b x.
Proof. cbn [Zwf]. tauto. Qed.
Lemma Zwf_Par2 a b x : Zwf (Par [a; b]) x <->
  Zwf a x /\ Zwf b x /\ Zev a x <> 0 /\ Zev b x <> 0 /\ 1 / Zev a x + (1 / Zev b x + 0) <> 0.
Proof. cbn [Zwf ysum fold_right]. tauto. Qed.
Lemma Zev_Ser2 a b x : Zev (Ser [a; b]) x = Zev a x + Zev b x.
Proof. cbn [Zev]. ring. Qed.
Lemma Zev_Par2 a b x : Zev (Par [a; b]) x = 1 / (1 / Zev a x + (1 / Zev b x + 0)).
Proof. reflexivity. Qed.

(* executable versions for the correspondence evaluation *)
Fixpoint Zwfb (n : net) (x : K) : bool :=
  match n with
  | Leaf kR v => true
  | Leaf kG v => negb (feqb v 0)
  | Leaf kL v => true
  | Leaf kC v => negb (feqb (x * v) 0)
  | Ser l => (fix go (l : list net) : bool := match l with [] => true | a :: t => Zwfb a x && go t end) l
  | Par l => (fix go (l : list net) : bool := match l with [] => true | a :: t => (Zwfb a x && negb (feqb (Zev a x) 0)) && go t end) l
             && negb (feqb (ysum l x) 0)
  end.
Fixpoint net_eqb (a b : net) : bool :=
  match a, b with
  | Leaf k v, Leaf k' v' => kind_eqb k k' && feqb v v'
  | Ser l, Ser l' => (fix go (l : list net) (l' : list net) : bool :=
                        match l, l' with [], [] => true | x :: t, y :: t' => net_eqb x y && go t t' | _, _ => false end) l l'
  | Par l, Par l' => (fix go (l : list net) (l' : list net) : bool :=
                        match l, l' with [], [] => true | x :: t, y :: t' => net_eqb x y && go t t' | _, _ => false end) l l'
  | _, _ => false
  end.

(* induction principle for the nested type *)
Section NetInd.
Variable P : net -> Prop.
Hypothesis HL : forall k v, P (Leaf k v).
Hypothesis HS : forall l, Forall P l -> P (Ser l).
Hypothesis HP : forall l, Forall P l -> P (Par l).
Fixpoint net_ind' (n : net) : P n :=
  match n with
  | Leaf k v => HL k v
  | Ser l => HS l ((fix go (l : list net) : Forall P l := match l with [] => Forall_nil P | a :: t => Forall_cons a (net_ind' a) (go t) end) l)
  | Par l => HP l ((fix go (l : list net) : Forall P l := match l with [] => Forall_nil P | a :: t => Forall_cons a (net_ind' a) (go t) end) l)
  end.
End NetInd.

Lemma Zwfb_sound n x : Zwfb n x = true -> Zwf n x.
Proof. induction n as [k v|l IH|l IH] using net_ind'.
  - destruct k; cbn [Zwfb Zwf]; intros H; try exact I; apply negb_true_iff, feqb_neq in H; exact H.
  - cbn [Zwfb Zwf]. induction l as [|a t IHt]; [intros; exact I|]. inversion IH as [|? ? Pa Pt]; subst. intros H.
    apply andb_true_iff in H. destruct H as [Ha Ht]. split; [auto | apply IHt; assumption].
  - cbn [Zwfb Zwf]. intros H. apply andb_true_iff in H. destruct H as [Hl Hy]. split.
    + clear Hy. induction l as [|a t IHt]; [exact I|]. inversion IH as [|? ? Pa Pt]; subst.
      apply andb_true_iff in Hl. destruct Hl as [Ha Ht]. apply andb_true_iff in Ha. destruct Ha as [Ha1 Ha2].
      split; [split; [auto | apply negb_true_iff, feqb_neq in Ha2; exact Ha2] | apply IHt; assumption].
    + apply negb_true_iff, feqb_neq in Hy. exact Hy. Qed.

(* ---- oneport.series / oneport.parallel on optional networks -------------- *)
Definition somes (l : list (option net)) : list net :=
  fold_right (fun o acc => match o with Some n => n :: acc | None => acc end) [] l.
Definition series_l (l : list (option net)) : option net :=
  match somes l with [] => None | [a] => Some a | args => Some (Ser args) end.
Definition parallel_l (l : list (option net)) : option net :=
  match somes l with [] => None | [a] => Some a | args => Some (Par args) end.
Definition series2 (a b : option net) : option net := series_l [a; b].
Definition parallel2 (a b : option net) : option net := parallel_l [a; b].

(* ---- impedance as a rational function (model of net.Z(s)) ----------------- *)
Definition rsum (l : list (rat K)) : rat K := fold_right (fun f acc => radd f acc) ([], [1]) l.
Fixpoint Zrat (n : net) : rat K :=
  match n with
  | Leaf kR v => ([v], [1])
  | Leaf kG v => ([1], [v])
  | Leaf kL v => ([0; v], [1])
  | Leaf kC v => ([1], [0; v])
  | Ser l => rsum (map Zrat l)
  | Par l => rinv (rsum (map (fun a => rinv (Zrat a)) l))
  end.

Lemma rsum_eval (l : list (rat K)) x : Forall (fun f => peval (snd f) x <> 0) l ->
  peval (snd (rsum l)) x <> 0 /\ rat_eval (rsum l) x = fold_right (fun f acc => rat_eval f x + acc) 0 l.
Proof. induction 1 as [|f t Hf Ht IH]; cbn [rsum fold_right].
  - split; [cbn; intros E; apply (one_nz K); rewrite <- E; ring | unfold rat_eval; cbn; field; apply one_nz].
  - fold (rsum t). destruct IH as [IH1 IH2]. split.
    + unfold radd. cbn [snd]. rewrite peval_pmul. apply mul_nz; assumption.
    + rewrite rat_eval_radd by assumption. rewrite IH2. reflexivity. Qed.

Theorem Zrat_eval n x : Zwf n x -> peval (snd (Zrat n)) x <> 0 /\ Zev n x = rat_eval (Zrat n) x.
Proof. induction n as [k v|l IH|l IH] using net_ind'.
  - destruct k; cbn [Zwf Zrat Zev]; unfold rat_eval; cbn [fst snd peval]; intros H; split;
      try (intros E; apply (one_nz K); rewrite <- E; ring);
      try (field; apply one_nz).
    + intros E. apply H. rewrite <- E. ring.
    + field. exact H.
    + intros E. apply H. rewrite <- E. ring.
    + field. split; [intros E; apply H; rewrite E; ring | intros E; apply H; rewrite E; ring].
  - intros Hw. cbn [Zrat]. rewrite Zev_Ser.
    assert (HF : Forall (fun f => peval (snd f) x <> 0) (map Zrat l) /\
                 zsum l x = fold_right (fun f acc => rat_eval f x + acc) 0 (map Zrat l)).
    { cbn [Zwf] in Hw. induction l as [|a t IHt]; [split; [constructor | reflexivity]|].
      inversion IH as [|? ? Pa Pt]; subst. destruct Hw as [Ha Ht]. destruct (Pa Ha) as [Hd He]. destruct (IHt Pt Ht) as [Hf Hs].
      split; [constructor; assumption|]. cbn [map zsum fold_right]. fold (zsum t x). rewrite He, Hs. reflexivity. }
    destruct HF as [HF Hs]. destruct (rsum_eval _ x HF) as [Hd He]. split; [exact Hd|]. rewrite Hs, He. reflexivity.
  - intros [Hw Hy]. cbn [Zrat]. rewrite Zev_Par.
    assert (HF : Forall (fun f => peval (snd f) x <> 0) (map (fun a => rinv (Zrat a)) l) /\
                 ysum l x = fold_right (fun f acc => rat_eval f x + acc) 0 (map (fun a => rinv (Zrat a)) l)).
    { clear Hy. induction l as [|a t IHt]; [split; [constructor | reflexivity]|].
      inversion IH as [|? ? Pa Pt]; subst. destruct Hw as [[Ha Hz] Ht]. destruct (Pa Ha) as [Hd He]. destruct (IHt Pt Ht) as [Hf Hs].
      assert (Hn : peval (fst (Zrat a)) x <> 0).
      { intros E. apply Hz. rewrite He. unfold rat_eval. rewrite E. field. exact Hd. }
      split; [constructor; [exact Hn | assumption]|]. cbn [map ysum fold_right]. fold (ysum t x). rewrite Hs. f_equal.
      rewrite He. unfold rat_eval, rinv. cbn [fst snd]. field. split; assumption. }
    destruct HF as [HF Hs]. destruct (rsum_eval _ x HF) as [Hd He]. rewrite Hs in Hy. rewrite <- He in Hy.
    assert (Hn : peval (fst (rsum (map (fun a => rinv (Zrat a)) l))) x <> 0).
    { intros E. apply Hy. unfold rat_eval. rewrite E. field. exact Hd. }
    split; [exact Hn|]. rewrite Hs, <- He. unfold rat_eval, rinv. cbn [fst snd]. field. split; assumption. Qed.
End Net.

Arguments Leaf {K}. Arguments Ser {K}. Arguments Par {K}.
Arguments Zev {K}. Arguments Zwf {K}. Arguments Zwfb {K}. Arguments net_eqb {K}. Arguments zsum {K}. Arguments ysum {K}.
Arguments somes {K}. Arguments series_l {K}. Arguments parallel_l {K}. Arguments series2 {K}. Arguments parallel2 {K}.
Arguments rsum {K}. Arguments Zrat {K}.
