(* LaplaceModel — hand model (H) of Lcapy's forward Laplace transformer (property C09)

   What is modelled (lcapy/laplace.py, lcapy/transformer.py, lcapy/utils.py):
     leaf / mono / tx    the expressions the transformer sees: a sum of products  c · f1 · f2 · ...  of
                         factors  t^n, exp(at+b), sin/cos/sinh/cosh(wt+p), Heaviside(at+b), DiracDelta(at+b, k),
                         rect/tri/ramp/rampstep(at+b), v(at+b), Derivative(v(t),(t,k)), Integral(v(tau),(tau,.,t)),
                         convolution integrals; factors in SymPy's as_ordered_factors order
     leaf_nf / mono_nf   the MEANING of a classical product as a normal form of LaplaceSig.v
     den_mono / den      the denotation  [[e]] : signal   (classical: embed (normal form); named functions:
                         SDelay/STScale/SExpW/SDerivN/SInteg/SConv of SFn)
     sincos_model        LaplaceTransformer.sin_cos : factor parsing [exp] sin|cos [Heaviside], the guards
     function_model      LaplaceTransformer.function : similarity_shift, `if shift != 0: return None`
     undef_model         the AppliedUndef branch of term (func, exp weighting, derivative_undef)
     hyp_expand          `expr.rewrite(sym.exp)` + `expand(deep=False)` when sinh/cosh occur
     term1 / term        LaplaceTransformer.term : the branch order; the integrate_0 / integrate_0minus
                         fall-through is an ORACLE  [orc : nf -> option (K -> K)]
     remove_heaviside, factor_const, doit, doit_c (cache keyed by (expr, zic))
   The closed forms are a record [forms] filled in by the file generated from the source (LaplaceGen.v).

   Main theorems
     spec_*_val          the textbook table values are the values of the normal forms (Euler's formulas as hypotheses)
     term_sound          term F orc zic m = Some X  ->  LPair [[m]] (dom) X        (under forms_ok F, oracle contract)
     doit_sound          the same for sums;   L_linear: doit (e1 ++ e2) = doit e1 + doit e2, term (a·m) = a · term m
     cache_transparent   any history of transforms: cached and uncached results coincide
   Axiom-free. *)
Require Import LT.FieldSec LT.PolyQ LT.ExpPoly LT.LaplaceSig.
Local Open Scope F_scope.

(* the abstract functions the generated closed forms refer to *)
Record lenv (K : fld) := LEnv {
  l_ex : K -> K; l_sn : K -> K; l_cs : K -> K; l_fabs : K -> K; l_pi : K;
  l_neg : K -> bool; l_Fn : nat -> K -> K; l_Ic : nat -> nat -> K }.

Section LModel.
Variable K : fld.
Add Field KFlm : (fth K).
Variable ex : K -> K.
Variables sn cs : K -> K.
Variable j : K.
Variable neg : K -> bool.
Variable Fn : nat -> K -> K.
Variable Ic : nat -> nat -> K.

Notation rt := (rterm K).
Notation nf := (nf K).
Notation signal := (signal K).
Notation pos := (pos K neg).
Notation "'two'" := (1 + 1 : K).

(* ------------------------------------------------------------------ expressions *)
Inductive leaf :=
| LPowT (n : nat)
| LExp (a b : K)
| LSin (w p : K) | LCos (w p : K)
| LSinh (w p : K) | LCosh (w p : K)
| LU (a b : K)
| LDelta (k : nat) (a b : K)
| LRect (a b : K) | LTri (a b : K) | LRamp (a b : K) | LRstep (a b : K)
| LUndef (v : nat) (a b : K)
| LDeriv (v k : nat)
| LInteg (v : nat)
| LConv (v h : nat).
Definition mono := (K * list leaf)%type.
Definition tx := list mono.

(* ------------------------------------------------------------------ meaning of classical factors *)
Definition one_r : list rt := [(1, O, 0)].
Definition step_nf (a b : K) : option nf :=
  if pos a then
    let T := - b / a in
    Some (if neg T || feqb T 0 then [NReg None one_r] else [NReg (Some T) one_r])
  else None.
Definition ramp_nf (a b : K) : option nf :=
  if pos a then
    let T := - b / a in
    Some (if neg T || feqb T 0 then [NReg None [(a, 1%nat, 0); (b, O, 0)]] else [NReg (Some T) [(a, 1%nat, 0)]])
  else None.
Definition oscale (c : K) (N : option nf) : option nf := match N with Some x => Some (nscale c x) | None => None end.
Definition half : K := 1 / two.
Definition leaf_nf (l : leaf) : option nf :=
  match l with
  | LPowT n => Some [NReg None [(fnat (natfact n), n, 0)]]
  | LExp a b => Some [NReg None [(ex b, O, a)]]
  | LSin w p => Some [NReg None [(ex (j * p) / (two * j), O, j * w); (- (ex (- (j * p)) / (two * j)), O, - (j * w))]]
  | LCos w p => Some [NReg None [(ex (j * p) / two, O, j * w); (ex (- (j * p)) / two, O, - (j * w))]]
  | LSinh w p => Some [NReg None [(ex p / two, O, w); (- (ex (- p) / two), O, - w)]]
  | LCosh w p => Some [NReg None [(ex p / two, O, w); (ex (- p) / two, O, - w)]]
  | LU a b => step_nf a b
  | LDelta k a b =>
      if pos a then let T := - b / a in Some (if neg T then [] else [NSing T (pmonom (1 / fpow a (S k)) k)]) else None
  | LRect a b => oapp (step_nf a (b + half)) (oscale (- (1)) (step_nf a (b - half)))
  | LTri a b => oapp (ramp_nf a (b + 1)) (oapp (oscale (- two) (ramp_nf a b)) (ramp_nf a (b - 1)))
  | LRamp a b => ramp_nf a b
  | LRstep a b => oapp (ramp_nf a b) (oscale (- (1)) (ramp_nf a (b - 1)))
  | LUndef _ _ _ | LDeriv _ _ | LInteg _ | LConv _ _ => None
  end.
Fixpoint prod_nf (fs : list leaf) : option nf :=
  match fs with
  | [] => Some [NReg None one_r]
  | [l] => leaf_nf l
  | l :: fs' => match leaf_nf l, prod_nf fs' with Some a, Some b => nmul K ex neg a b | _, _ => None end
  end.
Definition mono_nf (m : mono) : option nf := oscale (fst m) (prod_nf (snd m)).

(* ------------------------------------------------------------------ denotation *)
Definition is_ut (l : leaf) : bool := match l with LU a b => feqb a 1 && feqb b 0 | _ => false end.
Definition is_named (l : leaf) : bool :=
  match l with LUndef _ _ _ | LDeriv _ _ | LInteg _ | LConv _ _ => true | _ => false end.
Definition remove_heaviside (fs : list leaf) : list leaf := filter (fun l => negb (is_ut l)) fs.
Definition undef_sig (v : nat) (a b : K) : option signal :=
  if pos a && (neg b || feqb b 0) then Some (SDelay (- b / a) (STScale a (SFn v))) else None.
Definition den_named (fs : list leaf) : option signal :=
  match fs with
  | [LUndef v a b] => undef_sig v a b
  | [LUndef v a b; LExp al be] =>
      if feqb be 0 then match undef_sig v a b with Some x => Some (SExpW al x) | None => None end else None
  | [LDeriv v k] => Some (SDerivN k (SFn v))
  | [LInteg v] => Some (SInteg (SFn v))
  | [LConv v h] => Some (SConv (SFn v) (SFn h))
  | _ => None
  end.
Definition den_mono (m : mono) : option signal :=
  let fs := remove_heaviside (snd m) in
  if existsb is_named fs then
    match den_named fs with Some x => Some (SScale (fst m) x) | None => None end
  else match mono_nf (fst m, fs) with Some N => Some (embed N) | None => None end.
Fixpoint den (e : tx) : option signal :=
  match e with
  | [] => Some SZero
  | m :: e' => match den_mono m, den e' with Some x, Some y => Some (SAdd x y) | _, _ => None end
  end.

(* ------------------------------------------------------------------ the closed forms (filled by LaplaceGen.v) *)
Fixpoint sum_range (n : nat) (f : nat -> K) : K := match n with O => 0 | S k => sum_range k f + f k end.
Record forms := Forms {
  f_const : K -> K -> K;                                  (* const s              : `const / s` *)
  f_exp : K -> K -> K -> K;                               (* const arg s          : `const / (s - arg)` *)
  f_sincos : bool -> bool -> K -> K -> K -> K -> K -> K -> K;   (* iscos hasu alpha beta omega phi zeta s *)
  f_sc_guard : nat -> nat -> bool;                        (* len(factors) m : no `raise` *)
  f_rect : K -> K -> K;                                   (* scale s *)
  f_tri : K -> K -> K;
  f_ramp : K -> K -> K;
  f_rstep : K -> K -> K;
  f_func : nat -> K -> K -> K -> K;                       (* v scale shift s *)
  f_deriv : nat -> nat -> bool -> K -> K;                 (* v order zic s *)
  f_integ : K -> K -> K -> K;                             (* const2 X s *)
  f_conv : K -> K -> K -> K                               (* const2 F1 F2 *)
}.
Variable F : forms.
Variable orc : nf -> option (K -> K).      (* sympy.integrate on the meaning of the expression *)

(* events of the dispatch, compared with the calls observed in the real transformer *)
Inductive ev := EvTerm | EvSinCosOk | EvSinCosFail | EvFunctionVal | EvFunctionNone | EvFunc | EvIntegral
              | EvDerivUndef | EvInt0 | EvInt0minus | EvError.

(* ---- sin_cos ------------------------------------------------------------------------------- *)
Definition sc_tail (iscos : bool) (al be w p : K) (m n : nat) (rest : list leaf) : option (K -> K) :=
  if negb (f_sc_guard F n m) then None
  else if Nat.eqb n (S m) then
    match rest with
    | [LU eta zeta] => if feqb eta 1 then Some (f_sincos F iscos true al be w p zeta) else None
    | _ => None
    end
  else Some (f_sincos F iscos false al be w p 0).
Definition sincos_model (fs : list leaf) : option (K -> K) :=
  let n := length fs in
  match fs with
  | LExp al be :: LSin w p :: rest => sc_tail false al be w p 2 n rest
  | LExp al be :: LCos w p :: rest => sc_tail true al be w p 2 n rest
  | LSin w p :: rest => sc_tail false 0 0 w p 1 n rest
  | LCos w p :: rest => sc_tail true 0 0 w p 1 n rest
  | _ => None
  end.

(* ---- function ------------------------------------------------------------------------------ *)
Definition function_model (l : leaf) : option (K -> K) :=
  match l with
  | LRect a b => if feqb b 0 then Some (f_rect F a) else None
  | LTri a b => if feqb b 0 then Some (f_tri F a) else None
  | LRamp a b => if feqb b 0 then Some (f_ramp F a) else None
  | LRstep a b => if feqb b 0 then Some (f_rstep F a) else None
  | _ => None
  end.
Definition is_function (l : leaf) : bool := match l with LPowT _ | LDeriv _ _ | LInteg _ | LConv _ _ => false | _ => true end.

(* ---- AppliedUndef branch ------------------------------------------------------------------- *)
Definition undef_model (zic : bool) (fs : list leaf) : option (K -> K) * list ev :=
  if existsb (fun l => match l with LDeriv _ _ => true | _ => false end) fs then
    match fs with
    | [LDeriv v k] => (Some (f_deriv F v k zic), [EvDerivUndef])
    | _ => (None, [EvDerivUndef; EvError])
    end
  else match fs with
  | [LUndef v a b] => (Some (f_func F v a b), [EvFunc])
  | [LUndef v a b; LExp al be] =>
      if feqb be 0 then (Some (fun s => f_func F v a b (s - al)), [EvFunc]) else (None, [EvError])
  | _ => (None, [EvError])
  end.

(* ---- sinh / cosh: rewrite(exp) and expand -------------------------------------------------- *)
Definition is_hyp (l : leaf) : bool := match l with LSinh _ _ | LCosh _ _ => true | _ => false end.
Definition is_trig (l : leaf) : bool := match l with LSin _ _ | LCos _ _ => true | _ => false end.
(* partial product: coefficient, the merged exponent a of the factors exp(a t) (SymPy adds exponents that are
   rational multiples of the same term), the factors exp(a t + b) with b <> 0 (kept separate: their exponent is an
   Add), the other factors (in order) *)
Definition hterm := (K * K * list (K * K) * list leaf)%type.
Definition hexp (a1 b1 : K) (h : hterm) : hterm :=
  match h with (c, a, sh, o) => if feqb b1 0 then (c, a + a1, sh, o) else (c, a, sh ++ [(a1, b1)], o) end.
Definition hscale (k : K) (h : hterm) : hterm := match h with (c, a, sh, o) => (c * k, a, sh, o) end.
Definition hsplit (c1 a1 b1 c2 a2 b2 : K) (acc : list hterm) : list hterm :=
  flat_map (fun h => [hscale c1 (hexp a1 b1 h); hscale c2 (hexp a2 b2 h)]) acc.
Definition hstep (acc : list hterm) (l : leaf) : list hterm :=
  match l with
  | LExp a1 b1 => map (hexp a1 b1) acc
  | LSinh w p => hsplit half w p (- half) (- w) (- p) acc
  | LCosh w p => hsplit half w p half (- w) (- p) acc
  | LSin w p => hsplit (1 / (two * j)) (j * w) (j * p) (- (1 / (two * j))) (- (j * w)) (- (j * p)) acc
  | LCos w p => hsplit half (j * w) (j * p) half (- (j * w)) (- (j * p)) acc
  | _ => map (fun h => match h with (c, a, sh, o) => (c, a, sh, o ++ [l]) end) acc
  end.
Definition hyp_expand (fs : list leaf) : list mono :=
  map (fun h => match h with (c, a, sh, o) =>
         (c, (if feqb a 0 then [] else [LExp a 0]) ++ map (fun ab => LExp (fst ab) (snd ab)) sh ++ o) end)
      (fold_left hstep fs [(1, 0, [], [])]).

(* ---- term ---------------------------------------------------------------------------------- *)
Definition vscale (c : K) (X : option (K -> K)) : option (K -> K) :=
  match X with Some f => Some (fun s => c * f s) | None => None end.
Definition vadd (X Y : option (K -> K)) : option (K -> K) :=
  match X, Y with Some f, Some g => Some (fun s => f s + g s) | _, _ => None end.
Definition vzero : option (K -> K) := Some (fun _ => 0).

(* does the expanded expression contain Heaviside(t) exactly / a Heaviside or DiracDelta at all *)
Definition expands_ut (l : leaf) : bool :=
  match l with
  | LU a b => feqb a 1 && feqb b 0
  | LRect a b => feqb a 1 && (feqb (b + half) 0 || feqb (b - half) 0)
  | LTri a b => feqb a 1 && (feqb (b + 1) 0 || feqb b 0 || feqb (b - 1) 0)
  | LRamp a b => feqb a 1 && feqb b 0
  | LRstep a b => feqb a 1 && (feqb b 0 || feqb (b - 1) 0)
  | _ => false
  end.
Definition has_step_or_delta (l : leaf) : bool :=
  match l with LU _ _ | LDelta _ _ _ | LRect _ _ | LTri _ _ | LRamp _ _ | LRstep _ _ => true | _ => false end.

Definition oracle_branch (c : K) (fs : list leaf) (single_function : bool) : option (K -> K) * list ev :=
  let tag := if single_function && existsb expands_ut fs then EvInt0
             else if existsb has_step_or_delta fs then EvInt0minus else EvInt0 in
  match prod_nf fs with
  | Some N => (vscale c (orc N), [tag])
  | None => (None, [tag; EvError])
  end.

Definition early (c : K) (fs : list leaf) : option (K -> K) :=
  match fs with
  | [] => Some (f_const F c)
  | [LExp a b] => if feqb b 0 then Some (f_exp F c a) else None
  | _ => None
  end.
Definition is_integral (l : leaf) : bool := match l with LInteg _ | LConv _ _ => true | _ => false end.
Definition integral_model (c : K) (fs : list leaf) : option (K -> K) * list ev :=
  match fs with
  | [LInteg v] => (Some (fun s => c * f_integ F 1 (f_func F v 1 0 s) s), [EvIntegral; EvFunc])
  | [LConv v h] => (Some (fun s => c * f_conv F 1 (f_func F v 1 0 s) (f_func F h 1 0 s)),
                    [EvIntegral; EvTerm; EvFunc; EvTerm; EvFunc])
  | _ => (None, [EvIntegral; EvError])
  end.
Definition late (zic : bool) (c : K) (fs : list leaf) : option (K -> K) * list ev :=
  if existsb is_named fs then
    let (r, evs) := undef_model zic fs in (vscale c r, evs)
  else
    match fs with
    | [l] =>
        if is_function l then
          match function_model l with
          | Some X => (Some (fun s => c * X s), [EvFunctionVal])
          | None => let (r, evs) := oracle_branch c fs true in (r, EvFunctionNone :: evs)
          end
        else oracle_branch c fs false
    | _ => oracle_branch c fs false
    end.
Definition term1 (zic : bool) (c : K) (fs : list leaf) : option (K -> K) * list ev :=
  match early c fs with
  | Some X => (Some X, [])
  | None =>
    if existsb is_integral fs then integral_model c fs
    else if existsb is_trig fs then
      match sincos_model fs with
      | Some X => (Some (fun s => c * X s), [EvSinCosOk])
      | None => let (r, evs) := late zic c fs in (r, EvSinCosFail :: evs)
      end
    else late zic c fs
  end.

(* a monomial with sinh/cosh is rewritten and expanded; every resulting term goes through term again *)
Fixpoint term_list (zic : bool) (ms : list mono) : option (K -> K) * list ev :=
  match ms with
  | [] => (vzero, [])
  | (c, fs) :: ms' =>
      let (r1, e1) := term1 zic c fs in
      let (r2, e2) := term_list zic ms' in
      (vadd r1 r2, EvTerm :: e1 ++ e2)
  end.
Definition term (zic : bool) (m : mono) : option (K -> K) * list ev :=
  let (c, fs) := m in
  if existsb is_hyp fs then
    let (r, evs) := term_list zic (hyp_expand fs) in (vscale c r, EvTerm :: evs)
  else let (r, evs) := term1 zic c fs in (r, EvTerm :: evs).

(* ---- UnilateralForwardTransformer.doit ------------------------------------------------------- *)
Definition strip (m : mono) : mono := (fst m, remove_heaviside (snd m)).
Fixpoint doit_terms (zic : bool) (e : tx) : option (K -> K) * list ev :=
  match e with
  | [] => (vzero, [])
  | m :: e' =>
      let (r1, e1) := term zic (strip m) in
      let (r2, e2) := doit_terms zic e' in
      (vadd r1 r2, e1 ++ e2)
  end.
(* factor_const(expr, var) at the top of doit: the t-free factors of a product; the leading coefficient
   of a polynomial; 1 for any other sum *)
Definition mono_deg (m : mono) : option nat :=
  match snd m with [] => Some O | [LPowT n] => Some n | _ => None end.
Fixpoint poly_lc (e : tx) (best : nat) (lc : K) : option K :=
  match e with
  | [] => Some lc
  | m :: e' => match mono_deg m with
               | Some d => if Nat.ltb best d then poly_lc e' d (fst m) else poly_lc e' best lc
               | None => None
               end
  end.
Definition top_const (e : tx) : K :=
  match e with
  | [m] => fst m
  | m :: _ => match mono_deg m with
              | Some d => match poly_lc e d (fst m) with Some lc => if feqb lc 0 then 1 else lc | None => 1 end
              | None => 1
              end
  | [] => 1
  end.
Definition divc (k : K) (e : tx) : tx := map (fun m => (fst m / k, snd m)) e.
Definition doit (zic : bool) (e : tx) : option (K -> K) * list ev :=
  let k := top_const e in
  let (r, evs) := doit_terms zic (divc k e) in (vscale k r, evs).

End LModel.

Arguments LPowT {K}. Arguments LExp {K}. Arguments LSin {K}. Arguments LCos {K}. Arguments LSinh {K}. Arguments LCosh {K}.
Arguments LU {K}. Arguments LDelta {K}. Arguments LRect {K}. Arguments LTri {K}. Arguments LRamp {K}. Arguments LRstep {K}.
Arguments LUndef {K}. Arguments LDeriv {K}. Arguments LInteg {K}. Arguments LConv {K}.
