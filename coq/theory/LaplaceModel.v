(* LaplaceModel — hand model (H) of Lcapy's forward Laplace transformer (property C09)

   What is modelled (lcapy/laplace.py, lcapy/transformer.py, lcapy/utils.py):
     leaf / mono / tx    the expressions the transformer sees: a sum of products  c · f1 · f2 · ...  of
                         factors  t^n, exp(at+b), sin/cos/sinh/cosh(wt+p), Heaviside(at+b), DiracDelta(at+b, k),
                         rect/tri/ramp/rampstep(at+b), v(at+b), Derivative(v(t),(t,k)), Integral(v(tau),(tau,.,t)),
                         convolution integrals; factors in SymPy's as_ordered_factors order
     leaf_nf / mono_nf   the MEANING of a classical product as a normal form of LaplaceSig.v
     den_mono / den      the denotation  [[e]] : signal   (classical: embed (normal form); named functions:
                         SDelay/STScale/SExpW/SDerivN/SInteg/SConv of SFn)
     sincos_model        LaplaceTransformer.sin_cos : factor parsing [exp] sin|cos [Heaviside], the guards
     function_model      LaplaceTransformer.function : similarity_shift, `if shift != 0: return None`
     undef_model         the AppliedUndef branch of term (func, exp weighting, derivative_undef)
     hyp_expand          `expr.rewrite(sym.exp)` + `expand(deep=False)` when sinh/cosh occur
     term1 / term        LaplaceTransformer.term : the branch order; the integrate_0 / integrate_0minus
                         fall-through is an ORACLE  [orc : nf -> option (K -> K)]
     remove_heaviside, factor_const, doit, doit_c (cache keyed by (expr, zic))
   The closed forms are a record [forms] filled in by the file generated from the source (LaplaceGen.v).

   Main theorems
     spec_*_val          the textbook table values are the values of the normal forms (Euler's formulas as hypotheses)
     term_sound          term F orc zic m = Some X  ->  LPair [[m]] (dom) X        (under forms_ok F, oracle contract;
                         hypotheses: exp additive, Euler's formulas with j*j = -1, a real subfield [isr] ordered by [neg])
     doit_sound          the same for sums;   L_linear: doit (e1 ++ e2) = doit e1 + doit e2, term (a·m) = a · term m
     cache_transparent   any history of transforms: cached and uncached results coincide
   Axiom-free. *)
Require Import LT.FieldSec LT.PolyQ LT.ExpPoly LT.LaplaceSig.
Local Open Scope F_scope.

(* the abstract functions the generated closed forms refer to *)
Record lenv (K : fld) := LEnv {
  l_ex : K -> K; l_sn : K -> K; l_cs : K -> K; l_fabs : K -> K; l_pi : K;
  l_isr : K -> bool; l_neg : K -> bool; l_Fn : nat -> K -> K; l_Ic : nat -> nat -> K;
  l_Fv : nat -> K -> K }.

Section LModel.
Variable K : fld.
Add Field KFlm : (fth K).
Variable ex : K -> K.
Variables sn cs : K -> K.
Variable j : K.
Variable isr : K -> bool.
Variable neg : K -> bool.
Variable Fn : nat -> K -> K.
Variable Ic : nat -> nat -> K.
Variable Fv : nat -> K -> K.       (* Fv v x = the value v(x) of the named function number v at the instant x *)

Notation rt := (rterm K).
Notation nf := (nf K).
Notation signal := (signal K).
Notation pos := (pos K neg).
Notation "'two'" := (1 + 1 : K).

(* ------------------------------------------------------------------ expressions *)
Inductive leaf :=
| LPowT (n : nat)
| LExp (a b : K)
| LSin (w p : K) | LCos (w p : K)
| LSinh (w p : K) | LCosh (w p : K)
| LU (a b : K)
| LDelta (k : nat) (a b : K)
| LRect (a b : K) | LTri (a b : K) | LRamp (a b : K) | LRstep (a b : K)
| LUndef (v : nat) (a b : K)
| LDeriv (v k : nat)
| LInteg (v : nat)
| LIntegA (v : nat)     (* Integral(v(t - tau), (tau, 0, oo)): the first branch of LaplaceTransformer.integral *)
| LConv (v h : nat)
| LConvE (a : K) (v : nat) (expfirst : bool)   (* Integral(exp(a tau) v(t - tau), (tau, 0, t | oo)): convolution of the classical
                                                 signal e^{a t} (t >= 0) with a named function; expfirst = the exp is args[0] of the Mul *)
| LPoly (p : list K).        (* a polynomial factor  p0 + p1 t + p2 t^2 + ...  (an Add inside a Mul) *)
Definition mono := (K * list leaf)%type.
Definition tx := list mono.

(* ------------------------------------------------------------------ meaning of classical factors *)
Definition one_r : list rt := [(1, O, 0)].
Definition step_nf (a b : K) : option nf :=
  if isr a && isr b && pos a then
    let T := - b / a in
    Some (if neg T || feqb T 0 then [NReg None one_r] else [NReg (Some T) one_r])
  else None.
Definition ramp_nf (a b : K) : option nf :=
  if isr a && isr b && pos a then
    let T := - b / a in
    Some (if neg T || feqb T 0 then [NReg None [(a, 1%nat, 0); (b, O, 0)]] else [NReg (Some T) [(a, 1%nat, 0)]])
  else None.
Definition oscale (c : K) (N : option nf) : option nf := match N with Some x => Some (nscale c x) | None => None end.
Definition half : K := 1 / two.
Fixpoint poly_r (k : nat) (p : list K) : list rt :=
  match p with [] => [] | a :: p' => (a * fnat (natfact k), k, 0) :: poly_r (S k) p' end.
Definition leaf_nf (l : leaf) : option nf :=
  match l with
  | LPowT n => Some [NReg None [(fnat (natfact n), n, 0)]]
  | LExp a b => Some [NReg None [(ex b, O, a)]]
  | LSin w p => Some [NReg None [(ex (j * p) / (two * j), O, j * w); (- (ex (- (j * p)) / (two * j)), O, - (j * w))]]
  | LCos w p => Some [NReg None [(ex (j * p) / two, O, j * w); (ex (- (j * p)) / two, O, - (j * w))]]
  | LSinh w p => Some [NReg None [(ex p / two, O, w); (- (ex (- p) / two), O, - w)]]
  | LCosh w p => Some [NReg None [(ex p / two, O, w); (ex (- p) / two, O, - w)]]
  | LU a b => step_nf a b
  | LDelta k a b =>
      if isr a && isr b && pos a then let T := - b / a in Some (if neg T then [] else [NSing T (pmonom (1 / fpow a (S k)) k)]) else None
  | LRect a b => oapp (step_nf a (b + half)) (oscale (- (1)) (step_nf a (b - half)))
  | LTri a b => oapp (ramp_nf a (b + 1)) (oapp (oscale (- two) (ramp_nf a b)) (ramp_nf a (b - 1)))
  | LRamp a b => ramp_nf a b
  | LRstep a b => oapp (ramp_nf a b) (oscale (- (1)) (ramp_nf a (b - 1)))
  | LPoly p => Some [NReg None (poly_r O p)]
  | LUndef _ _ _ | LDeriv _ _ | LInteg _ | LIntegA _ | LConv _ _ | LConvE _ _ _ => None
  end.
Fixpoint prod_nf (fs : list leaf) : option nf :=
  match fs with
  | [] => Some [NReg None one_r]
  | [l] => leaf_nf l
  | l :: fs' => match leaf_nf l, prod_nf fs' with Some a, Some b => nmul K ex neg a b | _, _ => None end
  end.
Definition mono_nf (m : mono) : option nf := oscale (fst m) (prod_nf (snd m)).

(* ------------------------------------------------------------------ denotation *)
Definition is_ut (l : leaf) : bool := match l with LU a b => feqb a 1 && feqb b 0 | _ => false end.
Definition is_named (l : leaf) : bool :=
  match l with LUndef _ _ _ | LDeriv _ _ | LInteg _ | LIntegA _ | LConv _ _ | LConvE _ _ _ => true | _ => false end.
Definition remove_heaviside (fs : list leaf) : list leaf := filter (fun l => negb (is_ut l)) fs.
Definition undef_sig (v : nat) (a b : K) : option signal :=
  if isr a && isr b && pos a && (neg b || feqb b 0) then Some (SDelay (- b / a) (STScale a (SFn v))) else None.
(* sifting: delta(a t + b) v(a' t + b') = v(a' t0 + b') delta(t - t0) / a,  t0 = -b/a  (nothing when t0 < 0) *)
Definition sift_sig (v : nat) (a' b' a b : K) : option signal :=
  if isr a && isr b && pos a then
    let t0 := - b / a in
    Some (if neg t0 then SZero else SScale (Fv v (a' * t0 + b') / a) (SDelay t0 (SImp O)))
  else None.
Definition den_named (fs : list leaf) : option signal :=
  match fs with
  | [LUndef v a b] => undef_sig v a b
  | [LUndef v a b; LExp al be] =>
      if feqb be 0 then match undef_sig v a b with Some x => Some (SExpW al x) | None => None end else None
  | [LDeriv v k] => Some (SDerivN k (SFn v))
  | [LInteg v] => Some (SInteg (SFn v))
  | [LIntegA v] => Some (SInteg (SFn v))     (* int_0^oo v(t - tau) dtau = int_{-oo}^t v = int_0^t v for the causal named functions *)
  | [LConv v h] => Some (SConv (SFn v) (SFn h))
  | [LConvE a v _] => Some (SConv (SReg 1 O a) (SFn v))
  | [LUndef v a' b'; LDelta O a b] => sift_sig v a' b' a b
  | [LDelta O a b; LUndef v a' b'] => sift_sig v a' b' a b
  | _ => None
  end.
(* ------------------------------------------------------------------ the closed forms (filled by LaplaceGen.v) *)
Fixpoint sum_range (n : nat) (f : nat -> K) : K := match n with O => 0 | S k => sum_range k f + f k end.
Record forms := Forms {
  f_const : K -> K -> K;                                  (* const s              : `const / s` *)
  f_exp : K -> K -> K -> K;                               (* const arg s          : `const / (s - arg)` *)
  f_sincos : bool -> bool -> K -> K -> K -> K -> K -> K -> K;   (* iscos hasu alpha beta omega phi zeta s *)
  f_sc_guard : nat -> nat -> bool;                        (* len(factors) m : no `raise` *)
  f_rect : K -> K -> K;                                   (* scale s *)
  f_tri : K -> K -> K;
  f_ramp : K -> K -> K;
  f_rstep : K -> K -> K;
  f_func : nat -> K -> K -> K -> K;                       (* v scale shift s *)
  f_deriv : nat -> nat -> bool -> K -> K;                 (* v order zic s *)
  f_integ : K -> K -> K -> K;                             (* const2 X s *)
  f_conv : K -> K -> K -> K;                              (* const2 F1 F2 *)
  f_sift : K -> K -> K -> K -> K -> K                     (* const X scale shift s  (X = v at t0 = -shift/scale) *)
}.
Variable F : forms.
Variable orc : nf -> option (K -> K).      (* sympy.integrate on the meaning of the expression *)

(* events of the dispatch, compared with the calls observed in the real transformer *)
Inductive ev := EvTerm | EvSinCosOk | EvSinCosFail | EvFunctionVal | EvFunctionNone | EvFunc | EvIntegral
              | EvDerivUndef | EvInt0 | EvInt0minus | EvError.

(* ---- sin_cos ------------------------------------------------------------------------------- *)
Definition sc_tail (iscos : bool) (al be w p : K) (m n : nat) (rest : list leaf) : option (K -> K) :=
  if negb (f_sc_guard F n m) then None
  else if Nat.eqb n (S m) then
    match rest with
    | [LU eta zeta] => if feqb eta 1 then Some (f_sincos F iscos true al be w p zeta) else None
    | _ => None
    end
  else Some (f_sincos F iscos false al be w p 0).
Definition sincos_model (fs : list leaf) : option (K -> K) :=
  let n := length fs in
  match fs with
  | LExp al be :: LSin w p :: rest => sc_tail false al be w p 2 n rest
  | LExp al be :: LCos w p :: rest => sc_tail true al be w p 2 n rest
  | LSin w p :: rest => sc_tail false 0 0 w p 1 n rest
  | LCos w p :: rest => sc_tail true 0 0 w p 1 n rest
  | _ => None
  end.

(* ---- function ------------------------------------------------------------------------------ *)
Definition function_model (l : leaf) : option (K -> K) :=
  match l with
  | LRect a b => if feqb b 0 then Some (f_rect F a) else None
  | LTri a b => if feqb b 0 then Some (f_tri F a) else None
  | LRamp a b => if feqb b 0 then Some (f_ramp F a) else None
  | LRstep a b => if feqb b 0 then Some (f_rstep F a) else None
  | _ => None
  end.
Definition is_function (l : leaf) : bool := match l with LPowT _ | LDeriv _ _ | LInteg _ | LIntegA _ | LConv _ _ | LConvE _ _ _ | LPoly _ => false | _ => true end.

(* ---- AppliedUndef branch ------------------------------------------------------------------- *)
Definition sift_shape (fs : list leaf) : option (nat * K * K * K * K) :=
  match fs with
  | [LUndef v a' b'; LDelta O a b] => Some (v, a', b', a, b)
  | [LDelta O a b; LUndef v a' b'] => Some (v, a', b', a, b)
  | _ => None
  end.
Definition undef_model (zic : bool) (fs : list leaf) : option (K -> K) * list ev :=
  match sift_shape fs with
  | Some (v, a', b', a, b) =>
      (* Mul(DiracDelta(a t + b), v(..)) with a plain delta (len(args) == 1): sifting; derivatives of delta fall through *)
      let t0 := - b / a in
      if neg t0 then (Some (fun _ => 0), []) else (Some (f_sift F 1 (Fv v (a' * t0 + b')) a b), [])
  | None =>
  if existsb (fun l => match l with LDeriv _ _ => true | _ => false end) fs then
    match fs with
    | [LDeriv v k] => (Some (f_deriv F v k zic), [EvDerivUndef])
    | _ => (None, [EvDerivUndef; EvError])
    end
  else match fs with
  | [LUndef v a b] => (Some (f_func F v a b), [EvFunc])
  | [LUndef v a b; LExp al be] =>
      if feqb be 0 then (Some (fun s => f_func F v a b (s - al)), [EvFunc]) else (None, [EvError])
  | _ => (None, [EvError])
  end
  end.

(* ---- sinh / cosh: rewrite(exp) and expand -------------------------------------------------- *)
Definition is_hyp (l : leaf) : bool := match l with LSinh _ _ | LCosh _ _ => true | _ => false end.
Definition is_trig (l : leaf) : bool := match l with LSin _ _ | LCos _ _ => true | _ => false end.
(* partial product: coefficient, the merged exponent a of the factors exp(a t) (SymPy adds exponents that are
   rational multiples of the same term), the factors exp(a t + b) with b <> 0 (kept separate: their exponent is an
   Add), the other factors (in order) *)
Definition hterm := (K * K * list (K * K) * list leaf)%type.
Definition hexp (a1 b1 : K) (h : hterm) : hterm :=
  match h with (c, a, sh, o) => if feqb b1 0 then (c, a + a1, sh, o) else (c, a, sh ++ [(a1, b1)], o) end.
Definition hscale (k : K) (h : hterm) : hterm := match h with (c, a, sh, o) => (c * k, a, sh, o) end.
Definition hsplit (c1 a1 b1 c2 a2 b2 : K) (acc : list hterm) : list hterm :=
  flat_map (fun h => [hscale c1 (hexp a1 b1 h); hscale c2 (hexp a2 b2 h)]) acc.
Definition hstep (acc : list hterm) (l : leaf) : list hterm :=
  match l with
  | LExp a1 b1 => map (hexp a1 b1) acc
  | LSinh w p => hsplit half w p (- half) (- w) (- p) acc
  | LCosh w p => hsplit half w p half (- w) (- p) acc
  | LSin w p => hsplit (1 / (two * j)) (j * w) (j * p) (- (1 / (two * j))) (- (j * w)) (- (j * p)) acc
  | LCos w p => hsplit half (j * w) (j * p) half (- (j * w)) (- (j * p)) acc
  | _ => map (fun h => match h with (c, a, sh, o) => (c, a, sh, o ++ [l]) end) acc
  end.
Definition hyp_expand (fs : list leaf) : list mono :=
  map (fun h => match h with (c, a, sh, o) =>
         (c, (if feqb a 0 then [] else [LExp a 0]) ++ map (fun ab => LExp (fst ab) (snd ab)) sh ++ o) end)
      (fold_left hstep fs [(1, 0, [], [])]).

(* ---- term ---------------------------------------------------------------------------------- *)
Definition vscale (c : K) (X : option (K -> K)) : option (K -> K) :=
  match X with Some f => Some (fun s => c * f s) | None => None end.
Definition vadd (X Y : option (K -> K)) : option (K -> K) :=
  match X, Y with Some f, Some g => Some (fun s => f s + g s) | _, _ => None end.
Definition vzero : option (K -> K) := Some (fun _ => 0).

(* does the expanded expression contain Heaviside(t) exactly / a Heaviside or DiracDelta at all *)
Definition expands_ut (l : leaf) : bool :=
  match l with
  | LU a b => feqb a 1 && feqb b 0
  | LRect a b => feqb a 1 && (feqb (b + half) 0 || feqb (b - half) 0)
  | LTri a b => feqb a 1 && (feqb (b + 1) 0 || feqb b 0 || feqb (b - 1) 0)
  | LRamp a b => feqb a 1 && feqb b 0
  | LRstep a b => feqb a 1 && (feqb b 0 || feqb (b - 1) 0)
  | _ => false
  end.
Definition has_step_or_delta (l : leaf) : bool :=
  match l with LU _ _ | LDelta _ _ _ | LRect _ _ | LTri _ _ | LRamp _ _ | LRstep _ _ => true | _ => false end.
(* a single function that `function` does not handle is rewritten by expand_functions into Heaviside(a t + b') terms
   (rect: b' = b +- 1/2; tri: b + 1, b, b - 1; ramp: b; rampstep: b, b - 1); clip_heaviside then replaces those with
   a > 0 and b' > 0 by 1.  What is left decides between integrate_0 and integrate_0minus. *)
Definition step_shifts (l : leaf) : list (K * K) :=
  match l with
  | LU a b => [(a, b)]
  | LRect a b => [(a, b + half); (a, b - half)]
  | LTri a b => [(a, b + 1); (a, b); (a, b - 1)]
  | LRamp a b => [(a, b)]
  | LRstep a b => [(a, b); (a, b - 1)]
  | _ => []
  end.
Definition clipped (ab : K * K) : bool := pos (fst ab) && pos (snd ab).
Definition steps_left (l : leaf) : list (K * K) := filter (fun ab => negb (clipped ab)) (step_shifts l).
Definition single_tag (l : leaf) : ev :=
  if existsb (fun ab => feqb (fst ab) 1 && feqb (snd ab) 0) (steps_left l) then EvInt0
  else match l with
       | LDelta _ _ _ => EvInt0minus
       | _ => match steps_left l with [] => EvInt0 | _ => EvInt0minus end
       end.

Definition oracle_branch (c : K) (fs : list leaf) (single_function : bool) : option (K -> K) * list ev :=
  let tag := match single_function, fs with
             | true, [l] => single_tag l
             | _, _ => if existsb has_step_or_delta fs then EvInt0minus else EvInt0
             end in
  match prod_nf fs with
  | Some N => (vscale c (orc N), [tag])
  | None => (None, [tag; EvError])
  end.

Definition early (c : K) (fs : list leaf) : option (K -> K) :=
  match fs with
  | [] => Some (f_const F c)
  | [LExp a b] => if feqb b 0 then Some (f_exp F c a) else None
  | _ => None
  end.
Definition is_integral (l : leaf) : bool := match l with LInteg _ | LIntegA _ | LConv _ _ | LConvE _ _ _ => true | _ => false end.
Definition integral_model (c : K) (fs : list leaf) : option (K -> K) * list ev :=
  match fs with
  | [LInteg v] => (Some (fun s => c * f_integ F 1 (f_func F v 1 0 s) s), [EvIntegral; EvFunc])
  | [LIntegA v] => (Some (fun s => c * f_integ F 1 (f_func F v 1 0 s) s), [EvIntegral; EvTerm; EvFunc])   (* goes through self.term(v(t)) *)
  | [LConv v h] => (Some (fun s => c * f_conv F 1 (f_func F v 1 0 s) (f_func F h 1 0 s)),
                    [EvIntegral; EvTerm; EvFunc; EvTerm; EvFunc])
  (* F1 is computed before F2, in the order of the args of the Mul; term(exp(a tau), tau, s) returns at `const / (s - arg)` *)
  | [LConvE a v true] => (Some (fun s => c * f_conv F 1 (f_exp F 1 a s) (f_func F v 1 0 s)), [EvIntegral; EvTerm; EvTerm; EvFunc])
  | [LConvE a v false] => (Some (fun s => c * f_conv F 1 (f_func F v 1 0 s) (f_exp F 1 a s)), [EvIntegral; EvTerm; EvFunc; EvTerm])
  | _ => (None, [EvIntegral; EvError])
  end.
Definition late (zic : bool) (c : K) (fs : list leaf) : option (K -> K) * list ev :=
  if existsb is_named fs then
    let (r, evs) := undef_model zic fs in (vscale c r, evs)
  else
    match fs with
    | [l] =>
        if is_function l then
          match function_model l with
          | Some X => (Some (fun s => c * X s), [EvFunctionVal])
          | None => let (r, evs) := oracle_branch c fs true in (r, EvFunctionNone :: evs)
          end
        else oracle_branch c fs false
    | _ => oracle_branch c fs false
    end.
Definition term1 (zic : bool) (c : K) (fs : list leaf) : option (K -> K) * list ev :=
  match early c fs with
  | Some X => (Some X, [])
  | None =>
    if existsb is_integral fs then integral_model c fs
    else if existsb is_trig fs then
      match sincos_model fs with
      | Some X => (Some (fun s => c * X s), [EvSinCosOk])
      | None => let (r, evs) := late zic c fs in (r, EvSinCosFail :: evs)
      end
    else late zic c fs
  end.

(* a monomial with sinh/cosh is rewritten and expanded; every resulting term goes through term again *)
Fixpoint term_list (zic : bool) (ms : list mono) : option (K -> K) * list ev :=
  match ms with
  | [] => (vzero, [])
  | (c, fs) :: ms' =>
      let (r1, e1) := term1 zic c fs in
      let (r2, e2) := term_list zic ms' in
      (vadd r1 r2, EvTerm :: e1 ++ e2)
  end.
(* a polynomial factor: `expr.expand(deep=False)` distributes it, every product goes through term again (highest
   power first); the power of t merges with a factor t^n that is already there *)
Definition is_poly (l : leaf) : bool := match l with LPoly _ => true | _ => false end.
Fixpoint first_poly (fs : list leaf) : option (list K) :=
  match fs with [] => None | LPoly p :: _ => Some p | _ :: fs' => first_poly fs' end.
Fixpoint powt_of (fs : list leaf) : nat :=
  match fs with [] => O | LPowT n :: _ => n | _ :: fs' => powt_of fs' end.
Definition strip_poly (fs : list leaf) : list leaf :=
  filter (fun l => match l with LPoly _ | LPowT _ => false | _ => true end) fs.
Fixpoint poly_terms (k n : nat) (p : list K) (rest : list leaf) (acc : list mono) : list mono :=
  match p with
  | [] => acc
  | a :: p' =>
      poly_terms (S k) n p' rest
        (if feqb a 0 then acc else (a, (match (k + n)%nat with O => [] | S _ => [LPowT (k + n)] end) ++ rest) :: acc)
  end.
Definition poly_expand (fs : list leaf) : list mono :=
  match first_poly fs with
  | Some p => poly_terms O (powt_of fs) p (strip_poly fs) []
  | None => []
  end.
Definition term (zic : bool) (m : mono) : option (K -> K) * list ev :=
  let (c, fs) := m in
  if existsb is_hyp fs then
    let (r, evs) := term_list zic (hyp_expand fs) in (vscale c r, EvTerm :: evs)
  else if existsb is_poly fs then
    let (r, evs) := term_list zic (poly_expand fs) in (vscale c r, EvTerm :: evs)
  else let (r, evs) := term1 zic c fs in (r, EvTerm :: evs).

(* ---- UnilateralForwardTransformer.doit ------------------------------------------------------- *)
Definition strip (m : mono) : mono := (fst m, remove_heaviside (snd m)).
Fixpoint doit_terms (zic : bool) (e : tx) : option (K -> K) * list ev :=
  match e with
  | [] => (vzero, [])
  | m :: e' =>
      let (r1, e1) := term zic (strip m) in
      let (r2, e2) := doit_terms zic e' in
      (vadd r1 r2, e1 ++ e2)
  end.
(* factor_const(expr, var) at the top of doit: the t-free factors of a product; the leading coefficient
   of a polynomial; 1 for any other sum *)
Definition mono_deg (m : mono) : option nat :=
  match snd m with [] => Some O | [LPowT n] => Some n | _ => None end.
Fixpoint poly_lc (e : tx) (best : nat) (lc : K) : option K :=
  match e with
  | [] => Some lc
  | m :: e' => match mono_deg m with
               | Some d => if Nat.ltb best d then poly_lc e' d (fst m) else poly_lc e' best lc
               | None => None
               end
  end.
Definition top_const (e : tx) : K :=
  match e with
  | [m] => fst m
  | m :: _ => match mono_deg m with
              | Some d => match poly_lc e d (fst m) with Some lc => if feqb lc 0 then 1 else lc | None => 1 end
              | None => 1
              end
  | [] => 1
  end.
Definition divc (k : K) (e : tx) : tx := map (fun m => (fst m / k, snd m)) e.
Definition doit (zic : bool) (e : tx) : option (K -> K) * list ev :=
  let k := top_const e in
  let (r, evs) := doit_terms zic (divc k e) in (vscale k r, evs).


(* ================================================================================================
   SOUNDNESS
   ================================================================================================ *)
(* ---- well-formedness of the normal forms produced by the semantics ------------------------------ *)
Notation nf_ok := (nf_ok K isr neg).
Notation nf_val := (nf_val K ex).
Notation nf_dom := (nf_dom K).
Notation LPairK := (LPair K ex isr neg Fn).

(* ---- hypotheses about the abstract functions ---------------------------------------------------- *)
Hypothesis ex_add : forall a b, ex (a + b) = ex a * ex b.
Hypothesis ex_0 : ex 0 = 1.
Hypothesis jj : j * j = - (1).
Hypothesis sn_euler : forall x, sn x = (ex (j * x) - ex (- (j * x))) / (two * j).
Hypothesis cs_euler : forall x, cs x = (ex (j * x) + ex (- (j * x))) / two.
(* the real elements form a subfield, ordered by [neg]  (K = C: isr = "is real", neg = "is a negative real") *)
Hypothesis isr_0 : isr 0 = true.
Hypothesis isr_1 : isr 1 = true.
Hypothesis isr_add : forall x y, isr x = true -> isr y = true -> isr (x + y) = true.
Hypothesis isr_opp : forall x, isr x = true -> isr (- x) = true.
Hypothesis isr_mul : forall x y, isr x = true -> isr y = true -> isr (x * y) = true.
Hypothesis isr_inv : forall x, isr x = true -> isr (1 / x) = true.
Hypothesis neg_0 : neg 0 = false.
Hypothesis neg_1 : neg 1 = false.
Hypothesis neg_opp : forall x, isr x = true -> x <> 0 -> neg (- x) = negb (neg x).
Hypothesis neg_mul : forall x y, isr x = true -> isr y = true -> x <> 0 -> y <> 0 -> neg (x * y) = xorb (neg x) (neg y).
Hypothesis neg_inv : forall x, isr x = true -> x <> 0 -> neg (1 / x) = neg x.
Hypothesis neg_add : forall x y, isr x = true -> isr y = true -> neg x = false -> neg y = false -> neg (x + y) = false.

Lemma isr_div x y : isr x = true -> isr y = true -> isr (x / y) = true.
Proof. intros Hx Hy. replace (x / y) with (x * (1 / y)) by (unfold fdiv; rewrite !(Fdiv_def (fth K)); ring).
  apply isr_mul; [exact Hx | apply isr_inv; exact Hy]. Qed.
Lemma isr_sub x y : isr x = true -> isr y = true -> isr (x - y) = true.
Proof. intros Hx Hy. replace (x - y) with (x + - y) by ring. apply isr_add; [exact Hx | apply isr_opp; exact Hy]. Qed.
Lemma isr_T a b : isr a = true -> isr b = true -> isr (- b / a) = true.
Proof. intros Ha Hb. apply isr_div; [apply isr_opp; exact Hb | exact Ha]. Qed.
Lemma and3 (x y z : bool) : x && y && z = true -> x = true /\ y = true /\ z = true.
Proof. destruct x, y, z; cbn; intros H; try discriminate; auto. Qed.

Lemma oapp_some (a b : option nf) R : oapp a b = Some R -> exists x y, a = Some x /\ b = Some y /\ R = x ++ y.
Proof. destruct a as [x|], b as [y|]; cbn; intros H; try discriminate. inversion H. eauto. Qed.
Lemma emul_ok a b R : nent_ok K isr neg a -> nent_ok K isr neg b -> emul K ex neg a b = Some R -> nf_ok R.
Proof. destruct a as [[d1|] r1|T1 q1], b as [[d2|] r2|T2 q2]; cbn [emul nent_ok]; intros Ha Hb H;
  repeat match type of H with context [if ?c then _ else _] => destruct c end;
  inversion H; subst; cbn [LaplaceSig.nf_ok nent_ok]; auto. Qed.
Lemma emul_row_ok a M : nent_ok K isr neg a -> nf_ok M -> forall R, emul_row K ex neg a M = Some R -> nf_ok R.
Proof. intros Ha. induction M as [|b M IH]; cbn [emul_row LaplaceSig.nf_ok]; intros HM R H.
  - inversion H. exact I.
  - destruct HM as [Hb HM]. apply oapp_some in H. destruct H as [x [y [H1 [H2 ->]]]].
    apply nf_ok_app. split; [exact (emul_ok a b x Ha Hb H1) | exact (IH HM y H2)]. Qed.
Lemma nmul_ok N M : nf_ok N -> nf_ok M -> forall R, nmul K ex neg N M = Some R -> nf_ok R.
Proof. induction N as [|a N IH]; cbn [nmul LaplaceSig.nf_ok]; intros HN HM R H.
  - inversion H. exact I.
  - destruct HN as [Ha HN]. apply oapp_some in H. destruct H as [x [y [H1 [H2 ->]]]].
    apply nf_ok_app. split; [exact (emul_row_ok a M Ha HM x H1) | exact (IH HN HM y H2)]. Qed.
Lemma oscale_ok c N R : oscale c N = Some R -> (forall x, N = Some x -> nf_ok x) -> nf_ok R.
Proof. destruct N as [x|]; cbn; intros H Hx; [|discriminate]. inversion H. exact (nf_ok_nscale K ex isr neg c x (Hx x eq_refl)). Qed.
Lemma step_nf_ok a b R : step_nf a b = Some R -> nf_ok R.
Proof. unfold step_nf. destruct (isr a && isr b && pos a) eqn:C; [|discriminate]. apply and3 in C. destruct C as [Ra [Rb _]].
  intros H. inversion H. pose proof (isr_T a b Ra Rb).
  destruct (neg (- b / a)) eqn:E1; cbn [orb]; [cbn; auto|]. destruct (feqb (- b / a) 0); cbn; auto. Qed.
Lemma ramp_nf_ok a b R : ramp_nf a b = Some R -> nf_ok R.
Proof. unfold ramp_nf. destruct (isr a && isr b && pos a) eqn:C; [|discriminate]. apply and3 in C. destruct C as [Ra [Rb _]].
  intros H. inversion H. pose proof (isr_T a b Ra Rb).
  destruct (neg (- b / a)) eqn:E1; cbn [orb]; [cbn; auto|]. destruct (feqb (- b / a) 0); cbn; auto. Qed.
Lemma oapp_ok a b R : oapp a b = Some R -> (forall x, a = Some x -> nf_ok x) -> (forall y, b = Some y -> nf_ok y) -> nf_ok R.
Proof. intros H Ha Hb. apply oapp_some in H. destruct H as [x [y [H1 [H2 ->]]]]. apply nf_ok_app. split; auto. Qed.
Lemma leaf_nf_ok l R : leaf_nf l = Some R -> nf_ok R.
Proof. destruct l; cbn [leaf_nf]; intros H; try discriminate; try (inversion H; cbn; auto; fail).
  - exact (step_nf_ok _ _ _ H).
  - destruct (isr a && isr b && pos a) eqn:C; [|discriminate]. apply and3 in C. destruct C as [Ra [Rb _]].
    pose proof (isr_T a b Ra Rb). inversion H. destruct (neg (- b / a)) eqn:E; cbn; auto.
  - apply (oapp_ok _ _ _ H); [apply step_nf_ok | intros y Hy; apply (oscale_ok _ _ _ Hy); apply step_nf_ok].
  - apply (oapp_ok _ _ _ H); [apply ramp_nf_ok|]. intros y Hy. apply (oapp_ok _ _ _ Hy); [|apply ramp_nf_ok].
    intros z Hz. apply (oscale_ok _ _ _ Hz). apply ramp_nf_ok.
  - exact (ramp_nf_ok _ _ _ H).
  - apply (oapp_ok _ _ _ H); [apply ramp_nf_ok | intros y Hy; apply (oscale_ok _ _ _ Hy); apply ramp_nf_ok]. Qed.
Theorem prod_nf_ok fs : forall R, prod_nf fs = Some R -> nf_ok R.
Proof. induction fs as [|l fs IH]; intros R H.
  - inversion H. cbn. auto.
  - destruct fs as [|l2 fs].
    + exact (leaf_nf_ok l R H).
    + change (prod_nf (l :: l2 :: fs)) with
        (match leaf_nf l, prod_nf (l2 :: fs) with Some a, Some b => nmul K ex neg a b | _, _ => None end) in H.
      destruct (leaf_nf l) as [a|] eqn:E1; [|discriminate]. destruct (prod_nf (l2 :: fs)) as [b|] eqn:E2; [|discriminate].
      exact (nmul_ok a b (leaf_nf_ok l a E1) (IH b eq_refl) R H). Qed.

Lemma two_nz : two <> 0.
Proof. exact (fchar0 K 2%positive). Qed.
Lemma j_nz : j <> 0.
Proof. intros E. apply (one_nz K). transitivity (- (j * j)); [rewrite jj; ring | rewrite E; ring]. Qed.
Lemma ex_nz x : ex x <> 0.
Proof. intros E. apply (one_nz K). rewrite <- ex_0. replace 0 with (x + - x) by ring. rewrite ex_add, E. ring. Qed.
Lemma ex_opp x : ex (- x) = 1 / ex x.
Proof. pose proof (ex_nz x) as H. assert (E : ex x * ex (- x) = 1) by (rewrite <- ex_add, <- ex_0; f_equal; ring).
  transitivity (ex x * ex (- x) / ex x); [field; exact H | rewrite E; reflexivity]. Qed.
Lemma ex_eq a b : a = b -> ex a = ex b.
Proof. intros ->. reflexivity. Qed.
Lemma pos_nz a : pos a = true -> a <> 0.
Proof. unfold LaplaceSig.pos. intros H. apply andb_true_iff in H. destruct H as [_ H]. apply negb_true_iff in H.
  apply feqb_neq in H. exact H. Qed.
Lemma pos_neg a : pos a = true -> neg a = false.
Proof. unfold LaplaceSig.pos. intros H. apply andb_true_iff in H. destruct H as [H _]. apply negb_true_iff in H. exact H. Qed.
Lemma pos_1 : pos 1 = true.
Proof. unfold LaplaceSig.pos. rewrite neg_1. cbn. apply negb_true_iff. apply feqb_neq. apply one_nz. Qed.
Lemma half_nz : half <> 0.
Proof. unfold half. apply div_nz; [apply one_nz | apply two_nz]. Qed.
Lemma isr_two : isr two = true.
Proof. apply isr_add; exact isr_1. Qed.
Lemma isr_half : isr half = true.
Proof. unfold half. apply isr_inv. exact isr_two. Qed.
Lemma neg_two : neg two = false.
Proof. apply neg_add; try exact isr_1; exact neg_1. Qed.
Lemma neg_half : neg half = false.
Proof. unfold half. rewrite neg_inv; [exact neg_two | exact isr_two | apply two_nz]. Qed.
Lemma neg_div_pos x a : isr x = true -> isr a = true -> pos a = true -> x <> 0 -> neg (x / a) = neg x.
Proof. intros Rx Ra Ha Hx. pose proof (pos_nz a Ha) as Hn. replace (x / a) with (x * (1 / a)) by (field; exact Hn).
  rewrite neg_mul; [| exact Rx | apply isr_inv; exact Ra | exact Hx | apply div_nz; [apply one_nz | exact Hn]].
  rewrite neg_inv by assumption. rewrite (pos_neg a Ha). destruct (neg x); reflexivity. Qed.

(* ---- the textbook table values -------------------------------------------------------------------- *)
Definition sq (x : K) : K := x * x.
Definition sc_tau (hasu : bool) (zeta : K) : K :=
  if hasu then (if neg (- zeta) || feqb (- zeta) 0 then 0 else - zeta) else 0.
Definition spec_sincos (iscos hasu : bool) (al be w p zeta s : K) : K :=
  let tau := sc_tau hasu zeta in
  let ph := p + w * tau in
  ex be * ex (- (tau * s)) * ex (al * tau) *
  ((if iscos then (s - al) * cs ph - w * sn ph else w * cs ph + (s - al) * sn ph) / (sq (s - al) + sq w)).
Definition spec_rect (a s : K) : K := (1 - ex (- (s / (two * a)))) / s.
Definition spec_tri (a s : K) : K := 1 / s - a * (1 - ex (- (s / a))) / sq s.
Definition spec_ramp (a s : K) : K := a / sq s.
Definition spec_rstep (a s : K) : K := a * (1 - ex (- (s / a))) / sq s.
Definition spec_func (v : nat) (a b s : K) : K := ex (s * b / a) * Fn v (s / a) / a.
Definition Icz (zic : bool) (v m : nat) : K := if zic then 0 else Ic v m.
Definition spec_deriv (v k : nat) (zic : bool) (s : K) : K := fpow s k * Fn v s - ic_sum K (Icz zic) v k s.
Definition spec_sift (c X a b s : K) : K := c * X * ex (- (- b / a * s)) / a.

(* the specification's own closed forms: the model run with them is the SPECIFICATION of the transformer (used
   by the correspondence evaluation as an exact oracle independent of the translated formulas) *)
Definition spec_forms : forms :=
  Forms (fun c s => c / s) (fun c a s => c / (s - a))
        (fun iscos hasu al be w p zeta s => spec_sincos iscos hasu al be w p zeta s)
        (fun n m => Nat.leb n (S m))
        spec_rect spec_tri spec_ramp spec_rstep spec_func spec_deriv
        (fun c X s => c * X / s) (fun c A B => c * A * B) spec_sift.

(* what the generated closed forms have to satisfy (proved in props/C09_entry_*.v for the current source) *)
Record forms_ok : Prop := FormsOk {
  const_ok : forall c s, s <> 0 -> f_const F c s = c / s;
  exp_ok : forall c a s, s - a <> 0 -> f_exp F c a s = c / (s - a);
  sincos_ok : forall iscos hasu al be w p zeta s, sq (s - al) + sq w <> 0 ->
      f_sincos F iscos hasu al be w p (if hasu then zeta else 0) s = spec_sincos iscos hasu al be w p zeta s;
  guard_ok : forall n m, f_sc_guard F n m = true -> (n <= S m)%nat;
  rect_ok : forall a s, a <> 0 -> s <> 0 -> f_rect F a s = spec_rect a s;
  tri_ok : forall a s, a <> 0 -> s <> 0 -> f_tri F a s = spec_tri a s;
  ramp_ok : forall a s, s <> 0 -> f_ramp F a s = spec_ramp a s;
  rstep_ok : forall a s, a <> 0 -> s <> 0 -> f_rstep F a s = spec_rstep a s;
  func_ok : forall v a b s, pos a = true -> f_func F v a b s = spec_func v a b s;
  deriv_ok : forall v k zic s, f_deriv F v k zic s = spec_deriv v k zic s;
  integ_ok : forall c X s, s <> 0 -> f_integ F c X s = c * X / s;
  conv_ok : forall c A B, f_conv F c A B = c * A * B;
  sift_ok : forall c X a b s, pos a = true -> f_sift F c X a b s = spec_sift c X a b s
}.


(* ---- values of normal forms: general lemmas ------------------------------------------------------- *)
Lemma lbinom_0 n : lbinom n 0 = 1%nat.
Proof. destruct n; reflexivity. Qed.
Lemma lbinom_over n : forall k, (n < k)%nat -> lbinom n k = 0%nat.
Proof. induction n as [|n IH]; intros k Hk; destruct k as [|k]; try lia; cbn [lbinom]; [reflexivity|].
  rewrite (IH k), (IH (S k)) by lia. reflexivity. Qed.
Lemma lbinom_nn n : lbinom n n = 1%nat.
Proof. induction n as [|n IH]; [reflexivity|]. cbn [lbinom]. rewrite IH, lbinom_over by lia. reflexivity. Qed.
Lemma neg_eq (x y : K) : x = y -> neg x = neg y.
Proof. intros ->. reflexivity. Qed.
Lemma feqb_eqv (x y : K) : x = y -> feqb x 0 = feqb y 0.
Proof. intros ->. reflexivity. Qed.
Lemma fdiv_mul (a b c : K) : a * (b / c) = a * b / c.
Proof. unfold fdiv. rewrite !(Fdiv_def (fth K)). ring. Qed.
Lemma rval_eq_s (s s' : K) (r : list rt) : s = s' -> rval s r = rval s' r.
Proof. intros ->. reflexivity. Qed.
(* exponential weighting at the level of normal forms: e·e^{at}·r(t)  has transform  e·R(s - a) *)
Lemma rval_tmul_exp s e a (r : list rt) : rval s (tmul [(e, O, a)] r) = e * rval (s - a) r.
Proof. unfold tmul. cbn [flat_map]. rewrite app_nil_r. induction r as [|[[c n] p] r IH]; cbn [map rval tmul1]; [ring|].
  rewrite IH. cbn [Nat.add]. rewrite lbinom_0. cbn [fnat].
  replace (s - (a + p)) with (s - a - p) by ring. unfold fdiv. rewrite !(Fdiv_def (fth K)). ring. Qed.
Lemma tmul_cons_one (x : rt) (r : list rt) : tmul (x :: r) one_r = tmul1 x (1, O, 0) :: tmul r one_r.
Proof. reflexivity. Qed.
Lemma rval_tmul_one s (r : list rt) : rval s (tmul r one_r) = rval s r.
Proof. induction r as [|[[c n] p] r IH]; [reflexivity|]. rewrite tmul_cons_one. cbn [rval tmul1]. rewrite IH.
  rewrite Nat.add_0_r, lbinom_nn. cbn [fnat].
  replace (s - (p + 0)) with (s - p) by ring. unfold fdiv. rewrite !(Fdiv_def (fth K)). ring. Qed.
Ltac nzs Hs := repeat split; try assumption; try (let E := fresh "E" in intro E; apply Hs; rewrite <- E; ring).
Lemma rval_one s : s <> 0 -> rval s one_r = 1 / s.
Proof. intros Hs. unfold one_r. cbn [rval fpow]. field. nzs Hs. Qed.
Lemma rval_lin s a b : s <> 0 -> rval s [(a, 1%nat, 0); (b, O, 0)] = a / sq s + b / s.
Proof. intros Hs. cbn [rval fpow]. unfold sq. field. nzs Hs. Qed.
Lemma rval_lin1 s a : s <> 0 -> rval s [(a, 1%nat, 0)] = a / sq s.
Proof. intros Hs. cbn [rval fpow]. unfold sq. field. nzs Hs. Qed.

(* ---- rect / tri / ramp / rampstep with scale a > 0 and no shift ------------------------------------ *)
Lemma T_adv a x : isr a = true -> isr x = true -> pos a = true -> x <> 0 -> neg x = false -> neg (- x / a) = true.
Proof. intros Ra Rx Ha Hx Hn. rewrite neg_div_pos; [| apply isr_opp; exact Rx | exact Ra | exact Ha | apply opp_nz; exact Hx].
  rewrite neg_opp by assumption. rewrite Hn. reflexivity. Qed.
Lemma T_del a x : isr a = true -> isr x = true -> pos a = true -> x <> 0 -> neg x = false ->
  neg (x / a) = false /\ feqb (x / a) 0 = false.
Proof. intros Ra Rx Ha Hx Hn. split; [rewrite neg_div_pos by assumption; exact Hn|]. apply feqb_neq. apply div_nz; [exact Hx | apply pos_nz; exact Ha]. Qed.

Lemma step_adv a b : isr a = true -> isr b = true -> pos a = true -> b <> 0 -> neg b = false -> step_nf a b = Some [NReg None one_r].
Proof. intros Ra Rb Ha Hb Hn. unfold step_nf. rewrite Ra, Rb, Ha. cbn [andb]. rewrite (T_adv a b Ra Rb Ha Hb Hn). reflexivity. Qed.
Lemma step_del a b : isr a = true -> isr b = true -> pos a = true -> b <> 0 -> neg b = false ->
  step_nf a (- b) = Some [NReg (Some (b / a)) one_r].
Proof. intros Ra Rb Ha Hb Hn. unfold step_nf. rewrite Ra, (isr_opp b Rb), Ha. cbn [andb]. pose proof (pos_nz a Ha) as Hz.
  assert (E : - - b / a = b / a) by (field; exact Hz). rewrite E. destruct (T_del a b Ra Rb Ha Hb Hn) as [H1 H2]. rewrite H1, H2. reflexivity. Qed.
Lemma ramp_adv a b : isr a = true -> isr b = true -> pos a = true -> b <> 0 -> neg b = false ->
  ramp_nf a b = Some [NReg None [(a, 1%nat, 0); (b, O, 0)]].
Proof. intros Ra Rb Ha Hb Hn. unfold ramp_nf. rewrite Ra, Rb, Ha. cbn [andb]. rewrite (T_adv a b Ra Rb Ha Hb Hn). reflexivity. Qed.
Lemma ramp_zero a : isr a = true -> pos a = true -> ramp_nf a 0 = Some [NReg None [(a, 1%nat, 0); (0, O, 0)]].
Proof. intros Ra Ha. unfold ramp_nf. rewrite Ra, isr_0, Ha. cbn [andb]. pose proof (pos_nz a Ha) as Hz.
  assert (E : feqb (- 0 / a) 0 = true) by (apply feqb_eq; field; exact Hz). rewrite E, orb_true_r. reflexivity. Qed.
Lemma ramp_del a b : isr a = true -> isr b = true -> pos a = true -> b <> 0 -> neg b = false ->
  ramp_nf a (- b) = Some [NReg (Some (b / a)) [(a, 1%nat, 0)]].
Proof. intros Ra Rb Ha Hb Hn. unfold ramp_nf. rewrite Ra, (isr_opp b Rb), Ha. cbn [andb]. pose proof (pos_nz a Ha) as Hz.
  assert (E : - - b / a = b / a) by (field; exact Hz). rewrite E. destruct (T_del a b Ra Rb Ha Hb Hn) as [H1 H2]. rewrite H1, H2. reflexivity. Qed.

Definition rect_N (a : K) : nf := [NReg None one_r] ++ nscale (- (1)) [NReg (Some (half / a)) one_r].
Definition tri_N (a : K) : nf :=
  [NReg None [(a, 1%nat, 0); (1, O, 0)]] ++ nscale (- two) [NReg None [(a, 1%nat, 0); (0, O, 0)]] ++ [NReg (Some (1 / a)) [(a, 1%nat, 0)]].
Definition ramp_N (a : K) : nf := [NReg None [(a, 1%nat, 0); (0, O, 0)]].
Definition rstep_N (a : K) : nf := [NReg None [(a, 1%nat, 0); (0, O, 0)]] ++ nscale (- (1)) [NReg (Some (1 / a)) [(a, 1%nat, 0)]].
Lemma rect_nf a : isr a = true -> pos a = true -> leaf_nf (LRect a 0) = Some (rect_N a).
Proof. intros Ra Ha. cbn [leaf_nf]. replace (0 + half) with half by ring. replace (0 - half) with (- half) by ring.
  rewrite (step_adv a half Ra isr_half Ha half_nz neg_half), (step_del a half Ra isr_half Ha half_nz neg_half). reflexivity. Qed.
Lemma tri_nf a : isr a = true -> pos a = true -> leaf_nf (LTri a 0) = Some (tri_N a).
Proof. intros Ra Ha. cbn [leaf_nf]. replace (0 + 1) with (1 : K) by ring. replace (0 - 1) with (- (1) : K) by ring.
  rewrite (ramp_adv a 1 Ra isr_1 Ha (one_nz K) neg_1), (ramp_zero a Ra Ha), (ramp_del a 1 Ra isr_1 Ha (one_nz K) neg_1). reflexivity. Qed.
Lemma ramp_nf0 a : isr a = true -> pos a = true -> leaf_nf (LRamp a 0) = Some (ramp_N a).
Proof. intros Ra Ha. cbn [leaf_nf]. exact (ramp_zero a Ra Ha). Qed.
Lemma rstep_nf a : isr a = true -> pos a = true -> leaf_nf (LRstep a 0) = Some (rstep_N a).
Proof. intros Ra Ha. cbn [leaf_nf]. replace (0 - 1) with (- (1) : K) by ring.
  rewrite (ramp_zero a Ra Ha), (ramp_del a 1 Ra isr_1 Ha (one_nz K) neg_1). reflexivity. Qed.

Ltac nzc := repeat split; first [assumption | apply two_nz | apply (one_nz K) | apply j_nz | apply ex_nz | idtac].
Lemma rect_val a s : a <> 0 -> s <> 0 -> nf_val s (rect_N a) = spec_rect a s.
Proof. intros Ha Hs. unfold rect_N, spec_rect. cbn [app nscale map nent_scale LaplaceSig.nf_val nent_val].
  rewrite rval_rscale, (rval_one s Hs).
  replace (ex (- (half / a * s))) with (ex (- (s / (two * a)))) by (apply ex_eq; unfold half; field; nzc).
  field; nzc. Qed.
Lemma tri_val a s : a <> 0 -> s <> 0 -> nf_val s (tri_N a) = spec_tri a s.
Proof. intros Ha Hs. unfold tri_N, spec_tri. cbn [app nscale map nent_scale LaplaceSig.nf_val nent_val].
  rewrite rval_rscale, !(rval_lin s _ _ Hs), (rval_lin1 s _ Hs).
  replace (ex (- (1 / a * s))) with (ex (- (s / a))) by (apply ex_eq; field; nzc).
  unfold sq. field; nzc. Qed.
Lemma ramp_val a s : s <> 0 -> nf_val s (ramp_N a) = spec_ramp a s.
Proof. intros Hs. unfold ramp_N, spec_ramp. cbn [LaplaceSig.nf_val nent_val]. rewrite (rval_lin s _ _ Hs). unfold sq. field; nzc. Qed.
Lemma rstep_val a s : a <> 0 -> s <> 0 -> nf_val s (rstep_N a) = spec_rstep a s.
Proof. intros Ha Hs. unfold rstep_N, spec_rstep. cbn [app nscale map nent_scale LaplaceSig.nf_val nent_val].
  rewrite rval_rscale, (rval_lin s _ _ Hs), (rval_lin1 s _ Hs).
  replace (ex (- (1 / a * s))) with (ex (- (s / a))) by (apply ex_eq; field; nzc).
  unfold sq. field; nzc. Qed.


(* ---- [exp] sin|cos [Heaviside] --------------------------------------------------------------------- *)
Definition sin_r (w p : K) : list rt := [(ex (j * p) / (two * j), O, j * w); (- (ex (- (j * p)) / (two * j)), O, - (j * w))].
Definition cos_r (w p : K) : list rt := [(ex (j * p) / two, O, j * w); (ex (- (j * p)) / two, O, - (j * w))].
Definition trig_r (iscos : bool) (w p : K) : list rt := if iscos then cos_r w p else sin_r w p.
Definition trig_leaf (iscos : bool) (w p : K) : leaf := if iscos then LCos w p else LSin w p.
Lemma leaf_nf_trig iscos w p : leaf_nf (trig_leaf iscos w p) = Some [NReg None (trig_r iscos w p)].
Proof. destruct iscos; reflexivity. Qed.
Lemma sq_fact x w : sq x + sq w = (x - j * w) * (x + j * w).
Proof. unfold sq. transitivity (x * x - (j * j) * (w * w)); [rewrite jj; ring | ring]. Qed.
Definition real_form (iscos : bool) (x w ph : K) : K :=
  (if iscos then x * cs ph - w * sn ph else w * cs ph + x * sn ph) / (sq x + sq w).
Lemma inv_j y : y / j = - (j * y).
Proof. pose proof j_nz as Hj. transitivity (- (j * j) * y / j); [rewrite jj; field; exact Hj | field; exact Hj]. Qed.
Lemma rval_trig iscos w p x : x - j * w <> 0 -> x + j * w <> 0 -> rval x (trig_r iscos w p) = real_form iscos x w p.
Proof. intros H1 H2. unfold real_form. rewrite sq_fact, sn_euler, cs_euler.
  destruct iscos; unfold trig_r, cos_r, sin_r; cbn [rval fpow]; cbv beta iota;
    replace (x - - (j * w)) with (x + j * w) by ring;
    generalize (ex (j * p)) (ex (- (j * p))); intros A A'.
  - replace ((A - A') / (two * j)) with (- (j * ((A - A') / two))) by (rewrite <- inv_j; field; nzc).
    field; nzc.
  - field; nzc.
Qed.
Lemma trig_r_eq iscos w p p' : p = p' -> trig_r iscos w p = trig_r iscos w p'.
Proof. intros ->. reflexivity. Qed.
(* shifting the sinusoid by T adds w T to the phase *)
Lemma rval_tshift_trig iscos w p T x : rval x (tshift K ex T (trig_r iscos w p)) = rval x (trig_r iscos w (p + w * T)).
Proof.
  assert (E1 : ex (j * (p + w * T)) = ex (j * p) * ex (j * w * T)) by (rewrite <- ex_add; apply ex_eq; ring).
  assert (E2 : ex (- (j * (p + w * T))) = ex (- (j * p)) * ex (- (j * w) * T)) by (rewrite <- ex_add; apply ex_eq; ring).
  destruct iscos; unfold trig_r, cos_r, sin_r, tshift; cbn [flat_map tshift1 seq map app rval Nat.sub fpow natfact Nat.mul Nat.add fnat];
    rewrite E1, E2; unfold fdiv; rewrite !(Fdiv_def (fth K));
    replace (finv (1 + 0)) with (1 : K) by (symmetry; transitivity ((1 : K) / (1 + 0)); [rewrite (Fdiv_def (fth K)); ring | field; intro E; apply (one_nz K); rewrite <- E; ring]); ring. Qed.
Definition core_val (iscos : bool) (al be w p tau s : K) : K :=
  ex be * ex (- (tau * s)) * ex (al * tau) * rval (s - al) (trig_r iscos w (p + w * tau)).
Lemma spec_core iscos hasu al be w p zeta s : s - al - j * w <> 0 -> s - al + j * w <> 0 ->
  spec_sincos iscos hasu al be w p zeta s = core_val iscos al be w p (sc_tau hasu zeta) s.
Proof. intros H1 H2. unfold spec_sincos, core_val. cbv zeta. rewrite (rval_trig iscos w _ (s - al) H1 H2). reflexivity. Qed.

Definition e_r (al be : K) : list rt := [(ex be, O, al)].
Lemma tshift_e al be T : tshift K ex T (e_r al be) = [(ex be * ex (al * T) * 1 / (1 + 0), O, al)].
Proof. reflexivity. Qed.
Lemma one10 : (1 + 0 : K) <> 0.
Proof. intro E. apply (one_nz K). rewrite <- E. ring. Qed.

(* the six shapes and their normal forms *)
Lemma shape_S iscos w p : prod_nf [trig_leaf iscos w p] = Some [NReg None (trig_r iscos w p)].
Proof. exact (leaf_nf_trig iscos w p). Qed.
Lemma shape_ES iscos al be w p :
  prod_nf [LExp al be; trig_leaf iscos w p] = Some [NReg None (tmul (e_r al be) (trig_r iscos w p))].
Proof. change (prod_nf [LExp al be; trig_leaf iscos w p]) with
    (match leaf_nf (LExp al be), leaf_nf (trig_leaf iscos w p) with Some a, Some b => nmul K ex neg a b | _, _ => None end).
  rewrite leaf_nf_trig. reflexivity. Qed.
Definition step_T (zeta : K) : K := - zeta / 1.
Definition delayed (zeta : K) : bool := negb (neg (step_T zeta) || feqb (step_T zeta) 0).
Lemma step_nf_1 zeta : isr zeta = true ->
  step_nf 1 zeta = Some (if delayed zeta then [NReg (Some (step_T zeta)) one_r] else [NReg None one_r]).
Proof. intros Rz. unfold step_nf, delayed, step_T. rewrite isr_1, Rz, pos_1. cbn [andb].
  destruct (neg (- zeta / 1) || feqb (- zeta / 1) 0); reflexivity. Qed.
Lemma step_nf_1_none zeta : isr zeta = false -> step_nf 1 zeta = None.
Proof. intros Rz. unfold step_nf. rewrite isr_1, Rz. reflexivity. Qed.
Lemma shape_SU iscos w p zeta : isr zeta = true ->
  prod_nf [trig_leaf iscos w p; LU 1 zeta] =
  Some (if delayed zeta then [NReg (Some (step_T zeta)) (tmul (tshift K ex (step_T zeta) (trig_r iscos w p)) one_r)]
        else [NReg None (tmul (trig_r iscos w p) one_r)]).
Proof. intros Rz. change (prod_nf [trig_leaf iscos w p; LU 1 zeta]) with
    (match leaf_nf (trig_leaf iscos w p), step_nf 1 zeta with Some a, Some b => nmul K ex neg a b | _, _ => None end).
  rewrite leaf_nf_trig, step_nf_1 by exact Rz. destruct (delayed zeta); reflexivity. Qed.
Lemma shape_ESU iscos al be w p zeta : isr zeta = true ->
  prod_nf [LExp al be; trig_leaf iscos w p; LU 1 zeta] =
  Some (if delayed zeta
        then [NReg (Some (step_T zeta)) (tmul (tshift K ex (step_T zeta) (e_r al be)) (tmul (tshift K ex (step_T zeta) (trig_r iscos w p)) one_r))]
        else [NReg None (tmul (e_r al be) (tmul (trig_r iscos w p) one_r))]).
Proof. intros Rz. change (prod_nf [LExp al be; trig_leaf iscos w p; LU 1 zeta]) with
    (match leaf_nf (LExp al be), prod_nf [trig_leaf iscos w p; LU 1 zeta] with Some a, Some b => nmul K ex neg a b | _, _ => None end).
  rewrite shape_SU by exact Rz. destruct (delayed zeta); reflexivity. Qed.

Lemma shape_SU_none iscos w p zeta : isr zeta = false -> prod_nf [trig_leaf iscos w p; LU 1 zeta] = None.
Proof. intros Rz. change (prod_nf [trig_leaf iscos w p; LU 1 zeta]) with
    (match leaf_nf (trig_leaf iscos w p), step_nf 1 zeta with Some a, Some b => nmul K ex neg a b | _, _ => None end).
  rewrite leaf_nf_trig, step_nf_1_none by exact Rz. reflexivity. Qed.
Lemma shape_ESU_none iscos al be w p zeta : isr zeta = false -> prod_nf [LExp al be; trig_leaf iscos w p; LU 1 zeta] = None.
Proof. intros Rz. change (prod_nf [LExp al be; trig_leaf iscos w p; LU 1 zeta]) with
    (match leaf_nf (LExp al be), prod_nf [trig_leaf iscos w p; LU 1 zeta] with Some a, Some b => nmul K ex neg a b | _, _ => None end).
  rewrite shape_SU_none by exact Rz. reflexivity. Qed.
Lemma sc_tau_delayed zeta : sc_tau true zeta = if delayed zeta then step_T zeta else 0.
Proof. unfold sc_tau, delayed, step_T. assert (E : - zeta / 1 = - zeta) by (field; apply one_nz). rewrite E.
  destruct (neg (- zeta) || feqb (- zeta) 0); reflexivity. Qed.
Lemma core0 iscos al be w p s : core_val iscos al be w p 0 s = ex be * rval (s - al) (trig_r iscos w p).
Proof. unfold core_val. rewrite (trig_r_eq iscos w (p + w * 0) p) by ring.
  replace (- (0 * s)) with (0 : K) by ring. replace (al * 0) with (0 : K) by ring. rewrite ex_0. ring. Qed.

Lemma val_S iscos w p s : nf_val s [NReg None (trig_r iscos w p)] = core_val iscos 0 0 w p 0 s.
Proof. rewrite core0, ex_0. cbn [LaplaceSig.nf_val nent_val]. rewrite (rval_eq_s (s - 0) s) by ring. ring. Qed.
Lemma val_ES iscos al be w p s : nf_val s [NReg None (tmul (e_r al be) (trig_r iscos w p))] = core_val iscos al be w p 0 s.
Proof. rewrite core0. cbn [LaplaceSig.nf_val nent_val]. unfold e_r. rewrite rval_tmul_exp. ring. Qed.
Lemma val_SU iscos w p zeta s :
  nf_val s (if delayed zeta then [NReg (Some (step_T zeta)) (tmul (tshift K ex (step_T zeta) (trig_r iscos w p)) one_r)]
            else [NReg None (tmul (trig_r iscos w p) one_r)]) = core_val iscos 0 0 w p (sc_tau true zeta) s.
Proof. rewrite sc_tau_delayed. destruct (delayed zeta).
  - unfold core_val. cbn [LaplaceSig.nf_val nent_val]. rewrite rval_tmul_one, rval_tshift_trig.
    rewrite (rval_eq_s (s - 0) s) by ring. replace (0 * step_T zeta) with (0 : K) by ring. rewrite ex_0. ring.
  - rewrite core0, ex_0. cbn [LaplaceSig.nf_val nent_val]. rewrite rval_tmul_one. rewrite (rval_eq_s (s - 0) s) by ring. ring. Qed.
Lemma val_ESU iscos al be w p zeta s :
  nf_val s (if delayed zeta
        then [NReg (Some (step_T zeta)) (tmul (tshift K ex (step_T zeta) (e_r al be)) (tmul (tshift K ex (step_T zeta) (trig_r iscos w p)) one_r))]
        else [NReg None (tmul (e_r al be) (tmul (trig_r iscos w p) one_r))]) = core_val iscos al be w p (sc_tau true zeta) s.
Proof. rewrite sc_tau_delayed. destruct (delayed zeta).
  - unfold core_val. cbn [LaplaceSig.nf_val nent_val]. rewrite tshift_e, rval_tmul_exp, rval_tmul_one, rval_tshift_trig.
    field. apply one_nz.
  - rewrite core0. cbn [LaplaceSig.nf_val nent_val]. unfold e_r. rewrite rval_tmul_exp, rval_tmul_one. ring. Qed.


(* ---- denotation of a monomial / an expression --------------------------------------------------------- *)
Definition den1 (c : K) (fs : list leaf) : option signal :=
  if existsb is_named fs then
    match den_named fs with Some x => Some (SScale c x) | None => None end
  else match mono_nf (c, fs) with Some N => Some (embed N) | None => None end.
Fixpoint den_list (ms : list mono) : option signal :=
  match ms with
  | [] => Some SZero
  | (c, fs) :: ms' => match den1 c fs, den_list ms' with Some x, Some y => Some (SAdd x y) | _, _ => None end
  end.
(* sinh / cosh are DEFINED by exponentials: a product containing them denotes the expanded sum *)
Definition den_mono (m : mono) : option signal :=
  let fs := remove_heaviside (snd m) in
  if existsb is_hyp fs then
    match den_list (hyp_expand fs) with Some x => Some (SScale (fst m) x) | None => None end
  else if existsb is_poly fs then
    (* a polynomial factor is a sum: the product denotes the distributed sum *)
    match den_list (poly_expand fs) with Some x => Some (SScale (fst m) x) | None => None end
  else den1 (fst m) fs.
Fixpoint den (e : tx) : option signal :=
  match e with
  | [] => Some SZero
  | m :: e' => match den_mono m, den e' with Some x, Some y => Some (SAdd x y) | _, _ => None end
  end.
(* the poles to stay away from: those of the classical normal form; for the convolution with e^{a t} the pole a *)
Definition dom_nf (fs : list leaf) : option nf :=
  match fs with [LConvE a _ _] => Some [NReg None [(1, O, a)]] | _ => prod_nf fs end.
Lemma dom_nf_classical fs : existsb is_named fs = false -> dom_nf fs = prod_nf fs.
Proof. destruct fs as [|l [|l2 fs]]; try reflexivity; destruct l; try reflexivity; discriminate. Qed.
Definition dom1 (fs : list leaf) (s : K) : Prop := s <> 0 /\ forall N, dom_nf fs = Some N -> nf_dom s N.
Fixpoint dom_list (ms : list mono) (s : K) : Prop :=
  match ms with [] => True | (c, fs) :: ms' => dom1 fs s /\ dom_list ms' s end.
Definition dom_mono (m : mono) (s : K) : Prop :=
  let fs := remove_heaviside (snd m) in
  if existsb is_hyp fs then dom_list (hyp_expand fs) s
  else if existsb is_poly fs then dom_list (poly_expand fs) s else dom1 fs s.
Fixpoint dom (e : tx) (s : K) : Prop := match e with [] => True | m :: e' => dom_mono m s /\ dom e' s end.

(* ---- the contracts -------------------------------------------------------------------------------------- *)
Hypothesis HF : forms_ok.
(* sympy.integrate (integrate_0 / integrate_0minus): returns the table value of the exp-poly-impulse normal form *)
Hypothesis orc_ok : forall N X, orc N = Some X -> forall s, nf_dom s N -> X s = nf_val s N.

Lemma classical_sound Ic' c fs N (X : K -> K) : existsb is_named fs = false -> prod_nf fs = Some N ->
  (forall s, dom1 fs s -> X s = c * nf_val s N) ->
  forall x, den1 c fs = Some x -> LPair K ex isr neg Fn Ic' x (dom1 fs) X.
Proof. intros Hn HN HX x Hd. unfold den1 in Hd. rewrite Hn in Hd. unfold mono_nf in Hd. cbn [fst snd] in Hd. rewrite HN in Hd.
  cbn [oscale] in Hd. inversion Hd; subst x.
  apply LPair_of_val.
  - apply (nf_ok_nscale K ex isr neg). exact (prod_nf_ok fs N HN).
  - intros s Hs. split.
    + apply (nf_dom_nscale K ex isr neg). destruct Hs as [_ Hs]. exact (Hs N (eq_trans (dom_nf_classical fs Hn) HN)).
    + rewrite nf_val_nscale. apply HX. exact Hs. Qed.

Lemma early_sound Ic' c fs X x : early c fs = Some X -> den1 c fs = Some x -> LPair K ex isr neg Fn Ic' x (dom1 fs) X.
Proof. destruct HF. unfold early. destruct fs as [|l fs].
  - intros H. inversion H; subst X. apply (classical_sound Ic' c [] [NReg None one_r]); [reflexivity | reflexivity|].
    intros s [Hs _]. rewrite const_ok0 by exact Hs. cbn [LaplaceSig.nf_val nent_val]. rewrite (rval_one s Hs). field. exact Hs.
  - destruct l; try discriminate. destruct fs; [|discriminate]. destruct (feqb b 0) eqn:Eb; [|discriminate].
    apply feqb_eq in Eb. subst b. intros H. inversion H; subst X.
    apply (classical_sound Ic' c [LExp a 0] [NReg None [(ex 0, O, a)]]); [reflexivity | reflexivity|].
    intros s [Hs Hd]. pose proof (Hd _ eq_refl) as [Hp _]. assert (Hn : s - a <> 0) by (apply (Hp (ex 0) O a); left; reflexivity).
    rewrite exp_ok0 by exact Hn. cbn [LaplaceSig.nf_val nent_val rval fpow]. rewrite ex_0. field. exact Hn. Qed.


(* ---- sin_cos is sound when the guard rejects extra factors ------------------------------------------------ *)
Ltac reduce_r H := cbn [trig_r cos_r sin_r tmul flat_map map app tmul1 e_r tshift tshift1 seq one_r Nat.add Nat.sub] in H.
Ltac pole1 Hp := let E := fresh "E" in intro E; eapply Hp; [left; reflexivity | rewrite <- E; ring].
Ltac pole2 Hp := let E := fresh "E" in intro E; eapply Hp; [right; left; reflexivity | rewrite <- E; ring].
Lemma poles_of al w s (r : list rt) :
  (exists c1 c2 q1 q2, r = [(c1, O, q1); (c2, O, q2)] /\ q1 = al + j * w /\ q2 = al - j * w) ->
  rpole_free s r -> s - al - j * w <> 0 /\ s - al + j * w <> 0.
Proof. intros [c1 [c2 [q1 [q2 [-> [E1 E2]]]]]] Hp. split.
  - intro E. apply (Hp c1 O q1); [left; reflexivity|]. rewrite E1, <- E. ring.
  - intro E. apply (Hp c2 O q2); [right; left; reflexivity|]. rewrite E2, <- E. ring. Qed.
Ltac two_poles := cbn [trig_r cos_r sin_r tmul flat_map map app tmul1 e_r tshift tshift1 seq one_r Nat.add Nat.sub];
  do 4 eexists; (split; [reflexivity | split; ring]).
Lemma sincos_sound fs X : sincos_model fs = Some X -> forall N, prod_nf fs = Some N ->
  exists iscos hasu al be w p zeta,
    X = f_sincos F iscos hasu al be w p (if hasu then zeta else 0) /\
    (forall s, nf_dom s N -> (s - al - j * w <> 0 /\ s - al + j * w <> 0) /\
                            nf_val s N = core_val iscos al be w p (sc_tau hasu zeta) s).
Proof. destruct HF. unfold sincos_model.
  assert (Tail : forall iscos (hase : bool) al be w p rest,
     sc_tail iscos al be w p (if hase then 2 else 1)%nat ((if hase then 2 else 1) + length rest)%nat rest = Some X ->
     (rest = [] /\ X = f_sincos F iscos false al be w p 0) \/
     (exists zeta, rest = [LU 1 zeta] /\ X = f_sincos F iscos true al be w p zeta)).
  { intros iscos hase al be w p rest. unfold sc_tail.
    destruct (f_sc_guard F _ _) eqn:G; cbn [negb]; [|discriminate]. apply guard_ok0 in G.
    destruct rest as [|l1 rest].
    - destruct hase; cbn [length Nat.add Nat.eqb]; intros H; inversion H; left; split; reflexivity.
    - destruct rest as [|l2 rest]; [|exfalso; destruct hase; cbn [length] in G; lia].
      destruct hase; cbn [length Nat.add Nat.eqb]; destruct l1; try discriminate;
        (destruct (feqb a 1) eqn:Ea; [|discriminate]); apply feqb_eq in Ea; subst a; intros H; inversion H;
        right; eexists; split; reflexivity. }
  assert (ES : forall iscos a b w p N, prod_nf [LExp a b; trig_leaf iscos w p] = Some N ->
     forall s, nf_dom s N -> (s - a - j * w <> 0 /\ s - a + j * w <> 0) /\ nf_val s N = core_val iscos a b w p (sc_tau false 0) s).
  { intros iscos a b w p N HN. rewrite shape_ES in HN. inversion HN; subst N. intros s [Hp _].
    split; [destruct iscos; refine (poles_of a w s _ _ Hp); two_poles | apply val_ES]. }
  assert (ESU : forall iscos a b w p zeta N, prod_nf [LExp a b; trig_leaf iscos w p; LU 1 zeta] = Some N ->
     forall s, nf_dom s N -> (s - a - j * w <> 0 /\ s - a + j * w <> 0) /\ nf_val s N = core_val iscos a b w p (sc_tau true zeta) s).
  { intros iscos a b w p zeta N HN. destruct (isr zeta) eqn:Rz; [|rewrite shape_ESU_none in HN by exact Rz; discriminate].
    rewrite shape_ESU in HN by exact Rz. inversion HN; subst N. intros s Hd. split; [|apply val_ESU].
    destruct iscos; destruct (delayed zeta); destruct Hd as [Hp _]; (refine (poles_of a w s _ _ Hp); two_poles). }
  assert (S0 : forall iscos w p N, prod_nf [trig_leaf iscos w p] = Some N ->
     forall s, nf_dom s N -> (s - 0 - j * w <> 0 /\ s - 0 + j * w <> 0) /\ nf_val s N = core_val iscos 0 0 w p (sc_tau false 0) s).
  { intros iscos w p N HN. rewrite shape_S in HN. inversion HN; subst N. intros s [Hp _].
    split; [destruct iscos; refine (poles_of 0 w s _ _ Hp); two_poles | apply val_S]. }
  assert (SU : forall iscos w p zeta N, prod_nf [trig_leaf iscos w p; LU 1 zeta] = Some N ->
     forall s, nf_dom s N -> (s - 0 - j * w <> 0 /\ s - 0 + j * w <> 0) /\ nf_val s N = core_val iscos 0 0 w p (sc_tau true zeta) s).
  { intros iscos w p zeta N HN. destruct (isr zeta) eqn:Rz; [|rewrite shape_SU_none in HN by exact Rz; discriminate].
    rewrite shape_SU in HN by exact Rz. inversion HN; subst N. intros s Hd. split; [|apply val_SU].
    destruct iscos; destruct (delayed zeta); destruct Hd as [Hp _]; (refine (poles_of 0 w s _ _ Hp); two_poles). }
  destruct fs as [|l0 fs]; [discriminate|].
  destruct l0; try discriminate.
  - (* exp first *) destruct fs as [|l1 rest]; [discriminate|]. destruct l1; try discriminate.
    + intros H N HN. destruct (Tail false true a b w p rest H) as [[-> ->]|[zeta [-> ->]]].
      * exists false, false, a, b, w, p, 0. split; [reflexivity | exact (ES false a b w p N HN)].
      * exists false, true, a, b, w, p, zeta. split; [reflexivity | exact (ESU false a b w p zeta N HN)].
    + intros H N HN. destruct (Tail true true a b w p rest H) as [[-> ->]|[zeta [-> ->]]].
      * exists true, false, a, b, w, p, 0. split; [reflexivity | exact (ES true a b w p N HN)].
      * exists true, true, a, b, w, p, zeta. split; [reflexivity | exact (ESU true a b w p zeta N HN)].
  - intros H N HN. destruct (Tail false false 0 0 w p fs H) as [[-> ->]|[zeta [-> ->]]].
    + exists false, false, 0, 0, w, p, 0. split; [reflexivity | exact (S0 false w p N HN)].
    + exists false, true, 0, 0, w, p, zeta. split; [reflexivity | exact (SU false w p zeta N HN)].
  - intros H N HN. destruct (Tail true false 0 0 w p fs H) as [[-> ->]|[zeta [-> ->]]].
    + exists true, false, 0, 0, w, p, 0. split; [reflexivity | exact (S0 true w p N HN)].
    + exists true, true, 0, 0, w, p, zeta. split; [reflexivity | exact (SU true w p zeta N HN)].
Qed.

(* ---- named functions ------------------------------------------------------------------------------------- *)
Lemma ic_sum_zero v k s : ic_sum K (Icz true) v k s = 0.
Proof. induction k as [|k IH]; cbn [ic_sum]; [reflexivity|]. rewrite IH. unfold Icz. ring. Qed.
Lemma undef_sig_sound Ic' v a b x : undef_sig v a b = Some x ->
  pos a = true /\ LPair K ex isr neg Fn Ic' x (fun _ => True) (fun s => spec_func v a b s).
Proof. unfold undef_sig. destruct (isr a) eqn:Ra; [|discriminate]. destruct (isr b) eqn:Rb; [|discriminate].
  destruct (pos a) eqn:Ha; [|discriminate]. cbn [andb].
  destruct (neg b || feqb b 0) eqn:Hb; [|discriminate]. intros H. inversion H; subst x. split; [reflexivity|].
  pose proof (pos_nz a Ha) as Hz.
  assert (HT : neg (- b / a) = false).
  { destruct (feqb b 0) eqn:E0.
    - apply feqb_eq in E0. subst b. rewrite (neg_eq (- 0 / a) 0) by (field; exact Hz). exact neg_0.
    - apply feqb_neq in E0. rewrite orb_false_r in Hb.
      rewrite neg_div_pos; [| apply isr_opp; exact Rb | exact Ra | exact Ha | apply opp_nz; exact E0].
      rewrite neg_opp by assumption. rewrite Hb. reflexivity. }
  apply (LPair_eq K ex isr neg Fn Ic' _ _ (fun s => ex (- (- b / a * s)) * (Fn v (s / a) / a))).
  - intros s _. unfold spec_func. rewrite (ex_eq (- (- b / a * s)) (s * b / a)) by (field; exact Hz). field. exact Hz.
  - apply LP_delay; [exact (isr_T a b Ra Rb) | exact HT|].
    apply (LP_tscale K ex isr neg Fn Ic' a (SFn v) (fun _ => True) (Fn v)); [exact Ra | exact Ha | apply LP_fn]. Qed.

Lemma named_sound zic c fs X evs x : existsb is_named fs = true ->
  undef_model zic fs = (Some X, evs) -> den1 c fs = Some x ->
  LPair K ex isr neg Fn (Icz zic) x (dom1 fs) (fun s => c * X s).
Proof. destruct HF. intros Hn Hu Hd. unfold den1 in Hd. rewrite Hn in Hd.
  destruct (den_named fs) as [y|] eqn:Ey; [|discriminate]. inversion Hd; subst x. clear Hd.
  apply (LPair_dom K ex isr neg Fn (Icz zic) _ (fun _ => True)); [intros; exact I|].
  apply LP_scale. unfold undef_model in Hu.
  destruct (sift_shape fs) as [[[[[v a'] b'] a] b]|] eqn:Es.
  { assert (Hden : sift_sig v a' b' a b = Some y).
    { unfold sift_shape in Es. destruct fs as [|l0 [|l1 [|l2 fs]]]; try discriminate; destruct l0; try discriminate;
        destruct l1; try discriminate; try (destruct k; try discriminate); inversion Es; subst; cbn [den_named] in Ey; exact Ey. }
    clear Ey Es. unfold sift_sig in Hden.
    destruct (isr a) eqn:Ra; [|discriminate]. destruct (isr b) eqn:Rb; [|discriminate]. destruct (pos a) eqn:Ha; [|discriminate].
    cbn [andb] in Hden. pose proof (pos_nz a Ha) as Hz. destruct (neg (- b / a)) eqn:Hng.
    - injection Hden as <-. injection Hu as <- _. apply LP_zero.
    - injection Hden as <-. injection Hu as <- _.
      apply (LPair_eq K ex isr neg Fn (Icz zic) _ _ (fun s => Fv v (a' * (- b / a) + b') / a * (ex (- (- b / a * s)) * fpow s 0))).
      + intros s _. rewrite sift_ok0 by exact Ha. unfold spec_sift. cbn [fpow]. field. exact Hz.
      + apply LP_scale. apply LP_delay; [exact (isr_T a b Ra Rb) | exact Hng | apply LP_imp]. }
  destruct (existsb (fun l => match l with LDeriv _ _ => true | _ => false end) fs) eqn:Ed.
  - (* LDeriv *) destruct fs as [|l0 [|l1 fs]]; try discriminate; destruct l0; try discriminate.
    inversion Hu; subst X. cbn [den_named] in Ey. inversion Ey; subst y.
    apply (LPair_eq K ex isr neg Fn (Icz zic) _ _ (fun s => fpow s k * Fn v s - ic_sum K (Icz zic) v k s)); [|apply LPair_derivN].
    intros s _. rewrite deriv_ok0. reflexivity.
  - destruct fs as [|l0 [|l1 [|l2 fs]]]; try discriminate; destruct l0; try discriminate.
    + inversion Hu; subst X. cbn [den_named] in Ey. destruct (undef_sig_sound (Icz zic) v a b y Ey) as [Ha HL].
      apply (LPair_eq K ex isr neg Fn (Icz zic) _ _ (fun s => spec_func v a b s)); [|exact HL].
      intros s _. symmetry. apply func_ok0. exact Ha.
    + destruct l1; try discriminate. cbn [den_named] in Ey.
      destruct (feqb b0 0) eqn:Eb; [|discriminate].
      destruct (undef_sig v a b) as [z|] eqn:Ez; [|discriminate]. inversion Ey; subst y.
      inversion Hu; subst X.
      destruct (undef_sig_sound (Icz zic) v a b z Ez) as [Ha HL].
      apply (LPair_eq K ex isr neg Fn (Icz zic) _ _ (fun s => spec_func v a b (s - a0))).
      * intros s _. symmetry. apply func_ok0. exact Ha.
      * exact (LP_expw K ex isr neg Fn (Icz zic) a0 z (fun _ => True) (fun s => spec_func v a b s) HL).
    + destruct l1; discriminate.
Qed.

Lemma integral_sound zic c fs X evs x : integral_model c fs = (Some X, evs) -> den1 c fs = Some x ->
  LPair K ex isr neg Fn (Icz zic) x (dom1 fs) X.
Proof. destruct HF. unfold integral_model. destruct fs as [|l0 fs]; [discriminate|].
  destruct l0; try discriminate; try destruct expfirst; (destruct fs; [|discriminate]); intros H; inversion H; subst X; clear H;
    unfold den1; cbn [existsb is_named orb den_named]; intros Hd; inversion Hd; subst x; clear Hd.
  - apply (LP_weaken K ex isr neg Fn (Icz zic) _ (fun s => True /\ s <> 0) _ (fun s => c * (Fn v s / s))).
    + intros s [Hs _]. split; [split; [exact I | exact Hs]|].
      rewrite integ_ok0 by exact Hs. rewrite func_ok0 by exact pos_1. unfold spec_func.
      rewrite (ex_eq (s * 0 / 1) 0) by (field; apply one_nz). rewrite ex_0.
      replace (s / 1) with s by (field; apply one_nz). field; nzc.
    + apply LP_scale. apply (LP_integ K ex isr neg Fn (Icz zic) (SFn v) (fun _ => True) (Fn v)). apply LP_fn.
  - apply (LP_weaken K ex isr neg Fn (Icz zic) _ (fun s => True /\ s <> 0) _ (fun s => c * (Fn v s / s))).
    + intros s [Hs _]. split; [split; [exact I | exact Hs]|].
      rewrite integ_ok0 by exact Hs. rewrite func_ok0 by exact pos_1. unfold spec_func.
      rewrite (ex_eq (s * 0 / 1) 0) by (field; apply one_nz). rewrite ex_0.
      replace (s / 1) with s by (field; apply one_nz). field; nzc.
    + apply LP_scale. apply (LP_integ K ex isr neg Fn (Icz zic) (SFn v) (fun _ => True) (Fn v)). apply LP_fn.
  - apply (LP_weaken K ex isr neg Fn (Icz zic) _ (fun s => True /\ True) _ (fun s => c * (Fn v s * Fn h s))).
    + intros s _. split; [tauto|]. rewrite conv_ok0. rewrite !func_ok0 by exact pos_1. unfold spec_func.
      rewrite (ex_eq (s * 0 / 1) 0) by (field; apply one_nz). rewrite ex_0.
      replace (s / 1) with s by (field; apply one_nz). field; nzc.
    + apply LP_scale. apply (LP_conv K ex isr neg Fn (Icz zic) (SFn v) (SFn h) (fun _ => True) (fun _ => True) (Fn v) (Fn h)); apply LP_fn.
  - apply (LP_weaken K ex isr neg Fn (Icz zic) _ (fun s => s - a <> 0 /\ True) _ (fun s => c * (1 / fpow (s - a) 1 * Fn v s))).
    + intros s [_ Hd]. pose proof (Hd _ eq_refl) as [Hp _].
      assert (Hn : s - a <> 0) by (apply (Hp 1 O a); left; reflexivity).
      split; [split; [exact Hn | exact I]|].
      rewrite conv_ok0, exp_ok0 by exact Hn. rewrite func_ok0 by exact pos_1. unfold spec_func.
      rewrite (ex_eq (s * 0 / 1) 0) by (field; apply one_nz). rewrite ex_0.
      replace (s / 1) with s by (field; apply one_nz). cbn [fpow]. field; nzc.
    + apply LP_scale. apply (LP_conv K ex isr neg Fn (Icz zic) (SReg 1 O a) (SFn v) (fun s => s - a <> 0) (fun _ => True)
                               (fun s => 1 / fpow (s - a) 1) (Fn v)); [apply LP_reg | apply LP_fn].
  - apply (LP_weaken K ex isr neg Fn (Icz zic) _ (fun s => s - a <> 0 /\ True) _ (fun s => c * (1 / fpow (s - a) 1 * Fn v s))).
    + intros s [_ Hd]. pose proof (Hd _ eq_refl) as [Hp _].
      assert (Hn : s - a <> 0) by (apply (Hp 1 O a); left; reflexivity).
      split; [split; [exact Hn | exact I]|].
      rewrite conv_ok0, exp_ok0 by exact Hn. rewrite func_ok0 by exact pos_1. unfold spec_func.
      rewrite (ex_eq (s * 0 / 1) 0) by (field; apply one_nz). rewrite ex_0.
      replace (s / 1) with s by (field; apply one_nz). cbn [fpow]. field; nzc.
    + apply LP_scale. apply (LP_conv K ex isr neg Fn (Icz zic) (SReg 1 O a) (SFn v) (fun s => s - a <> 0) (fun _ => True)
                               (fun s => 1 / fpow (s - a) 1) (Fn v)); [apply LP_reg | apply LP_fn].
Qed.

(* ---- function(), the oracle, and the whole of term ----------------------------------------------------------- *)
Lemma function_sound Ic' c l X x : function_model l = Some X -> den1 c [l] = Some x ->
  LPair K ex isr neg Fn Ic' x (dom1 [l]) (fun s => c * X s).
Proof. destruct HF. unfold function_model.
  destruct l; try discriminate; (destruct (feqb b 0) eqn:Eb; [|discriminate]); apply feqb_eq in Eb; subst b;
    intros H; inversion H; subst X; clear H; intros Hd;
    (destruct (isr a) eqn:Ra;
     [| exfalso; unfold den1, mono_nf in Hd; cbn [existsb is_named orb fst snd prod_nf leaf_nf] in Hd;
        unfold step_nf, ramp_nf in Hd; rewrite Ra in Hd; cbn in Hd; discriminate]);
    (destruct (pos a) eqn:Ha;
     [| exfalso; unfold den1, mono_nf in Hd; cbn [existsb is_named orb fst snd prod_nf leaf_nf] in Hd;
        unfold step_nf, ramp_nf in Hd; rewrite Ha in Hd; rewrite ?andb_false_r in Hd; cbn in Hd; discriminate]);
    pose proof (pos_nz a Ha) as Hz.
  - apply (classical_sound Ic' c [LRect a 0] (rect_N a)); [reflexivity | exact (rect_nf a Ra Ha) | | exact Hd].
    intros s [Hs _]. rewrite rect_ok0, rect_val by assumption. reflexivity.
  - apply (classical_sound Ic' c [LTri a 0] (tri_N a)); [reflexivity | exact (tri_nf a Ra Ha) | | exact Hd].
    intros s [Hs _]. rewrite tri_ok0, tri_val by assumption. reflexivity.
  - apply (classical_sound Ic' c [LRamp a 0] (ramp_N a)); [reflexivity | exact (ramp_nf0 a Ra Ha) | | exact Hd].
    intros s [Hs _]. rewrite ramp_ok0, ramp_val by assumption. reflexivity.
  - apply (classical_sound Ic' c [LRstep a 0] (rstep_N a)); [reflexivity | exact (rstep_nf a Ra Ha) | | exact Hd].
    intros s [Hs _]. rewrite rstep_ok0, rstep_val by assumption. reflexivity.
Qed.

Lemma oracle_sound Ic' c fs b X evs x : existsb is_named fs = false ->
  oracle_branch c fs b = (Some X, evs) -> den1 c fs = Some x -> LPair K ex isr neg Fn Ic' x (dom1 fs) X.
Proof. intros Hn. unfold oracle_branch. destruct (prod_nf fs) as [N|] eqn:EN; [|discriminate].
  destruct (orc N) as [X0|] eqn:EO; cbn [vscale]; [|discriminate]. intros H; inversion H; subst X; clear H.
  apply (classical_sound Ic' c fs N); [exact Hn | exact EN|].
  intros s [_ Hd]. rewrite (orc_ok N X0 EO s (Hd N (eq_trans (dom_nf_classical fs Hn) EN))). reflexivity. Qed.

Lemma late_sound zic c fs X evs x : late zic c fs = (Some X, evs) -> den1 c fs = Some x ->
  LPair K ex isr neg Fn (Icz zic) x (dom1 fs) X.
Proof. unfold late. destruct (existsb is_named fs) eqn:Hn.
  - destruct (undef_model zic fs) as [r ev0] eqn:Eu. destruct r as [X0|]; cbn [vscale]; [|discriminate].
    intros H; inversion H; subst X; clear H. exact (named_sound zic c fs X0 ev0 x Hn Eu).
  - destruct fs as [|l fs]; [exact (oracle_sound _ c [] false X evs x Hn)|].
    destruct fs as [|l2 fs]; [|exact (oracle_sound _ c _ false X evs x Hn)].
    destruct (is_function l).
    + destruct (function_model l) as [X0|] eqn:Ef.
      * intros H; inversion H; subst X; clear H. exact (function_sound _ c l X0 x Ef).
      * destruct (oracle_branch c [l] true) as [r ev0] eqn:Eo. intros H; inversion H; subst r; clear H.
        exact (oracle_sound _ c [l] true X ev0 x Hn Eo).
    + exact (oracle_sound _ c [l] false X evs x Hn).
Qed.

(* THE dispatch is sound: whatever branch term1 takes, the value it returns is LPair-related to the meaning *)
Theorem term1_sound zic c fs X evs x : term1 zic c fs = (Some X, evs) -> den1 c fs = Some x ->
  LPair K ex isr neg Fn (Icz zic) x (dom1 fs) X.
Proof. unfold term1. destruct (early c fs) as [X0|] eqn:Ee.
  - intros H; inversion H; subst X; clear H. exact (early_sound _ c fs X0 x Ee).
  - destruct (existsb is_integral fs) eqn:Hi; [exact (integral_sound zic c fs X evs x)|].
    destruct (existsb is_trig fs) eqn:Ht; [|exact (late_sound zic c fs X evs x)].
    destruct (sincos_model fs) as [X0|] eqn:Es.
    + intros H; inversion H; subst X; clear H. intros Hd.
      assert (Hnn : existsb is_named fs = false).
      { destruct (existsb is_named fs) eqn:E; [|reflexivity]. exfalso. unfold den1 in Hd. rewrite E in Hd.
        unfold sincos_model in Es. destruct fs as [|l0 fs]; [discriminate|].
        destruct l0; try discriminate; cbn [den_named] in Hd; try discriminate. }
      destruct (prod_nf fs) as [N|] eqn:HN;
        [| exfalso; unfold den1, mono_nf in Hd; rewrite Hnn in Hd; cbn [fst snd] in Hd; rewrite HN in Hd; discriminate].
      destruct (sincos_sound fs X0 Es N HN) as [iscos [hasu [al [be [w [p [zeta [-> HV]]]]]]]].
      apply (classical_sound _ c fs N); [exact Hnn | exact HN | | exact Hd].
      intros s [_ Hdm]. destruct (HV s (Hdm N (eq_trans (dom_nf_classical fs Hnn) HN))) as [[P1 P2] V]. rewrite V. destruct HF.
      rewrite sincos_ok0 by (rewrite sq_fact; apply mul_nz; assumption).
      rewrite (spec_core iscos hasu al be w p zeta s P1 P2). reflexivity.
    + destruct (late zic c fs) as [r ev0] eqn:El. intros H; inversion H; subst r; clear H.
      exact (late_sound zic c fs X ev0 x El).
Qed.


Lemma vadd_some (r1 r2 : option (K -> K)) X : vadd r1 r2 = Some X ->
  exists X1 X2, r1 = Some X1 /\ r2 = Some X2 /\ X = (fun s => X1 s + X2 s).
Proof. destruct r1 as [f|], r2 as [g|]; cbn; intros H; try discriminate. inversion H. eauto. Qed.
Lemma vscale_some c (r : option (K -> K)) X : vscale c r = Some X -> exists X0, r = Some X0 /\ X = (fun s => c * X0 s).
Proof. destruct r as [f|]; cbn; intros H; [|discriminate]. inversion H. eauto. Qed.

Theorem term_list_sound zic ms : forall X evs x, term_list zic ms = (Some X, evs) -> den_list ms = Some x ->
  LPair K ex isr neg Fn (Icz zic) x (dom_list ms) X.
Proof. induction ms as [|[c fs] ms IH]; intros X evs x; cbn [term_list den_list].
  - intros H Hd. inversion H; subst. inversion Hd; subst. apply LP_zero.
  - destruct (term1 zic c fs) as [r1 e1] eqn:E1. destruct (term_list zic ms) as [r2 e2] eqn:E2.
    intros H Hd. inversion H as [[Hv He]]. apply vadd_some in Hv. destruct Hv as [X1 [X2 [-> [-> ->]]]].
    destruct (den1 c fs) as [x1|] eqn:D1; [|discriminate]. destruct (den_list ms) as [x2|] eqn:D2; [|discriminate].
    inversion Hd; subst x.
    apply (LPair_dom K ex isr neg Fn (Icz zic) _ (fun s => dom1 fs s /\ dom_list ms s)); [intros s Hs; exact Hs|].
    apply LP_add; [exact (term1_sound zic c fs X1 e1 x1 E1 D1) | exact (IH X2 e2 x2 eq_refl eq_refl)]. Qed.

(* term (after remove_heaviside, as called by doit) is sound *)
Theorem term_sound zic m X evs x : term zic (strip m) = (Some X, evs) -> den_mono m = Some x ->
  LPair K ex isr neg Fn (Icz zic) x (dom_mono m) X.
Proof. destruct m as [c fs0]. unfold strip, den_mono, dom_mono, term. cbn [fst snd].
  set (fs := remove_heaviside fs0). destruct (existsb is_hyp fs).
  - destruct (term_list zic (hyp_expand fs)) as [r ev0] eqn:Et. intros H Hd. inversion H as [[Hv He]].
    apply vscale_some in Hv. destruct Hv as [X0 [-> ->]].
    destruct (den_list (hyp_expand fs)) as [y|] eqn:Dy; [|discriminate]. inversion Hd; subst x.
    apply LP_scale. exact (term_list_sound zic _ X0 ev0 y Et Dy).
  - destruct (existsb is_poly fs).
    + destruct (term_list zic (poly_expand fs)) as [r ev0] eqn:Et. intros H Hd. inversion H as [[Hv He]].
      apply vscale_some in Hv. destruct Hv as [X0 [-> ->]].
      destruct (den_list (poly_expand fs)) as [y|] eqn:Dy; [|discriminate]. inversion Hd; subst x.
      apply LP_scale. exact (term_list_sound zic _ X0 ev0 y Et Dy).
    + destruct (term1 zic c fs) as [r ev0] eqn:Et. intros H Hd. inversion H; subst r.
      exact (term1_sound zic c fs X ev0 x Et Hd). Qed.

Theorem doit_terms_sound zic e : forall X evs x, doit_terms zic e = (Some X, evs) -> den e = Some x ->
  LPair K ex isr neg Fn (Icz zic) x (dom e) X.
Proof. induction e as [|m e IH]; intros X evs x; cbn [doit_terms den].
  - intros H Hd. inversion H; subst. inversion Hd; subst. apply LP_zero.
  - destruct (term zic (strip m)) as [r1 e1] eqn:E1. destruct (doit_terms zic e) as [r2 e2] eqn:E2.
    intros H Hd. inversion H as [[Hv He]]. apply vadd_some in Hv. destruct Hv as [X1 [X2 [-> [-> ->]]]].
    destruct (den_mono m) as [x1|] eqn:D1; [|discriminate]. destruct (den e) as [x2|] eqn:D2; [|discriminate].
    inversion Hd; subst x.
    apply (LPair_dom K ex isr neg Fn (Icz zic) _ (fun s => dom_mono m s /\ dom e s)); [intros s Hs; exact Hs|].
    apply LP_add; [exact (term_sound zic m X1 e1 x1 E1 D1) | exact (IH X2 e2 x2 eq_refl eq_refl)]. Qed.

(* doit: factor_const reads the expression as  const · (expr / const) *)
Theorem doit_sound zic e X evs y : doit zic e = (Some X, evs) -> den (divc (top_const e) e) = Some y ->
  LPair K ex isr neg Fn (Icz zic) (SScale (top_const e) y) (dom (divc (top_const e) e)) X.
Proof. unfold doit. destruct (doit_terms zic (divc (top_const e) e)) as [r ev0] eqn:Ed. intros H Hy.
  inversion H as [[Hv He]]. apply vscale_some in Hv. destruct Hv as [X0 [-> ->]].
  apply LP_scale. exact (doit_terms_sound zic _ X0 ev0 y Ed Hy). Qed.

(* ---- linearity of the model ---------------------------------------------------------------------------------- *)
Theorem L_linear_add zic e1 e2 X1 X2 : fst (doit_terms zic e1) = Some X1 -> fst (doit_terms zic e2) = Some X2 ->
  exists X, fst (doit_terms zic (e1 ++ e2)) = Some X /\ forall s, X s = X1 s + X2 s.
Proof. revert X1. induction e1 as [|m e1 IH]; intros X1; cbn [app doit_terms fst].
  - intros H. inversion H; subst X1. intros H2. exists X2. split; [exact H2 | intros; ring].
  - destruct (term zic (strip m)) as [r1 ev1]. destruct (doit_terms zic e1) as [r2 ev2]. cbn [fst] in *.
    intros Hv H2. apply vadd_some in Hv. destruct Hv as [Y1 [Y2 [-> [-> ->]]]].
    destruct (IH Y2 eq_refl H2) as [Z [HZ HZs]]. destruct (doit_terms zic (e1 ++ e2)) as [r3 ev3]. cbn [fst] in *. subst r3.
    eexists. split; [reflexivity|]. intros s. cbn beta. rewrite HZs. ring. Qed.

Lemma late_scale zic k c fs X evs : late zic c fs = (Some X, evs) ->
  exists X', late zic (k * c) fs = (Some X', evs) /\ forall s, X' s = k * X s.
Proof. unfold late. destruct (existsb is_named fs).
  - destruct (undef_model zic fs) as [[X0|] ev0]; cbn [vscale]; intros H; inversion H; subst.
    eexists; split; [cbn [vscale]; reflexivity | intros; cbn beta; ring].
  - assert (Orc : forall b X evs, oracle_branch c fs b = (Some X, evs) ->
              exists X', oracle_branch (k * c) fs b = (Some X', evs) /\ forall s, X' s = k * X s).
    { intros b X0 ev0. unfold oracle_branch. destruct (prod_nf fs) as [N|]; [|discriminate].
      destruct (orc N) as [f|]; cbn [vscale]; intros H; inversion H; subst.
      eexists; split; [cbn [vscale]; reflexivity | intros; cbn beta; ring]. }
    destruct fs as [|l [|l2 fs]]; try exact (Orc false X evs).
    destruct (is_function l); [|exact (Orc false X evs)].
    destruct (function_model l) as [X0|].
    + intros H; inversion H; subst. eexists; split; [cbn [vscale]; reflexivity | intros; cbn beta; ring].
    + destruct (oracle_branch c [l] true) as [r ev0] eqn:Eo. intros H; inversion H; subst r evs.
      destruct (Orc true X ev0 Eo) as [X' [E' HX']]. rewrite E'. eexists; split; [reflexivity | exact HX']. Qed.
Theorem term1_scale zic k c fs X evs : term1 zic c fs = (Some X, evs) ->
  exists X', term1 zic (k * c) fs = (Some X', evs) /\
    forall s, s <> 0 -> (forall a b, fs = [LExp a b] -> s - a <> 0) -> X' s = k * X s.
Proof. destruct HF. unfold term1.
  destruct (early c fs) as [X0|] eqn:Ee.
  - intros H; inversion H; subst X0 evs. unfold early in *. destruct fs as [|l fs].
    + inversion Ee; subst X. eexists; split; [reflexivity|]. intros s Hs _. rewrite !const_ok0 by exact Hs. field. exact Hs.
    + destruct l; try discriminate. destruct fs; [|discriminate]. destruct (feqb b 0); [|discriminate]. inversion Ee; subst X.
      eexists; split; [reflexivity|]. intros s Hs Ha. pose proof (Ha a b eq_refl) as Hn. rewrite !exp_ok0 by exact Hn. field. exact Hn.
  - assert (Ee' : early (k * c) fs = None).
    { unfold early in *. destruct fs as [|l fs]; [discriminate|]. destruct l; try reflexivity. destruct fs; [|reflexivity].
      destruct (feqb b 0); [discriminate | reflexivity]. }
    rewrite Ee'. destruct (existsb is_integral fs).
    + unfold integral_model. destruct fs as [|l [|l2 fs]]; try discriminate; destruct l; try discriminate; try destruct expfirst;
        intros H; inversion H; subst; (eexists; split; [cbn [vscale]; reflexivity | intros; cbn beta; ring]).
    + destruct (existsb is_trig fs).
      * destruct (sincos_model fs) as [X0|].
        -- intros H; inversion H; subst. eexists; split; [cbn [vscale]; reflexivity | intros; cbn beta; ring].
        -- destruct (late zic c fs) as [r ev0] eqn:El. intros H; inversion H; subst r evs.
           destruct (late_scale zic k c fs X ev0 El) as [X' [E' HX']]. rewrite E'. eexists; split; [reflexivity | intros; apply HX'].
      * intros El. destruct (late_scale zic k c fs X evs El) as [X' [E' HX']]. eexists; split; [exact E' | intros; apply HX']. Qed.

(* the initial-condition sum as written in derivative_undef (a loop over range(order)) *)
Lemma sum_range_ext n (f g : nat -> K) : (forall m, (m < n)%nat -> f m = g m) -> sum_range n f = sum_range n g.
Proof. induction n as [|n IH]; intros H; cbn [sum_range]; [reflexivity|]. rewrite IH by (intros; apply H; lia). rewrite H by lia. reflexivity. Qed.
Lemma sum_range_scale n c (g : nat -> K) : sum_range n (fun m => c * g m) = c * sum_range n g.
Proof. induction n as [|n IH]; cbn [sum_range]; [ring | rewrite IH; ring]. Qed.
Lemma sum_range_ic (I : nat -> nat -> K) v n s :
  sum_range n (fun m => fpow s (n - m - 1) * I v m) = ic_sum K I v n s.
Proof. induction n as [|n IH]; cbn [sum_range ic_sum]; [reflexivity|]. rewrite <- IH.
  replace (S n - n - 1)%nat with O by lia. cbn [fpow].
  rewrite (sum_range_ext n _ (fun m => s * (fpow s (n - m - 1) * I v m))).
  - rewrite sum_range_scale. ring.
  - intros m Hm. replace (S n - m - 1)%nat with (S (n - m - 1)) by lia. cbn [fpow]. ring. Qed.

(* ---- the result cache (Transformer.cache keyed by (expr, t, s, zero_initial_conditions)) ------------------------ *)
Definition ckey := (tx * bool)%type.
Variable key_eqb : ckey -> ckey -> bool.
Hypothesis key_eqb_eq : forall a b, key_eqb a b = true -> a = b.
Definition cache := list (ckey * option (K -> K)).
Fixpoint lookup (k : ckey) (c : cache) : option (option (K -> K)) :=
  match c with [] => None | (k', v) :: c' => if key_eqb k k' then Some v else lookup k c' end.
Definition doit_c (c : cache) (zic : bool) (e : tx) : option (K -> K) * cache :=
  let k := top_const e in
  let e' := divc k e in
  match lookup (e', zic) c with
  | Some v => (vscale k v, c)
  | None => let v := fst (doit_terms zic e') in (vscale k v, match v with Some _ => ((e', zic), v) :: c | None => c end)
  end.
Definition cache_ok (c : cache) : Prop := forall k v, In (k, v) c -> v = fst (doit_terms (snd k) (fst k)).
Lemma lookup_ok c k v : cache_ok c -> lookup k c = Some v -> v = fst (doit_terms (snd k) (fst k)).
Proof. induction c as [|[k' v'] c IH]; cbn [lookup]; intros Hc H; [discriminate|].
  destruct (key_eqb k k') eqn:E.
  - apply key_eqb_eq in E. subst k'. inversion H; subst v'. apply Hc. left. reflexivity.
  - apply IH; [|exact H]. intros k0 v0 Hin. apply Hc. right. exact Hin. Qed.
Theorem cache_transparent c zic e : cache_ok c ->
  fst (doit_c c zic e) = fst (doit zic e) /\ cache_ok (snd (doit_c c zic e)).
Proof. intros Hc. unfold doit_c, doit. cbv zeta.
  destruct (lookup (divc (top_const e) e, zic) c) as [v|] eqn:El.
  - pose proof (lookup_ok c _ v Hc El) as Hv. cbn [fst snd] in Hv. subst v.
    destruct (doit_terms zic (divc (top_const e) e)) as [r ev0]. cbn [fst snd]. split; [reflexivity | exact Hc].
  - destruct (doit_terms zic (divc (top_const e) e)) as [r ev0] eqn:Ed. cbn [fst snd]. split; [reflexivity|].
    destruct r as [f|]; [|exact Hc]. intros k0 v0 [Hin|Hin]; [|exact (Hc k0 v0 Hin)].
    inversion Hin; subst k0 v0. cbn [fst snd]. rewrite Ed. reflexivity. Qed.
(* any history of transforms: every returned value is the uncached one *)
Fixpoint run_c (c : cache) (qs : list (bool * tx)) : list (option (K -> K)) :=
  match qs with [] => [] | (zic, e) :: qs' => let (v, c') := doit_c c zic e in v :: run_c c' qs' end.
Theorem cache_transparent_history qs : forall c, cache_ok c -> run_c c qs = map (fun q => fst (doit (fst q) (snd q))) qs.
Proof. induction qs as [|[zic e] qs IH]; intros c Hc; cbn [run_c map fst snd]; [reflexivity|].
  destruct (cache_transparent c zic e Hc) as [H1 H2]. destruct (doit_c c zic e) as [v c']. cbn [fst snd] in *.
  rewrite H1, (IH c' H2). reflexivity. Qed.

End LModel.

Arguments LPowT {K}. Arguments LExp {K}. Arguments LSin {K}. Arguments LCos {K}. Arguments LSinh {K}. Arguments LCosh {K}.
Arguments LU {K}. Arguments LDelta {K}. Arguments LRect {K}. Arguments LTri {K}. Arguments LRamp {K}. Arguments LRstep {K}.
Arguments LUndef {K}. Arguments LDeriv {K}. Arguments LInteg {K}. Arguments LIntegA {K}. Arguments LConv {K}. Arguments LConvE {K}. Arguments LPoly {K}.
