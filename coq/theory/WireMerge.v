(* C01: wires.  Lcapy does not stamp a wire: it merges the nodes a wire joins
   (EquipotentialNodes.add_wire, node_map, node_list) and runs the modified
   nodal analysis on the merged nodes.  This file models the merging as the
   sequential contraction [merge] (one wire at a time, like add_wire) and
   proves, for an arbitrary vector of per-node current demands d (the currents
   the components draw from the raw nodes):

     the demands of every merged class sum to zero
       <->  there are wire currents that balance every raw node

   (existence of a flow on the wire graph: [flow_exists]; the converse is
   [merged_balance]), and that the potentials are constant on the classes
   ([potentials_merge]).  Everything is stated for ANY index map rho' with the
   same kernel as [merge] ([kern_ok], a decidable check that is run on the
   node indices Lcapy actually used), over any field; axiom-free. *)
Require Import LT.FieldSec LT.Circuit.
Local Open Scope Z_scope.
Local Open Scope bool_scope.

Section WireMerge.
Variable K : fld.
Add Field KFw : (fth K).
Implicit Types (NL : list Z) (d : Z -> K) (rho : Z -> Z) (W : list (Z * Z)).

(* ---- finite sums over the raw node list --------------------------------- *)
Fixpoint msum (f : Z -> K) (l : list Z) : K :=
  match l with [] => f0 | x :: l' => fadd (f x) (msum f l') end.
Lemma msum_ext f g l : (forall x, In x l -> f x = g x) -> msum f l = msum g l.
Proof. induction l as [|x l IH]; intros H; cbn [msum]; [reflexivity|].
  rewrite (H x (or_introl eq_refl)), IH; [reflexivity | intros y Hy; apply H; right; exact Hy]. Qed.
Lemma msum_add f g l : msum (fun x => fadd (f x) (g x)) l = fadd (msum f l) (msum g l).
Proof. induction l as [|x l IH]; cbn [msum]; [ring | rewrite IH; ring]. Qed.
Lemma msum_zero f l : (forall x, In x l -> f x = f0) -> msum f l = f0.
Proof. induction l as [|x l IH]; intros H; cbn [msum]; [reflexivity|].
  rewrite (H x (or_introl eq_refl)), IH; [ring | intros y Hy; apply H; right; exact Hy]. Qed.
Lemma msum_single_out (a : Z) (c : K) l : ~ In a l -> msum (fun x => if Z.eqb x a then c else f0) l = f0.
Proof. intros H. apply msum_zero. intros x Hx. destruct (Z.eqb_spec x a); [subst; contradiction | reflexivity]. Qed.
Lemma msum_single (a : Z) (c : K) l : NoDup l -> In a l -> msum (fun x => if Z.eqb x a then c else f0) l = c.
Proof.
  induction l as [|x l IH]; intros ND Hin; [contradiction|]. inversion ND as [|? ? Hx ND']; subst.
  cbn [msum]. destruct (Z.eqb_spec x a) as [E|E].
  - subst. rewrite msum_single_out by exact Hx. ring.
  - destruct Hin as [|Hin]; [contradiction|]. rewrite (IH ND' Hin). ring.
Qed.

(* total of d over the raw nodes that rho sends to r *)
Definition csum NL rho d (r : Z) : K := msum (fun x => if Z.eqb (rho x) r then d x else f0) NL.
Lemma csum_add NL rho d1 d2 r : csum NL rho (fun x => fadd (d1 x) (d2 x)) r = fadd (csum NL rho d1 r) (csum NL rho d2 r).
Proof. unfold csum. rewrite <- msum_add. apply msum_ext. intros x _. destruct (Z.eqb (rho x) r); ring. Qed.
Lemma csum_ext NL rho d1 d2 r : (forall x, In x NL -> d1 x = d2 x) -> csum NL rho d1 r = csum NL rho d2 r.
Proof. intros H. apply msum_ext. intros x Hx. rewrite (H x Hx). reflexivity. Qed.
Lemma csum_zero NL rho d r : (forall x, In x NL -> d x = f0) -> csum NL rho d r = f0.
Proof. intros H. apply msum_zero. intros x Hx. rewrite (H x Hx). destruct (Z.eqb (rho x) r); reflexivity. Qed.
Lemma csum_opp NL rho d r : csum NL rho (fun x => fopp (d x)) r = fopp (csum NL rho d r).
Proof. unfold csum. induction NL as [|x l IH]; cbn [msum]; [ring|]. rewrite IH. destruct (Z.eqb (rho x) r); ring. Qed.
Lemma csum_id NL d r : NoDup NL -> In r NL -> csum NL (fun x => x) d r = d r.
Proof. intros ND Hin. unfold csum. rewrite (msum_ext _ (fun x => if Z.eqb x r then d r else f0)).
  - apply msum_single; assumption.
  - intros x _. destruct (Z.eqb_spec x r); [subst; reflexivity | reflexivity]. Qed.

(* a raw node id is a member of NL (non-negative) or the reference node -1 *)
Definition node_ok NL (a : Z) : Prop := In a NL \/ a = -1.
Definition nonneg NL : Prop := forall x, In x NL -> 0 <= x.

Lemma csum_ind NL rho (a : Z) (i : K) r :
  NoDup NL -> nonneg NL -> (In a NL \/ (a < 0 /\ rho a < 0)) -> 0 <= r ->
  csum NL rho (fun x => fmul (ind a x) i) r = fmul (ind (rho a) r) i.
Proof.
  intros ND NN Ha Hr. unfold csum. destruct Ha as [Ha | [Ha Hra]].
  - rewrite (msum_ext _ (fun x => if Z.eqb x a then fmul (ind (rho a) r) i else f0)).
    + apply msum_single; assumption.
    + intros x _. unfold ind. destruct (Z.eqb_spec x a) as [E|E].
      * subst. rewrite Z.eqb_refl. destruct (Z.eqb (rho a) r); ring.
      * destruct (Z.eqb_spec a x); [congruence|]. destruct (Z.eqb (rho x) r); ring.
  - rewrite msum_zero.
    + unfold ind. destruct (Z.eqb_spec (rho a) r); [lia | ring].
    + intros x Hx. specialize (NN x Hx). unfold ind. destruct (Z.eqb_spec a x); [lia|].
      destruct (Z.eqb (rho x) r); ring.
Qed.
Lemma csum_thru NL rho (a b : Z) (i : K) r :
  NoDup NL -> nonneg NL -> (In a NL \/ (a < 0 /\ rho a < 0)) -> (In b NL \/ (b < 0 /\ rho b < 0)) -> 0 <= r ->
  csum NL rho (fun x => thru a b x i) r = thru (rho a) (rho b) r i.
Proof.
  intros ND NN Ha Hb Hr. unfold thru.
  rewrite (csum_ext _ _ _ (fun x => fadd (fmul (ind a x) i) (fmul (ind b x) (fopp i)))) by (intros; ring).
  rewrite csum_add, !csum_ind by assumption. ring.
Qed.

(* ---- wires: currents and the sequential contraction ---------------------- *)
(* current drawn from raw node x by the wires W carrying the currents iw *)
Fixpoint wsum W (iw : list K) (x : Z) : K :=
  match W, iw with
  | (a, b) :: W', i :: iw' => fadd (thru a b x i) (wsum W' iw' x)
  | _, _ => f0
  end.
(* eliminate node e in favour of node k *)
Definition sub1 (k e x : Z) : Z := if Z.eqb x e then k else x.
(* (kept, eliminated) for a wire between the (already relabelled) nodes a, b *)
Definition norm_wire (a b : Z) : option (Z * Z) :=
  if Z.eqb a b then None else if 0 <=? b then Some (a, b) else Some (b, a).
Fixpoint mergeA rho W : Z -> Z :=
  match W with
  | [] => rho
  | (a, b) :: W' => match norm_wire (rho a) (rho b) with
                    | None => mergeA rho W'
                    | Some (k, e) => mergeA (fun x => sub1 k e (rho x)) W'
                    end
  end.
Definition merge W : Z -> Z := mergeA (fun x => x) W.

Lemma norm_wire_spec a b k e : norm_wire a b = Some (k, e) ->
  k <> e /\ ((k = a /\ e = b) \/ (k = b /\ e = a)) /\ (e < 0 -> k < 0).
Proof.
  unfold norm_wire. destruct (Z.eqb_spec a b) as [|N]; [discriminate|].
  destruct (Z.leb_spec 0 b); intros E; inversion E; subst; repeat split; auto; try lia.
Qed.
Lemma norm_wire_none a b : norm_wire a b = None -> a = b.
Proof. unfold norm_wire. destruct (Z.eqb_spec a b); [auto|]. destruct (0 <=? b); discriminate. Qed.

Definition negneg rho : Prop := forall x, x < 0 -> rho x < 0.
Lemma negneg_sub1 rho k e : negneg rho -> (e < 0 -> k < 0) -> negneg (fun x => sub1 k e (rho x)).
Proof. intros H He x Hx. specialize (H x Hx). unfold sub1. destruct (Z.eqb_spec (rho x) e); [subst; auto | exact H]. Qed.
Lemma mergeA_negneg W : forall rho, negneg rho -> negneg (mergeA rho W).
Proof.
  induction W as [|[a b] W IH]; intros rho H; cbn [mergeA]; [exact H|].
  destruct (norm_wire (rho a) (rho b)) as [[k e]|] eqn:E; [|apply IH; exact H].
  apply IH. apply negneg_sub1; [exact H|]. apply (norm_wire_spec _ _ _ _ E).
Qed.
Lemma merge_negneg W : negneg (merge W).
Proof. apply mergeA_negneg. intros x Hx. exact Hx. Qed.

Lemma sub1_pair k e x y : k <> e -> ((k = x /\ e = y) \/ (k = y /\ e = x)) -> sub1 k e x = sub1 k e y.
Proof. intros Hne Hor. unfold sub1. destruct (Z.eqb_spec x e); destruct (Z.eqb_spec y e); destruct Hor as [[? ?]|[? ?]]; congruence. Qed.
(* mergeA factors through the relabelling it starts from *)
Lemma mergeA_factor W : forall rho, exists g, forall x, mergeA rho W x = g (rho x).
Proof.
  induction W as [|[a b] W IH]; intros rho; cbn [mergeA]; [exists (fun y => y); reflexivity|].
  destruct (norm_wire (rho a) (rho b)) as [[k e]|]; [|apply IH].
  destruct (IH (fun x => sub1 k e (rho x))) as [g Hg]. exists (fun y => g (sub1 k e y)). exact Hg.
Qed.
(* the two ends of every wire end up in one class *)
Lemma mergeA_respects W : forall rho a b, In (a, b) W -> mergeA rho W a = mergeA rho W b.
Proof.
  induction W as [|[a0 b0] W IH]; intros rho a b Hin; [contradiction|]. cbn [mergeA].
  destruct Hin as [E|Hin].
  - inversion E; subst a0 b0. destruct (norm_wire (rho a) (rho b)) as [[k e]|] eqn:En.
    + destruct (mergeA_factor W (fun x => sub1 k e (rho x))) as [g Hg]. rewrite !Hg. f_equal.
      destruct (norm_wire_spec _ _ _ _ En) as [Hne [Hor _]]. apply sub1_pair; assumption.
    + destruct (mergeA_factor W rho) as [g Hg]. rewrite !Hg. f_equal. apply norm_wire_none. exact En.
  - destruct (norm_wire (rho a0) (rho b0)) as [[k e]|]; apply IH; exact Hin.
Qed.
Lemma merge_respects W a b : In (a, b) W -> merge W a = merge W b.
Proof. apply mergeA_respects. Qed.

(* potentials: if every wire joins two nodes of equal potential, the potential
   is constant on the classes (the class representative is a raw node) *)
Lemma mergeA_potentials (v : Z -> K) W : forall rho,
  (forall x, vv v x = vv v (rho x)) ->
  Forall (fun w => vv v (fst w) = vv v (snd w)) W ->
  forall x, vv v x = vv v (mergeA rho W x).
Proof.
  induction W as [|[a b] W IH]; intros rho Hinv HW x; cbn [mergeA]; [apply Hinv|].
  inversion HW as [|? ? Hab HW']; subst. cbn [fst snd] in Hab.
  destruct (norm_wire (rho a) (rho b)) as [[k e]|] eqn:En; [|apply IH; assumption].
  apply IH; [|exact HW']. intros y. rewrite (Hinv y). unfold sub1.
  destruct (Z.eqb_spec (rho y) e) as [E|]; [|reflexivity]. rewrite E.
  destruct (norm_wire_spec _ _ _ _ En) as [_ [[[Hk He]|[Hk He]] _]]; subst k e;
    rewrite <- !Hinv; congruence.
Qed.
Lemma potentials_merge (v : Z -> K) W :
  Forall (fun w => vv v (fst w) = vv v (snd w)) W -> forall x, vv v x = vv v (merge W x).
Proof. intros H. apply mergeA_potentials; [reflexivity | exact H]. Qed.

(* how the class totals change when e is merged into k *)
Lemma csum_sub1 NL rho d (k e r : Z) : k <> e ->
  csum NL (fun x => sub1 k e (rho x)) d r =
  if Z.eqb r e then f0 else if Z.eqb r k then fadd (csum NL rho d k) (csum NL rho d e) else csum NL rho d r.
Proof.
  intros Hne. unfold csum. induction NL as [|x l IH]; cbn [msum].
  - destruct (Z.eqb r e); [reflexivity|]. destruct (Z.eqb r k); [ring | reflexivity].
  - rewrite IH. unfold sub1.
    destruct (Z.eqb_spec r e) as [Ee|Ee]; destruct (Z.eqb_spec r k) as [Ek|Ek];
    destruct (Z.eqb_spec (rho x) e) as [E1|E1];
    try (exfalso; congruence); try subst r; try rewrite E1;
    repeat match goal with |- context [Z.eqb ?a ?b] => destruct (Z.eqb_spec a b) end;
    try (exfalso; congruence); ring.
Qed.

Definition wires_ok NL W : Prop := Forall (fun w => node_ok NL (fst w) /\ node_ok NL (snd w)) W.
Lemma node_ok_thru NL rho a : rho (-1) < 0 -> node_ok NL a -> In a NL \/ (a < 0 /\ rho a < 0).
Proof. intros H [Ha|Ha]; [left; exact Ha | right; subst; split; [lia | exact H]]. Qed.

(* existence of the wire currents, in accumulated form: once the classes of
   rho are already contracted, the remaining wires W balance every class *)
Lemma flow_acc NL W : NoDup NL -> nonneg NL -> wires_ok NL W ->
  forall rho d, negneg rho ->
  (forall r, 0 <= r -> csum NL (mergeA rho W) d r = f0) ->
  exists iw, length iw = length W /\
    forall r, 0 <= r -> csum NL rho (fun x => fadd (d x) (wsum W iw x)) r = f0.
Proof.
  intros ND NN. induction W as [|[a b] W IH]; intros WO rho d Hneg H.
  - exists []. split; [reflexivity|]. intros r Hr. cbn [wsum mergeA] in *.
    rewrite (csum_ext _ _ _ d) by (intros; ring). apply H; exact Hr.
  - inversion WO as [|? ? [Oa Ob] WO']; subst. cbn [fst snd] in Oa, Ob. cbn [mergeA] in H.
    assert (Hm1 : rho (-1) < 0) by (apply Hneg; lia).
    assert (Ta := node_ok_thru NL rho a Hm1 Oa). assert (Tb := node_ok_thru NL rho b Hm1 Ob).
    destruct (norm_wire (rho a) (rho b)) as [[k e]|] eqn:En.
    + destruct (norm_wire_spec _ _ _ _ En) as [Hne [Hor Hek]].
      destruct (IH WO' (fun x => sub1 k e (rho x)) d (negneg_sub1 rho k e Hneg Hek) H) as [iw [Hl Hb]].
      set (D := fun x => fadd (d x) (wsum W iw x)) in *.
      (* orientation: the wire draws i at a and returns it at b *)
      set (sg := if Z.eqb (rho a) k then f1 else fopp f1 : K).
      exists (fmul sg (csum NL rho D e) :: iw). split; [cbn [length]; rewrite Hl; reflexivity|].
      intros r Hr. cbn [wsum].
      rewrite (csum_ext _ _ _ (fun x => fadd (D x) (thru a b x (fmul sg (csum NL rho D e))))) by (intros; unfold D; ring).
      rewrite csum_add, csum_thru by assumption.
      specialize (Hb r Hr). rewrite (csum_sub1 NL rho D k e r Hne) in Hb.
      assert (Th : thru (rho a) (rho b) r (fmul sg (csum NL rho D e)) = fmul (fsub (ind k r) (ind e r)) (csum NL rho D e)).
      { unfold thru, sg. destruct Hor as [[Hk He]|[Hk He]]; subst k e.
        - rewrite Z.eqb_refl. ring.
        - destruct (Z.eqb_spec (rho a) (rho b)); [congruence | ring]. }
      rewrite Th. unfold ind.
      destruct (Z.eqb_spec r e) as [Ee|Ee].
      * subst r. rewrite Z.eqb_refl. destruct (Z.eqb_spec k e); [congruence | ring].
      * destruct (Z.eqb_spec e r); [congruence|]. destruct (Z.eqb_spec r k) as [Ek|Ek].
        -- subst r. rewrite Z.eqb_refl. etransitivity; [|exact Hb]. ring.
        -- destruct (Z.eqb_spec k r); [congruence|]. rewrite Hb. ring.
    + destruct (IH WO' rho d Hneg H) as [iw [Hl Hb]].
      exists (f0 :: iw). split; [cbn [length]; rewrite Hl; reflexivity|].
      intros r Hr. cbn [wsum]. etransitivity; [|exact (Hb r Hr)]. apply csum_ext. intros x _. unfold thru. ring.
Qed.

Theorem flow_exists NL W d : NoDup NL -> nonneg NL -> wires_ok NL W ->
  (forall r, 0 <= r -> csum NL (merge W) d r = f0) ->
  exists iw, length iw = length W /\ forall x, In x NL -> fadd (d x) (wsum W iw x) = f0.
Proof.
  intros ND NN WO H.
  destruct (flow_acc NL W ND NN WO (fun x => x) d (fun x Hx => Hx) H) as [iw [Hl Hb]].
  exists iw. split; [exact Hl|]. intros x Hx. rewrite <- (csum_id NL (fun y => fadd (d y) (wsum W iw y)) x ND Hx). apply Hb. apply NN; exact Hx.
Qed.

(* the wires return what they draw: they contribute nothing to a class total *)
Lemma csum_wsum NL rho W : NoDup NL -> nonneg NL -> rho (-1) < 0 -> wires_ok NL W ->
  (forall a b, In (a, b) W -> rho a = rho b \/ (rho a < 0 /\ rho b < 0)) ->
  forall iw r, 0 <= r -> csum NL rho (wsum W iw) r = f0.
Proof.
  intros ND NN Hneg. induction W as [|[a b] W IH]; intros WO Hr iw r Hr0.
  - apply csum_zero. intros; destruct iw; reflexivity.
  - inversion WO as [|? ? [Oa Ob] WO']; subst. cbn [fst snd] in Oa, Ob. destruct iw as [|i iw].
    + apply csum_zero. reflexivity.
    + cbn [wsum]. rewrite csum_add, csum_thru; try assumption; try (apply node_ok_thru; assumption).
      rewrite IH; [|exact WO' | intros a' b' Hin; apply Hr; right; exact Hin | exact Hr0].
      destruct (Hr a b (or_introl eq_refl)) as [E|[Na Nb]].
      * rewrite E. unfold thru. ring.
      * unfold thru, ind. destruct (Z.eqb_spec (rho a) r); [lia|]. destruct (Z.eqb_spec (rho b) r); [lia|]. ring.
Qed.

(* ---- any index map with the same kernel as [merge] ---------------------- *)
Definition geq (a b : Z) : bool := Z.eqb a b || ((a <? 0) && (b <? 0)).
Definition kern_okb NL W (rho' : Z -> Z) : bool :=
  let NLg := (-1) :: NL in
  forallb (fun x => Bool.eqb (merge W x <? 0) (rho' x <? 0) &&
                    forallb (fun y => Bool.eqb (geq (merge W x) (merge W y)) (geq (rho' x) (rho' y))) NLg) NLg.
Definition kern_ok NL W (rho' : Z -> Z) : Prop :=
  forall x, node_ok NL x ->
    (merge W x < 0 <-> rho' x < 0) /\
    forall y, node_ok NL y -> geq (merge W x) (merge W y) = geq (rho' x) (rho' y).
Lemma node_ok_in NL x : node_ok NL x <-> In x ((-1) :: NL).
Proof. unfold node_ok. cbn [In]. split; intros [H|H]; auto. Qed.
Lemma kern_okb_ok NL W rho' : kern_okb NL W rho' = true -> kern_ok NL W rho'.
Proof.
  unfold kern_okb. intros H x Hx. rewrite forallb_forall in H. specialize (H x (proj1 (node_ok_in NL x) Hx)).
  apply andb_true_iff in H. destruct H as [H1 H2]. split.
  - apply Bool.eqb_prop in H1. rewrite <- !Z.ltb_lt. rewrite H1. reflexivity.
  - intros y Hy. rewrite forallb_forall in H2. specialize (H2 y (proj1 (node_ok_in NL y) Hy)).
    apply Bool.eqb_prop in H2. exact H2.
Qed.
Lemma geq_spec a b : geq a b = true <-> a = b \/ (a < 0 /\ b < 0).
Proof. unfold geq. rewrite orb_true_iff, andb_true_iff, Z.eqb_eq, !Z.ltb_lt. reflexivity. Qed.
Lemma kern_negneg NL W rho' : kern_ok NL W rho' -> rho' (-1) < 0.
Proof. intros H. apply (H (-1) (or_intror eq_refl)). apply merge_negneg. lia. Qed.

(* class totals under rho' vanish -> class totals under merge vanish *)
Lemma csum_kern NL W rho' d : nonneg NL -> kern_ok NL W rho' ->
  (forall r, 0 <= r -> csum NL rho' d r = f0) -> forall r, 0 <= r -> csum NL (merge W) d r = f0.
Proof.
  intros NN HK H r Hr.
  destruct (find (fun x => Z.eqb (merge W x) r) NL) as [x0|] eqn:F.
  - apply find_some in F. destruct F as [H0 E0]. apply Z.eqb_eq in E0.
    assert (O0 : node_ok NL x0) by (left; exact H0).
    destruct (HK x0 O0) as [S0 G0].
    assert (P0 : 0 <= rho' x0) by (destruct (Z.lt_ge_cases (rho' x0) 0) as [L|L]; [apply S0 in L; lia | exact L]).
    rewrite <- (H (rho' x0) P0). apply msum_ext. intros x Hx.
    assert (G := G0 x (or_introl Hx)).
    destruct (Z.eqb_spec (merge W x) r) as [E|E]; destruct (Z.eqb_spec (rho' x) (rho' x0)) as [E'|E']; try reflexivity.
    + exfalso. assert (T : geq (merge W x0) (merge W x) = true) by (apply geq_spec; left; congruence).
      rewrite G in T. apply geq_spec in T. destruct T as [T|[T _]]; [congruence | lia].
    + exfalso. assert (T : geq (rho' x0) (rho' x) = true) by (apply geq_spec; left; congruence).
      rewrite <- G in T. apply geq_spec in T. destruct T as [T|[T _]]; [congruence | lia].
  - apply msum_zero. intros x Hx. assert (T := find_none _ _ F x Hx). cbn beta in T. rewrite T. reflexivity.
Qed.

(* merged KCL (under rho') -> raw KCL with wire currents *)
Theorem flow_exists_kern NL W rho' d : NoDup NL -> nonneg NL -> wires_ok NL W -> kern_ok NL W rho' ->
  (forall r, 0 <= r -> csum NL rho' d r = f0) ->
  exists iw, length iw = length W /\ forall x, In x NL -> fadd (d x) (wsum W iw x) = f0.
Proof. intros ND NN WO HK H. apply flow_exists; try assumption. apply (csum_kern NL W rho' d NN HK H). Qed.

Lemma kern_wire NL W rho' a b : kern_ok NL W rho' -> node_ok NL a -> node_ok NL b -> In (a, b) W ->
  rho' a = rho' b \/ (rho' a < 0 /\ rho' b < 0).
Proof.
  intros HK Oa Ob Hin. destruct (HK a Oa) as [_ G]. specialize (G b Ob).
  apply geq_spec. rewrite <- G. apply geq_spec. left. apply merge_respects. exact Hin.
Qed.

(* raw KCL with wire currents -> merged KCL (under rho') *)
Theorem merged_balance NL W rho' d iw : NoDup NL -> nonneg NL -> wires_ok NL W -> kern_ok NL W rho' ->
  (forall x, In x NL -> fadd (d x) (wsum W iw x) = f0) ->
  forall r, 0 <= r -> csum NL rho' d r = f0.
Proof.
  intros ND NN WO HK H r Hr. assert (Hneg := kern_negneg NL W rho' HK).
  rewrite (csum_ext _ _ _ (fun x => fopp (wsum W iw x))).
  - rewrite csum_opp, (csum_wsum NL rho' W ND NN Hneg WO); [ring | | exact Hr].
    intros a b Hin. unfold wires_ok in WO. rewrite Forall_forall in WO. destruct (WO (a, b) Hin) as [Oa Ob].
    apply (kern_wire NL W rho' a b HK Oa Ob Hin).
  - intros x Hx. specialize (H x Hx). transitivity (fsub (fadd (d x) (wsum W iw x)) (wsum W iw x)); [ring | rewrite H; ring].
Qed.

(* wire potentials from a merged potential *)
Theorem wire_potentials_kern NL W rho' (v v' : Z -> K) : wires_ok NL W -> kern_ok NL W rho' ->
  (forall x, node_ok NL x -> vv v x = vv v' (rho' x)) ->
  Forall (fun w => vv v (fst w) = vv v (snd w)) W.
Proof.
  intros WO HK Hv. unfold wires_ok in WO. rewrite Forall_forall in WO. rewrite Forall_forall. intros [a b] Hin. destruct (WO (a, b) Hin) as [Oa Ob].
  cbn [fst snd] in *. rewrite (Hv a Oa), (Hv b Ob).
  destruct (kern_wire NL W rho' a b HK Oa Ob Hin) as [E|[Na Nb]]; [rewrite E; reflexivity|].
  unfold vv. destruct (Z.leb_spec 0 (rho' a)); [lia|]. destruct (Z.leb_spec 0 (rho' b)); [lia | reflexivity].
Qed.

(* a merged potential from raw potentials that agree across every wire *)
Definition vmerged NL (rho' : Z -> Z) (v : Z -> K) : Z -> K :=
  fun r => match find (fun x => Z.eqb (rho' x) r) NL with Some x => v x | None => f0 end.
Theorem merged_potential NL W rho' (v : Z -> K) : nonneg NL -> kern_ok NL W rho' ->
  Forall (fun w => vv v (fst w) = vv v (snd w)) W ->
  forall x, node_ok NL x -> vv v x = vv (vmerged NL rho' v) (rho' x).
Proof.
  intros NN HK HW x Ox. assert (P := potentials_merge v W HW).
  destruct (HK x Ox) as [Sx Gx]. destruct Ox as [Hx | Hx].
  - assert (X0 : 0 <= x) by (apply NN; exact Hx).
    unfold vv at 2. destruct (Z.leb_spec 0 (rho' x)) as [L|L].
    + unfold vmerged. destruct (find (fun y => Z.eqb (rho' y) (rho' x)) NL) as [x1|] eqn:F.
      * apply find_some in F. destruct F as [H1 E1]. apply Z.eqb_eq in E1.
        assert (G := Gx x1 (or_introl H1)).
        assert (T : geq (rho' x) (rho' x1) = true) by (apply geq_spec; left; congruence).
        rewrite <- G in T. apply geq_spec in T.
        assert (X1 : 0 <= x1) by (apply NN; exact H1).
        assert (V1 : vv v x1 = v x1) by (unfold vv; destruct (Z.leb_spec 0 x1); [reflexivity | lia]).
        rewrite <- V1, (P x), (P x1). destruct T as [T|[Ta Tb]]; [rewrite T; reflexivity|].
        unfold vv. destruct (Z.leb_spec 0 (merge W x)); [lia|]. destruct (Z.leb_spec 0 (merge W x1)); [lia | reflexivity].
      * exfalso. assert (T := find_none _ _ F x Hx). cbn beta in T. rewrite Z.eqb_refl in T. discriminate.
    + apply Sx in L. rewrite (P x). unfold vv. destruct (Z.leb_spec 0 (merge W x)); [lia | reflexivity].
  - subst x. assert (L : rho' (-1) < 0) by (apply (kern_negneg NL W); exact HK).
    unfold vv. destruct (Z.leb_spec 0 (rho' (-1))); [lia|]. reflexivity.
Qed.
End WireMerge.

Arguments msum {K}. Arguments csum {K}. Arguments wsum {K}. Arguments vmerged {K}.
