(* C20 - schematic layout.  Part 3: hand model (H) of the placer base class
   lcapy/schemplacerbase.py (SchemPlacerBase._xlink/_ylink/_place/_make_graphs),
   of Graph.add / Lineq.add sign normalisation, of Cpt.tcoords (pin table,
   w/h, rotation by the direction's angle) and of Cnodes.link; and the
   theorem constraints_from_hints: for a two-node component with a
   right/left/up/down[=size] hint the constraint set the model builds is
   exactly the property's statement.

   The executable definitions of this file are evaluated inside Coq
   (cases_*.v, vm_compute) against the edges and common-node sets that the
   real _make_graphs produced for the same netlists. *)
From Coq Require Import QArith List Bool Arith Lia Lqa.
Require Import LT.Layout.
Import ListNotations.
Local Open Scope Q_scope.

(* ---- geometry ------------------------------------------------------------ *)
Inductive dir := DRight | DUp | DLeft | DDown.

Record mat2 := Mat2 { m11 : Q; m12 : Q; m21 : Q; m22 : Q }.

(* numpy dot((x, y), R): row vector times matrix *)
Definition rowmul (p : Q * Q) (m : mat2) : Q * Q :=
  (fst p * m11 m + snd p * m21 m, fst p * m12 m + snd p * m22 m).

(* Cpt.R: Rdict[angle] with angle = 0 (right), 90 (up), 180 (left), -90 (down).
   The generated file LayoutGen.v re-derives this table from cpt.py on every
   run and proves it equal to this one. *)
Definition rot_of_dir (d : dir) : mat2 :=
  match d with
  | DRight => Mat2 1 0 0 1
  | DUp => Mat2 0 1 (-1) 0
  | DLeft => Mat2 (-1) 0 0 (-1)
  | DDown => Mat2 0 (-1) 1 0
  end.

(* Cpt.tf((0,0), (x,y), scale=1): dot((x*w, y*h), R(angle)) *)
Definition tcoord (w h : Q) (d : dir) (p : Q * Q) : Q * Q :=
  rowmul (fst p * w, snd p * h) (rot_of_dir d).

(* unit vectors: rotating (1,0) gives the hinted direction *)
Definition dir_vec (d : dir) : Q * Q :=
  match d with DRight => (1, 0) | DUp => (0, 1) | DLeft => (-1, 0) | DDown => (0, -1) end.

Lemma rot_unit d : let v := rowmul (1, 0) (rot_of_dir d) in fst v == fst (dir_vec d) /\ snd v == snd (dir_vec d).
Proof. destruct d; cbn; split; ring. Qed.

(* the matrix is the rotation by k*90 degrees: orthogonal with determinant 1 *)
Lemma rot_is_rotation d : let m := rot_of_dir d in
  m11 m * m22 m - m12 m * m21 m == 1 /\ m11 m == m22 m /\ m12 m == - m21 m.
Proof. destruct d; cbn; repeat split; ring. Qed.

(* ---- components ------------------------------------------------------------ *)
Record cpt := mkCpt {
  k_nodes : list node;      (* elt.nodes, in order *)
  k_pins : list (Q * Q);    (* elt.coords: pin coordinates of those nodes *)
  k_w : Q; k_h : Q;         (* normalised width and height *)
  k_dir : dir;
  k_size : Q;               (* elt.size *)
  k_stretch : bool;         (* elt.stretch = can_stretch and not fixed *)
  k_skip : bool             (* directive or ignore or not place or free *)
}.

Definition xvals (k : cpt) : list Q := map (fun p => fst (tcoord (k_w k) (k_h k) (k_dir k) p)) (k_pins k).
Definition yvals (k : cpt) : list Q := map (fun p => snd (tcoord (k_w k) (k_h k) (k_dir k) p)) (k_pins k).

(* _xlink/_ylink: all pairs m1 < m2 with equal value *)
Fixpoint links_from (n1 : node) (v1 : Q) (ns : list node) (vs : list Q) : list (node * node) :=
  match ns, vs with
  | n2 :: ns', v2 :: vs' => (if Qeq_bool v2 v1 then [(n1, n2)] else []) ++ links_from n1 v1 ns' vs'
  | _, _ => []
  end.
Fixpoint links (ns : list node) (vs : list Q) : list (node * node) :=
  match ns, vs with
  | n1 :: ns', v1 :: vs' => links_from n1 v1 ns' vs' ++ links ns' vs'
  | _, _ => []
  end.

(* argsort(vals)[::-1]: the (value, node) pairs in descending order *)
Fixpoint insert_desc (p : Q * node) (l : list (Q * node)) : list (Q * node) :=
  match l with
  | [] => [p]
  | q :: r => if Qle_bool (fst q) (fst p) then p :: l else q :: insert_desc p r
  end.
Fixpoint sort_desc (l : list (Q * node)) : list (Q * node) :=
  match l with
  | [] => []
  | p :: r => insert_desc p (sort_desc r)
  end.

(* a graph edge / lineq constraint: from, to, size (> 0), stretch *)
Record gedge := mkG { g_from : node; g_to : node; g_size : Q; g_stretch : bool }.

(* Graph.add / Lineq.add: drop size 0, flip negative sizes *)
Definition graph_add (n1 n2 : node) (size : Q) (stretch : bool) : list gedge :=
  if Qeq_bool size 0 then []
  else if Qle_bool 0 size then [mkG n1 n2 size stretch]
  else [mkG n2 n1 (- size) stretch].

(* `if size == 0: size = 1e-9` *)
Definition eff_size (s : Q) : Q := if Qeq_bool s 0 then 1 # 1000000000 else s.

Fixpoint place_sorted (l : list (Q * node)) (size : Q) (stretch : bool) : list gedge :=
  match l with
  | p1 :: ((p2 :: _) as r) =>
      graph_add (snd p1) (snd p2) ((fst p2 - fst p1) * size) stretch ++ place_sorted r size stretch
  | _ => []
  end.

Definition place (ns : list node) (vs : list Q) (size : Q) (stretch : bool) : list gedge :=
  place_sorted (sort_desc (combine vs ns)) (eff_size size) stretch.

(* _make_graphs: first all links, then all edges; elements that are
   directives / ignored / not placed / free contribute nothing *)
Definition active (ks : list cpt) : list cpt := filter (fun k => negb (k_skip k)) ks.

Definition xlinks_of (ks : list cpt) := flat_map (fun k => links (k_nodes k) (xvals k)) (active ks).
Definition ylinks_of (ks : list cpt) := flat_map (fun k => links (k_nodes k) (yvals k)) (active ks).
Definition xedges_of (ks : list cpt) := flat_map (fun k => place (k_nodes k) (xvals k) (k_size k) (k_stretch k)) (active ks).
Definition yedges_of (ks : list cpt) := flat_map (fun k => place (k_nodes k) (yvals k) (k_size k) (k_stretch k)) (active ks).

(* the constraints an axis must satisfy *)
Definition cstr_of_link (l : node * node) : cstr := mkC (fst l) (snd l) 0 REq.
Definition cstr_of_gedge (g : gedge) : cstr :=
  mkC (g_from g) (g_to g) (g_size g) (if g_stretch g then RGe else REq).

Definition xconstraints (ks : list cpt) : list cstr :=
  map cstr_of_link (xlinks_of ks) ++ map cstr_of_gedge (xedges_of ks).
Definition yconstraints (ks : list cpt) : list cstr :=
  map cstr_of_link (ylinks_of ks) ++ map cstr_of_gedge (yedges_of ks).

(* ---- Cnodes.link: common-node classes as a labelling (label = least member) *)
Definition relabel (lab : list (node * node)) (la lb m : node) : list (node * node) :=
  map (fun p => if Nat.eqb (snd p) la || Nat.eqb (snd p) lb then (fst p, m) else p) lab.
Fixpoint label_of (lab : list (node * node)) (n : node) : node :=
  match lab with
  | [] => n
  | (m, l) :: r => if Nat.eqb m n then l else label_of r n
  end.
Definition link1 (lab : list (node * node)) (l : node * node) : list (node * node) :=
  let la := label_of lab (fst l) in
  let lb := label_of lab (snd l) in
  relabel lab la lb (Nat.min la lb).
Definition cnodes (nodes : list node) (ls : list (node * node)) : list (node * node) :=
  fold_left link1 ls (map (fun n => (n, n)) nodes).

(* edges with end points replaced by their common-node label, as the real
   graph stores them *)
Definition gedge_lab (lab : list (node * node)) (g : gedge) : gedge :=
  mkG (label_of lab (g_from g)) (label_of lab (g_to g)) (g_size g) (g_stretch g).

Definition gedge_eqb (a b : gedge) : bool :=
  Nat.eqb (g_from a) (g_from b) && Nat.eqb (g_to a) (g_to b) &&
  Qeq_bool (g_size a) (g_size b) && Bool.eqb (g_stretch a) (g_stretch b).

Definition subset_g (a b : list gedge) : bool := forallb (fun x => existsb (gedge_eqb x) b) a.
Definition same_edges (a b : list gedge) : bool := subset_g a b && subset_g b a.

Definition lab_eqb (a b : list (node * node)) : bool :=
  forallb (fun p => Nat.eqb (label_of b (fst p)) (snd p)) a &&
  forallb (fun p => Nat.eqb (label_of a (fst p)) (snd p)) b.

(* ---- constraints_from_hints ------------------------------------------------- *)
Definition rel_holds (stretch : bool) (d x : Q) : Prop := if stretch then d <= x else x == d.

Lemma holds_gedge pos g :
  holds pos (cstr_of_gedge g) <-> rel_holds (g_stretch g) (g_size g) (pos (g_to g) - pos (g_from g)).
Proof. unfold holds, cstr_of_gedge, rel_holds. cbn. destruct (g_stretch g); cbn; tauto. Qed.

Lemma Forall_holds_app pos a b : Forall (holds pos) (a ++ b) <-> Forall (holds pos) a /\ Forall (holds pos) b.
Proof. apply Forall_app. Qed.

(* two nodes with pin values v1, v2 along one axis, size s > 0 *)
Definition two_axis (n1 n2 : node) (v1 v2 s : Q) (st : bool) : list cstr :=
  map cstr_of_link (links [n1; n2] [v1; v2]) ++ map cstr_of_gedge (place [n1; n2] [v1; v2] s st).

Lemma eff_size_pos s : 0 < s -> eff_size s == s.
Proof.
  intros H. unfold eff_size. destruct (Qeq_bool s 0) eqn:E; [|reflexivity].
  apply Qeq_bool_iff in E. lra.
Qed.

Lemma eff_size_pos_eq s : 0 < s -> eff_size s = s.
Proof.
  intros H. unfold eff_size. destruct (Qeq_bool s 0) eqn:E; [|reflexivity].
  apply Qeq_bool_iff in E. lra.
Qed.

Theorem two_axis_spec n1 n2 v1 v2 s st pos : 0 < s ->
  (Forall (holds pos) (two_axis n1 n2 v1 v2 s st) <->
     (v1 < v2 /\ rel_holds st ((v2 - v1) * s) (pos n2 - pos n1)) \/
     (v1 == v2 /\ pos n2 - pos n1 == 0) \/
     (v2 < v1 /\ rel_holds st ((v1 - v2) * s) (pos n1 - pos n2))).
Proof.
  intros Hs. unfold two_axis, place. rewrite (eff_size_pos_eq s Hs).
  cbn [links links_from combine sort_desc insert_desc fst snd app map].
  destruct (Qeq_bool v2 v1) eqn:Eeq.
  - (* equal values: one link, no edge *)
    apply Qeq_bool_iff in Eeq.
    assert (Hle : Qle_bool (fst (v2, n2)) (fst (v1, n1)) = true) by (apply Qle_bool_iff; cbn; lra).
    cbn [fst] in Hle. rewrite Hle. cbn [place_sorted fst snd].
    unfold graph_add.
    assert (Hz : Qeq_bool ((v2 - v1) * s) 0 = true) by (apply Qeq_bool_iff; rewrite Eeq; ring).
    rewrite Hz. cbn [app map]. split.
    + intros H. inversion H as [|? ? Hh _]; subst. unfold holds, cstr_of_link in Hh; cbn in Hh.
      right; left. split; [lra|exact Hh].
    + intros [[Hlt _]|[[_ Hp]|[Hlt _]]]; try lra.
      constructor; [|constructor]. unfold holds, cstr_of_link; cbn. exact Hp.
  - assert (Hne : ~ v2 == v1) by (intros H; apply Qeq_bool_iff in H; congruence).
    cbn [app map].
    destruct (Qle_bool v2 v1) eqn:Ele.
    + (* v2 < v1: sorted as (v1,n1),(v2,n2) *)
      apply Qle_bool_iff in Ele. assert (Hlt : v2 < v1) by (apply Qle_lteq in Ele; destruct Ele as [H|H]; [exact H|contradiction]).
      cbn [place_sorted fst snd]. unfold graph_add.
      assert (Hneg : (v2 - v1) * s < 0) by nra.
      destruct (Qeq_bool ((v2 - v1) * s) 0) eqn:E0; [apply Qeq_bool_iff in E0; lra|].
      destruct (Qle_bool 0 ((v2 - v1) * s)) eqn:E1; [apply Qle_bool_iff in E1; lra|].
      cbn [app map]. split.
      * intros H. inversion H as [|? ? Hh _]; subst. apply holds_gedge in Hh. cbn in Hh.
        right; right. split; [exact Hlt|].
        unfold rel_holds in *. destruct st; [lra|]. rewrite Hh. ring.
      * intros [[H _]|[[H _]|[_ Hh]]]; try lra.
        constructor; [|constructor]. apply holds_gedge. cbn.
        unfold rel_holds in *. destruct st; [lra|]. rewrite Hh. ring.
    + (* v1 < v2: sorted as (v2,n2),(v1,n1) *)
      assert (Hlt : v1 < v2).
      { destruct (Qlt_le_dec v1 v2) as [H|H]; [exact H|]. apply Qle_bool_iff in H. congruence. }
      cbn [place_sorted fst snd]. unfold graph_add.
      assert (Hneg : (v1 - v2) * s < 0) by nra.
      destruct (Qeq_bool ((v1 - v2) * s) 0) eqn:E0; [apply Qeq_bool_iff in E0; lra|].
      destruct (Qle_bool 0 ((v1 - v2) * s)) eqn:E1; [apply Qle_bool_iff in E1; lra|].
      cbn [app map]. split.
      * intros H. inversion H as [|? ? Hh _]; subst. apply holds_gedge in Hh. cbn in Hh.
        left. split; [exact Hlt|].
        unfold rel_holds in *. destruct st; [lra|]. rewrite Hh. ring.
      * intros [[_ Hh]|[[H _]|[H _]]]; try lra.
        constructor; [|constructor]. apply holds_gedge. cbn.
        unfold rel_holds in *. destruct st; [lra|]. rewrite Hh. ring.
Qed.

(* the statement of the property for one two-node component *)
Definition hint_spec (d : dir) (s : Q) (stretch : bool) (a b : node) (px py : node -> Q) : Prop :=
  match d with
  | DRight => rel_holds stretch s (px b - px a) /\ py b - py a == 0
  | DLeft  => rel_holds stretch s (px a - px b) /\ py b - py a == 0
  | DUp    => rel_holds stretch s (py b - py a) /\ px b - px a == 0
  | DDown  => rel_holds stretch s (py a - py b) /\ px b - px a == 0
  end.

(* Bipole.pins = {'+': (-0.5, 0), '-': (0.5, 0)}, w = h = 1 *)
Definition bipole (a b : node) (d : dir) (s : Q) (stretch : bool) : cpt :=
  mkCpt [a; b] [(-(1#2), 0); (1#2, 0)] 1 1 d s stretch false.

Lemma rel_holds_ext st d d' x x' : d == d' -> x == x' -> rel_holds st d x -> rel_holds st d' x'.
Proof. unfold rel_holds. destruct st; intros H1 H2 H; rewrite <- H1, <- H2; exact H. Qed.

Theorem constraints_from_hints (a b : node) (d : dir) (s : Q) (stretch : bool) (px py : node -> Q) :
  0 < s ->
  (Forall (holds px) (xconstraints [bipole a b d s stretch]) /\
   Forall (holds py) (yconstraints [bipole a b d s stretch]))
  <-> hint_spec d s stretch a b px py.
Proof.
  intros Hs.
  assert (HX : forall pos, Forall (holds pos) (xconstraints [bipole a b d s stretch]) <->
     Forall (holds pos) (two_axis a b (fst (tcoord 1 1 d (-(1#2), 0))) (fst (tcoord 1 1 d (1#2, 0))) s stretch)).
  { intros pos. unfold xconstraints, xlinks_of, xedges_of, active, two_axis. cbn [filter bipole k_skip negb flat_map].
    rewrite !app_nil_r. reflexivity. }
  assert (HY : forall pos, Forall (holds pos) (yconstraints [bipole a b d s stretch]) <->
     Forall (holds pos) (two_axis a b (snd (tcoord 1 1 d (-(1#2), 0))) (snd (tcoord 1 1 d (1#2, 0))) s stretch)).
  { intros pos. unfold yconstraints, ylinks_of, yedges_of, active, two_axis. cbn [filter bipole k_skip negb flat_map].
    rewrite !app_nil_r. reflexivity. }
  rewrite HX, HY, !(two_axis_spec _ _ _ _ _ _ _ Hs).
  destruct d; unfold hint_spec, tcoord, rowmul, rot_of_dir; cbn [fst snd m11 m12 m21 m22].
  - (* right *)
    split.
    + intros [[[H1 H2]|[[H1 _]|[H1 _]]] [[H3 _]|[[_ H4]|[H3 _]]]]; try lra.
      split; [|exact H4]. eapply rel_holds_ext; [| |exact H2]; [ring|reflexivity].
    + intros [H1 H2]. split.
      * left. split; [lra|]. eapply rel_holds_ext; [| |exact H1]; [ring|reflexivity].
      * right; left. split; [ring|exact H2].
  - (* up *)
    split.
    + intros [[[H1 _]|[[_ H2]|[H1 _]]] [[H3 H4]|[[H3 _]|[H3 _]]]]; try lra.
      split; [|exact H2]. eapply rel_holds_ext; [| |exact H4]; [ring|reflexivity].
    + intros [H1 H2]. split.
      * right; left. split; [ring|exact H2].
      * left. split; [lra|]. eapply rel_holds_ext; [| |exact H1]; [ring|reflexivity].
  - (* left *)
    split.
    + intros [[[H1 _]|[[H1 _]|[H1 H2]]] [[H3 _]|[[_ H4]|[H3 _]]]]; try lra.
      split; [|exact H4]. eapply rel_holds_ext; [| |exact H2]; [ring|reflexivity].
    + intros [H1 H2]. split.
      * right; right. split; [lra|]. eapply rel_holds_ext; [| |exact H1]; [ring|reflexivity].
      * right; left. split; [ring|exact H2].
  - (* down *)
    split.
    + intros [[[H1 _]|[[_ H2]|[H1 _]]] [[H3 _]|[[H3 _]|[H3 H4]]]]; try lra.
      split; [|exact H2]. eapply rel_holds_ext; [| |exact H4]; [ring|reflexivity].
    + intros [H1 H2]. split.
      * right; left. split; [ring|exact H2].
      * right; right. split; [lra|]. eapply rel_holds_ext; [| |exact H1]; [ring|reflexivity].
Qed.

(* with the node spacing: Lcapy multiplies graph-unit positions by
   node_spacing; the final positions satisfy the hint at size * node_spacing *)
Theorem hints_with_spacing (a b : node) (d : dir) (s k : Q) (stretch : bool) (gx gy : node -> Q) :
  0 < s -> 0 < k ->
  Forall (holds gx) (xconstraints [bipole a b d s stretch]) ->
  Forall (holds gy) (yconstraints [bipole a b d s stretch]) ->
  hint_spec d (s * k) stretch a b (fun n => gx n * k) (fun n => gy n * k).
Proof.
  intros Hs Hk HX HY.
  pose proof (proj1 (constraints_from_hints a b d s stretch gx gy Hs) (conj HX HY)) as H.
  assert (R : forall x, rel_holds stretch s x -> rel_holds stretch (s * k) (x * k)).
  { intros x. unfold rel_holds. destruct stretch; intros Hx.
    - apply Qmult_le_compat_r; [exact Hx|lra].
    - rewrite Hx. reflexivity. }
  assert (Z : forall x, x == 0 -> x * k == 0) by (intros x Hx; rewrite Hx; ring).
  destruct d; unfold hint_spec in *; destruct H as [H1 H2]; split.
  - eapply rel_holds_ext; [reflexivity| |apply (R _ H1)]; ring.
  - rewrite <- (Z _ H2). ring.
  - eapply rel_holds_ext; [reflexivity| |apply (R _ H1)]; ring.
  - rewrite <- (Z _ H2). ring.
  - eapply rel_holds_ext; [reflexivity| |apply (R _ H1)]; ring.
  - rewrite <- (Z _ H2). ring.
  - eapply rel_holds_ext; [reflexivity| |apply (R _ H1)]; ring.
  - rewrite <- (Z _ H2). ring.
Qed.
