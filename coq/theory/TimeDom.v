(* TimeDom — time-domain circuit laws in the exponential-polynomial signal
   algebra of ExpPoly.v (property C02).  Axiom-free; every statement is for an
   arbitrary characteristic-0 field record [fld].

   SIGNALS AS FINITE MAPS.  A signal [Sig sing reg] is a list representation of
       Σ c · tⁿ/n! · e^{pt}  (t >= 0)   +   Σ_k d_k δ^{(k)}(t).
   Two lists denote the same signal when their coefficient maps agree:
       rcoef n p x = Σ { c | (c, n, p) ∈ reg x },   scoef k x = d_k
   [seq x y] is this normal-form equality (it is decidable, [seqb]).  Equal
   normal forms have equal Laplace images at EVERY s ([Lval_seq]).  The converse
   (uniqueness of partial fractions) is [L_injective], PROVED for every
   characteristic-0 field record in TimeDomInj.v (L_injective_char0).

   LAWS.  A law is a linear-differential combination
       Σ_j (a_j + b_j·d/dt) x_j  ≡  w            ([lcomb], [law_holds])
   where d/dt is the DISTRIBUTIONAL derivative D of the causal signal x·u(t)
   (ExpPoly.D: ordinary derivative of the regular part + x(0+)·δ).  Its image is
       Σ_j (a_j + b_j s) X_j(s) = W(s)             ([lcomb_transfer], from L_D).
   Main theorems
     lcomb_transfer     L(Σ (a + b D) x_j) = Σ (a + b s) L x_j  at every non-pole s
     law_to_sdomain     normal-form law  ==>  s-domain relation at every non-pole s
     law_from_sdomain   s-domain relation on a cofinite set + L_injective ==> normal-form law
     time_law_C         I = C(sV - v0)  ==>  i = C v' for t > 0  (coefficientwise on the
                        regular part), v(0+) = v0 + (impulse content of i at 0)/C
     time_law_L         V = L(sI - i0) + Σ M_k(sI_k - i0_k)  ==>  v = L i' + Σ M_k i_k' for t > 0,
                        i(0+) = i0 + (impulse content of v - Σ M_k(..))/L
     continuity_C/L     no impulse in the capacitor current / inductor voltage (strictly proper
                        image) ==> v_C(0+) = v0, i_L(0+) = i0
     seqb_sound, law_chk_sound   the decidable per-case checkers *)
Require Import LT.FieldSec LT.PolyQ LT.ExpPoly.
Local Open Scope F_scope.

Section TD.
Variable K : fld.
Add Field KFtd : (fth K).
Notation sig := (sig K).
Notation rterm := (rterm K).

(* ---- coefficient maps ------------------------------------------------------------ *)
Definition keyb (n : nat) (p : K) (n' : nat) (p' : K) : bool := Nat.eqb n n' && feqb p p'.
Fixpoint rcoef (n : nat) (p : K) (l : list rterm) : K :=
  match l with [] => 0 | (c, n', p') :: l' => (if keyb n p n' p' then c else 0) + rcoef n p l' end.
Definition scoef (k : nat) (l : list K) : K := nth k l 0.
Definition req (l m : list rterm) : Prop := forall n p, rcoef n p l = rcoef n p m.
Definition peq (l m : list K) : Prop := forall k, scoef k l = scoef k m.
Definition seq (x y : sig) : Prop := req (reg x) (reg y) /\ peq (sing x) (sing y).

Lemma keyb_true n p n' p' : keyb n p n' p' = true <-> n = n' /\ p = p'.
Proof. unfold keyb. rewrite andb_true_iff, Nat.eqb_eq, feqb_eq. tauto. Qed.
Lemma keyb_refl n p : keyb n p n p = true.
Proof. apply keyb_true. split; reflexivity. Qed.

Lemma seq_refl x : seq x x.
Proof. split; intro; reflexivity. Qed.
Lemma seq_sym x y : seq x y -> seq y x.
Proof. intros [A B]. split; intro; intros; symmetry; [apply A | apply B]. Qed.
Lemma seq_trans x y z : seq x y -> seq y z -> seq x z.
Proof. intros [A B] [C D]. split; intro; intros; [rewrite A; apply C | rewrite B; apply D]. Qed.

Lemma rcoef_app n p l m : rcoef n p (l ++ m) = rcoef n p l + rcoef n p m.
Proof. induction l as [|[[c n'] p'] l IH]; cbn [app rcoef]; [ring | rewrite IH; ring]. Qed.
Lemma rcoef_rscale a n p l : rcoef n p (rscale a l) = a * rcoef n p l.
Proof. induction l as [|[[c n'] p'] l IH]; cbn [rscale map rcoef]; [ring|]. fold (rscale a l). rewrite IH.
  destruct (keyb n p n' p'); ring. Qed.
Lemma scoef_nil k : scoef k [] = 0.
Proof. unfold scoef. destruct k; reflexivity. Qed.
Lemma scoef_padd k l m : scoef k (padd l m) = scoef k l + scoef k m.
Proof. unfold scoef. revert k m. induction l as [|a l IH]; intros k m.
  - cbn [padd]. destruct k; cbn [nth]; ring.
  - destruct m as [|b m]; cbn [padd].
    + destruct k; cbn [nth]; ring.
    + destruct k as [|k]; cbn [nth]; [ring | apply IH]. Qed.
Lemma scoef_pscale a k l : scoef k (pscale a l) = a * scoef k l.
Proof. unfold scoef, pscale. revert k. induction l as [|b l IH]; intros k; cbn [map]; [destruct k; cbn [nth]; ring|].
  destruct k as [|k]; cbn [nth]; [ring | apply IH]. Qed.
Lemma scoef_cons0 k a l : scoef (S k) (a :: l) = scoef k l.
Proof. reflexivity. Qed.

(* ---- signal operations respect the normal-form equality --------------------------------- *)
Definition sneg (x : sig) : sig := sscale (- (1)) x.
Definition ssub (x y : sig) : sig := sadd x (sneg y).
Definition sdelta (a : K) : sig := Sig [a] [].           (* a·δ(t) *)

Lemma seq_sadd x x' y y' : seq x x' -> seq y y' -> seq (sadd x y) (sadd x' y').
Proof. intros [A B] [C D]. split; intro; intros; unfold sadd; cbn [reg sing].
  - rewrite !rcoef_app, A, C. reflexivity.
  - rewrite !scoef_padd, B, D. reflexivity. Qed.
Lemma seq_sscale a x x' : seq x x' -> seq (sscale a x) (sscale a x').
Proof. intros [A B]. split; intro; intros; unfold sscale; cbn [reg sing].
  - rewrite !rcoef_rscale, A. reflexivity.
  - rewrite !scoef_pscale, B. reflexivity. Qed.

(* coefficient map of the ordinary derivative of the regular part:
   d/dt [tⁿ⁺¹/(n+1)! e^{pt}] = tⁿ/n! e^{pt} + p tⁿ⁺¹/(n+1)! e^{pt} *)
Lemma rcoef_Dord n p l : rcoef n p (Dord l) = rcoef (S n) p l + p * rcoef n p l.
Proof. induction l as [|[[c n'] p'] l IH]; cbn [Dord flat_map rcoef]; [ring|]. fold (Dord l).
  rewrite rcoef_app, IH. destruct n' as [|n']; cbn [Dreg rcoef].
  - unfold keyb. cbn [Nat.eqb andb]. destruct (Nat.eqb n 0) eqn:E0; cbn [andb]; [|ring].
    destruct (feqb p p') eqn:Ep; [|ring]. apply feqb_eq in Ep. subst p'. ring.
  - unfold keyb. cbn [Nat.eqb]. destruct (Nat.eqb n n') eqn:E1; destruct (Nat.eqb n (S n')) eqn:E2; cbn [andb];
      try (apply Nat.eqb_eq in E1; apply Nat.eqb_eq in E2; lia);
      destruct (feqb p p') eqn:Ep; try ring; apply feqb_eq in Ep; subst p'; ring. Qed.

(* value at t = 0+ as a function of the coefficient map: needs the sum over all poles, so
   it is stated through the finite-map lemma below *)

(* ---- equal normal forms have equal images ------------------------------------------------- *)
Fixpoint remove_key (n : nat) (p : K) (l : list rterm) : list rterm :=
  match l with [] => [] | (c, n', p') :: l' => if keyb n p n' p' then remove_key n p l' else (c, n', p') :: remove_key n p l' end.
Lemma remove_key_len n p l : (length (remove_key n p l) <= length l)%nat.
Proof. induction l as [|[[c n'] p'] l IH]; cbn [remove_key length]; [lia|]. destruct (keyb n p n' p'); cbn [length]; lia. Qed.
Lemma rcoef_remove_same n p l : rcoef n p (remove_key n p l) = 0.
Proof. induction l as [|[[c n'] p'] l IH]; cbn [remove_key rcoef]; [reflexivity|].
  destruct (keyb n p n' p') eqn:E; [exact IH | cbn [rcoef]; rewrite E, IH; ring]. Qed.
Lemma rcoef_remove_other n p m q l : keyb m q n p = false -> rcoef m q (remove_key n p l) = rcoef m q l.
Proof. intros Hne. induction l as [|[[c n'] p'] l IH]; cbn [remove_key rcoef]; [reflexivity|].
  destruct (keyb n p n' p') eqn:E.
  - apply keyb_true in E. destruct E as [-> ->]. rewrite Hne, IH. ring.
  - cbn [rcoef]. rewrite IH. reflexivity. Qed.
Lemma rval_remove s n p l : rval s l = rcoef n p l / fpow (s - p) (S n) + rval s (remove_key n p l).
Proof. induction l as [|[[c n'] p'] l IH]; cbn [remove_key rcoef rval].
  - unfold fdiv. rewrite (Fdiv_def (fth K)). ring.
  - destruct (keyb n p n' p') eqn:E.
    + apply keyb_true in E. destruct E as [<- <-]. rewrite IH. unfold fdiv. rewrite !(Fdiv_def (fth K)). ring.
    + cbn [rval]. rewrite IH. unfold fdiv. rewrite !(Fdiv_def (fth K)). ring. Qed.
Lemma at0_remove n p l : at0 l = (match n with O => rcoef n p l | S _ => 0 end) + at0 (remove_key n p l).
Proof. induction l as [|[[c n'] p'] l IH]; cbn [remove_key rcoef at0].
  - destruct n; ring.
  - destruct (keyb n p n' p') eqn:E.
    + apply keyb_true in E. destruct E as [<- <-]. destruct n; rewrite IH; ring.
    + destruct n'; cbn [at0]; rewrite IH; destruct n; ring. Qed.

Lemma rzero_rval s : forall k l, (length l <= k)%nat -> (forall n p, rcoef n p l = 0) -> rval s l = 0.
Proof. induction k as [|k IH]; intros l Hl Hz.
  - destruct l; [reflexivity | cbn in Hl; lia].
  - destruct l as [|[[c n] p] l]; [reflexivity|].
    rewrite (rval_remove s n p), Hz. rewrite IH.
    + unfold fdiv. rewrite (Fdiv_def (fth K)). ring.
    + cbn [remove_key]. rewrite keyb_refl. pose proof (remove_key_len n p l). cbn [length] in Hl. lia.
    + intros m q. destruct (keyb m q n p) eqn:E.
      * apply keyb_true in E. destruct E as [-> ->]. apply rcoef_remove_same.
      * rewrite (rcoef_remove_other _ _ _ _ _ E). apply Hz. Qed.
Lemma rzero_at0 : forall k l, (length l <= k)%nat -> (forall n p, rcoef n p l = 0) -> at0 l = 0.
Proof. induction k as [|k IH]; intros l Hl Hz.
  - destruct l; [reflexivity | cbn in Hl; lia].
  - destruct l as [|[[c n] p] l]; [reflexivity|].
    rewrite (at0_remove n p), Hz. rewrite IH.
    + destruct n; ring.
    + cbn [remove_key]. rewrite keyb_refl. pose proof (remove_key_len n p l). cbn [length] in Hl. lia.
    + intros m q. destruct (keyb m q n p) eqn:E.
      * apply keyb_true in E. destruct E as [-> ->]. apply rcoef_remove_same.
      * rewrite (rcoef_remove_other _ _ _ _ _ E). apply Hz. Qed.
Lemma req_rval s l m : req l m -> rval s l = rval s m.
Proof. intros H. assert (Z : rval s (l ++ rscale (- (1)) m) = 0).
  { apply (rzero_rval s (length (l ++ rscale (- (1)) m))); [lia|]. intros n p. rewrite rcoef_app, rcoef_rscale, (H n p). ring. }
  rewrite rval_app, rval_rscale in Z. transitivity (rval s l + - (1) * rval s m + rval s m); [ring | rewrite Z; ring]. Qed.
Lemma req_at0 l m : req l m -> at0 l = at0 m.
Proof. intros H. assert (Z : at0 (l ++ rscale (- (1)) m) = 0).
  { apply (rzero_at0 (length (l ++ rscale (- (1)) m))); [lia|]. intros n p. rewrite rcoef_app, rcoef_rscale, (H n p). ring. }
  rewrite at0_app, at0_rscale in Z. transitivity (at0 l + - (1) * at0 m + at0 m); [ring | rewrite Z; ring]. Qed.
Lemma peq_peval s : forall l m, peq l m -> peval l s = peval m s.
Proof. induction l as [|a l IH]; intros m H.
  - induction m as [|b m IHm]; [reflexivity|]. cbn [peval].
    assert (Hb : b = 0) by (symmetry; exact (H O)). rewrite <- IHm; [subst b; cbn; ring|].
    intros k. rewrite scoef_nil. symmetry. transitivity (scoef (S k) (b :: m)); [reflexivity|]. rewrite <- (H (S k)). apply scoef_nil.
  - destruct m as [|b m].
    + cbn [peval]. assert (Ha : a = 0) by (exact (H O)). rewrite (IH []); [subst a; cbn; ring|].
      intros k. rewrite scoef_nil. transitivity (scoef (S k) (a :: l)); [reflexivity|]. rewrite (H (S k)). apply scoef_nil.
    + cbn [peval]. assert (Hab : a = b) by (exact (H O)). rewrite (IH m); [subst; reflexivity|].
      intros k. exact (H (S k)). Qed.
(* equal normal forms have the same image at every s (no pole condition: both sides are the
   same field expression up to regrouping) *)
Theorem Lval_seq s x y : seq x y -> Lval s x = Lval s y.
Proof. intros [A B]. unfold Lval. rewrite (req_rval s _ _ A), (peq_peval s _ _ B). reflexivity. Qed.
Theorem at0_seq x y : seq x y -> at0 (reg x) = at0 (reg y).
Proof. intros [A _]. apply req_at0. exact A. Qed.
Lemma seq_D x y : seq x y -> seq (D x) (D y).
Proof. intros H. pose proof (at0_seq _ _ H) as Ha. destruct H as [A B]. split; intro; intros; unfold D; cbn [reg sing].
  - rewrite !rcoef_Dord, !A. reflexivity.
  - rewrite !scoef_padd, Ha. destruct k as [|k]; [reflexivity|]. rewrite !scoef_cons0, B. reflexivity. Qed.

(* ---- decidable version ---------------------------------------------------------------------- *)
Definition reqb (l m : list rterm) : bool :=
  forallb (fun t => match t with (_, n, p) => feqb (rcoef n p l) (rcoef n p m) end) (l ++ m).
Lemma rcoef_notin n p l : (forall c, ~ In (c, n, p) l) -> rcoef n p l = 0.
Proof. induction l as [|[[c n'] p'] l IH]; intros H; cbn [rcoef]; [reflexivity|].
  destruct (keyb n p n' p') eqn:E.
  - apply keyb_true in E. destruct E as [-> ->]. exfalso. apply (H c). left. reflexivity.
  - rewrite IH; [ring|]. intros c' Hin. apply (H c'). right. exact Hin. Qed.
Lemma in_dec_key n p (l : list rterm) : (exists c, In (c, n, p) l) \/ (forall c, ~ In (c, n, p) l).
Proof. induction l as [|[[c n'] p'] l IH]; [right; intros c []|].
  destruct (keyb n p n' p') eqn:E.
  - apply keyb_true in E. destruct E as [-> ->]. left. exists c. left. reflexivity.
  - destruct IH as [[c' Hc]|Hn]; [left; exists c'; right; exact Hc|]. right. intros c' [Hin|Hin]; [|exact (Hn c' Hin)].
    inversion Hin; subst. rewrite keyb_refl in E. discriminate. Qed.
Lemma reqb_sound l m : reqb l m = true -> req l m.
Proof. unfold reqb. rewrite forallb_forall. intros H n p.
  destruct (in_dec_key n p (l ++ m)) as [[c Hc]|Hn].
  - specialize (H _ Hc). cbn in H. apply feqb_eq in H. exact H.
  - rewrite (rcoef_notin n p l), (rcoef_notin n p m); [reflexivity | |]; intros c Hin; apply (Hn c); apply in_or_app; [right | left]; exact Hin. Qed.
Lemma pzerob_scoef l : pzerob l = true -> forall k, scoef k l = 0.
Proof. unfold pzerob. induction l as [|a l IH]; intros H k; [apply scoef_nil|]. cbn [forallb] in H. apply andb_true_iff in H. destruct H as [Ha H].
  apply feqb_eq in Ha. subst a. destruct k as [|k]; [reflexivity | rewrite scoef_cons0; apply IH; exact H]. Qed.
Fixpoint peqb' (l m : list K) : bool :=
  match l with
  | [] => pzerob m
  | a :: l' => match m with [] => feqb a 0 && pzerob l' | b :: m' => feqb a b && peqb' l' m' end
  end.
Lemma peqb'_sound : forall l m, peqb' l m = true -> peq l m.
Proof. induction l as [|a l IH]; intros m H k.
  - cbn [peqb'] in H. rewrite scoef_nil, (pzerob_scoef m H k). reflexivity.
  - destruct m as [|b m]; cbn [peqb'] in H; apply andb_true_iff in H; destruct H as [Ha H]; apply feqb_eq in Ha.
    + subst a. rewrite scoef_nil. destruct k as [|k]; [reflexivity|]. rewrite scoef_cons0. apply (pzerob_scoef l H k).
    + subst b. destruct k as [|k]; [reflexivity|]. rewrite !scoef_cons0. apply (IH m H k). Qed.
Definition seqb (x y : sig) : bool := reqb (reg x) (reg y) && peqb' (sing x) (sing y).
Theorem seqb_sound x y : seqb x y = true -> seq x y.
Proof. unfold seqb. intros H. apply andb_true_iff in H. destruct H as [A B]. split; [apply reqb_sound | apply peqb'_sound]; assumption. Qed.

(* ---- laws: linear-differential combinations -------------------------------------------------- *)
Definition lterm := (K * K * nat)%type.          (* (a, b, j)  ≙  (a + b·d/dt) x_j *)
Definition opD (a b : K) (x : sig) : sig := sadd (sscale a x) (sscale b (D x)).
Fixpoint lcomb (ts : list lterm) (xs : nat -> sig) : sig :=
  match ts with [] => szero | (a, b, j) :: r => sadd (opD a b (xs j)) (lcomb r xs) end.
Fixpoint lcombS (s : K) (ts : list lterm) (X : nat -> K) : K :=
  match ts with [] => 0 | (a, b, j) :: r => (a + b * s) * X j + lcombS s r X end.
Definition law_holds (ts : list lterm) (w : sig) (xs : nat -> sig) : Prop := seq (lcomb ts xs) w.
Definition law_pole_free (s : K) (ts : list lterm) (xs : nat -> sig) : Prop :=
  forall a b j, In (a, b, j) ts -> pole_free s (xs j).

Lemma Lval_opD s a b x : pole_free s x -> Lval s (opD a b x) = (a + b * s) * Lval s x.
Proof. intros Hp. unfold opD. rewrite Lval_sadd, !Lval_sscale, (L_D K s x Hp). ring. Qed.
(* the image of a law: d/dt becomes multiplication by s *)
Theorem lcomb_transfer s ts xs : law_pole_free s ts xs ->
  Lval s (lcomb ts xs) = lcombS s ts (fun j => Lval s (xs j)).
Proof. induction ts as [|[[a b] j] r IH]; intros Hp; cbn [lcomb lcombS]; [apply Lval_szero|].
  rewrite Lval_sadd, Lval_opD by (apply (Hp a b j); left; reflexivity).
  rewrite IH by (intros a' b' j' Hin; apply (Hp a' b' j'); right; exact Hin). reflexivity. Qed.
Theorem law_to_sdomain s ts w xs : law_holds ts w xs -> law_pole_free s ts xs ->
  lcombS s ts (fun j => Lval s (xs j)) = Lval s w.
Proof. intros H Hp. rewrite <- (lcomb_transfer s ts xs Hp). apply Lval_seq. exact H. Qed.

(* uniqueness of partial fractions, as a property of the field: a signal whose image vanishes
   outside a finite set is the zero normal form.  Proved for every characteristic-0 field
   record in TimeDomInj.v (L_injective_char0); stated here as a definition because the proof
   needs the lemmas of this file. *)
Definition L_injective : Prop :=
  forall (x : sig) (E : list K), (forall s, ~ In s E -> Lval s x = 0) -> seq x szero.
Lemma seq_zero_diff x y : seq (ssub x y) szero -> seq x y.
Proof. intros [A B]. split; intro; intros.
  - specialize (A n p). unfold ssub, sneg, sadd, sscale in A. cbn [reg szero rcoef] in A. rewrite rcoef_app, rcoef_rscale in A.
    transitivity (rcoef n p (reg x) + - (1) * rcoef n p (reg y) + rcoef n p (reg y)); [ring | rewrite A; ring].
  - specialize (B k). unfold ssub, sneg, sadd, sscale in B. cbn [sing szero] in B. rewrite scoef_padd, scoef_pscale, scoef_nil in B.
    transitivity (scoef k (sing x) + - (1) * scoef k (sing y) + scoef k (sing y)); [ring | rewrite B; ring]. Qed.
Theorem law_from_sdomain ts w xs (E : list K) : L_injective ->
  (forall s, ~ In s E -> law_pole_free s ts xs /\ lcombS s ts (fun j => Lval s (xs j)) = Lval s w) ->
  law_holds ts w xs.
Proof. intros Hinj H. unfold law_holds. apply seq_zero_diff. apply (Hinj _ E). intros s Hs.
  destruct (H s Hs) as [Hp He]. unfold ssub, sneg. rewrite Lval_sadd, Lval_sscale, (lcomb_transfer s ts xs Hp), He. ring. Qed.

(* decidable law checker for the per-case evaluation *)
Definition law_chk (ts : list lterm) (w : sig) (xs : nat -> sig) : bool := seqb (lcomb ts xs) w.
Theorem law_chk_sound ts w xs : law_chk ts w xs = true -> law_holds ts w xs.
Proof. apply seqb_sound. Qed.

(* ---- the capacitor ----------------------------------------------------------------------------
   s-domain (ivp) relation  I = C (s V - v0)   <=>   law  1·i - C·D v ≡ -C v0 δ  *)
Definition law_C_terms (Cv : K) (ji jv : nat) : list lterm := [(1, 0, ji); (0, - Cv, jv)].
Definition law_C (Cv v0 : K) (i v : sig) : Prop := seq (sadd (opD 1 0 i) (sadd (opD 0 (- Cv) v) szero)) (sdelta (- (Cv * v0))).

Lemma law_C_sdomain Cv v0 i v s : law_C Cv v0 i v -> pole_free s i -> pole_free s v ->
  Lval s i = Cv * (s * Lval s v - v0).
Proof. intros H Hi Hv. apply (Lval_seq s) in H. rewrite Lval_sadd, Lval_sadd, !Lval_opD, Lval_szero in H by assumption.
  unfold Lval at 3 in H. cbn [sdelta sing reg peval rval] in H.
  transitivity ((1 + 0 * s) * Lval s i + ((0 + - Cv * s) * Lval s v + 0) + Cv * s * Lval s v); [ring | rewrite H; ring]. Qed.

Lemma rcoef_opD a b n p x : rcoef n p (reg (opD a b x)) = a * rcoef n p (reg x) + b * (rcoef (S n) p (reg x) + p * rcoef n p (reg x)).
Proof. unfold opD, sadd, sscale, D. cbn [reg]. rewrite rcoef_app, !rcoef_rscale, rcoef_Dord. ring. Qed.
Lemma scoef_opD0 a b x : scoef 0 (sing (opD a b x)) = a * scoef 0 (sing x) + b * at0 (reg x).
Proof. unfold opD, sadd, sscale, D. cbn [sing]. rewrite scoef_padd, !scoef_pscale, scoef_padd. unfold scoef. cbn [nth]. ring. Qed.
Lemma scoef_opDS a b k x : scoef (S k) (sing (opD a b x)) = a * scoef (S k) (sing x) + b * scoef k (sing x).
Proof. unfold opD, sadd, sscale, D. cbn [sing]. rewrite scoef_padd, !scoef_pscale, scoef_padd, scoef_cons0.
  replace (scoef (S k) [at0 (reg x)]) with (0 : K) by (unfold scoef; destruct k; reflexivity). ring. Qed.

(* i = C dv/dt for all t > 0 (coefficient of every tⁿ/n!·e^{pt}), the impulse bookkeeping at
   t = 0, and the initial state *)
Theorem time_law_C Cv v0 i v : Cv <> 0 -> law_C Cv v0 i v ->
  (forall n p, rcoef n p (reg i) = Cv * (rcoef (S n) p (reg v) + p * rcoef n p (reg v))) /\
  (forall n p, rcoef n p (reg i) = rcoef n p (rscale Cv (Dord (reg v)))) /\
  scoef 0 (sing i) = Cv * (at0 (reg v) - v0) /\
  (forall k, scoef (S k) (sing i) = Cv * scoef k (sing v)) /\
  at0 (reg v) = v0 + scoef 0 (sing i) / Cv.
Proof. intros HC [A B].
  assert (R : forall n p, rcoef n p (reg i) = Cv * (rcoef (S n) p (reg v) + p * rcoef n p (reg v))).
  { intros n p. specialize (A n p). cbn [sadd reg] in A. rewrite !rcoef_app in A. fold (reg (opD 1 0 i)) in A.
    change (rcoef n p (reg (opD 1 0 i)) + (rcoef n p (reg (opD 0 (- Cv) v)) + rcoef n p (reg szero)) = rcoef n p (reg (sdelta (- (Cv * v0))))) in A.
    rewrite !rcoef_opD in A. cbn [szero sdelta reg rcoef] in A.
    transitivity (1 * rcoef n p (reg i) + 0 * (rcoef (S n) p (reg i) + p * rcoef n p (reg i)) +
      (0 * rcoef n p (reg v) + - Cv * (rcoef (S n) p (reg v) + p * rcoef n p (reg v)) + 0) + Cv * (rcoef (S n) p (reg v) + p * rcoef n p (reg v))); [ring | rewrite A; ring]. }
  assert (S0 : scoef 0 (sing i) = Cv * (at0 (reg v) - v0)).
  { specialize (B O). cbn [sadd sing] in B. rewrite !scoef_padd in B.
    change (scoef 0 (sing (opD 1 0 i)) + (scoef 0 (sing (opD 0 (- Cv) v)) + scoef 0 (sing szero)) = scoef 0 (sing (sdelta (- (Cv * v0))))) in B.
    rewrite !scoef_opD0 in B. cbn [szero sdelta sing] in B. rewrite scoef_nil in B. unfold scoef at 3 in B. cbn [nth] in B.
    transitivity (1 * scoef 0 (sing i) + 0 * at0 (reg i) + (0 * scoef 0 (sing v) + - Cv * at0 (reg v) + 0) + Cv * at0 (reg v)); [ring | rewrite B; ring]. }
  split; [exact R|]. split; [intros n p; rewrite rcoef_rscale, rcoef_Dord; apply R|]. split; [exact S0|]. split.
  - intros k. specialize (B (S k)). cbn [sadd sing] in B. rewrite !scoef_padd in B.
    change (scoef (S k) (sing (opD 1 0 i)) + (scoef (S k) (sing (opD 0 (- Cv) v)) + scoef (S k) (sing szero)) = scoef (S k) (sing (sdelta (- (Cv * v0))))) in B.
    rewrite !scoef_opDS in B. cbn [szero sdelta sing] in B. rewrite scoef_nil in B.
    replace (scoef (S k) [- (Cv * v0)]) with (0 : K) in B by (unfold scoef; destruct k; reflexivity).
    transitivity (1 * scoef (S k) (sing i) + 0 * scoef k (sing i) + (0 * scoef (S k) (sing v) + - Cv * scoef k (sing v) + 0) + Cv * scoef k (sing v)); [ring | rewrite B; ring].
  - rewrite S0. field. exact HC. Qed.
(* no impulse in the capacitor current (its image is strictly proper): the voltage starts at v0 *)
Theorem continuity_C Cv v0 i v : Cv <> 0 -> law_C Cv v0 i v -> scoef 0 (sing i) = 0 -> at0 (reg v) = v0.
Proof. intros HC H Hz. destruct (time_law_C Cv v0 i v HC H) as [_ [_ [_ [_ E]]]]. rewrite E, Hz. field. exact HC. Qed.

(* ---- the inductor, with any number of mutual couplings -------------------------------------------
   V = L (s I - i0) + Σ_k M_k (s I_k - i0_k)  <=>  1·v - L·D i - Σ M_k·D i_k ≡ -(L i0 + Σ M_k i0_k) δ *)
Definition mutual := (K * K * sig)%type.            (* (M_k, i0_k, i_k) *)
Fixpoint mut_comb (ms : list mutual) : sig :=
  match ms with [] => szero | (M, _, ik) :: r => sadd (opD 0 (- M) ik) (mut_comb r) end.
Fixpoint mut_ic (ms : list mutual) : K := match ms with [] => 0 | (M, i0k, _) :: r => M * i0k + mut_ic r end.
Fixpoint mut_rc (n : nat) (p : K) (ms : list mutual) : K :=
  match ms with [] => 0 | (M, _, ik) :: r => M * (rcoef (S n) p (reg ik) + p * rcoef n p (reg ik)) + mut_rc n p r end.
Fixpoint mut_at0 (ms : list mutual) : K := match ms with [] => 0 | (M, _, ik) :: r => M * at0 (reg ik) + mut_at0 r end.
Fixpoint mut_sval (s : K) (ms : list mutual) : K :=
  match ms with [] => 0 | (M, i0k, ik) :: r => M * (s * Lval s ik - i0k) + mut_sval s r end.
Definition law_L (Lv i0 : K) (ms : list mutual) (v i : sig) : Prop :=
  seq (sadd (opD 1 0 v) (sadd (opD 0 (- Lv) i) (mut_comb ms))) (sdelta (- (Lv * i0 + mut_ic ms))).

Lemma rcoef_mut_comb n p ms : rcoef n p (reg (mut_comb ms)) = - mut_rc n p ms.
Proof. induction ms as [|[[M i0k] ik] r IH]; cbn [mut_comb mut_rc]; [cbn; ring|].
  cbn [sadd reg]. rewrite rcoef_app. fold (reg (opD 0 (- M) ik)). rewrite rcoef_opD, IH. ring. Qed.
Lemma scoef0_mut_comb ms : scoef 0 (sing (mut_comb ms)) = - mut_at0 ms.
Proof. induction ms as [|[[M i0k] ik] r IH]; cbn [mut_comb mut_at0]; [cbn; ring|].
  cbn [sadd sing]. rewrite scoef_padd. fold (sing (opD 0 (- M) ik)). rewrite scoef_opD0, IH. ring. Qed.
Lemma Lval_mut_comb s ms : (forall M i0k ik, In (M, i0k, ik) ms -> pole_free s ik) ->
  Lval s (mut_comb ms) = - (mut_sval s ms + mut_ic ms).
Proof. induction ms as [|[[M i0k] ik] r IH]; intros Hp; cbn [mut_comb mut_sval mut_ic]; [rewrite Lval_szero; ring|].
  rewrite Lval_sadd, Lval_opD by (apply (Hp M i0k ik); left; reflexivity).
  rewrite IH by (intros M' i' k' Hin; apply (Hp M' i' k'); right; exact Hin). ring. Qed.
Lemma law_L_sdomain Lv i0 ms v i s : law_L Lv i0 ms v i -> pole_free s v -> pole_free s i ->
  (forall M i0k ik, In (M, i0k, ik) ms -> pole_free s ik) ->
  Lval s v = Lv * (s * Lval s i - i0) + mut_sval s ms.
Proof. intros H Hv Hi Hm. apply (Lval_seq s) in H. rewrite Lval_sadd, Lval_sadd, !Lval_opD, (Lval_mut_comb s ms Hm) in H by assumption.
  unfold Lval at 3 in H. cbn [sdelta sing reg peval rval] in H.
  transitivity ((1 + 0 * s) * Lval s v + ((0 + - Lv * s) * Lval s i + - (mut_sval s ms + mut_ic ms)) + (Lv * s * Lval s i + mut_sval s ms + mut_ic ms)); [ring | rewrite H; ring]. Qed.
(* v = L di/dt + Σ M_k di_k/dt for all t > 0; impulse bookkeeping; initial current *)
Theorem time_law_L Lv i0 ms v i : Lv <> 0 -> law_L Lv i0 ms v i ->
  (forall n p, rcoef n p (reg v) = Lv * (rcoef (S n) p (reg i) + p * rcoef n p (reg i)) + mut_rc n p ms) /\
  scoef 0 (sing v) = Lv * (at0 (reg i) - i0) + (mut_at0 ms - mut_ic ms) /\
  at0 (reg i) = i0 + (scoef 0 (sing v) - (mut_at0 ms - mut_ic ms)) / Lv.
Proof. intros HL [A B].
  assert (S0 : scoef 0 (sing v) = Lv * (at0 (reg i) - i0) + (mut_at0 ms - mut_ic ms)).
  { specialize (B O). cbn [sadd sing] in B. rewrite !scoef_padd in B.
    change (scoef 0 (sing (opD 1 0 v)) + (scoef 0 (sing (opD 0 (- Lv) i)) + scoef 0 (sing (mut_comb ms))) = scoef 0 (sing (sdelta (- (Lv * i0 + mut_ic ms))))) in B.
    rewrite !scoef_opD0, scoef0_mut_comb in B. cbn [sdelta sing] in B. unfold scoef at 3 in B. cbn [nth] in B.
    transitivity (1 * scoef 0 (sing v) + 0 * at0 (reg v) + (0 * scoef 0 (sing i) + - Lv * at0 (reg i) + - mut_at0 ms) + (Lv * at0 (reg i) + mut_at0 ms)); [ring | rewrite B; ring]. }
  split; [|split; [exact S0 | rewrite S0; field; exact HL]].
  intros n p. specialize (A n p). cbn [sadd reg] in A. rewrite !rcoef_app in A.
  change (rcoef n p (reg (opD 1 0 v)) + (rcoef n p (reg (opD 0 (- Lv) i)) + rcoef n p (reg (mut_comb ms))) = rcoef n p (reg (sdelta (- (Lv * i0 + mut_ic ms))))) in A.
  rewrite !rcoef_opD, rcoef_mut_comb in A. cbn [sdelta reg rcoef] in A.
  transitivity (1 * rcoef n p (reg v) + 0 * (rcoef (S n) p (reg v) + p * rcoef n p (reg v)) +
     (0 * rcoef n p (reg i) + - Lv * (rcoef (S n) p (reg i) + p * rcoef n p (reg i)) + - mut_rc n p ms) +
     (Lv * (rcoef (S n) p (reg i) + p * rcoef n p (reg i)) + mut_rc n p ms)); [ring | rewrite A; ring]. Qed.
(* no impulse in the inductor voltage and the coupled currents start at their initial values:
   the inductor current starts at i0 *)
Theorem continuity_L Lv i0 ms v i : Lv <> 0 -> law_L Lv i0 ms v i -> scoef 0 (sing v) = 0 -> mut_at0 ms = mut_ic ms -> at0 (reg i) = i0.
Proof. intros HL H Hz Hm. destruct (time_law_L Lv i0 ms v i HL H) as [_ [_ E]]. rewrite E, Hz, Hm. field. exact HL. Qed.

(* ---- instantaneous (memoryless) laws transfer termwise --------------------------------------------- *)
Fixpoint lin_terms (ts : list (K * nat)) : list lterm := match ts with [] => [] | (a, j) :: r => (a, 0, j) :: lin_terms r end.
Theorem instantaneous_law ts w xs : law_holds (lin_terms ts) w xs ->
  forall s, Lval s w = fold_right (fun aj acc => fst aj * Lval s (xs (snd aj)) + acc) 0 ts.
Proof. intros H s. apply (Lval_seq s) in H. rewrite <- H. clear H. induction ts as [|[a j] r IH]; cbn [lin_terms lcomb fold_right fst snd]; [apply Lval_szero|].
  rewrite Lval_sadd, IH. unfold opD. rewrite Lval_sadd, !Lval_sscale. ring. Qed.

End TD.

Arguments rcoef {K}. Arguments scoef {K}. Arguments seq {K}. Arguments seqb {K}. Arguments req {K}. Arguments peq {K}. Arguments reqb {K}.
Arguments sneg {K}. Arguments ssub {K}. Arguments sdelta {K}. Arguments opD {K}. Arguments lcomb {K}. Arguments lcombS {K}.
Arguments law_holds {K}. Arguments law_pole_free {K}. Arguments law_chk {K}. Arguments law_C {K}. Arguments law_L {K}.
Arguments mut_comb {K}. Arguments mut_ic {K}. Arguments mut_rc {K}. Arguments mut_at0 {K}. Arguments mut_sval {K}. Arguments lin_terms {K}.
Arguments L_injective K : clear implicits.
