(* C06 — theorems about the netlist reader/writer model, for ALL inputs
   (induction over character and field lists).  Part 1: the tokenizer.

     split_join      split ds (join " " fs) = Some fs for every list of
                     self-contained fields (field_ok), for every delimiter string
                     containing the blank
     plain_field_ok / braced_field_ok / quoted_field_ok
                     syntactic sufficient conditions for field_ok
     strip_format    strip_value (arg_format ds v) = v
     format_field_ok every value the printer emits is a self-contained field
     unbalanced_rejected   more '{' than '}' (no quotes) => split = None *)
From Coq Require Import List Ascii Bool Arith Lia.
From LT Require Import ParserStr ParserModel.
Import ListNotations.

(* ------------------------------------------------------------------------- *)
(* the bracket part of the tokenizer state *)
Definition bst := (option ascii * list (option ascii))%type.
Definition bnext (st : bst) (c : ascii) : bst :=
  let '(cl, stk) := st in
  if (match cl with Some k => aeqb c k | None => false end)
  then (match stk with [] => (None, []) | x :: r => (x, r) end)
  else if aeqb c LBR then (Some RBR, cl :: stk)
  else if aeqb c QUO then (Some QUO, cl :: stk)
  else (cl, stk).
(* scan a word: None as soon as a delimiter is met with an empty stack *)
Fixpoint scan (ds : str) (st : bst) (w : str) : option bst :=
  match w with
  | [] => Some st
  | c :: r => if mem c ds && is_nil (snd st) then None else scan ds (bnext st c) r
  end.
(* a self-contained field: non-empty, no top-level delimiter, every bracket closed *)
Definition field_ok (ds : str) (w : str) : bool :=
  negb (is_nil w) && match scan ds (None, []) w with Some (None, []) => true | _ => false end.

Lemma step_bnext ds ps cu cl stk c :
  mem c ds && is_nil stk = false ->
  step ds {| parts := ps; cur := cu; close := cl; stack := stk |} c
  = {| parts := ps; cur := cu ++ [c]; close := fst (bnext (cl, stk) c); stack := snd (bnext (cl, stk) c) |}.
Proof.
  intros H. unfold step. cbn [stack cur parts close]. rewrite H. unfold bnext.
  destruct (match cl with Some k => aeqb c k | None => false end).
  - destruct stk; reflexivity.
  - destruct (aeqb c LBR); [reflexivity|]. destruct (aeqb c QUO); reflexivity.
Qed.

Lemma eat_word ds w : forall st st' ps cu,
  scan ds st w = Some st' ->
  fold_left (step ds) w {| parts := ps; cur := cu; close := fst st; stack := snd st |}
  = {| parts := ps; cur := cu ++ w; close := fst st'; stack := snd st' |}.
Proof.
  induction w as [|c w IH]; intros [cl stk] st' ps cu H; cbn [scan] in H.
  - injection H as <-. cbn. now rewrite app_nil_r.
  - cbn [snd] in H. destruct (mem c ds && is_nil stk) eqn:E; [discriminate|].
    cbn [fold_left fst snd]. rewrite step_bnext by exact E.
    destruct (bnext (cl, stk) c) as [cl2 stk2] eqn:B. cbn [fst snd].
    specialize (IH (cl2, stk2) st' ps (cu ++ [c]) H). cbn [fst snd] in IH. rewrite IH.
    now rewrite <- app_assoc.
Qed.

Lemma eat_field ds w ps cu : scan ds (None, []) w = Some (None, []) ->
  fold_left (step ds) w {| parts := ps; cur := cu; close := None; stack := [] |}
  = {| parts := ps; cur := cu ++ w; close := None; stack := [] |}.
Proof. intros H. exact (eat_word ds w (None, []) (None, []) ps cu H). Qed.

Lemma eat_delim ds d ps cu : mem d ds = true -> cu <> [] ->
  step ds {| parts := ps; cur := cu; close := None; stack := [] |} d
  = {| parts := ps ++ [cu]; cur := []; close := None; stack := [] |}.
Proof. intros H N. unfold step. cbn. rewrite H. cbn. destruct cu; [contradiction|reflexivity]. Qed.

Lemma field_ok_inv ds w : field_ok ds w = true -> w <> [] /\ scan ds (None, []) w = Some (None, []).
Proof.
  unfold field_ok. intros H. apply andb_true_iff in H as [H1 H2]. split.
  - destruct w; [discriminate|congruence].
  - destruct (scan ds (None, []) w) as [[[|] [|]]|]; try discriminate. reflexivity.
Qed.

Lemma split_join_gen ds d e fs : mem d ds = true -> mem e ds = true ->
  Forall (fun w => field_ok ds w = true) fs -> forall ps,
  fold_left (step ds) (join [d] fs ++ [e]) {| parts := ps; cur := []; close := None; stack := [] |}
  = {| parts := ps ++ fs; cur := []; close := None; stack := [] |}.
Proof.
  intros Hd He. induction 1 as [|w r Hw Hr IH]; intros ps.
  - cbn [join app fold_left]. unfold step. cbn. rewrite He. cbn. now rewrite app_nil_r.
  - apply field_ok_inv in Hw as [Hne Hs]. destruct r as [|w2 r2].
    + cbn [join]. rewrite fold_left_app.
      rewrite (eat_field ds w ps [] Hs). cbn [fold_left app].
      rewrite eat_delim by assumption. reflexivity.
    + rewrite join_cons by discriminate. rewrite <- !app_assoc, fold_left_app.
      rewrite (eat_field ds w ps [] Hs). cbn [app fold_left].
      rewrite eat_delim by assumption.
      rewrite IH. now rewrite <- app_assoc.
Qed.

(* THEOREM split_join *)
Theorem split_join ds fs : mem SP ds = true ->
  Forall (fun w => field_ok ds w = true) fs -> split ds (join [SP] fs) = Some fs.
Proof.
  intros Hsp H. unfold split, sinit.
  assert (He : mem (hd SP ds) ds = true).
  { destruct ds as [|a r]; [discriminate|]. cbn. now rewrite aeqb_refl. }
  rewrite (split_join_gen ds SP (hd SP ds) fs Hsp He H []). reflexivity.
Qed.

(* the same for any single delimiter as separator (tabs, commas, parentheses) *)
Theorem split_join_any ds d fs : mem d ds = true ->
  Forall (fun w => field_ok ds w = true) fs -> split ds (join [d] fs) = Some fs.
Proof.
  intros Hd H. unfold split, sinit.
  assert (He : mem (hd SP ds) ds = true).
  { destruct ds as [|a r]; [discriminate|]. cbn. now rewrite aeqb_refl. }
  rewrite (split_join_gen ds d (hd SP ds) fs Hd He H []). reflexivity.
Qed.

(* ---------------------------------------------------- sufficient conditions -- *)
(* plain word: no delimiter, no open brace, no double quote (a close brace alone is an ordinary character) *)
Definition plain_char (ds : str) (c : ascii) : bool := negb (mem c ds) && negb (aeqb c LBR) && negb (aeqb c QUO).
Definition plain (ds : str) (w : str) : bool := negb (is_nil w) && forallb (plain_char ds) w.

Lemma scan_plain ds w : forallb (plain_char ds) w = true -> scan ds (None, []) w = Some (None, []).
Proof.
  induction w as [|c w IH]; cbn [forallb scan]; [reflexivity|]. intros H.
  apply andb_true_iff in H as [Hc Hw]. unfold plain_char in Hc.
  apply andb_true_iff in Hc as [Hc H3]. apply andb_true_iff in Hc as [H1 H2].
  apply negb_true_iff in H1, H2, H3. rewrite H1. cbn [andb]. unfold bnext. rewrite H2, H3. now apply IH.
Qed.
Lemma plain_field_ok ds w : plain ds w = true -> field_ok ds w = true.
Proof.
  unfold plain, field_ok. intros H. apply andb_true_iff in H as [H1 H2]. rewrite H1. cbn [andb].
  now rewrite scan_plain.
Qed.

(* brace-balanced text without quotes: depth never below 0 *)
Fixpoint bal (d : nat) (v : str) : option nat :=
  match v with
  | [] => Some d
  | c :: r => if aeqb c QUO then None
              else if aeqb c LBR then bal (S d) r
              else if aeqb c RBR then match d with O => None | S d' => bal d' r end
              else bal d r
  end.
Definition balanced (v : str) : bool := match bal 0 v with Some 0 => true | _ => false end.

Definition bstack (d : nat) : list (option ascii) := repeat (Some RBR) d ++ [None].
Lemma LBR_RBR : aeqb LBR RBR = false. Proof. reflexivity. Qed.
Lemma RBR_LBR : aeqb RBR LBR = false. Proof. reflexivity. Qed.
Lemma RBR_QUO : aeqb RBR QUO = false. Proof. reflexivity. Qed.
Lemma LBR_QUO : aeqb LBR QUO = false. Proof. reflexivity. Qed.
Lemma QUO_LBR : aeqb QUO LBR = false. Proof. reflexivity. Qed.
Lemma QUO_RBR : aeqb QUO RBR = false. Proof. reflexivity. Qed.

Lemma scan_bal ds v : forall d d', bal d v = Some d' ->
  scan ds (Some RBR, bstack d) v = Some (Some RBR, bstack d').
Proof.
  induction v as [|c v IH]; intros d d' H; cbn [bal] in H.
  - now injection H as <-.
  - cbn [scan snd]. assert (N : is_nil (bstack d) = false) by (unfold bstack; destruct d; reflexivity).
    rewrite N, andb_false_r.
    destruct (aeqb c QUO) eqn:EQ; [discriminate|].
    destruct (aeqb c LBR) eqn:EL.
    + apply aeqb_true in EL; subst c. unfold bnext. rewrite LBR_RBR, aeqb_refl.
      change (Some RBR :: bstack d) with (bstack (S d)). now apply IH.
    + destruct (aeqb c RBR) eqn:ER.
      * destruct d as [|d0]; [discriminate|]. unfold bnext. rewrite ER.
        change (bstack (S d0)) with (Some RBR :: bstack d0). now apply IH.
      * unfold bnext. rewrite ER, EL, EQ. now apply IH.
Qed.

(* '{' v '}' with v brace-balanced and quote-free: whatever delimiters v contains *)
Lemma scan_app ds v w : forall st,
  scan ds st (v ++ w) = match scan ds st v with Some st' => scan ds st' w | None => None end.
Proof.
  induction v as [|c v' IHv]; intros st; cbn [app scan]; [reflexivity|].
  destruct (mem c ds && is_nil (snd st)); [reflexivity|]. apply IHv.
Qed.
Lemma braced_field_ok ds v : mem LBR ds = false -> balanced v = true -> field_ok ds (LBR :: v ++ [RBR]) = true.
Proof.
  unfold balanced. intros HL H. destruct (bal 0 v) as [[|n]|] eqn:B; try discriminate.
  unfold field_ok. cbn [is_nil negb andb scan snd]. rewrite HL. cbn [andb].
  unfold bnext at 1. rewrite aeqb_refl.
  rewrite scan_app. change [None] with (bstack 0). rewrite (scan_bal ds v 0 0 B).
  cbn [scan snd bstack repeat app is_nil]. rewrite andb_false_r. unfold bnext. rewrite aeqb_refl. reflexivity.
Qed.

(* a double-quoted word without inner quote or open brace *)
Definition quotable (v : str) : bool := forallb (fun c => negb (aeqb c QUO) && negb (aeqb c LBR)) v.
Lemma scan_quoted ds v : quotable v = true ->
  scan ds (Some QUO, [None]) v = Some (Some QUO, [None]).
Proof.
  induction v as [|c v IH]; cbn [quotable forallb scan snd is_nil]; [reflexivity|]. intros H.
  apply andb_true_iff in H as [Hc Hv]. apply andb_true_iff in Hc as [H1 H2]. apply negb_true_iff in H1, H2.
  rewrite andb_false_r. unfold bnext. rewrite H1, H2. now apply IH.
Qed.
Lemma quoted_field_ok ds v : mem QUO ds = false -> quotable v = true -> field_ok ds (QUO :: v ++ [QUO]) = true.
Proof.
  intros HQ H. unfold field_ok. cbn [is_nil negb andb scan snd]. rewrite HQ. cbn [andb].
  unfold bnext at 1. rewrite QUO_LBR, aeqb_refl.
  rewrite scan_app, (scan_quoted ds v H). cbn [scan snd is_nil]. rewrite andb_false_r.
  unfold bnext. rewrite aeqb_refl. reflexivity.
Qed.

(* ------------------------------------------------- _arg_format / Arg.assign -- *)
Lemma drop_last_snoc (v : str) a : drop_last 1 (v ++ [a]) = v.
Proof.
  unfold drop_last. rewrite app_length. cbn [length]. replace (length v + 1 - 1) with (length v) by lia.
  rewrite firstn_app, Nat.sub_diag, firstn_all. cbn. apply app_nil_r.
Qed.
Lemma inner_wrap (v : str) a b : inner (a :: v ++ [b]) = v.
Proof. unfold inner. cbn [tl]. apply drop_last_snoc. Qed.

(* what the printer requires of a value so that the reader gives it back *)
Definition first_is (a : ascii) (v : str) : bool := match v with c :: _ => aeqb c a | [] => false end.
Definition val_ok (ds : str) (v : str) : bool :=
  negb (is_nil v) && negb (first_is LBR v) &&
  (if has_delim ds v then balanced v else field_ok ds v && negb (first_is QUO v)).

(* THEOREM strip_format: reading back a printed value gives the value *)
Theorem strip_format ds v : val_ok ds v = true -> strip_value (arg_format ds v) = v.
Proof.
  unfold val_ok, arg_format. intros H. apply andb_true_iff in H as [H H3]. apply andb_true_iff in H as [H1 H2].
  destruct v as [|c v]; [discriminate|]. cbn [first_is] in H2. apply negb_true_iff in H2.
  cbn [starts_with]. rewrite Ascii.eqb_sym in H2. unfold aeqb at 1. rewrite H2. cbn [andb].
  destruct (has_delim ds (c :: v)).
  - unfold strip_value. rewrite aeqb_refl. cbn [orb]. apply inner_wrap.
  - apply andb_true_iff in H3 as [_ H4]. cbn [first_is] in H4. apply negb_true_iff in H4.
    unfold strip_value. unfold aeqb in *. rewrite Ascii.eqb_sym in H2. rewrite H2, H4. reflexivity.
Qed.
(* THEOREM format_field_ok: the printed value is one self-contained field *)
Theorem format_field_ok ds v : mem LBR ds = false -> val_ok ds v = true -> field_ok ds (arg_format ds v) = true.
Proof.
  intros HL. unfold val_ok, arg_format. intros H. apply andb_true_iff in H as [H H3]. apply andb_true_iff in H as [H1 H2].
  destruct v as [|c v]; [discriminate|]. cbn [first_is] in H2. apply negb_true_iff in H2.
  cbn [starts_with]. rewrite Ascii.eqb_sym in H2. unfold aeqb at 1. rewrite H2. cbn [andb].
  destruct (has_delim ds (c :: v)).
  - now apply braced_field_ok.
  - now apply andb_true_iff in H3 as [H3 _].
Qed.

(* ------------------------------------------------------------- rejection -- *)
(* without quotes the bracket state is a depth counter: '{' increments, '}' decrements
   when positive (a '}' at depth 0 is an ordinary character) *)
Fixpoint excess (v : str) (d : nat) : nat :=
  match v with
  | [] => d
  | c :: r => if aeqb c LBR then excess r (S d) else if aeqb c RBR then excess r (pred d) else excess r d
  end.
Definition quote_free (v : str) : bool := forallb (fun c => negb (aeqb c QUO)) v.
Definition st_of (d : nat) : bst := match d with O => (None, []) | S d' => (Some RBR, bstack d') end.

Lemma step_depth ds s d c :
  mem LBR ds = false -> mem RBR ds = false -> aeqb c QUO = false ->
  (close s, stack s) = st_of d ->
  (close (step ds s c), stack (step ds s c)) = st_of (excess [c] d).
Proof.
  intros HL HR HQ Hs. unfold step. destruct (mem c ds && is_nil (stack s)) eqn:E.
  - apply andb_true_iff in E as [E1 E2]. cbn [close stack].
    assert (NL : aeqb c LBR = false).
    { destruct (aeqb_spec c LBR) as [->|]; [congruence|reflexivity]. }
    assert (NR : aeqb c RBR = false).
    { destruct (aeqb_spec c RBR) as [->|]; [congruence|reflexivity]. }
    cbn [excess]. rewrite NL, NR. exact Hs.
  - destruct d as [|d]; cbn [st_of] in Hs; injection Hs as Hc Hk; rewrite Hc, Hk; cbn [excess].
    + destruct (aeqb c LBR) eqn:EL; [reflexivity|]. rewrite HQ. destruct (aeqb c RBR); reflexivity.
    + destruct (aeqb c RBR) eqn:ER.
      * apply aeqb_true in ER; subst c. rewrite RBR_LBR. cbn [pred]. destruct d; reflexivity.
      * destruct (aeqb c LBR) eqn:EL; [reflexivity|]. rewrite HQ. reflexivity.
Qed.
Lemma excess_cons c v d : excess (c :: v) d = excess v (excess [c] d).
Proof. cbn [excess]. destruct (aeqb c LBR); [reflexivity|]. destruct (aeqb c RBR); reflexivity. Qed.
Lemma fold_depth ds v : mem LBR ds = false -> mem RBR ds = false -> quote_free v = true ->
  forall s d, (close s, stack s) = st_of d ->
  (close (fold_left (step ds) v s), stack (fold_left (step ds) v s)) = st_of (excess v d).
Proof.
  intros HL HR. induction v as [|c v IH]; intros Hq s d Hs; [exact Hs|].
  cbn [quote_free forallb] in Hq. apply andb_true_iff in Hq as [Hc Hq]. apply negb_true_iff in Hc.
  cbn [fold_left]. rewrite excess_cons. apply IH; [exact Hq|]. now apply step_depth.
Qed.
Lemma excess_app v w d : excess (v ++ w) d = excess w (excess v d).
Proof. revert d; induction v as [|c v IH]; intros d; [reflexivity|]. cbn [app]. rewrite (excess_cons c (v ++ w)), (excess_cons c v). apply IH. Qed.

(* THEOREM unbalanced_rejected: a line whose braces do not close is refused by split
   (Parser.parse then raises: parse_unbalanced in ParserRoundTrip) *)
Theorem unbalanced_rejected ds s :
  mem LBR ds = false -> mem RBR ds = false -> mem QUO ds = false ->
  quote_free s = true -> 0 < excess s 0 -> split ds s = None.
Proof.
  intros HL HR HQ Hq Hex. unfold split.
  assert (Hq' : quote_free (s ++ [hd SP ds]) = true).
  { unfold quote_free. rewrite forallb_app. unfold quote_free in Hq. rewrite Hq. cbn [forallb andb].
    rewrite (mem_hd_false QUO ds SP HQ) by discriminate. reflexivity. }
  pose proof (fold_depth ds (s ++ [hd SP ds]) HL HR Hq' sinit 0 eq_refl) as F.
  rewrite excess_app in F.
  assert (E1 : excess [hd SP ds] (excess s 0) = excess s 0).
  { cbn [excess]. rewrite (mem_hd_false LBR ds SP HL) by discriminate.
    rewrite (mem_hd_false RBR ds SP HR) by discriminate. reflexivity. }
  rewrite E1 in F. destruct (excess s 0) as [|n]; [lia|]. cbn [st_of] in F. injection F as Fc _.
  now rewrite Fc.
Qed.
(* counting version: more open than close braces *)
Lemma excess_count v : forall d, d + count_occ ascii_dec v LBR <= excess v d + count_occ ascii_dec v RBR.
Proof.
  induction v as [|c v IH]; intros d; cbn [excess count_occ]; [lia|].
  destruct (aeqb_spec c LBR) as [->|NL].
  - destruct (ascii_dec LBR LBR) as [_|N]; [|contradiction]. destruct (ascii_dec LBR RBR) as [E|_]; [discriminate E|].
    specialize (IH (S d)). lia.
  - destruct (ascii_dec c LBR) as [E|_]; [contradiction|].
    destruct (aeqb_spec c RBR) as [->|NR].
    + destruct (ascii_dec RBR RBR) as [_|N]; [|contradiction]. specialize (IH (pred d)). lia.
    + destruct (ascii_dec c RBR) as [E|_]; [contradiction|]. apply IH.
Qed.
Theorem more_open_rejected ds s :
  mem LBR ds = false -> mem RBR ds = false -> mem QUO ds = false -> quote_free s = true ->
  count_occ ascii_dec s RBR < count_occ ascii_dec s LBR -> split ds s = None.
Proof.
  intros HL HR HQ Hq Hc. apply unbalanced_rejected; try assumption.
  pose proof (excess_count s 0). lia.
Qed.
