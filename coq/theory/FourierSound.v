(* FourierSound - soundness of the STRUCTURE of the executable model FourierModel.ft
   against the specification FourierSpec.FPair, for ALL structured signals.

   FourierModel.ft evaluates (by the canonical-form evaluator FourierFn.nfe) a
   symbolic transform that is assembled by recursion over the structured signal
   [sig]: table lookup for a base pattern, linearity for constant factors and sums,
   and the similarity/shift and modulation rules applied to the inner transform
   through the [Rec] node with the parameters rho 7 = a, rho 8 = b, rho 9 = j 2 pi w.
   Here the same recursion is given its meaning in an arbitrary Fourier context
   ([Fden], via FourierFn.ev, with exactly the parameter environments that ft
   builds), the structured signal is given its meaning as a time function
   ([sden]), and it is proved, by induction over the signal, that

     model_sound_tbl : for every table and pair of rules whose closed forms agree
        (off a finite set, for all parameters and all inner transforms) with the
        textbook ones on a set [good] of pattern ids - these premises are exactly the
        conclusions of the generated obligations table_sound_<line> of checks/c12.py -
        every signal built from good patterns has  FPair (sden s) (Fden tbl s);
     model_sound : the instance for the textbook table (no premises).

   The embedding of the rational / Laurent-in-pi parameters of [sig] into the field
   is [qK], [lpK], [cqK].  What remains trusted is the evaluator nfe (twin of
   tools/fourier_nf.py), not the way the model composes the table and the rules.
   Axiom-free. *)
Require Import LT.FieldSec LT.PolyQ LT.QcI LT.ExpPoly LT.FourierSpec LT.FourierFn LT.FourierTable LT.FourierModel.
From Coq Require Import QArith Qcanon List.
Import ListNotations.
Local Open Scope F_scope.

Section Sound.
Variable K : fld.
Add Field KFsnd : (fth K).
Variable C : fctx K.
Notation pi := (c_pi C). Notation j := (c_j C).
Notation E := (c_E C). Notation hv := (c_hv C). Notation sg := (c_sg C).
Notation sn := (c_sn C). Notation rc := (c_rc C). Notation tr := (c_tr C). Notation tp := (c_tp C).
Notation isR := (c_isR C).
Notation FP := (FPair C).

(* ---- parameters of structured signals in the field ---------------------------------- *)
Definition qK (q : Qc) : K := fofZ (Qnum (this q)) / fofpos (Qden (this q)).
Definition lpK (a : lp) : K := let '(a1, a2, a3) := a in qK a1 / pi + qK a2 + qK a3 * pi.
Definition cqK (a : cq) : K := lpK (fst a) + j * lpK (snd a).
Definition rhoK (ps : list (nat * cq)) (k : nat) : K := match rho_of ps k with Some v => cqK v | None => 0 end.

Lemma fofpos_nz p : (fofpos p : K) <> 0.
Proof. exact (fchar0 K p). Qed.
Lemma fofpos_succ p : (fofpos (Pos.succ p) : K) = 1 + fofpos p.
Proof. unfold fofpos. apply Pos.iter_op_succ. intros. ring. Qed.
Lemma isR_fofpos p : isR (fofpos p).
Proof. induction p using Pos.peano_ind.
  - exact (c_isR_1 C).
  - rewrite fofpos_succ. apply (c_isR_add C); [exact (c_isR_1 C) | exact IHp]. Qed.
Lemma isR_fofZ z : isR (fofZ z).
Proof. destruct z; cbn [fofZ]; [exact (c_isR_0 C) | apply isR_fofpos | apply (c_isR_opp C), isR_fofpos]. Qed.
Lemma isR_qK q : isR (qK q).
Proof. unfold qK. apply (isR_div K C); [apply isR_fofZ | apply isR_fofpos]. Qed.
Lemma isR_lpK a : isR (lpK a).
Proof. destruct a as [[a1 a2] a3]. cbn [lpK].
  repeat apply (c_isR_add C); [apply (isR_div K C); [apply isR_qK | exact (c_isR_pi C)] | apply isR_qK |
    apply (c_isR_mul C); [apply isR_qK | exact (c_isR_pi C)]]. Qed.
Lemma qK_0 : qK 0%Qc = 0.
Proof. unfold qK. cbn. field. apply one_nz. Qed.
Lemma qK_1 : qK 1%Qc = 1.
Proof. unfold qK. cbn. field. apply one_nz. Qed.
Lemma qK_nz q : q <> 0%Qc -> qK q <> 0.
Proof. intros H. unfold qK. destruct q as [[n d] Hc]. cbn [this Qnum Qden].
  assert (Hn : n <> 0%Z).
  { intros ->. apply H. apply Qc_is_canon. cbn. unfold Qeq. cbn. reflexivity. }
  intro Z. assert (Z' : (fofZ n : K) = 0).
  { transitivity ((fofZ n : K) / fofpos d * fofpos d); [field; apply fofpos_nz | rewrite Z; ring]. }
  destruct n as [|p|p]; cbn [fofZ] in Z'; [congruence | exact (fofpos_nz p Z') |].
  apply (fofpos_nz p). transitivity (- - (fofpos p : K)); [ring | rewrite Z'; ring]. Qed.
Lemma lpK_0 : lpK lp0 = 0.
Proof. unfold lp0. cbn [lpK]. rewrite qK_0. field; try exact (c_pi_nz C). Qed.
Lemma cqK_q q : cqK (cq_q q) = qK q.
Proof. unfold cqK, cq_q, lpq. cbn [fst snd]. fold lp0. rewrite lpK_0. cbn [lpK]. rewrite qK_0. field; try exact (c_pi_nz C). Qed.
Lemma cqK_im tw : cqK (lp0, tw) = j * lpK tw.
Proof. unfold cqK. cbn [fst snd]. rewrite lpK_0. ring. Qed.

(* ---- time side of the table patterns (the left-hand sides of the sp_sound theorems of FourierTable) -------- *)
Inductive base_pair (rho : nat -> K) : nat -> (K -> K) -> Prop :=
| BP_const : base_pair rho P_const (fun _ => rho 1%nat * rho 0%nat)
| BP_t : base_pair rho P_t (fun t => rho 0%nat * t)
| BP_t2 : base_pair rho P_t2 (fun t => rho 0%nat * (t * t))
| BP_abs : base_pair rho P_abs (fun t => rho 0%nat * c_ab C t)
| BP_sign : base_pair rho P_sign (fun t => rho 0%nat * sg t)
| BP_step : base_pair rho P_step (fun t => rho 0%nat * hv t)
| BP_recip : base_pair rho P_recip (fun t => rho 0%nat * (1 / t))
| BP_recip2 : base_pair rho P_recip2 (fun t => rho 0%nat * (1 / (t * t)))
| BP_tstep : base_pair rho P_tstep (fun t => rho 0%nat * (hv t * t))
| BP_expu : c_stable C (rho 3%nat) -> base_pair rho P_expu (fun t => rho 0%nat * (hv t * E (rho 3%nat * t + rho 2%nat)))
| BP_sincn : base_pair rho P_sincn (fun t => rho 0%nat * sn t)
| BP_sincu : base_pair rho P_sincu (fun t => rho 0%nat * sn (t / pi))
| BP_sincn2 : base_pair rho P_sincn2 (fun t => rho 0%nat * (sn t * sn t))
| BP_rect : base_pair rho P_rect (fun t => rho 0%nat * rc t)
| BP_tri : base_pair rho P_tri (fun t => rho 0%nat * tr t)
| BP_trap : base_pair rho P_trap (fun t => rho 0%nat * tp t (rho 4%nat))
| BP_trap0 : base_pair rho P_trap0 (fun t => rho 0%nat * tp t 0)
| BP_reciplin : rho 3%nat <> 0 -> c_stable C (- (rho 2%nat * (((1 + 1) * pi * j) / rho 3%nat))) ->
    base_pair rho P_reciplin (fun t => rho 0%nat * (1 / (rho 3%nat * t + rho 2%nat)))
| BP_sech : base_pair rho P_sech (fun t => rho 0%nat * (1 / c_ch C t))
| BP_csch : base_pair rho P_csch (fun t => rho 0%nat * (1 / c_sh C t))
| BP_tanh : base_pair rho P_tanh (fun t => rho 0%nat * c_th C t)
| BP_cexp : rho 10%nat <> 0 -> isR (rho 9%nat / (j * tpi C)) -> base_pair rho P_cexp (fun t => rho 0%nat * E (rho 9%nat * t))
| BP_tratio : rho 5%nat <> 0 -> c_stable C (- (((1 + 1) * pi) * rho 6%nat / rho 5%nat)) ->
    base_pair rho P_tratio (fun t => rho 0%nat * (t / (rho 5%nat * t - j * rho 6%nat)))
| BP_tration : rho 5%nat <> 0 -> c_stable C (((1 + 1) * pi) * rho 6%nat / rho 5%nat) ->
    base_pair rho P_tration (fun t => rho 0%nat * (t / (rho 5%nat * t - j * rho 6%nat))).

(* the side conditions under which the generated obligations table_sound_<line> are stated (checks/c12gen.PAT) *)
Definition side (pid : nat) (rho : nat -> K) : Prop :=
  if Nat.eqb pid P_reciplin then rho 3%nat <> 0
  else if Nat.eqb pid P_cexp then rho 10%nat <> 0
  else if Nat.eqb pid P_tratio then rho 5%nat <> 0
  else if Nat.eqb pid P_tration then rho 5%nat <> 0
  else True.

Lemma base_pair_spec rho Q pid x : base_pair rho pid x ->
  side pid rho /\ exists e, lookup pid spec_tbl = Some e /\ FP x (ev C rho Q e).
Proof.
  intros H. destruct H; (split; [cbn; try exact I; assumption | eexists; split; [reflexivity|]]).
  - apply sp_sound_const. - apply sp_sound_t. - apply sp_sound_t2. - apply sp_sound_abs. - apply sp_sound_sign.
  - apply sp_sound_step. - apply sp_sound_recip. - apply sp_sound_recip2. - apply sp_sound_tstep.
  - apply sp_sound_expu; assumption. - apply sp_sound_sincn. - apply sp_sound_sincu. - apply sp_sound_sincn2.
  - apply sp_sound_rect. - apply sp_sound_tri. - apply sp_sound_trap. - apply sp_sound_trap0.
  - apply sp_sound_reciplin; assumption. - apply sp_sound_sech. - apply sp_sound_csch. - apply sp_sound_tanh.
  - apply sp_sound_cexp; assumption. - apply sp_sound_tratio; assumption. - apply sp_sound_tration; assumption.
Qed.

(* ---- meaning of a structured signal as a time function ---------------------------------- *)
Definition rho_sim (a b : Qc) := rhoK [(7%nat, cq_q a); (8%nat, cq_q b)].
Definition rho_mod (tw : lp) := rhoK [(9%nat, (lp0, tw))].
Inductive sden : sig -> (K -> K) -> Prop :=
| SD_B pid ps x : base_pair (rhoK ps) pid x -> sden (SB pid ps) x
| SD_Sc c s x : sden s x -> sden (SSc c s) (fun t => cqK c * x t)
| SD_Ad s1 s2 x1 x2 : sden s1 x1 -> sden s2 x2 -> sden (SAd s1 s2) (fun t => x1 t + x2 t)
| SD_Af a b s x : a <> 0%Qc -> sden s x -> sden (SAf a b s) (fun t => x (qK a * t + qK b))
| SD_Mo w tw s x : tpi_lp w = Some tw -> sden s x -> sden (SMo w s) (fun t => E (j * lpK tw * t) * x t).
(* the base patterns a signal uses *)
Fixpoint pids (s : sig) : list nat :=
  match s with SB pid _ => [pid] | SO _ _ => [] | SSc _ x => pids x | SAd x y => pids x ++ pids y
             | SAf _ _ x => pids x | SMo _ x => pids x end.

Lemma rho_sim_0 a b : rho_sim a b 0%nat = 1. Proof. unfold rho_sim, rhoK. cbn. rewrite cqK_q. apply qK_1. Qed.
Lemma rho_sim_7 a b : rho_sim a b 7%nat = qK a. Proof. unfold rho_sim, rhoK. cbn. apply cqK_q. Qed.
Lemma rho_sim_8 a b : rho_sim a b 8%nat = qK b. Proof. unfold rho_sim, rhoK. cbn. apply cqK_q. Qed.
Lemma rho_mod_0 tw : rho_mod tw 0%nat = 1. Proof. unfold rho_mod, rhoK. cbn. rewrite cqK_q. apply qK_1. Qed.
Lemma rho_mod_10 tw : rho_mod tw 10%nat = 1. Proof. unfold rho_mod, rhoK. cbn. rewrite cqK_q. apply qK_1. Qed.
Lemma rho_mod_9 tw : rho_mod tw 9%nat = j * lpK tw. Proof. unfold rho_mod, rhoK. cbn. apply cqK_im. Qed.

(* ---- meaning of the transform that the model assembles ---------------------------------------- *)
Section Fden.
Variable tbl : list (nat * fn).
Variables rsim rmod : fn.
Fixpoint Fden (s : sig) : K -> K :=
  match s with
  | SB pid ps => match lookup pid tbl with Some e => ev C (rhoK ps) (fun _ => 0) e | None => fun _ => 0 end
  | SO _ _ => fun _ => 0
  | SSc c x => fun f => cqK c * Fden x f
  | SAd x y => fun f => Fden x f + Fden y f
  | SAf a b x => ev C (rho_sim a b) (Fden x) rsim
  | SMo w x => match tpi_lp w with Some tw => ev C (rho_mod tw) (Fden x) rmod | None => fun _ => 0 end
  end.

Variable good : list nat.
Hypothesis Htbl : forall pid rho Q, In pid good -> side pid rho ->
  exists e e', lookup pid tbl = Some e /\ lookup pid spec_tbl = Some e' /\ eqae (ev C rho Q e) (ev C rho Q e').
Hypothesis Hsim : forall rho Q, rho 7%nat <> 0 -> eqae (ev C rho Q rsim) (ev C rho Q sp_simshift).
Hypothesis Hmod : forall rho Q, rho 10%nat <> 0 -> eqae (ev C rho Q rmod) (ev C rho Q sp_mod).

Theorem model_sound_tbl s x : sden s x -> incl (pids s) good -> FP x (Fden s).
Proof.
  intros H. induction H as [pid ps x Hb | c s x _ IH | s1 s2 x1 x2 _ IH1 _ IH2 | a b s x Ha _ IH | w tw s x Hw _ IH]; intros Hg.
  - destruct (base_pair_spec (rhoK ps) (fun _ => 0) pid x Hb) as [Hs [e' [L' F']]].
    destruct (Htbl pid (rhoK ps) (fun _ => 0) (Hg pid (or_introl eq_refl)) Hs) as [e [e2 [L [L2 Eq]]]].
    rewrite L' in L2. injection L2 as <-. cbn [Fden]. rewrite L.
    eapply FP_ext; [apply eqae_refl | apply eqae_sym; exact Eq | exact F'].
  - cbn [Fden]. apply FP_scale. apply IH. exact Hg.
  - cbn [Fden]. apply FP_add; [apply IH1 | apply IH2]; intros p Hp; apply Hg; cbn [pids]; apply in_or_app; [left | right]; exact Hp.
  - cbn [Fden]. specialize (IH Hg).
    assert (H7 : rho_sim a b 7%nat <> 0) by (rewrite rho_sim_7; apply qK_nz; exact Ha).
    eapply FP_ext; [ | apply eqae_sym; apply (Hsim (rho_sim a b) (Fden s) H7) | ].
    2: { apply (sp_sound_simshift K C (rho_sim a b) (Fden s) x); [rewrite rho_sim_7; apply isR_qK | rewrite rho_sim_8; apply isR_qK | exact H7 | exact IH]. }
    apply eqae_all. intros t. rewrite rho_sim_0, rho_sim_7, rho_sim_8. ring.
  - cbn [Fden]. rewrite Hw. specialize (IH Hg).
    assert (H10 : rho_mod tw 10%nat <> 0) by (rewrite rho_mod_10; apply one_nz).
    eapply FP_ext; [ | apply eqae_sym; apply (Hmod (rho_mod tw) (Fden s) H10) | ].
    2: { apply (sp_sound_mod K C (rho_mod tw) (Fden s) x); [ | exact IH].
         rewrite rho_mod_9. pose proof (j_nz K C) as Hj. pose proof (tpi_nz K C) as Ht.
         replace (j * lpK tw / (j * tpi C)) with (lpK tw / tpi C) by (field; split; assumption).
         apply (isR_div K C); [apply isR_lpK | apply isR_tpi]. }
    apply eqae_all. intros t. rewrite rho_mod_0, rho_mod_9. ring.
Qed.
End Fden.

(* the textbook table: every structured signal of the model, no premises *)
Definition all_pids : list nat := map fst spec_tbl.
Lemma lookup_spec pid : In pid all_pids -> exists e, lookup pid spec_tbl = Some e.
Proof. unfold all_pids. cbn [map fst spec_tbl In]. intros H.
  repeat (destruct H as [<-|H]; [eexists; reflexivity|]). destruct H. Qed.
Lemma base_pair_in rho pid x : base_pair rho pid x -> In pid all_pids.
Proof. intros H. destruct H; unfold all_pids; cbn [map fst spec_tbl In]; tauto. Qed.
Lemma sden_pids s x : sden s x -> incl (pids s) all_pids.
Proof. intros H. induction H; cbn [pids]; try assumption.
  - intros p [<-|[]]. eapply base_pair_in; eassumption.
  - apply incl_app; assumption. Qed.
Theorem model_sound s x : sden s x -> FP x (Fden spec_tbl sp_simshift sp_mod s).
Proof.
  intros H. apply (model_sound_tbl spec_tbl sp_simshift sp_mod all_pids); [ | | | exact H | eapply sden_pids; exact H].
  - intros pid rho Q Hin _. destruct (lookup_spec pid Hin) as [e L].
    exists e, e. repeat split; try exact L. apply eqae_refl.
  - intros. apply eqae_refl.
  - intros. apply eqae_refl.
Qed.
End Sound.

(* ---- the inverse transformer: same recursion with the tables evaluated at -x ------------------------------ *)
Section Inverse.
Variable K : fld.
Add Field KFsinv : (fth K).
Variable C : fctx K.
Notation FP := (FPair C).

Lemma eqae_scale (c : K) (x y : K -> K) : eqae x y -> eqae (fun t => c * x t) (fun t => c * y t).
Proof. intros [l H]. exists l. intros t Ht. rewrite (H t Ht). reflexivity. Qed.
Lemma eqae_add (x y x' y' : K -> K) : eqae x x' -> eqae y y' -> eqae (fun t => x t + y t) (fun t => x' t + y' t).
Proof. intros [l H] [m G]. exists (l ++ m). intros t Ht. rewrite H, G; [reflexivity | |];
  intro I; apply Ht, in_or_app; [right | left]; exact I. Qed.
(* composition with an invertible affine map keeps "off a finite set" *)
Lemma eqae_affine (a b : K) (x y : K -> K) : a <> 0 -> eqae x y -> eqae (fun u => x (u / a - b)) (fun u => y (u / a - b)).
Proof. intros Ha [l H]. exists (map (fun t => (t + b) * a) l). intros u Hu. apply H. intros I. apply Hu.
  apply in_map_iff. exists (u / a - b). split; [field; exact Ha | exact I]. Qed.
(* the two rules depend on the inner transform only through its values: congruence off a finite set *)
Lemma cong_simshift (rho : nat -> K) (Q Q' : K -> K) : rho 7%nat <> 0 -> eqae Q Q' -> eqae (ev C rho Q sp_simshift) (ev C rho Q' sp_simshift).
Proof. intros H7 HQ. destruct (eqae_affine (rho 7%nat) 0 Q Q' H7 HQ) as [l H]. exists l. intros u Hu.
  specialize (H u Hu). cbv beta in H.
  cbn [sp_simshift ev Dv]. replace (u * (1 / rho 7%nat)) with (u / rho 7%nat - 0) by (field; exact H7).
  rewrite H. reflexivity. Qed.
Lemma cong_mod (rho : nat -> K) (Q Q' : K -> K) : eqae Q Q' -> eqae (ev C rho Q sp_mod) (ev C rho Q' sp_mod).
Proof. intros HQ. pose proof (one_nz K) as H1.
  destruct (eqae_affine 1 (ev C rho Q (Dv (Par 9) (Mul Jm TPI)) 0) Q Q' H1 HQ) as [l H]. exists l. intros u Hu.
  specialize (H u Hu). cbv beta in H.
  cbn [sp_mod ev Sub Dv TPI N2] in *.
  set (c := rho 9%nat * (1 / (c_j C * (fofZ 2 * c_pi C)))) in *.
  replace (u + - c) with (u / 1 - c) by (field; exact H1).
  rewrite H. reflexivity. Qed.

Section Tables.
Variable tbl_i : list (nat * fn).
Variables rsim_i rmod_i : fn.
Variable good : list nat.
(* the statements of the generated obligations table_inv_<line> *)
Hypothesis Htbl : forall pid rho Qf Qi, (forall y, Qi y = Qf (- y)) -> In pid good -> side K pid rho ->
  exists e e', lookup pid tbl_i = Some e /\ lookup pid spec_tbl = Some e' /\ eqae (ev C rho Qi e) (fun x => ev C rho Qf e' (- x)).
Hypothesis Hsim : forall rho Qf Qi, (forall y, Qi y = Qf (- y)) -> rho 7%nat <> 0 ->
  eqae (ev C rho Qi rsim_i) (fun x => ev C rho Qf sp_simshift (- x)).
Hypothesis Hmod : forall rho Qf Qi, (forall y, Qi y = Qf (- y)) -> rho 10%nat <> 0 ->
  eqae (ev C rho Qi rmod_i) (fun x => ev C rho Qf sp_mod (- x)).
Notation Fi := (Fden K C tbl_i rsim_i rmod_i).
Notation Fs := (Fden K C spec_tbl sp_simshift sp_mod).

Lemma flip_back (Qi Y : K -> K) : eqae Qi (flip Y) -> eqae (fun y => Qi (- y)) Y.
Proof. intros H. apply (eqae_flip K) in H. eapply eqae_trans; [exact H|]. apply eqae_all. intros t. apply flip_flip. Qed.

(* the inverse model returns the forward (textbook) transform of the spectrum, reversed *)
Theorem inverse_model_is_flip s X : sden K C s X -> incl (pids s) good -> eqae (Fi s) (flip (Fs s)).
Proof.
  intros H. induction H as [pid ps x Hb | c s x _ IH | s1 s2 x1 x2 _ IH1 _ IH2 | a b s x Ha _ IH | w tw s x Hw _ IH]; intros Hg.
  - destruct (base_pair_spec K C (rhoK K C ps) (fun _ => 0) pid x Hb) as [Hs [e' [L' _]]].
    destruct (Htbl pid (rhoK K C ps) (fun _ => 0) (fun _ => 0) (fun _ => eq_refl) (Hg pid (or_introl eq_refl)) Hs) as [e [e2 [L [L2 Eq]]]].
    rewrite L' in L2. injection L2 as <-. cbn [Fden]. rewrite L, L'. exact Eq.
  - cbn [Fden]. apply (eqae_scale (cqK K C c)) in IH; [exact IH | exact Hg].
  - cbn [Fden]. apply (eqae_add _ _ _ _ (IH1 (fun p Hp => Hg p (in_or_app _ _ p (or_introl Hp)))) (IH2 (fun p Hp => Hg p (in_or_app _ _ p (or_intror Hp))))).
  - cbn [Fden]. specialize (IH Hg).
    assert (H7 : rho_sim K C a b 7%nat <> 0) by (rewrite rho_sim_7; apply qK_nz; exact Ha).
    eapply eqae_trans.
    + apply (Hsim (rho_sim K C a b) (fun y => Fi s (- y)) (Fi s)); [ | exact H7].
      intros y. f_equal. ring.
    + apply (eqae_flip K (ev C (rho_sim K C a b) (fun y => Fi s (- y)) sp_simshift) (ev C (rho_sim K C a b) (Fs s) sp_simshift)).
      apply cong_simshift; [exact H7 | apply flip_back; exact IH].
  - cbn [Fden]. rewrite Hw. specialize (IH Hg).
    assert (H10 : rho_mod K C tw 10%nat <> 0) by (rewrite rho_mod_10; apply one_nz).
    eapply eqae_trans.
    + apply (Hmod (rho_mod K C tw) (fun y => Fi s (- y)) (Fi s)); [ | exact H10].
      intros y. f_equal. ring.
    + apply (eqae_flip K (ev C (rho_mod K C tw) (fun y => Fi s (- y)) sp_mod) (ev C (rho_mod K C tw) (Fs s) sp_mod)).
      apply cong_mod. apply flip_back; exact IH.
Qed.

(* hence: what the inverse model returns for a structured spectrum s (meaning X) has X as its Fourier transform *)
Theorem inverse_model_sound s X : sden K C s X -> incl (pids s) good -> FP (Fi s) X.
Proof. intros H Hg. apply IPair_sound. exists (Fs s). split; [apply model_sound; exact H | apply inverse_model_is_flip with X; assumption]. Qed.
End Tables.

End Inverse.
