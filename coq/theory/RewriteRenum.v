(* C05: hand model (H) of NetlistMixin.augment_node_map / Netlist.renumber
   (lcapy/netlistmixin.py, lcapy/netlist.py) on structured node names, and the
   contract a node map must meet for renumber_iso to apply (it is injective on
   the nodes, keeps distinct equipotential classes distinct, fixes the
   reference node and puts every node the caller named into the class of the
   requested target).

   Node names: a numeral, any other primary name, or <root>_<k>.  Recorded
   oracles (contracts checked below): the dict self.equipotential_nodes (order
   of its items, members of each class) and Python's string order (sorted). *)
Require Import LT.FieldSec LT.RewriteModel LT.RewriteCorr.
From Coq Require Import Arith.
Local Open Scope nat_scope.

Inductive nname := NdNum (n : nat) | NdSym (i : nat) | NdSub (r : nname) (k : nat).
Fixpoint nname_eqb (a b : nname) : bool :=
  match a, b with
  | NdNum x, NdNum y => Nat.eqb x y
  | NdSym x, NdSym y => Nat.eqb x y
  | NdSub r k, NdSub r' k' => nname_eqb r r' && Nat.eqb k k'
  | _, _ => false end.
Lemma nname_eqb_eq a : forall b, nname_eqb a b = true <-> a = b.
Proof. induction a as [x|x|r IH k]; intros [y|y|r' k']; cbn; try (split; [discriminate | intros H; inversion H]).
  - rewrite Nat.eqb_eq. split; [intros ->; reflexivity | intros H; inversion H; reflexivity].
  - rewrite Nat.eqb_eq. split; [intros ->; reflexivity | intros H; inversion H; reflexivity].
  - rewrite andb_true_iff, IH, Nat.eqb_eq. split; [intros [-> ->]; reflexivity | intros H; inversion H; auto]. Qed.
Definition nmemn (x : nname) (l : list nname) : bool := existsb (nname_eqb x) l.
Fixpoint assoc (m : list (nname * nname)) (x : nname) : option nname :=
  match m with [] => None | (a, b) :: m' => if nname_eqb x a then Some b else assoc m' x end.
(* dict assignment d[k] = v: an existing key keeps its position *)
Fixpoint dset (m : list (nname * nname)) (k v : nname) : list (nname * nname) :=
  match m with
  | [] => [(k, v)]
  | (a, b) :: m' => if nname_eqb k a then (a, v) :: m' else (a, b) :: dset m' k v
  end.
(* list.remove: first occurrence *)
Fixpoint lremove (x : nname) (l : list nname) : list nname :=
  match l with [] => [] | y :: l' => if nname_eqb x y then l' else y :: lremove x l' end.
Fixpoint index_of_n (x : nname) (l : list nname) : nat :=
  match l with [] => 0 | y :: l' => if nname_eqb x y then 0 else S (index_of_n x l') end.
(* sorted(): insertion sort by the recorded string order *)
Fixpoint insert_by (rank : nname -> nat) (x : nname) (l : list nname) : list nname :=
  match l with [] => [x] | y :: l' => if rank x <=? rank y then x :: l else y :: insert_by rank x l' end.
Definition sort_by (rank : nname -> nat) (l : list nname) : list nname := fold_right (insert_by rank) [] l.

Definition nclass := (nname * list nname)%type.      (* (key, members) of one equipotential class *)
Fixpoint numerals (n : nat) : list nname := match n with O => [] | S n' => numerals n' ++ [NdNum n] end.

(* pass 2 of augment_node_map: the new root name of every class *)
Fixpoint roots (umap : list (nname * nname)) (classes : list nclass) (numbers : list nname) : res (list (nname * nclass)) :=
  match classes with
  | [] => Ok []
  | (key, nodes) :: cl =>
      match flat_map (fun n => match assoc umap n with Some t => [t] | None => [] end) nodes with
      | _ :: _ :: _ => Err                                    (* 'Cannot rename two nodes of same potential' *)
      | [t] => match roots umap cl numbers with Ok r => Ok ((t, (key, nodes)) :: r) | Err => Err end
      | [] => match numbers with
              | [] => Err                                      (* pop from empty list *)
              | t :: numbers' => match roots umap cl numbers' with Ok r => Ok ((t, (key, nodes)) :: r) | Err => Err end
              end
      end
  end.
Fixpoint assign_subs (m : list (nname * nname)) (root : nname) (k : nat) (l : list nname) : list (nname * nname) :=
  match l with [] => m | e :: l' => assign_subs (dset m e (NdSub root k)) root (S k) l' end.
Definition augment (classes : list nclass) (rank : nname -> nat) (umap : list (nname * nname)) : res (list (nname * nname)) :=
  let allnodes := flat_map snd classes in
  let umap1 := if nmemn (NdNum 0) allnodes && negb (nmemn (NdNum 0) (map fst umap)) then umap ++ [(NdNum 0, NdNum 0)] else umap in
  if negb (forallb (fun p => nmemn (fst p) allnodes) umap1) then Err         (* 'Unknown node' *)
  else
    let numbers := fold_left (fun nums p => lremove (snd p) nums) umap1 (numerals (length classes)) in
    match roots umap1 classes numbers with
    | Err => Err
    | Ok rs =>
        Ok (fold_left (fun m r => let '(root, (key, nodes)) := r in
                                  assign_subs (dset m key root) root 1 (lremove key (sort_by rank nodes))) rs umap1)
    end.

(* ---- comparison with the recorded dict, and the contract ---------------------- *)
Fixpoint map_eqb (a b : list (nname * nname)) : bool :=
  match a, b with
  | [], [] => true
  | (x, y) :: a', (u, v) :: b' => nname_eqb x u && nname_eqb y v && map_eqb a' b'
  | _, _ => false end.
(* node ids of the netlist encoding *)
Fixpoint nid (tab : list (nname * nat)) (x : nname) : option nat :=
  match tab with [] => None | (a, i) :: t => if nname_eqb x a then Some i else nid t x end.
Definition idmap (tab : list (nname * nat)) (m : list (nname * nname)) : list (nat * nat) :=
  flat_map (fun p => match nid tab (fst p), nid tab (snd p) with Some a, Some b => [(a, b)] | _, _ => [] end) m.
Definition all_known (tab : list (nname * nat)) (m : list (nname * nname)) : bool :=
  forallb (fun p => match nid tab (fst p), nid tab (snd p) with Some _, Some _ => true | _, _ => false end) m.

(* contract of the recorded self.equipotential_nodes: a partition of the nodes
   of the netlist into the classes the wires make, the key is a member, the
   reference node is the key of its class *)
Definition classes_ok (tab : list (nname * nat)) (N : list elemQ) (classes : list nclass) : bool :=
  let c := @cls QcF N in
  let ids := flat_map (fun cl => flat_map (fun n => match nid tab n with Some i => [(fst cl, i)] | None => []  end) (snd cl)) classes in
  let nodes := nodup Nat.eq_dec (flat_map (@enodes QcF) N) in
  Nat.eqb (length ids) (length (flat_map snd classes)) &&
  Nat.eqb (length (nodup Nat.eq_dec (map snd ids))) (length ids) &&
  forallb (fun n => natmem n (map snd ids)) nodes && forallb (fun p => natmem (snd p) nodes) ids &&
  forallb (fun p => forallb (fun q => Bool.eqb (nname_eqb (fst p) (fst q)) (Nat.eqb (c (snd p)) (c (snd q)))) ids) ids &&
  forallb (fun cl => nmemn (fst cl) (snd cl) && (negb (nmemn (NdNum 0) (snd cl)) || nname_eqb (fst cl) (NdNum 0))) classes.

(* contract of a node map f (on ids) for netlist N renamed to out:
   injective on the nodes, reference node fixed, classes neither merged nor
   split, every pair the caller gave honoured up to equipotential nodes *)
Definition nodemap_ok (f : nat -> nat) (N out : list elemQ) (user : list (nat * nat)) : bool :=
  let nodes := nodup Nat.eq_dec (flat_map (@enodes QcF) N) in
  let c := @cls QcF N in let c' := @cls QcF out in
  Nat.eqb (length (nodup Nat.eq_dec (map f nodes))) (length nodes) &&
  (negb (natmem 0 nodes) || Nat.eqb (f 0) 0) &&
  forallb (fun a => forallb (fun b => Bool.eqb (Nat.eqb (c a) (c b)) (Nat.eqb (c' (f a)) (c' (f b)))) nodes) nodes &&
  forallb (fun p => Nat.eqb (c' (f (fst p))) (c' (snd p))) user.

(* result of one renumber case:
   0 agree and contract met | 1 rewritten netlist is not the netlist renamed by the recorded map
   2 model raises, code returned | 3 code raised, model returns | 7 model of augment_node_map and recorded dict differ
   (the contract of the map itself is [renumber_contract]) | 9 the recorded equipotential classes violate their contract *)
Definition renumber_code (tab : list (nname * nat)) (N out : list elemQ) (classes : list nclass) (rank : list nname)
                         (umap : list (nname * nname)) (recorded : option (list (nname * nname))) (called : bool) : nat :=
  let user := idmap tab umap in
  match recorded with
  | None => if called then (match augment classes (fun x => index_of_n x rank) umap with Err => 0 | Ok _ => 3 end) else 0
  | Some rec_ =>
      let f := lookup_nat (idmap tab rec_) in
      if negb (all_known tab rec_) then 1
      else if called && negb (classes_ok tab N classes) then 9
      else if called && negb (match augment classes (fun x => index_of_n x rank) umap with Ok m => map_eqb m rec_ | Err => false end)
           then (match augment classes (fun x => index_of_n x rank) umap with Err => 2 | Ok _ => 7 end)
      else if negb (net_eqb (rename_nodes f N) out) then 1
      else 0
  end.
(* the contract of the node map that was used, whatever produced it *)
Definition renumber_contract (tab : list (nname * nat)) (N out : list elemQ) (umap : list (nname * nname))
                             (recorded : option (list (nname * nname))) : bool :=
  match recorded with
  | None => true
  | Some rec_ => all_known tab rec_ && all_known tab umap && nodemap_ok (lookup_nat (idmap tab rec_)) N out (idmap tab umap)
  end.
