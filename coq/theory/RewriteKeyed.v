(* C05: netlists as lists keyed by distinct component names: looking a list of
   names up splits the netlist into the named part (in the order of the names)
   and the rest, up to permutation. *)
Require Import LT.FieldSec LT.RewriteModel.
From Coq Require Import Permutation Arith.
Local Open Scope nat_scope.

Section Keyed.
Variable K : fld.
Notation elem := (elem K).

Lemma nmem_In x l : nmem x l = true <-> In x l.
Proof. unfold nmem. rewrite existsb_exists. split; [intros [y [H E]]; apply name_eqb_eq in E; subst; exact H | intros H; exists x; split; [exact H | apply name_eqb_eq; reflexivity]]. Qed.
Lemma nmem_false x l : nmem x l = false <-> ~ In x l.
Proof. rewrite <- nmem_In. destruct (nmem x l); split; intros H; solve [congruence | discriminate | reflexivity | exfalso; apply H; reflexivity]. Qed.
Lemma nodup_names_NoDup l : nodup_names l = true -> NoDup l.
Proof. induction l as [|x l IH]; intros H; [constructor|]. cbn [nodup_names] in H. apply andb_true_iff in H. destruct H as [H1 H2].
  constructor; [|apply IH; exact H2]. apply nmem_false. apply negb_true_iff. exact H1. Qed.

Lemma find_In (S : list elem) x e : find S x = Some e -> In e S /\ ename e = x.
Proof. induction S as [|a S IH]; cbn [find]; [discriminate|]. destruct (name_eqb (ename a) x) eqn:E.
  - intros H. inversion H; subst. split; [left; reflexivity | apply name_eqb_eq; exact E].
  - intros H. destruct (IH H) as [H1 H2]. split; [right; exact H1 | exact H2]. Qed.
Lemma find_unique (S : list elem) e : NoDup (names S) -> In e S -> find S (ename e) = Some e.
Proof. induction S as [|a S IH]; intros ND Hi; [destruct Hi|]. cbn [find]. cbn [names map] in ND. inversion ND as [|? ? Hn ND']; subst.
  destruct Hi as [->|Hi]; [rewrite (proj2 (name_eqb_eq _ _) eq_refl); reflexivity|].
  destruct (name_eqb (ename a) (ename e)) eqn:E; [|apply IH; assumption].
  exfalso. apply name_eqb_eq in E. apply Hn. rewrite E. apply in_map. exact Hi. Qed.
Lemma lookup_all_spec (S : list elem) (l : list name) els : lookup_all S l = Ok els ->
  map ename els = l /\ forall e, In e els -> In e S.
Proof. revert els. induction l as [|x l IH]; intros els H; cbn [lookup_all fold_right] in H.
  - inversion H. split; [reflexivity | intros e []].
  - fold (lookup_all S l) in H. destruct (find S x) as [e|] eqn:Ef; [|discriminate]. destruct (lookup_all S l) as [r|] eqn:El; [|discriminate].
    inversion H; subst. destruct (IH r eq_refl) as [I1 I2]. destruct (find_In S x e Ef) as [F1 F2].
    split; [cbn [map]; rewrite F2, I1; reflexivity|]. intros e' [<-|He]; [exact F1 | apply I2; exact He]. Qed.

Lemma lookup_cons (S : list elem) x l :
  lookup_all S (x :: l) = match find S x, lookup_all S l with Some e, Ok r => Ok (e :: r) | _, _ => Err end.
Proof. reflexivity. Qed.
Lemma filter_all {A} (f : A -> bool) (l : list A) : (forall x, In x l -> f x = true) -> filter f l = l.
Proof. induction l as [|a l IH]; intros H; [reflexivity|]. cbn [filter]. rewrite (H a (or_introl eq_refl)), IH; [reflexivity | intros; apply H; right; assumption]. Qed.
Lemma names_filter_NoDup (f : elem -> bool) (S : list elem) : NoDup (names S) -> NoDup (names (filter f S)).
Proof. unfold names. induction S as [|a S IH]; intros H; cbn [filter map]; [constructor|]. cbn [map] in H. inversion H as [|? ? Hn H']; subst.
  destruct (f a); [cbn [map]; constructor; [|apply IH; exact H'] | apply IH; exact H'].
  intros Hi. apply Hn. apply in_map_iff in Hi. destruct Hi as [y [E Hy]]. apply filter_In in Hy. rewrite <- E. apply in_map. exact (proj1 Hy). Qed.
Lemma ff_comp {A} (f g : A -> bool) (l : list A) : filter f (filter g l) = filter (fun x => g x && f x) l.
Proof. induction l as [|a l IH]; [reflexivity|]. cbn [filter]. destruct (g a); cbn [andb filter]; [destruct (f a); rewrite IH; reflexivity | exact IH]. Qed.
(* pulling one element out of a list with distinct names *)
Lemma perm_extract (T : list elem) e : NoDup (names T) -> In e T ->
  Permutation T (e :: filter (fun a => negb (name_eqb (ename a) (ename e))) T).
Proof.
  induction T as [|a T IH]; intros ND Hi; [destruct Hi|]. cbn [names map] in ND. inversion ND as [|? ? Hn ND']; subst. cbn [filter].
  destruct Hi as [->|Hi].
  - rewrite (proj2 (name_eqb_eq _ _) eq_refl). cbn [negb]. rewrite filter_all; [apply Permutation_refl|].
    intros x Hx. apply negb_true_iff. destruct (name_eqb (ename x) (ename e)) eqn:E; [|reflexivity].
    exfalso. apply name_eqb_eq in E. apply Hn. rewrite <- E. apply in_map. exact Hx.
  - assert (Hne : name_eqb (ename a) (ename e) = false).
    { destruct (name_eqb (ename a) (ename e)) eqn:E; [|reflexivity]. exfalso. apply name_eqb_eq in E. apply Hn. rewrite E. apply in_map. exact Hi. }
    rewrite Hne. cbn [negb]. apply Permutation_trans with (a :: e :: filter (fun a0 => negb (name_eqb (ename a0) (ename e))) T).
    + constructor. apply IH; assumption.
    + apply perm_swap.
Qed.
(* splitting a netlist with distinct names along a list of distinct names *)
Lemma perm_split (S : list elem) : forall (l : list name) els, NoDup (names S) -> NoDup l -> lookup_all S l = Ok els ->
  Permutation S (els ++ filter (fun e => negb (nmem (ename e) l)) S).
Proof.
  induction l as [|x l IH]; intros els ND NDl H.
  - inversion H. cbn [app]. rewrite filter_all; [apply Permutation_refl | reflexivity].
  - rewrite lookup_cons in H. destruct (find S x) as [e|] eqn:Ef; [|discriminate]. destruct (lookup_all S l) as [r|] eqn:El; [|discriminate].
    inversion H; subst els. inversion NDl as [|? ? Hx NDl']; subst. destruct (find_In S x e Ef) as [HeS Hex].
    pose proof (IH r ND NDl' eq_refl) as P.
    set (T := filter (fun e0 => negb (nmem (ename e0) l)) S) in *.
    assert (HeT : In e T). { apply filter_In. split; [exact HeS|]. apply negb_true_iff. apply nmem_false. rewrite Hex. exact Hx. }
    assert (NT : NoDup (names T)) by (apply names_filter_NoDup; exact ND).
    assert (Ef2 : filter (fun e0 => negb (nmem (ename e0) (x :: l))) S = filter (fun a => negb (name_eqb (ename a) (ename e))) T).
    { unfold T. rewrite ff_comp. apply filter_ext. intros a. cbn [nmem existsb]. rewrite Hex.
      change (existsb (name_eqb (ename a)) l) with (nmem (ename a) l).
      destruct (name_eqb (ename a) x), (nmem (ename a) l); reflexivity. }
    rewrite Ef2. cbn [app].
    apply Permutation_trans with (r ++ T); [exact P|].
    apply Permutation_trans with (r ++ e :: filter (fun a => negb (name_eqb (ename a) (ename e))) T).
    + apply Permutation_app_head. apply perm_extract; assumption.
    + apply Permutation_sym. apply Permutation_middle.
Qed.

(* the joint check of series_contract lives in canonical (equipotential-class)
   space: a terminal of any non-wire component - a control node of a VCVS /
   VCCS included - counts at the class of its node, whatever wire alias of
   that class the netlist names.  So a joint that something senses through an
   alias has a third terminal and the contract rejects the chain. *)
Lemma terminals_at_In (c : nat -> nat) (S : list elem) (n : nat) (e : elem) (m : nat) :
  In e S -> etyp e <> TW -> In m (enodes e) -> c m = n -> 1 <= terminals_at c S n.
Proof.
  induction S as [|a S IH]; intros He Ht Hm Hc; [destruct He|]. unfold terminals_at in *. cbn [fold_right].
  destruct He as [->|He].
  - assert (1 <= length (filter (fun m0 => Nat.eqb (c m0) n) (enodes e))).
    { clear -Hm Hc. induction (enodes e) as [|x l IHl]; [destruct Hm|]. cbn [filter]. destruct Hm as [->|Hm].
      - rewrite Hc, Nat.eqb_refl. cbn. apply le_n_S, Nat.le_0_l.
      - destruct (Nat.eqb (c x) n); cbn [length]; [apply le_S|]; apply IHl; exact Hm. }
    destruct (etyp e); try congruence; (eapply Nat.le_trans; [exact H | apply Nat.le_add_r]).
  - specialize (IH He Ht Hm Hc). destruct (etyp a); try exact IH; (eapply Nat.le_trans; [exact IH | apply Nat.le_add_l]).
Qed.
End Keyed.
Arguments perm_split {K}. Arguments perm_extract {K}. Arguments lookup_all_spec {K}. Arguments find_In {K}. Arguments find_unique {K}. Arguments names_filter_NoDup {K}. Arguments lookup_cons {K}.
