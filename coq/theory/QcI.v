(* QcI — Gaussian rationals Q(i) as pairs of canonical rationals, an executable
   instance [QcIF : fld] of the abstract field record of FieldSec.v.
   Used for complex poles/zeros/residues and for the jω / jf domains (C10, C11,
   C13, C14).  [field_theory] is proved; no axioms. *)
Require Import LT.FieldSec.
From Coq Require Import Lqa.

Record qci := QI { re : Qc; im : Qc }.
Lemma qci_eq a b : re a = re b -> im a = im b -> a = b.
Proof. destruct a, b; cbn; intros; subst; reflexivity. Qed.

Definition ci0 := QI 0 0.
Definition ci1 := QI 1 0.
Definition cii := QI 0 1.
Definition ciadd (a b : qci) := QI (re a + re b) (im a + im b).
Definition cimul (a b : qci) := QI (re a * re b - im a * im b) (re a * im b + im a * re b).
Definition ciopp (a : qci) := QI (- re a) (- im a).
Definition cisub (a b : qci) := QI (re a - re b) (im a - im b).
Definition cinorm (a : qci) : Qc := re a * re a + im a * im a.
Definition ciinv (a : qci) := QI (re a / cinorm a) (- im a / cinorm a).
Definition cidiv (a b : qci) := cimul a (ciinv b).
Definition ciconj (a : qci) := QI (re a) (- im a).
Definition ciofq (a : Qc) := QI a 0.

Lemma Qc_sqsum0 (a b : Qc) : (a * a + b * b = 0 -> a = 0 /\ b = 0)%Qc.
Proof.
  intros H. assert (HQ : (this a * this a + this b * this b == 0)%Q).
  { assert (H2 : (this (a * a + b * b)%Qc == this 0%Qc)%Q) by (rewrite H; reflexivity).
    unfold Qcplus, Qcmult, Q2Qc in H2. cbn [this] in H2. rewrite !Qred_correct in H2. exact H2. }
  split; apply Qc_is_canon; cbn; nra.
Qed.
Lemma cinorm_nz a : a <> ci0 -> cinorm a <> 0%Qc.
Proof. intros H E. apply H. destruct (Qc_sqsum0 _ _ E). apply qci_eq; assumption. Qed.

Lemma ci_field : field_theory ci0 ci1 ciadd cimul cisub ciopp cidiv ciinv (@eq qci).
Proof.
  constructor.
  - constructor; intros; apply qci_eq; cbn; ring.
  - intros E. apply (f_equal re) in E. cbn in E. discriminate.
  - reflexivity.
  - intros p Hp. pose proof (cinorm_nz p Hp) as Hn. unfold cinorm in Hn.
    apply qci_eq; cbn; unfold cinorm; field; exact Hn.
Qed.
Definition ci_dec (a b : qci) : {a = b} + {a <> b}.
Proof.
  destruct (Qc_eq_dec (re a) (re b)) as [E1|N1].
  - destruct (Qc_eq_dec (im a) (im b)) as [E2|N2].
    + left. apply qci_eq; assumption.
    + right. intros E. apply N2. rewrite E. reflexivity.
  - right. intros E. apply N1. rewrite E. reflexivity.
Defined.
Lemma ci_iter_re (p : positive) (a : qci) : re (Pos.iter_op ciadd p a) = Pos.iter_op Qcplus p (re a).
Proof. revert a. induction p as [p IH|p IH|]; intros a; cbn [Pos.iter_op]; [cbn [ciadd re]; rewrite IH | rewrite IH |]; reflexivity. Qed.
Lemma ci_char0 (p : positive) : Pos.iter_op ciadd p ci1 <> ci0.
Proof. intros E. apply (f_equal re) in E. rewrite ci_iter_re in E. exact (Qc_char0 p E). Qed.

Definition QcIF : fld := MkFld qci ci0 ci1 ciadd cimul cisub ciopp cidiv ciinv ci_field ci_dec ci_char0.

Definition qci_eqb (a b : qci) : bool := qc_eqb (re a) (re b) && qc_eqb (im a) (im b).
Lemma qci_eqb_eq a b : qci_eqb a b = true <-> a = b.
Proof. unfold qci_eqb. split.
  - intros H. apply andb_true_iff in H. destruct H as [H1 H2]. apply qci_eq; apply qc_eqb_eq; assumption.
  - intros ->. apply andb_true_iff. split; apply qc_eqb_eq; reflexivity. Qed.
Lemma qci_neq a b : qci_eqb a b = false -> a <> b.
Proof. intros H E. apply qci_eqb_eq in E. congruence. Qed.
(* literal a/b + (c/d) i *)
Definition qi (a : Z) (b : positive) (c : Z) (d : positive) : qci := QI (qc a b) (qc c d).

(* conjugation is a field automorphism; |z|^2 = z * conj z *)
Lemma ciconj_mul a b : ciconj (cimul a b) = cimul (ciconj a) (ciconj b).
Proof. apply qci_eq; cbn; ring. Qed.
Lemma ciconj_add a b : ciconj (ciadd a b) = ciadd (ciconj a) (ciconj b).
Proof. apply qci_eq; cbn; ring. Qed.
Lemma ciconj_invol a : ciconj (ciconj a) = a.
Proof. apply qci_eq; cbn; ring. Qed.
Lemma ci_norm_conj a : cimul a (ciconj a) = ciofq (cinorm a).
Proof. apply qci_eq; cbn; unfold cinorm; ring. Qed.
Lemma ciconj_nz a : a <> ci0 -> ciconj a <> ci0.
Proof. intros H E. apply H. rewrite <- (ciconj_invol a), E. reflexivity. Qed.
